package main

// C18, growth: optional bounds, sets of block coordinates, label-index clipping, and the
// run-length additions (count returned by Add, Split by a non-subset, runs next to the int32
// limits).
//
//   - specs/GeometryBoundsAxis.tla: TLC checks exhaustively, per axis, that the block-level
//     screen (Divide + Outside) followed by the voxel-level cut (Adjust) is the intersection
//     with the box (negative coordinates included);
//   - specs/GeometryBoundsEval.tla: seeded boxes / points / block sizes / query-string token
//     classes are written as constants, TLC checks the claims on each and prints the expected
//     result of Adjust, Outside, OutsideX/Y/Z, BeyondZ, Divide, IsSet and of the parser, the
//     node runs the real dvid.OptionalBounds functions;
//   - specs/GeometrySets.tla: TLC enumerates EVERY subset of a small lattice of block
//     coordinates and prints the expected result of the IZYXSlice set algebra (Merge,
//     MergeCopy, Delete, Split by 8 operands), FitToBounds, Downres, GetBounds, of
//     labels.Index.FitToBounds and Index.GetProcessedBlockIndices (scale x box x supervoxel);
//     per lattice cell the expected IZYXString.Halfres / Downres / VoxelOffset and the binary
//     form of IndexZYX;
//   - specs/Geometry.tla (extended): the count RLEs.Add must return, Split by operands that
//     are not subsets; two more lattices placed next to the int32 limits.

import (
	"encoding/json"
	"fmt"
	"math/rand"
	"sort"
	"strconv"
	"strings"
	"sync/atomic"
	"time"

	"verifharness/internal/ev"
	"verifharness/internal/node"
	"verifharness/internal/tlc"
)

// known findings of the growth part (ids in known_findings.json)
const (
	c18AddCount = "rles-add-count-bridging-run"
)

// ---------------------------------------------------------------------------
// optional bounds
// ---------------------------------------------------------------------------

type bndToken struct {
	Cls string
	V   int
	Str string
}

type bndCase struct {
	Box   [6]int // geoNone = open
	BS    [3]int
	Mn    [3]int
	Mx    [3]int
	Pts   [][3]int
	Q     []bndToken // nil: no parser case
	Class string
}

func ptrBox(b [6]int) (out [6]*int) {
	for i, v := range b {
		if v != geoNone {
			w := v
			out[i] = &w
		}
	}
	return
}

func boxEq(a [6]*int, b [6]int) bool {
	for i := range a {
		if (a[i] == nil) != (b[i] == geoNone) {
			return false
		}
		if a[i] != nil && *a[i] != b[i] {
			return false
		}
	}
	return true
}

var bndJunk = []string{"12x", "1.5", " 7", "7 ", "0x10", "1e3", "1_000", "--3", "+-3", "five", "٣", "1,000", "-"}
var bndOver = []string{"2147483648", "-2147483649", "99999999999", "-99999999999999999999"}

func genBoundsCases(rng *rand.Rand, n int) []*bndCase {
	small := func() int { return rng.Intn(19) - 9 }
	val := func() int {
		switch rng.Intn(12) {
		case 0:
			return []int{-100000, 100000, 65535, -65536, 2147483000, -2147483000}[rng.Intn(6)]
		case 1:
			return []int{-64, -63, -65, 63, 64, 65, -1, 0}[rng.Intn(8)]
		}
		return small()
	}
	sizes := []int{1, 2, 3, 4, 5, 8, 16, 32, 64}
	var out []*bndCase
	for i := 0; i < n; i++ {
		k := &bndCase{}
		nset := 0
		for j := range k.Box {
			if rng.Intn(5) < 2 {
				k.Box[j] = geoNone
			} else {
				k.Box[j] = val()
				nset++
			}
		}
		// mostly well-formed boxes (min <= max), a few inside-out
		if rng.Intn(8) != 0 {
			for d := 0; d < 3; d++ {
				if k.Box[2*d] != geoNone && k.Box[2*d+1] != geoNone && k.Box[2*d] > k.Box[2*d+1] {
					k.Box[2*d], k.Box[2*d+1] = k.Box[2*d+1], k.Box[2*d]
				}
			}
		}
		big := false
		for _, v := range k.Box {
			if v != geoNone && (v > 200000 || v < -200000) {
				big = true
			}
		}
		for d := 0; d < 3; d++ {
			k.BS[d] = sizes[rng.Intn(len(sizes))]
			if big && k.BS[d] > 8 {
				k.BS[d] = 8
			}
		}
		// the voxel extent handed to Adjust: a block near the bounds
		for d := 0; d < 3; d++ {
			c := rng.Intn(7) - 3
			if b := k.Box[2*d+rng.Intn(2)]; b != geoNone && rng.Intn(2) == 0 && b < 200000 && b > -200000 {
				c = floorDiv(b, k.BS[d]) + rng.Intn(3) - 1
			}
			k.Mn[d] = c * k.BS[d]
			k.Mx[d] = c*k.BS[d] + k.BS[d] - 1
		}
		// points / block coordinates around the bounds and their block-level images
		for p := 0; p < 6; p++ {
			var pt [3]int
			for d := 0; d < 3; d++ {
				b := k.Box[2*d+rng.Intn(2)]
				switch {
				case b == geoNone || b > 200000 || b < -200000:
					pt[d] = small()
				case rng.Intn(2) == 0:
					pt[d] = b + rng.Intn(3) - 1
				default:
					pt[d] = floorDiv(b, k.BS[d]) + rng.Intn(3) - 1
				}
			}
			k.Pts = append(k.Pts, pt)
		}
		if i%2 == 0 {
			bad := rng.Intn(4) == 0
			badAt := rng.Intn(6)
			for j, v := range k.Box {
				var t bndToken
				switch {
				case bad && j == badAt && rng.Intn(2) == 0:
					t = bndToken{Cls: "over", Str: bndOver[rng.Intn(len(bndOver))]}
				case bad && j == badAt:
					t = bndToken{Cls: "junk", Str: bndJunk[rng.Intn(len(bndJunk))]}
				case v == geoNone && rng.Intn(3) == 0:
					t = bndToken{Cls: "empty", Str: ""}
				case v == geoNone:
					t = bndToken{Cls: "absent", Str: "\x00"}
				default:
					t = bndToken{Cls: "dec", V: v, Str: strconv.Itoa(v)}
					switch rng.Intn(5) {
					case 0:
						if v >= 0 {
							t.Cls, t.Str = "plus", "+"+strconv.Itoa(v)
						}
					case 1:
						t.Cls = "lz"
						if v < 0 {
							t.Str = "-00" + strconv.Itoa(-v)
						} else {
							t.Str = "00" + strconv.Itoa(v)
						}
					}
				}
				k.Q = append(k.Q, t)
			}
		}
		k.Class = fmt.Sprintf("set%d/bs%v/q%v", nset, k.BS, k.Q != nil)
		out = append(out, k)
	}
	return out
}

func tlaTriple(a [3]int) string { return tlaTuple(a[:]) }

func checkBounds(c *Ctx, run *ev.Run, n *node.Node, rng *rand.Rand) (states, trans int64, nCmp int64) {
	// (a) the axis claims, exhaustively
	axis := "---- MODULE GeometryBoundsAxisMC ----\nEXTENDS GeometryBoundsAxis\nVMinDef == -9\nBMinDef == -4\n====\n"
	acfg := fmt.Sprintf("SPECIFICATION Spec\nCONSTANTS\n VMin <- VMinDef\n VMax = 9\n BMin <- BMinDef\n BMax = 4\n SMax = %d\nINVARIANTS Inv_C18_BoundsAxis\nCHECK_DEADLOCK FALSE\n", c.pick(4, 6))
	r := c.MustModelCheck(tlc.Opts{Module: "GeometryBoundsAxisMC", Config: "axis.cfg", Workers: 4, Timeout: 10 * time.Minute,
		Files: map[string][]byte{"GeometryBoundsAxisMC.tla": []byte(axis), "axis.cfg": []byte(acfg)}})
	states += r.Distinct
	trans += r.Generated
	// (b) generated cases
	cases := genBoundsCases(rng, c.pick(600, 3000))
	var sb strings.Builder
	sb.WriteString("---- MODULE GeometryBoundsCases ----\nEXTENDS GeometryBounds\nCases == <<\n")
	for i, k := range cases {
		if i > 0 {
			sb.WriteString(",\n")
		}
		pts := make([]string, len(k.Pts))
		for j, p := range k.Pts {
			pts[j] = tlaTriple(p)
		}
		q := make([]string, 6)
		for j := range q {
			if k.Q == nil {
				q[j] = `[cls |-> "absent", v |-> 0]`
			} else {
				q[j] = fmt.Sprintf(`[cls |-> "%s", v |-> %d]`, k.Q[j].Cls, k.Q[j].V)
			}
		}
		fmt.Fprintf(&sb, "[box |-> %s, bs |-> %s, mn |-> %s, mx |-> %s, pts |-> <<%s>>, q |-> <<%s>>]",
			tlaTuple(k.Box[:]), tlaTriple(k.BS), tlaTriple(k.Mn), tlaTriple(k.Mx), strings.Join(pts, ", "), strings.Join(q, ", "))
	}
	sb.WriteString("\n>>\n====\n")
	cfg := "SPECIFICATION Spec\nINVARIANTS AllClaims Emit\nCHECK_DEADLOCK FALSE\n"
	r = c.MustModelCheck(tlc.Opts{Module: "GeometryBoundsEval", Config: "bnd.cfg", Workers: 8, Timeout: 15 * time.Minute, Xss: "64m",
		Files: map[string][]byte{"GeometryBoundsCases.tla": []byte(sb.String()), "bnd.cfg": []byte(cfg)}})
	states += r.Distinct
	trans += r.Generated
	type expT struct {
		I      int `json:"i"`
		Adjust struct {
			Min [3]int `json:"min"`
			Max [3]int `json:"max"`
		} `json:"adjust"`
		Outside []bool `json:"outside"`
		OutX    []bool `json:"outx"`
		OutY    []bool `json:"outy"`
		OutZ    []bool `json:"outz"`
		Beyond  []bool `json:"beyond"`
		Divide  [6]int `json:"divide"`
		Passes  []bool `json:"passes"`
		IsSet   bool   `json:"isset"`
		PErr    bool   `json:"perr"`
		PBox    [6]int `json:"pbox"`
	}
	exp := make([]*expT, len(cases))
	got := 0
	PrintedJSON(r.Output, func(raw []byte) {
		var e expT
		if json.Unmarshal(raw, &e) == nil && e.I >= 1 && e.I <= len(cases) && len(e.Outside) == len(cases[e.I-1].Pts) {
			exp[e.I-1] = &e
			got++
		}
	})
	if got != len(cases) {
		infra("GeometryBoundsEval evaluated %d of %d cases:\n%s", got, len(cases), r.Tail(1500))
	}
	type nodeCase struct {
		Box   [6]*int    `json:"box"`
		BS    [3]int     `json:"bs"`
		Mn    [3]int     `json:"mn"`
		Mx    [3]int     `json:"mx"`
		Pts   [][3]int   `json:"pts"`
		Query *[6]string `json:"query"`
	}
	ncs := make([]nodeCase, len(cases))
	for i, k := range cases {
		ncs[i] = nodeCase{Box: ptrBox(k.Box), BS: k.BS, Mn: k.Mn, Mx: k.Mx, Pts: k.Pts}
		if k.Q != nil {
			var q [6]string
			for j := range q {
				q[j] = k.Q[j].Str
			}
			ncs[i].Query = &q
		}
	}
	var res []struct {
		Panic     string  `json:"panic"`
		AdjMin    [3]int  `json:"adj_min"`
		AdjMax    [3]int  `json:"adj_max"`
		NilAdjOK  bool    `json:"nil_adj_ok"`
		Outside   []bool  `json:"outside"`
		OutX      []bool  `json:"outx"`
		OutY      []bool  `json:"outy"`
		OutZ      []bool  `json:"outz"`
		Beyond    []bool  `json:"beyond"`
		Divide    [6]*int `json:"divide"`
		Passes    []bool  `json:"passes"`
		IsSet     bool    `json:"isset"`
		Bounded   [3]bool `json:"bounded"`
		ParseErr  string  `json:"parse_err"`
		ParseBox  [6]*int `json:"parse_box"`
		ParsedSet bool    `json:"parsed_set"`
	}
	must(n.Call("geom.bounds", map[string]interface{}{"cases": ncs}, &res), "geom.bounds")
	if len(res) != len(cases) {
		infra("geom.bounds: %d results for %d cases", len(res), len(cases))
	}
	bools := func(a, b []bool) bool { return fmt.Sprint(a) == fmt.Sprint(b) }
	for i, k := range cases {
		e, o := exp[i], res[i]
		report := func(op string, want, got interface{}) {
			if run.Violations() >= 60 {
				return
			}
			run.Violation("c18", c18Divergence{Part: "bounds", Op: op, Input: map[string]interface{}{"box_minx_maxx_miny_maxy_minz_maxz": ptrBox(k.Box), "block_size": k.BS, "min_point": k.Mn, "max_point": k.Mx, "points": k.Pts, "query": ncs[i].Query},
				Expected: want, Observed: got})
		}
		run.Eval(fmt.Sprintf("bounds|%v|%v|%v", k.Box, k.BS, k.Pts))
		nCmp++
		if o.Panic != "" {
			report("panic", "no panic", o.Panic)
			continue
		}
		if o.AdjMin != e.Adjust.Min || o.AdjMax != e.Adjust.Max {
			report("OptionalBounds.Adjust", e.Adjust, [2][3]int{o.AdjMin, o.AdjMax})
		}
		if !o.NilAdjOK {
			report("nil *OptionalBounds", "no effect, outside nothing, not set", "differs")
		}
		if !bools(o.Outside, e.Outside) {
			report("OptionalBounds.Outside", e.Outside, o.Outside)
		}
		if !bools(o.OutX, e.OutX) || !bools(o.OutY, e.OutY) || !bools(o.OutZ, e.OutZ) {
			report("OptionalBounds.OutsideX/Y/Z", [][]bool{e.OutX, e.OutY, e.OutZ}, [][]bool{o.OutX, o.OutY, o.OutZ})
		}
		if !bools(o.Beyond, e.Beyond) {
			report("OptionalBounds.BeyondZ", e.Beyond, o.Beyond)
		}
		if !boxEq(o.Divide, e.Divide) {
			report("OptionalBounds.Divide", ptrBox(e.Divide), o.Divide)
		} else if !bools(o.Passes, e.Passes) {
			report("OptionalBounds.Divide + Outside (block-level screen)", e.Passes, o.Passes)
		}
		bounded := [3]bool{k.Box[0] != geoNone || k.Box[1] != geoNone, k.Box[2] != geoNone || k.Box[3] != geoNone, k.Box[4] != geoNone || k.Box[5] != geoNone}
		if o.IsSet != e.IsSet || o.Bounded != bounded {
			report("OptionalBounds.IsSet / BoundedX/Y/Z", []interface{}{e.IsSet, bounded}, []interface{}{o.IsSet, o.Bounded})
		}
		if k.Q != nil {
			nCmp++
			switch {
			case e.PErr && o.ParseErr == "":
				report("OptionalBoundsFromQueryString", "an error", map[string]interface{}{"box": o.ParseBox})
			case !e.PErr && o.ParseErr != "":
				report("OptionalBoundsFromQueryString", ptrBox(e.PBox), o.ParseErr)
			case !e.PErr && (!boxEq(o.ParseBox, e.PBox) || o.ParsedSet != e.IsSet):
				report("OptionalBoundsFromQueryString", ptrBox(e.PBox), o.ParseBox)
			}
		}
	}
	k := cases[len(cases)/2]
	run.Sample(map[string]interface{}{"bounds_case": map[string]interface{}{"box": ptrBox(k.Box), "block_size": k.BS, "points": k.Pts}, "expected_by_TLC": exp[len(cases)/2]})
	return
}

// ---------------------------------------------------------------------------
// sets of block coordinates
// ---------------------------------------------------------------------------

type setCfg struct {
	Name   string   `json:"name"`
	XMin   int      `json:"xmin"`
	XMax   int      `json:"xmax"`
	Rows   [][2]int `json:"rows"`
	Boxes  [][6]int `json:"boxes"`
	Scales []int    `json:"scales"`
	Chunk  [3]int   `json:"chunk"`
	NMasks int      `json:"nmasks"`
}

func (g *setCfg) W() int { return g.XMax - g.XMin + 1 }

func (g *setCfg) cells() [][3]int {
	var out [][3]int
	for _, r := range g.Rows {
		for x := g.XMin; x <= g.XMax; x++ {
			out = append(out, [3]int{x, r[0], r[1]})
		}
	}
	return out
}

func (g *setCfg) module() (mod, cfg string) {
	var sb strings.Builder
	sb.WriteString("---- MODULE GeometrySetsMC ----\nEXTENDS GeometrySets\n")
	fmt.Fprintf(&sb, "XMinDef == %d\nXMaxDef == %d\n", g.XMin, g.XMax)
	seq := func(name string, rows [][]int) {
		parts := make([]string, len(rows))
		for i, r := range rows {
			parts[i] = tlaTuple(r)
		}
		fmt.Fprintf(&sb, "%s == << %s >>\n", name, strings.Join(parts, ", "))
	}
	var rows, boxes [][]int
	for _, r := range g.Rows {
		rows = append(rows, r[:])
	}
	for _, b := range g.Boxes {
		boxes = append(boxes, b[:])
	}
	seq("RowsDef", rows)
	seq("BoxesDef", boxes)
	fmt.Fprintf(&sb, "ScalesDef == %s\nChunkDef == %s\n====\n", tlaTuple(g.Scales), tlaTuple(g.Chunk[:]))
	cfg = fmt.Sprintf("SPECIFICATION Spec\nCONSTANTS\n XMin <- XMinDef\n XMax <- XMaxDef\n Rows <- RowsDef\n Boxes <- BoxesDef\n NMasks = %d\n Scales <- ScalesDef\n ChunkSize <- ChunkDef\nINVARIANTS Claims Emit EmitStatic\nCHECK_DEADLOCK FALSE\n", g.NMasks)
	return sb.String(), cfg
}

type setState struct {
	VM     uint32     `json:"vm"`
	Union  []uint32   `json:"union"`
	Diff   []uint32   `json:"diff"`
	Fit    []uint32   `json:"fit"`
	Down   [][][3]int `json:"down"`
	Bounds struct {
		Min [3]int `json:"min"`
		Max [3]int `json:"max"`
	} `json:"bounds"`
	Proc [][][][][3]int `json:"proc"`
}

type setStatic struct {
	Operands []uint32   `json:"operands"`
	Counts   [][2]int   `json:"counts"`
	Offsets  [][3]int   `json:"offsets"`
	DownPt   [][][3]int `json:"downpt"`
	LE       [][]int    `json:"le"`
}

func (g *setCfg) maskIdx(m uint32) []int {
	var out []int
	for i := 0; i < g.W()*len(g.Rows); i++ {
		if m&(1<<uint(i)) != 0 {
			out = append(out, i)
		}
	}
	return out
}

func (g *setCfg) maskPts(m uint32) [][3]int {
	cells := g.cells()
	out := [][3]int{}
	for _, i := range g.maskIdx(m) {
		out = append(out, cells[i])
	}
	return out
}

func zyxLess(a, b [3]int) bool {
	if a[2] != b[2] {
		return a[2] < b[2]
	}
	if a[1] != b[1] {
		return a[1] < b[1]
	}
	return a[0] < b[0]
}

func sortPts(p [][3]int) [][3]int {
	out := append([][3]int{}, p...)
	sort.Slice(out, func(i, j int) bool { return zyxLess(out[i], out[j]) })
	return out
}

func ptsEq(a, b [][3]int) bool {
	if len(a) != len(b) {
		return false
	}
	for i := range a {
		if a[i] != b[i] {
			return false
		}
	}
	return true
}

type setOutJ struct {
	Pts [][3]int `json:"pts"`
	Err string   `json:"err"`
}

type setsResultJ struct {
	Panic     string        `json:"panic"`
	Merge     []setOutJ     `json:"merge"`
	MergeCopy []setOutJ     `json:"mergecopy"`
	Delete    []setOutJ     `json:"delete"`
	Split     []setOutJ     `json:"split"`
	Fit       []setOutJ     `json:"fit"`
	Down      []setOutJ     `json:"down"`
	BoundsMin [3]int        `json:"bounds_min"`
	BoundsMax [3]int        `json:"bounds_max"`
	BoundsErr string        `json:"bounds_err"`
	Binary    setOutJ       `json:"binary"`
	IdxFit    []setOutJ     `json:"idx_fit"`
	Proc      [][][]setOutJ `json:"proc"`
	InputKept bool          `json:"input_kept"`
}

const c18IdxFit = "index-fittobounds-inverted"

func c18SetConfigs(c *Ctx) []*setCfg {
	N := geoNone
	boxes := func(xmin, xmax int, rows [][2]int) [][6]int {
		y0, z0 := rows[0][0], rows[0][1]
		yl, zl := rows[len(rows)-1][0], rows[len(rows)-1][1]
		return [][6]int{
			{N, N, N, N, N, N},
			{xmin + 1, N, N, N, N, N},
			{N, xmax - 1, y0, y0, N, N},
			{xmin + 1, xmax - 1, N, N, N, z0},
			{N, N, N, N, zl, N},
			{N, N, yl, N, N, N},
			{xmin, xmin, y0, y0, z0, z0},
			{xmin - 2, xmax + 2, N, yl, z0 - 1, N},
		}
	}
	mk := func(name string, xmin, xmax int, rows [][2]int, scales []int) *setCfg {
		return &setCfg{Name: name, XMin: xmin, XMax: xmax, Rows: rows, Boxes: boxes(xmin, xmax, rows), Scales: scales, Chunk: [3]int{32, 16, 64}, NMasks: 8}
	}
	cfgs := []*setCfg{
		mk("blk3x3", -2, 0, [][2]int{{-1, -1}, {0, -1}, {-1, 0}}, []int{1, 2}),
		mk("blk2x4neg", -5, -2, [][2]int{{-3, -3}, {2, 1}}, []int{1, 3}),
	}
	if c.thorough() {
		cfgs = append(cfgs,
			mk("blk3x4", -2, 1, [][2]int{{-1, -1}, {0, -1}, {-1, 0}}, []int{1, 2}),
			mk("blk2x6", -3, 2, [][2]int{{-5, 4}, {6, 4}}, []int{1, 2, 3}),
			mk("blk4x3far", 1048572, 1048574, [][2]int{{-1048575, -1048575}, {1048575, -1048575}, {-3, 0}, {1048575, 1048575}}, []int{1, 4}),
		)
	}
	return cfgs
}

func checkSets(c *Ctx, run *ev.Run, nodes []*node.Node) (states, trans int64, nOps int64) {
	for _, g := range c18SetConfigs(c) {
		mod, cfg := g.module()
		r := c.MustModelCheck(tlc.Opts{Module: "GeometrySetsMC", Config: "sets.cfg", Workers: 8, Timeout: 20 * time.Minute, HeapGB: 8,
			Files: map[string][]byte{"GeometrySetsMC.tla": []byte(mod), "sets.cfg": []byte(cfg)}})
		states += r.Distinct
		trans += r.Generated
		var sts []*setState
		var static *setStatic
		PrintedJSON(r.Output, func(raw []byte) {
			if strings.HasPrefix(string(raw), `{"operands"`) {
				var s setStatic
				if json.Unmarshal(raw, &s) == nil {
					static = &s
				}
				return
			}
			var st setState
			if err := json.Unmarshal(raw, &st); err == nil && len(st.Fit) == len(g.Boxes) {
				sts = append(sts, &st)
			}
		})
		ncell := g.W() * len(g.Rows)
		if static == nil || len(sts) != 1<<uint(ncell) || len(static.Operands) != g.NMasks {
			infra("GeometrySets/%s: %d printed states for %d subsets: %s", g.Name, len(sts), 1<<uint(ncell), r.Tail(1500))
		}
		sort.Slice(sts, func(i, j int) bool { return sts[i].VM < sts[j].VM })
		cells := g.cells()
		var operands [][][3]int
		for _, m := range static.Operands {
			operands = append(operands, g.maskPts(m))
		}
		var boxes [][6]*int
		for _, b := range g.Boxes {
			boxes = append(boxes, ptrBox(b))
		}
		nstatic := map[string]interface{}{"cells": cells, "operands": operands, "boxes": boxes, "scales": g.Scales, "chunk": g.Chunk, "counts": static.Counts}
		const batch = 128
		nb := (len(sts) + batch - 1) / batch
		var staticChecked int32
		parallel(nb, len(nodes), func(w, b int) {
			lo, hi := b*batch, (b+1)*batch
			if hi > len(sts) {
				hi = len(sts)
			}
			type nc struct {
				Cells []int `json:"cells"`
			}
			ncs := make([]nc, 0, hi-lo)
			for _, st := range sts[lo:hi] {
				idx := g.maskIdx(st.VM)
				if idx == nil {
					idx = []int{}
				}
				ncs = append(ncs, nc{Cells: idx})
			}
			var out struct {
				Static struct {
					Offsets [][3]int   `json:"offsets"`
					DownPt  [][][3]int `json:"downpt"`
					Halfres [][3]int   `json:"halfres"`
					LE      [][]int    `json:"le"`
					LEBack  [][3]int   `json:"le_back"`
					Err     string     `json:"err"`
				} `json:"static"`
				Results []setsResultJ `json:"results"`
			}
			must(nodes[w].Call("geom.sets", map[string]interface{}{"static": nstatic, "cases": ncs}, &out), "geom.sets")
			if len(out.Results) != hi-lo {
				infra("geom.sets: %d results for %d cases", len(out.Results), hi-lo)
			}
			if atomic.CompareAndSwapInt32(&staticChecked, 0, 1) {
				so := out.Static
				bad := so.Err
				halfIdx := -1
				for j, s := range g.Scales {
					if s == 1 {
						halfIdx = j
					}
				}
				for i := range cells {
					if bad != "" {
						break
					}
					switch {
					case so.Offsets[i] != static.Offsets[i]:
						bad = fmt.Sprintf("VoxelOffset of block %v with chunk %v: %v, expected %v", cells[i], g.Chunk, so.Offsets[i], static.Offsets[i])
					case !ptsEq(so.DownPt[i], static.DownPt[i]):
						bad = fmt.Sprintf("IZYXString.Downres of block %v at scales %v: %v, expected %v", cells[i], g.Scales, so.DownPt[i], static.DownPt[i])
					case halfIdx >= 0 && so.Halfres[i] != static.DownPt[i][halfIdx]:
						bad = fmt.Sprintf("IZYXString.Halfres of block %v: %v, expected %v", cells[i], so.Halfres[i], static.DownPt[i][halfIdx])
					case fmt.Sprint(so.LE[i]) != fmt.Sprint(static.LE[i]) || so.LEBack[i] != cells[i]:
						bad = fmt.Sprintf("IndexZYX.MarshalBinary of %v: %v (back %v), expected %v", cells[i], so.LE[i], so.LEBack[i], static.LE[i])
					}
					run.Eval(fmt.Sprintf("%s|cell|%v", g.Name, cells[i]))
					atomic.AddInt64(&nOps, 4)
				}
				if bad != "" {
					run.Violation("c18", c18Divergence{Part: "sets", Op: "per-block functions", Input: g, Expected: static, Observed: bad})
				}
			}
			for i, st := range sts[lo:hi] {
				compareSetState(run, g, st, static, operands, &out.Results[i], &nOps)
			}
		})
		if len(sts) > 10 {
			st := sts[len(sts)*2/3]
			run.Sample(map[string]interface{}{"config": g.Name, "blocks": g.maskPts(st.VM), "operand": operands[0], "union_expected": g.maskPts(st.Union[0]), "box": ptrBox(g.Boxes[3]), "fit_expected": g.maskPts(st.Fit[3]),
				"downres_scale": g.Scales[0], "downres_expected": st.Down[0]})
		}
	}
	return
}

func compareSetState(run *ev.Run, g *setCfg, st *setState, static *setStatic, operands [][][3]int, o *setsResultJ, nOps *int64) {
	in := g.maskPts(st.VM)
	report := func(op string, operand, want, got interface{}) {
		if run.Violations() >= 60 {
			return
		}
		run.Violation("c18", c18Divergence{Part: "sets", Config: nil, Op: op, Input: map[string]interface{}{"config": g.Name, "blocks": in}, Operand: operand, Expected: want, Observed: got})
	}
	key := func(op string) string {
		if st.VM == 0 {
			return ""
		}
		return fmt.Sprintf("%s|%s|%d", g.Name, op, st.VM)
	}
	if o.Panic != "" {
		report("panic", nil, "no panic", o.Panic)
		return
	}
	exact := func(op string, operand interface{}, got setOutJ, want [][3]int) {
		run.Eval(key(op))
		atomic.AddInt64(nOps, 1)
		if got.Err != "" || !ptsEq(got.Pts, want) {
			report(op, operand, want, got)
		}
	}
	for k := range operands {
		exact(fmt.Sprintf("IZYXSlice.Merge#%d", k+1), operands[k], o.Merge[k], g.maskPts(st.Union[k]))
		exact(fmt.Sprintf("IZYXSlice.MergeCopy#%d", k+1), operands[k], o.MergeCopy[k], g.maskPts(st.Union[k]))
		exact(fmt.Sprintf("IZYXSlice.Delete#%d", k+1), operands[k], o.Delete[k], g.maskPts(st.Diff[k]))
		exact(fmt.Sprintf("IZYXSlice.Split#%d", k+1), operands[k], o.Split[k], g.maskPts(st.Diff[k]))
	}
	if !o.InputKept {
		report("IZYXSlice.MergeCopy / Split / FitToBounds", nil, "the receiver and the operand are left unchanged", "changed")
	}
	for i := range g.Boxes {
		exact(fmt.Sprintf("IZYXSlice.FitToBounds#%d", i+1), ptrBox(g.Boxes[i]), o.Fit[i], g.maskPts(st.Fit[i]))
	}
	for j := range g.Scales {
		exact(fmt.Sprintf("IZYXSlice.Downres(%d)", g.Scales[j]), nil, o.Down[j], sortPts(st.Down[j]))
	}
	run.Eval(key("GetBounds"))
	atomic.AddInt64(nOps, 1)
	if o.BoundsErr != "" || o.BoundsMin != st.Bounds.Min || o.BoundsMax != st.Bounds.Max {
		report("IZYXSlice.GetBounds", nil, st.Bounds, map[string]interface{}{"min": o.BoundsMin, "max": o.BoundsMax, "err": o.BoundsErr})
	}
	exact("IZYXSlice.MarshalBinary/UnmarshalBinary", nil, o.Binary, in)
	// label index
	for i := range g.Boxes {
		run.Eval(key(fmt.Sprintf("Index.FitToBounds#%d", i+1)))
		atomic.AddInt64(nOps, 1)
		want := g.maskPts(st.Fit[i])
		if o.IdxFit[i].Err != "" || !ptsEq(o.IdxFit[i].Pts, want) {
			if run.KnownActive(c18IdxFit) && o.IdxFit[i].Err == "" {
				run.ReportKnown(c18IdxFit)
			} else {
				report("labels.Index.FitToBounds", ptrBox(g.Boxes[i]), want, o.IdxFit[i])
			}
		}
		for j := 0; j <= len(g.Scales); j++ {
			scale := 0
			if j > 0 {
				scale = g.Scales[j-1]
			}
			for sv := 0; sv < 4; sv++ {
				run.Eval(key(fmt.Sprintf("Index.GetProcessedBlockIndices#%d/%d/%d", i+1, scale, sv)))
				atomic.AddInt64(nOps, 1)
				got := o.Proc[i][j][sv]
				want := sortPts(st.Proc[i][j][sv])
				// the order of the result is only defined when it was sorted on the way (bounds or scale)
				if got.Err != "" || !ptsEq(sortPts(got.Pts), want) {
					report("labels.Index.GetProcessedBlockIndices", map[string]interface{}{"scale": scale, "block_box": ptrBox(g.Boxes[i]), "supervoxel": sv, "counts_per_cell": static.Counts}, want, got)
				}
			}
		}
	}
}

// ---------------------------------------------------------------------------
// run-length additions on the states of specs/Geometry.tla
// ---------------------------------------------------------------------------

type rlexObs struct {
	Panic    string     `json:"panic"`
	Add      [][]geoRun `json:"add"`
	Added    []int64    `json:"added"`
	Split    [][]geoRun `json:"split"`
	SplitErr []string   `json:"split_err"`
	FitNil   []geoRun   `json:"fit_nil"`
}

var c18SplitNonSubset [3]int64 // refused, equal to the difference, something else

// replayRunsX: the count returned by RLEs.Add, Split by a non-subset (never judged beyond "no
// panic": the precondition of Split is violated), FitToBounds(nil).
func replayRunsX(run *ev.Run, n *node.Node, g *geoCfg, states []*geoState, operands [][]geoRun, rng *rand.Rand, nOps *int64) {
	type nc struct {
		Runs   []geoRun   `json:"runs"`
		Adds   [][]geoRun `json:"adds"`
		Splits [][]geoRun `json:"splits"`
	}
	cases := make([]nc, len(states))
	for i, st := range states {
		c := nc{Runs: shuffledRuns(rng, st.Runs, false)}
		for k := range st.AddN {
			c.Adds = append(c.Adds, shuffledRuns(rng, operands[k], (i+k)%3 == 0))
			c.Splits = append(c.Splits, shuffledRuns(rng, operands[k], false))
		}
		cases[i] = c
	}
	var res []rlexObs
	must(n.Call("geom.rlesx", map[string]interface{}{"cases": cases}, &res), "geom.rlesx")
	if len(res) != len(cases) {
		infra("geom.rlesx: %d results for %d cases", len(res), len(cases))
	}
	for i, st := range states {
		r, c := res[i], cases[i]
		report := func(op string, operand, want, got interface{}) {
			if run.Violations() >= 60 {
				return
			}
			run.Violation("c18", c18Divergence{Part: "runs", Config: g, Op: op, Input: c.Runs, Operand: operand, Expected: want, Observed: got})
		}
		if r.Panic != "" {
			report("panic (Add / Split of a non-subset / FitToBounds(nil))", nil, "no panic", r.Panic)
			continue
		}
		for k, want := range st.AddN {
			if len(st.Runs) > 0 {
				run.Eval(fmt.Sprintf("%s|addcount%d|%v", g.Name, k+1, st.Runs))
			}
			atomic.AddInt64(nOps, 1)
			if r.Added[k] != int64(want) {
				if run.KnownActive(c18AddCount) {
					run.ReportKnown(c18AddCount)
				} else {
					report("RLEs.Add returned count", c.Adds[k], want, r.Added[k])
				}
			}
		}
		for k, sx := range st.SplitX {
			atomic.AddInt64(nOps, 1)
			got, wf := runVoxels(r.Split[k])
			switch {
			case r.SplitErr[k] != "":
				if sx.Sub {
					report("RLEs.Split of a subset", c.Splits[k], sortedVoxels(g.maskVoxels(sx.M)), r.SplitErr[k])
				}
				atomic.AddInt64(&c18SplitNonSubset[0], 1)
			case wf && sameSet(got, g.maskVoxels(sx.M), true):
				atomic.AddInt64(&c18SplitNonSubset[1], 1)
			default:
				if sx.Sub {
					report("RLEs.Split of a subset", c.Splits[k], sortedVoxels(g.maskVoxels(sx.M)), r.Split[k])
				}
				atomic.AddInt64(&c18SplitNonSubset[2], 1)
			}
		}
		// FitToBounds(nil): no bounds, the same voxel set
		atomic.AddInt64(nOps, 1)
		got, wf := runVoxels(r.FitNil)
		if !wf || !sameSet(got, g.maskVoxels(st.VM), true) {
			report("RLEs.FitToBounds(nil)", nil, sortedVoxels(g.maskVoxels(st.VM)), r.FitNil)
		}
	}
}

// c18LimitConfigs: lattices next to the int32 limits (block sizes and boxes chosen so that no
// coordinate of the expected results leaves int32).
func c18LimitConfigs(c *Ctx) []*geoCfg {
	N := geoNone
	const hi = 2147483638 // the last voxel used (the expected results of Partition with block sizes <= 5 stay inside int32, which TLC needs)
	lo := -2147483647 + 16
	mk := func(name string, xmin, xmax int, rows [][2]int) *geoCfg {
		y0, z0 := rows[0][0], rows[0][1]
		g := &geoCfg{Name: name, XMin: xmin, XMax: xmax, Rows: rows, NMasks: 8, RoiBlock: [3]int{2, 2, 2},
			BlockSizes: [][3]int{{2, 2, 2}, {3, 3, 3}, {4, 2, 1}, {5, 1, 3}},
			Bounds: [][6]int{
				{N, N, N, N, N, N},
				{xmin + 1, N, N, N, N, N},
				{N, xmax - 1, N, N, N, N},
				{xmin + 2, xmax - 2, y0, N, N, z0},
				{xmin, xmin, N, N, N, N},
				{N, N, N, y0 - 1, N, N},
			}}
		g.Query = [6]int{0, 0, 0, 0, 0, 0}
		return g
	}
	return []*geoCfg{
		mk("rowhi", hi-7, hi, [][2]int{{hi, lo}}),
		mk("rowlo", lo, lo+7, [][2]int{{lo, hi}}),
	}
}

// c18Growth runs the parts added by the growth round; called from checkC18.
func c18Growth(c *Ctx, run *ev.Run, nodes []*node.Node, rng *rand.Rand) (states, trans, nOps int64, extra map[string]interface{}) {
	t0 := time.Now()
	s1, t1, n1 := checkBounds(c, run, nodes[0], rng)
	tB := since(t0)
	s2, t2, n2 := checkSets(c, run, nodes)
	tS := since(t0) - tB
	extra = map[string]interface{}{"bounds_s": tB, "sets_s": tS, "bounds_cases_compared": n1, "set_operations_compared": n2}
	return s1 + s2, t1 + t2, n1 + n2, extra
}
