package main

// C13: annotation indexes are views of one element set, synced with labels.
//
// specs/Annotation.tla (element set, stored tag / body / count copies, Inv_C13) composed with
// specs/Labelmap.tla.  TLC model-checks Inv_C13 and emits (a) the complete transition graph to a
// small depth and (b) simulated behaviours beyond it, each state with the expected result of
// every read endpoint (AObs).  The graph / behaviours are replayed on an annotation instance
// synced to a labelmap instance, with a labelsz instance synced to the annotation, as a tree of
// versions (every transition in a fresh child branch of the version holding its source state).
//
// Growth (gaps C13-1,2,4..10 of GAPS.md): one block of the label volume is left un-ingested and
// holds an element from the start (AIngest: POST raw / POST blocks with a new label or a present,
// possibly mapped, supervoxel); body split and renumber; voxel writes of 0 / a present supervoxel;
// reload variants; a restart transition followed by every label operation of the initial state;
// a labelsz restricted to the ROI; a second annotation (ScanAllForBlocks) and labelsz fanned out
// from the same labelmap; POST elements with three elements, POST blocks with several blocks,
// POST labels, move onto an occupied position (refused or replaced), scan, threshold?offset&n;
// one layout syncs the annotation to a labelarray volume.  The simulation draws the operation
// class first (uniformly), then the instance, so that rare classes are replayed as often as
// POST elements.

import (
	"encoding/json"
	"fmt"
	"math/rand"
	"os"
	"sort"
	"strings"
	"sync"
	"sync/atomic"
	"time"

	"verifharness/internal/ev"
	"verifharness/internal/lmm"
	"verifharness/internal/node"
	"verifharness/internal/tlc"
)

func init() { checks["C13"] = checkC13 }

// ---------------------------------------------------------------------------
// specification values

type annRel struct {
	To int `json:"to"`
	T  int `json:"t"`
}

type annElem struct {
	Pos  int      `json:"pos"`
	Kind string   `json:"kind"`
	Tags []int    `json:"tags"`
	Rels []annRel `json:"rels"`
	Prop int      `json:"prop"`
}

type annKey struct {
	SV    []uint64   `json:"sv"`
	MP    lmm.MapU64 `json:"mp"`
	Nxt   uint64     `json:"nxt"`
	All   []annElem  `json:"all"`
	Fresh []int      `json:"fresh"`
}

func (k annKey) Canon() string {
	b, _ := json.Marshal(k.All)
	return lmm.Key{SV: k.SV, MP: k.MP, Nxt: k.Nxt}.Canon() + "|" + string(b) + "|" + fmt.Sprint(k.Fresh)
}

// annOp is the `last` record: a Labelmap operation or an element operation.
type annOp struct {
	lmm.Op
	Elems []annElem `json:"elems,omitempty"`
	Pos   int       `json:"pos,omitempty"`
	From  int       `json:"from,omitempty"`
	To    int       `json:"to,omitempty"`
	Block int       `json:"block,omitempty"`
	// extended alphabet
	Variant string `json:"variant,omitempty"` // blocks, blocksall: plain | check | lowmem (the reload that follows)
	Via     string `json:"via,omitempty"`     // ingest: raw | blocks
	Outcome string `json:"outcome,omitempty"` // moveonto: refused | replaced
	Touched []int  `json:"touched,omitempty"` // blocksall: blocks carried by the request
	newMP   lmm.MapU64 // mapping of the target state (labelarray adapter: the voxels carry the body)
}

type annRank struct {
	Label uint64 `json:"label"`
	N     uint32 `json:"n"`
}

type annObs struct {
	All     []annElem `json:"all"`
	ByBlock [][]int   `json:"byBlock"`
	ByTag   [][]int   `json:"byTag"`
	Bodies  []struct {
		Label     uint64   `json:"label"`
		Pos       []int    `json:"pos"`
		Counts    []uint32 `json:"counts"`
		RoiCounts []uint32 `json:"roiCounts"`
	} `json:"bodies"`
	Ghosts      []uint64 `json:"ghosts"`
	InBox       [][]int  `json:"inBox"`
	BlocksOfBox [][]int  `json:"blocksOfBox"`
	ROI         []int    `json:"roi"`
	PosBody     []uint64 `json:"posBody"`
	Index       []struct {
		Name      string    `json:"name"`
		Ranked    []annRank `json:"ranked"`
		AtLeast2  []annRank `json:"atLeast2"`
		RoiRanked []annRank `json:"roiRanked"`
	} `json:"index"`
	UsedBlocks []int `json:"usedBlocks"`
	Fresh      []int `json:"fresh"`
}

// ---------------------------------------------------------------------------
// layout: geometry, positions, boxes, initial label and element state

type annBox struct {
	Size, Off [3]int
	Pos       []int // positions inside
	Blocks    []int // blocks intersecting
}

type annLayout struct {
	name      string
	g         *lmm.Geom
	initSV    []uint64
	initMP    map[uint64]uint64
	pos       [][3]int
	posRegion []int
	posBlock  []int
	boxes     []annBox
	roiBlocks []int
	nt, nrel  int
	kinds     []string
	initElems []annElem
	overwrite bool // voxel edits (POST raw?mutate=true) are part of the alphabet
	fresh     []int    // blocks of the label volume left un-ingested at the start
	classes   []string // operation classes of Annotation.tla in the alphabet
	deep      []string // classes the exhaustive graph continues with below its first layer
	variants  []string // reload variants following a block-level ingest
	fanout    bool     // a second annotation (ScanAllForBlocks) synced to the labelmap, with its own labelsz
	labelarray bool    // the synced label volume is a labelarray instance (no supervoxels: voxels carry the body)
}

var annAllClasses = []string{"post1", "pair", "retag", "post3", "delete", "move", "moveonto", "merge", "cleave", "splitsv", "split",
	"renumber", "overwrite", "overwrite0", "overwritesv", "ingest", "blocks", "blocksall", "restart", "postlabels"}


var annRelNames = []string{"PostSynTo", "PreSynTo", "ConvergentTo", "GroupedWith"}

func (lo *annLayout) P() int { return len(lo.pos) }

// placePositions picks one voxel inside (region, block) for every position: block borders
// and corners are preferred half of the time.
func (lo *annLayout) placePositions(rng *rand.Rand, spec [][2]int) {
	g := lo.g
	used := map[[3]int]bool{}
	for _, rb := range spec {
		r, b := rb[0], rb[1]
		bc := g.Blocks[b-1]
		var all, border [][3]int
		for z := bc[2] * g.BS; z < (bc[2]+1)*g.BS; z++ {
			for y := bc[1] * g.BS; y < (bc[1]+1)*g.BS; y++ {
				for x := bc[0] * g.BS; x < (bc[0]+1)*g.BS; x++ {
					if g.RegionAt(x, y, z) != r || used[[3]int{x, y, z}] {
						continue
					}
					all = append(all, [3]int{x, y, z})
					onB := 0
					for _, c := range []int{x - bc[0]*g.BS, y - bc[1]*g.BS, z - bc[2]*g.BS} {
						if c == 0 || c == g.BS-1 {
							onB++
						}
					}
					if onB >= 1 {
						border = append(border, [3]int{x, y, z})
					}
				}
			}
		}
		if len(all) == 0 {
			infra("no free voxel of region %d in block %d", r, b)
		}
		var p [3]int
		if len(border) > 0 && rng.Intn(2) == 0 {
			p = border[rng.Intn(len(border))]
		} else {
			p = all[rng.Intn(len(all))]
		}
		used[p] = true
		lo.pos = append(lo.pos, p)
		lo.posRegion = append(lo.posRegion, r)
		lo.posBlock = append(lo.posBlock, b)
	}
}

func (lo *annLayout) addBox(off, size [3]int) {
	g := lo.g
	bx := annBox{Size: size, Off: off}
	for i, p := range lo.pos {
		in := true
		for d := 0; d < 3; d++ {
			if p[d] < off[d] || p[d] >= off[d]+size[d] {
				in = false
			}
		}
		if in {
			bx.Pos = append(bx.Pos, i+1)
		}
	}
	for bi, bc := range g.Blocks {
		hit := true
		for d := 0; d < 3; d++ {
			if bc[d]*g.BS+g.BS-1 < off[d] || bc[d]*g.BS >= off[d]+size[d] {
				hit = false
			}
		}
		if hit {
			bx.Blocks = append(bx.Blocks, bi+1)
		}
	}
	lo.boxes = append(lo.boxes, bx)
}

func (lo *annLayout) makeBoxes(rng *rand.Rand) {
	g := lo.g
	lo.addBox(g.Min, g.Size)                             // everything
	lo.addBox([3]int{0, 0, 0}, [3]int{g.BS, g.BS, g.BS}) // exactly block (0,0,0)
	lo.addBox([3]int{-16, 8, 8}, [3]int{32, 24, 24})     // straddles x = 0
	lo.addBox([3]int{-40, -5, -5}, [3]int{30, 50, 50})   // negative offsets, partly outside the data
	p := lo.pos[rng.Intn(len(lo.pos))]
	lo.addBox(p, [3]int{1, 1, 1}) // a single voxel holding a position
	q := lo.pos[rng.Intn(len(lo.pos))]
	lo.addBox([3]int{q[0] - 9, q[1] - 4, q[2] - 2}, [3]int{10, 5, 3}) // the position is the last voxel inside
	lo.addBox([3]int{q[0] + 1, q[1], q[2]}, [3]int{12, 7, 9})         // the position is just outside
	for i := 0; i < 3; i++ {
		var off, size [3]int
		for d := 0; d < 3; d++ {
			off[d] = g.Min[d] - 4 + rng.Intn(g.Size[d])
			size[d] = 1 + rng.Intn(g.Size[d])
		}
		lo.addBox(off, size)
	}
}

// seededInitElems builds a well-formed initial element set: about half of the positions,
// seeded kinds and tags, one mutual relationship.
func (lo *annLayout) seededInitElems(rng *rand.Rand, present []int) {
	for _, p := range present {
		e := annElem{Pos: p, Kind: lo.kinds[rng.Intn(len(lo.kinds))], Prop: 1}
		for t := 1; t <= lo.nt; t++ {
			if rng.Intn(2) == 0 {
				e.Tags = append(e.Tags, t)
			}
		}
		lo.initElems = append(lo.initElems, e)
	}
	if len(lo.initElems) >= 2 {
		a, b := &lo.initElems[0], &lo.initElems[len(lo.initElems)-1]
		t := 1 + rng.Intn(lo.nrel)
		a.Rels = append(a.Rels, annRel{To: b.Pos, T: t})
		b.Rels = append(b.Rels, annRel{To: a.Pos, T: t})
	}
}

func tlaIntSeq(a []int) string {
	s := make([]string, len(a))
	for i, x := range a {
		s[i] = fmt.Sprint(x)
	}
	return "<<" + strings.Join(s, ", ") + ">>"
}

func (lo *annLayout) kindIndex(name string) int {
	for i, k := range lo.kinds {
		if k == name {
			return i + 1
		}
	}
	infra("kind %q not in the layout", name)
	return 0
}

// tlaConstants renders the generated module AnnGeom.
func (lo *annLayout) tlaConstants() string {
	var sb strings.Builder
	sb.WriteString("---- MODULE AnnGeom ----\nEXTENDS TLC\n")
	sb.WriteString("PosRegionDef == " + tlaIntSeq(lo.posRegion) + "\n")
	sb.WriteString("PosBlockDef == " + tlaIntSeq(lo.posBlock) + "\n")
	ks := make([]string, len(lo.kinds))
	for i, k := range lo.kinds {
		ks[i] = fmt.Sprintf("%q", k)
	}
	sb.WriteString("KindSeqDef == <<" + strings.Join(ks, ", ") + ">>\n")
	var svs []uint64
	for s := range lo.initMP {
		svs = append(svs, s)
	}
	sort.Slice(svs, func(i, j int) bool { return svs[i] < svs[j] })
	var mp []string
	for _, s := range svs {
		mp = append(mp, fmt.Sprintf("%d :> %d", s, lo.initMP[s]))
	}
	sb.WriteString("InitMPDef == (" + strings.Join(mp, " @@ ") + ")\n")
	if len(lo.initElems) == 0 {
		sb.WriteString("InitElemsDef == <<>>\n")
	} else {
		var es []string
		for _, e := range lo.initElems {
			var rels []string
			for _, r := range e.Rels {
				rels = append(rels, fmt.Sprintf("<<%d, %d>>", r.To, r.T))
			}
			es = append(es, fmt.Sprintf("%d :> [kind |-> %d, tags |-> %s, rels |-> {%s}, prop |-> %d]",
				e.Pos, lo.kindIndex(e.Kind), tlaIntSet(e.Tags), strings.Join(rels, ", "), e.Prop))
		}
		sb.WriteString("InitElemsDef == (" + strings.Join(es, " @@ ") + ")\n")
	}
	var bp, bb []string
	for _, b := range lo.boxes {
		bp = append(bp, tlaIntSet(b.Pos))
		bb = append(bb, tlaIntSet(b.Blocks))
	}
	sb.WriteString("BoxPosDef == <<" + strings.Join(bp, ", ") + ">>\n")
	sb.WriteString("BoxBlocksDef == <<" + strings.Join(bb, ", ") + ">>\n")
	sb.WriteString("ROIBlocksDef == " + tlaIntSet(lo.roiBlocks) + "\n")
	sb.WriteString("ClassesDef == " + tlaStrSet(lo.classes) + "\n")
	sb.WriteString("DeepClassesDef == " + tlaStrSet(lo.deep) + "\n")
	sb.WriteString("FreshBlocksDef == " + tlaIntSet(lo.fresh) + "\n")
	sb.WriteString("ReloadVariantsDef == " + tlaStrSet(lo.variants) + "\n====\n")
	return sb.String()
}

func (lo *annLayout) config(spec string, maxOps int, invariants, props string) string {
	s := fmt.Sprintf("SPECIFICATION %s\nCONSTANTS\n  R = %d\n  NB = %d\n  NVox <- NVoxDef\n  InitSV <- InitSVDef\n  InitMax = %d\n  MaxOps = %d\n  Classes1 <- Classes1Def\n  Classes2 <- Classes2Def\n  WithOverwrite = %s\n  WithSplit = FALSE\n",
		spec, lo.g.R, len(lo.g.Blocks), maxU64(lo.initSV), maxOps, map[bool]string{true: "TRUE", false: "FALSE"}[lo.overwrite])
	s += fmt.Sprintf("  P = %d\n  PosRegion <- PosRegionDef\n  PosBlock <- PosBlockDef\n  NT = %d\n  KindSeq <- KindSeqDef\n  NRel = %d\n  InitMP <- InitMPDef\n  InitElems <- InitElemsDef\n  NBox = %d\n  BoxPos <- BoxPosDef\n  BoxBlocks <- BoxBlocksDef\n  ROIBlocks <- ROIBlocksDef\n  MaxL = %d\n  Classes <- ClassesDef\n  DeepClasses <- DeepClassesDef\n  FreshBlocks <- FreshBlocksDef\n  ReloadVariants <- ReloadVariantsDef\n",
		lo.P(), lo.nt, lo.nrel, len(lo.boxes), int(maxU64(lo.initSV))+7*maxOps+2)
	s += "INVARIANTS " + invariants + "\n"
	if props != "" {
		s += "PROPERTIES " + props + "\n"
	}
	return s + "CHECK_DEADLOCK FALSE\n"
}

func (lo *annLayout) files() map[string][]byte {
	return map[string][]byte{
		"LabelGeom.tla": []byte(lo.g.TLAConstantsDownres(lo.initSV, nil, nil)),
		"AnnGeom.tla":   []byte(lo.tlaConstants()),
	}
}

const annInvs = "Inv_C13 Inv_C08_Conservation Inv_C12_NewLabelsFresh"

// ---------------------------------------------------------------------------
// TLC: exhaustive graph and simulated behaviours

type annEdge struct {
	S, T annKey
	L    annOp
	Obs  annObs
}

type annState struct {
	key    annKey
	obs    annObs
	depth  int
	parent int
	out    []int
}

type annGraph struct {
	states map[string]*annState
	order  []string
	edges  []annEdge
	init   string
}

func (gr *annGraph) pathTo(k string) []annOp {
	var rev []annOp
	for st := gr.states[k]; st != nil && st.parent >= 0; {
		e := gr.edges[st.parent]
		rev = append(rev, e.L)
		st = gr.states[e.S.Canon()]
	}
	for i, j := 0, len(rev)-1; i < j; i, j = i+1, j-1 {
		rev[i], rev[j] = rev[j], rev[i]
	}
	return rev
}

// annExplore model-checks Inv_C13 to depth mcOps and emits the transition graph to depth maxOps.
func annExplore(c *Ctx, lo *annLayout, maxOps, mcOps int) (*annGraph, int64, int64) {
	files := lo.files()
	files["gen_ann_mc.cfg"] = []byte(lo.config("ASpec", mcOps, annInvs, "Act_C13_LabelOpsKeepElements Act_C13_SplitKeepsBodies") + "VIEW AView\n")
	files["gen_ann_emit.cfg"] = []byte(lo.config("ASpecEmit", maxOps, "AEmitObs "+annInvs, "") + "VIEW AView\n")
	var mc, r *tlc.Result
	together(
		func() {
			if mcOps > maxOps || maxOps > 1 { // (below its first layer the emission follows DeepClasses only)
				annTLCSem <- struct{}{}
				defer func() { <-annTLCSem }()
				mc = c.MustModelCheck(tlc.Opts{Module: "Annotation_mc", Config: "gen_ann_mc.cfg", Files: files, Workers: 4, Timeout: 25 * time.Minute, HeapGB: 6})
			}
		},
		func() {
			annTLCSem <- struct{}{}
			defer func() { <-annTLCSem }()
			r = c.MustModelCheck(tlc.Opts{Module: "Annotation_mc", Config: "gen_ann_emit.cfg", Files: files, Workers: 4, Timeout: 25 * time.Minute, HeapGB: 6})
		})
	if mc == nil {
		mc = r
	}
	if os.Getenv("C13_DEBUG") != "" {
		fmt.Fprintf(os.Stderr, "c13: %s mc(depth %d) %.1fs, emit(depth %d) %.1fs\n", lo.name, mcOps, mc.WallS, maxOps, r.WallS)
	}
	gr := &annGraph{states: map[string]*annState{}}
	obsOf := map[string]annObs{}
	type rawEdge struct {
		S *annKey `json:"s"`
		L annOp   `json:"l"`
		T annKey  `json:"t"`
	}
	var raws []rawEdge
	PrintedJSON(r.Output, func(raw []byte) {
		var probe struct {
			K   *annKey `json:"k"`
			D   int     `json:"d"`
			Obs annObs  `json:"obs"`
		}
		if json.Unmarshal(raw, &probe) == nil && probe.K != nil {
			k := probe.K.Canon()
			obsOf[k] = probe.Obs
			if probe.D == 0 && gr.init == "" {
				gr.states[k] = &annState{key: *probe.K, obs: probe.Obs, parent: -1}
				gr.order = append(gr.order, k)
				gr.init = k
			}
			return
		}
		var e rawEdge
		if json.Unmarshal(raw, &e) == nil && e.S != nil && e.L.Op.Op != "" {
			raws = append(raws, e)
		}
	})
	if gr.init == "" {
		infra("Annotation_mc emitted no initial state: %s", r.Tail(2000))
	}
	// the emission may run on several TLC workers: rebuild the breadth-first order here
	bySrc := map[string][]int{}
	for i, e := range raws {
		sk := e.S.Canon()
		bySrc[sk] = append(bySrc[sk], i)
	}
	for qi := 0; qi < len(gr.order); qi++ {
		sk := gr.order[qi]
		src := gr.states[sk]
		idx := bySrc[sk]
		sort.Slice(idx, func(i, j int) bool { return jsonStr(raws[idx[i]].L) < jsonStr(raws[idx[j]].L) })
		for _, ri := range idx {
			e := raws[ri]
			tk := e.T.Canon()
			ob, ok := obsOf[tk]
			if !ok {
				continue
			}
			e.L.Op.NewSV, e.L.Op.OldSV, e.L.newMP = e.T.SV, e.S.SV, e.T.MP
			gr.edges = append(gr.edges, annEdge{S: *e.S, L: e.L, T: e.T, Obs: ob})
			ei := len(gr.edges) - 1
			src.out = append(src.out, ei)
			if _, ok := gr.states[tk]; !ok {
				gr.states[tk] = &annState{key: e.T, obs: ob, depth: src.depth + 1, parent: ei}
				gr.order = append(gr.order, tk)
			}
		}
	}
	if gr.init == "" || len(gr.edges) == 0 {
		infra("Annotation_mc emitted nothing: %s", r.Tail(2000))
	}
	return gr, mc.Distinct, mc.Generated
}

// annTLCSem bounds the number of TLC processes of this check that run at the same time.
var annTLCSem = make(chan struct{}, 6)

// together runs the functions concurrently and re-raises the first infrastructure error.
func together(fs ...func()) {
	var wg sync.WaitGroup
	errs := make([]interface{}, len(fs))
	for i, f := range fs {
		wg.Add(1)
		go func(i int, f func()) {
			defer wg.Done()
			defer func() { errs[i] = recover() }()
			f()
		}(i, f)
	}
	wg.Wait()
	for _, e := range errs {
		if e != nil {
			panic(e)
		}
	}
}

type annStep struct {
	L   annOp  `json:"l"`
	D   int    `json:"d"`
	K   annKey `json:"k"`
	Obs annObs `json:"obs"`
}

// annSimulate random-walks the specification: num behaviours of maxOps operations, every
// visited state with its expected observation.
func annSimulate(c *Ctx, lo *annLayout, num, maxOps int, seed int64) ([][]annStep, int64) {
	files := lo.files()
	files["gen_ann_sim.cfg"] = []byte(lo.config("ASpecSim", maxOps, "Inv_C13", ""))
	annTLCSem <- struct{}{}
	defer func() { <-annTLCSem }()
	for try := 0; try < 2; try++ {
		r := c.RunTLC(tlc.Opts{Module: "Annotation_sim", Config: "gen_ann_sim.cfg", Files: files, Workers: 1,
			Simulate: fmt.Sprintf("num=%d", num), Depth: 12*maxOps + 8, Seed: seed + int64(try)*7919, Timeout: 20 * time.Minute})
		var out [][]annStep
		PrintedJSON(r.Output, func(raw []byte) {
			var h []annStep
			if json.Unmarshal(raw, &h) == nil && len(h) > 1 && h[0].L.Op.Op == "init" {
				for i := range h {
					h[i].L.Op.NewSV, h[i].L.newMP = h[i].K.SV, h[i].K.MP
					if i > 0 {
						h[i].L.Op.OldSV = h[i-1].K.SV
					}
				}
				out = append(out, h)
			}
		})
		if r.Violation != "" {
			infra("tlc simulation of Annotation_mc reports: %s\n%s", r.Violation, r.Tail(3000))
		}
		if os.Getenv("C13_DEBUG") != "" {
			fmt.Fprintf(os.Stderr, "c13: %s simulate %d x %d: %.1fs\n", lo.name, num, maxOps, r.WallS)
		}
		if len(out) >= num {
			var st int64
			if m := reSimStates.FindStringSubmatch(r.Output); m != nil {
				fmt.Sscan(m[1], &st)
			}
			return out[:num], st
		}
		if try == 1 {
			infra("tlc simulation of Annotation_mc produced %d of %d behaviours\n%s", len(out), num, r.Tail(3000))
		}
	}
	return nil, 0
}

// ---------------------------------------------------------------------------
// the real side

type annDivergence struct {
	Kind      string      `json:"kind"`
	Layout    string      `json:"layout"`
	Positions [][3]int    `json:"voxel_of_position"`
	PosRegion []int       `json:"region_of_position"`
	InitSV    []uint64    `json:"initial_supervoxel_of_region"`
	InitMP    interface{} `json:"initial_mapping"`
	InitElems []annElem   `json:"initial_elements"`
	Path      []annOp     `json:"operations_from_initial_state"`
	Op        annOp       `json:"operation"`
	Request   string      `json:"request,omitempty"`
	Status    int         `json:"status,omitempty"`
	Body      string      `json:"response,omitempty"`
	Diffs     []string    `json:"diffs"`
	Labels    interface{} `json:"spec_to_real_labels,omitempty"`
	LogTail   string      `json:"server_log_tail,omitempty"`
}

type annWorker struct {
	c    *Ctx
	run  *ev.Run
	lo   *annLayout
	w    int
	in   *lmm.Inst
	n    *node.Node
	root string
	nbr  int
	// counters
	edges       *int64
	reqs        int64
	late        int64
	reloadDiffs []string
	syns, lszs  []string // annotation / labelsz instances of the repo
	otherOutcome int64   // moves onto an occupied position whose real outcome was the other permitted one
	cur          []annOp // operations leading to the state being compared (for messages)
}

func (w *annWorker) http(method, url string, body []byte) node.Resp {
	w.reqs++
	r, err := w.n.HTTP(method, url, body)
	must(err, method+" "+url)
	return r
}

func (w *annWorker) mustOK(method, url string, body []byte) node.Resp {
	r := w.http(method, url, body)
	if r.Status != 200 {
		infra("%s %s refused during setup: %d %s", method, url, r.Status, r.Bytes())
	}
	return r
}

func (w *annWorker) branch(parent string) string {
	w.nbr++
	r := w.mustOK("POST", "/api/node/"+parent+"/branch", []byte(fmt.Sprintf(`{"branch":"a%d_%d"}`, w.w, w.nbr)))
	var o struct{ Child string }
	json.Unmarshal(r.Bytes(), &o)
	return o.Child
}

func (w *annWorker) commit(u string) {
	w.mustOK("POST", "/api/node/"+u+"/commit", []byte(`{}`))
}

type realRel struct {
	Rel string
	To  [3]int
}

type realElem struct {
	Pos  [3]int
	Kind string
	Tags []string
	Rels []realRel `json:",omitempty"`
	Prop map[string]string
}

func (lo *annLayout) realElem(e annElem, withRels bool) realElem {
	re := realElem{Pos: lo.pos[e.Pos-1], Kind: e.Kind, Tags: []string{}, Prop: map[string]string{"v": fmt.Sprint(e.Prop)}}
	for _, t := range e.Tags {
		re.Tags = append(re.Tags, fmt.Sprintf("t%d", t))
	}
	if withRels {
		for _, r := range e.Rels {
			re.Rels = append(re.Rels, realRel{Rel: annRelNames[(r.T-1)%len(annRelNames)], To: lo.pos[r.To-1]})
		}
	}
	return re
}

func (lo *annLayout) realElems(es []annElem, withRels bool) []realElem {
	out := make([]realElem, 0, len(es))
	for _, e := range es {
		out = append(out, lo.realElem(e, withRels))
	}
	return out
}

func canonElem(e realElem, withRels bool) string {
	tags := append([]string(nil), e.Tags...)
	sort.Strings(tags)
	var rels []string
	if withRels {
		for _, r := range e.Rels {
			rels = append(rels, fmt.Sprintf("%s>%v", r.Rel, r.To))
		}
		sort.Strings(rels)
	}
	var props []string
	for k, v := range e.Prop {
		props = append(props, k+"="+v)
	}
	sort.Strings(props)
	s := fmt.Sprintf("%v %s tags%v prop%v", e.Pos, e.Kind, tags, props)
	if withRels {
		s += fmt.Sprintf(" rels%v", rels)
	}
	return s
}

func canonList(es []realElem, withRels bool) []string {
	out := make([]string, len(es))
	for i, e := range es {
		out[i] = canonElem(e, withRels)
	}
	sort.Strings(out)
	return out
}

func eqStrs(a, b []string) bool {
	if len(a) != len(b) {
		return false
	}
	for i := range a {
		if a[i] != b[i] {
			return false
		}
	}
	return true
}

// start builds the repo: labelmap with the initial voxels and mapping, annotation synced to
// it, labelsz synced to the annotation, an ROI, the initial elements; compares and commits.
func (w *annWorker) start(initObs annObs) (string, *lmm.Labels) {
	lo := w.lo
	w.n = w.c.StartNode(node.Config{AllowSplit: true})
	r := w.mustOK("POST", "/api/repos", []byte(`{"alias":"ann"}`))
	var o struct{ Root string }
	json.Unmarshal(r.Bytes(), &o)
	w.root = o.Root
	w.in = &lmm.Inst{N: w.n, G: lo.g, Name: "seg", Root: o.Root}
	if lo.labelarray {
		must(w.in.Create(map[string]string{"typename": "labelarray"}), "create labelarray")
	} else {
		must(w.in.Create(map[string]string{}), "create labelmap")
	}
	mk := func(typ, name string, extra map[string]string) {
		m := map[string]string{"typename": typ, "dataname": name}
		for k, v := range extra {
			m[k] = v
		}
		b, _ := json.Marshal(m)
		w.mustOK("POST", "/api/repo/"+o.Root+"/instance", b)
	}
	mk("annotation", "syn", nil)
	mk("labelsz", "lsz", nil)
	mk("roi", "zone", map[string]string{"BlockSize": fmt.Sprintf("%d,%d,%d", lo.g.BS, lo.g.BS, lo.g.BS)})
	base := "/api/node/" + o.Root
	w.mustOK("POST", base+"/syn/sync", []byte(`{"sync":"seg"}`))
	w.mustOK("POST", base+"/lsz/sync", []byte(`{"sync":"syn"}`))
	var spans [][4]int
	for _, b := range lo.roiBlocks {
		bc := lo.g.Blocks[b-1]
		spans = append(spans, [4]int{bc[2], bc[1], bc[0], bc[0]})
	}
	sb, _ := json.Marshal(spans)
	w.mustOK("POST", base+"/zone/roi", sb)
	// a second labelsz on the same annotation, restricted to the region of interest
	mk("labelsz", "lszroi", map[string]string{"ROI": "zone," + o.Root})
	w.mustOK("POST", base+"/lszroi/sync", []byte(`{"sync":"syn"}`))
	w.syns, w.lszs = []string{"syn"}, []string{"lsz", "lszroi"}
	if lo.fanout {
		// a second annotation fed by the same labelmap (block reads by one range scan), with its own labelsz
		mk("annotation", "syn2", nil)
		mk("labelsz", "lsz2", nil)
		w.mustOK("POST", base+"/syn2/sync", []byte(`{"sync":"seg"}`))
		w.mustOK("POST", base+"/lsz2/sync", []byte(`{"sync":"syn2"}`))
		w.mustOK("POST", base+"/syn2/tags", []byte(`{"ScanAllForBlocks":"true"}`))
		w.syns, w.lszs = append(w.syns, "syn2"), append(w.lszs, "lsz2")
	}
	isFresh := map[int]bool{}
	for _, b := range lo.fresh {
		isFresh[b] = true
	}
	var blocks []int
	for b := range lo.g.Blocks {
		if !isFresh[b+1] {
			blocks = append(blocks, b+1)
		}
	}
	must(w.in.Ingest(o.Root, lo.initSV, blocks, false), "ingest")
	must(w.in.Idle(), "idle")
	lab := lmm.NewLabels()
	// realise the initial mapping by merges
	groups := map[uint64][]uint64{}
	for s, b := range lo.initMP {
		if s != b {
			groups[b] = append(groups[b], s)
		}
	}
	var tgts []uint64
	for b := range groups {
		tgts = append(tgts, b)
	}
	sort.Slice(tgts, func(i, j int) bool { return tgts[i] < tgts[j] })
	for _, b := range tgts {
		m := groups[b]
		sort.Slice(m, func(i, j int) bool { return m[i] < m[j] })
		st, _, err := w.in.Apply(o.Root, lmm.Op{Op: "merge", Target: b, Merged: m}, lab)
		must(err, "initial merge")
		if st != 200 {
			infra("initial merge refused: %d", st)
		}
		must(w.in.Idle(), "idle")
	}
	initOp := annOp{Op: lmm.Op{Op: "post"}, Elems: lo.initElems}
	if len(lo.initElems) > 0 {
		pb, _ := json.Marshal(lo.realElems(lo.initElems, true))
		for _, syn := range w.syns {
			r := w.http("POST", base+"/"+syn+"/elements", pb)
			if r.Status != 200 {
				w.report("initial-post-refused", nil, initOp, "POST "+syn+"/elements "+string(pb), r, []string{fmt.Sprintf("status %d", r.Status)}, lab)
				return "", nil
			}
		}
	}
	if d := w.settle(o.Root, initObs, lab, 2*time.Second); len(d) > 0 {
		w.report("initial-state-mismatch", nil, initOp, "", node.Resp{}, d, lab)
		return "", nil
	}
	w.commit(o.Root)
	return o.Root, lab
}

func (w *annWorker) report(kind string, path []annOp, op annOp, req string, r node.Resp, diffs []string, lab *lmm.Labels) {
	if len(diffs) > 20 {
		diffs = diffs[:20]
	}
	lo := w.lo
	dv := annDivergence{Kind: kind, Layout: lo.name, Positions: lo.pos, PosRegion: lo.posRegion, InitSV: lo.initSV, InitMP: lo.initMP,
		InitElems: lo.initElems, Path: path, Op: op, Request: req, Status: r.Status, Diffs: diffs, LogTail: w.n.StderrTail(1500)}
	if r.Status != 0 {
		b := r.Bytes()
		if len(b) > 600 {
			b = b[:600]
		}
		dv.Body = string(b)
	}
	if lab != nil {
		dv.Labels = lab.ToReal
	}
	w.run.Violation("c13", dv)
}

func (w *annWorker) reloading(name string) bool {
	var o struct {
		Reloading bool `json:"reloading"`
	}
	must(w.n.Call("annotation.reloading", map[string]string{"uuid": w.root, "name": name}, &o), "annotation.reloading")
	return o.Reloading
}

func (w *annWorker) waitReload(name string) {
	deadline := time.Now().Add(30 * time.Second)
	time.Sleep(300 * time.Microsecond)
	for w.reloading(name) {
		if time.Now().After(deadline) {
			infra("reload of %s still running after 30 s", name)
		}
		time.Sleep(500 * time.Microsecond)
	}
}

// settle waits for quiescence and compares; a difference is re-read until it has been stable
// for the given time (sync handlers and reloads run in goroutines no request waits for).
func (w *annWorker) settle(uuid string, want annObs, lab *lmm.Labels, patience time.Duration) []string {
	return w.settlePart(uuid, want, lab, patience, true)
}

func (w *annWorker) settlePart(uuid string, want annObs, lab *lmm.Labels, patience time.Duration, withLsz bool) []string {
	must(w.n.Idle(), "idle")
	d := w.compare(uuid, want, lab, withLsz)
	if len(d) == 0 {
		return nil
	}
	deadline := time.Now().Add(patience)
	if strings.HasPrefix(d[0], annLabelsDiverged) && patience < 15*time.Second {
		// the label volume itself has not settled (not this property's matter): wait longer before
		// giving up with an infrastructure error
		deadline = time.Now().Add(15 * time.Second)
	}
	sleep := 2 * time.Millisecond
	for len(d) > 0 && time.Now().Before(deadline) {
		time.Sleep(sleep)
		if sleep < 100*time.Millisecond {
			sleep *= 2
		}
		must(w.n.Idle(), "idle")
		d = w.compare(uuid, want, lab, withLsz)
	}
	if len(d) == 0 {
		atomic.AddInt64(&w.late, 1)
	} else if strings.HasPrefix(d[0], annLabelsDiverged) {
		cur, _ := json.Marshal(w.cur)
		infra("%s [layout %s, version %s, after %s; server log: %s]", d[0], w.lo.name, uuid, cur, w.n.StderrTail(600))
	}
	return d
}

const annLabelsDiverged = "label volume diverged from the specification (property C08, not C13): "

// apply executes one specification operation at uuid.  It returns "" or the kind of failure.
func (w *annWorker) apply(uuid string, op annOp, want annObs, lab *lmm.Labels) (fail string, req string, resp node.Resp) {
	lo := w.lo
	base := "/api/node/" + uuid
	pt := func(p int) string { v := lo.pos[p-1]; return fmt.Sprintf("%d_%d_%d", v[0], v[1], v[2]) }
	// element operations go to every annotation instance of the repo
	each := func(insts []string, method, path string, body []byte) node.Resp {
		var r node.Resp
		for _, inst := range insts {
			r = w.http(method, base+"/"+inst+path, body)
			if r.Status != 200 {
				return r
			}
		}
		return r
	}
	switch op.Op.Op {
	case "post":
		b, _ := json.Marshal(lo.realElems(op.Elems, true))
		req = "POST syn/elements " + string(b)
		resp = each(w.syns, "POST", "/elements", b)
	case "delete":
		req = "DELETE syn/element/" + pt(op.Pos)
		resp = each(w.syns, "DELETE", "/element/"+pt(op.Pos), nil)
	case "move", "moveonto":
		req = "POST syn/move/" + pt(op.From) + "/" + pt(op.To)
		resp = each(w.syns, "POST", "/move/"+pt(op.From)+"/"+pt(op.To), nil)
	case "blocks", "blocksall":
		bkey := func(b int) string { bc := lo.g.Blocks[b-1]; return fmt.Sprintf("%d,%d,%d", bc[0], bc[1], bc[2]) }
		m := map[string][]realElem{}
		if op.Op.Op == "blocks" {
			m[bkey(op.Block)] = lo.realElems(op.Elems, true)
		} else {
			for _, b := range op.Touched {
				m[bkey(b)] = []realElem{}
			}
			for _, e := range op.Elems {
				k := bkey(lo.posBlock[e.Pos-1])
				m[k] = append(m[k], lo.realElem(e, true))
			}
		}
		q := map[string]string{"": "", "plain": "", "check": "?check=true", "lowmem": "?inmemory=false"}[op.Variant]
		b, _ := json.Marshal(m)
		req = "POST syn/blocks " + string(b) + "; POST syn/reload" + q + "; POST lsz/reload"
		if resp = each(w.syns, "POST", "/blocks", b); resp.Status != 200 {
			return "valid-operation-refused", req, resp
		}
		if resp = each(w.syns, "POST", "/reload"+q, nil); resp.Status != 200 {
			return "valid-operation-refused", req, resp
		}
		// the reload runs in a goroutine nothing waits for: the annotation views are compared as
		// "eventually within 10 s" before the labelsz reload (which reads them) is requested
		if d := w.settlePart(uuid, want, lab, 10*time.Second, false); len(d) > 0 {
			w.reloadDiffs = d
			return "views-differ-after-reload", req, resp
		}
		for _, syn := range w.syns {
			w.waitReload(syn)
		}
		if resp = each(w.lszs, "POST", "/reload", nil); resp.Status != 200 {
			return "valid-operation-refused", req, resp
		}
	case "merge", "cleave", "splitsv", "overwrite", "split", "renumber":
		lop := op.Op
		if lo.labelarray && lop.Op == "overwrite" {
			lop = w.bodiesOp(op)
		}
		st, _, err := w.in.Apply(uuid, lop, lab)
		must(err, "apply "+op.Op.Op)
		req = "labelmap " + op.Op.Op
		resp = node.Resp{Status: st}
		if op.Op.Op == "split" && st == 200 && lo.labelarray {
			lab.BindFromVolume = false // a labelarray split allocates the new body only
		} else if op.Op.Op == "split" && st == 200 {
			// the ids of the split / remain supervoxels are not in the response: bound from the voxels
			must(w.n.Idle(), "idle")
			bad, err := w.in.BindFromSupervoxels(uuid, op.Op.NewSV, lab)
			must(err, "bind supervoxels after split")
			if len(bad) > 0 {
				infra("%s%s", annLabelsDiverged, strings.Join(bad, "; "))
			}
		}
	case "ingest":
		lop := op.Op
		if lo.labelarray {
			lop = w.bodiesOp(op)
		}
		st, err := w.in.IngestFresh(uuid, lop, op.Block, op.Via, lab)
		must(err, "ingest")
		req = fmt.Sprintf("labelmap ingest of block %d via %s", op.Block, op.Via)
		resp = node.Resp{Status: st}
	case "restart":
		must(w.n.Idle(), "idle")
		must(w.n.Restart(true), "restart")
		req = "restart of the server"
		resp = node.Resp{Status: 200}
	case "postlabels":
		full := map[int]annElem{}
		for _, e := range want.All {
			full[e.Pos] = e
		}
		m := map[string]string{}
		for _, bd := range want.Bodies {
			if len(bd.Pos) == 0 {
				continue
			}
			var es []realElem
			for _, p := range bd.Pos {
				es = append(es, lo.realElem(full[p], false))
			}
			eb, _ := json.Marshal(es)
			m[fmt.Sprint(lab.Real(bd.Label))] = string(eb)
		}
		b, _ := json.Marshal(m)
		req = "POST syn/labels " + string(b)
		resp = each(w.syns, "POST", "/labels", b)
	default:
		infra("unknown specification operation %q", op.Op.Op)
	}
	if resp.Status != 200 {
		return "valid-operation-refused", req, resp
	}
	return "", req, resp
}

// bodiesOp rewrites a voxel write for a labelarray volume, whose voxels carry the body instead
// of a supervoxel: the arrays of the operation are mapped through the specification's mapping.
func (w *annWorker) bodiesOp(op annOp) lmm.Op {
	lop := op.Op
	body := func(s uint64) uint64 {
		if b, ok := op.newMP[fmt.Sprint(s)]; ok {
			return b
		}
		return s
	}
	lop.NewSV = make([]uint64, len(op.Op.NewSV))
	for i, s := range op.Op.NewSV {
		lop.NewSV[i] = body(s)
	}
	// a written supervoxel that is present is written as its body, a label the client knows; a
	// label new to the volume stays what it is (bound to a real label by the adapter)
	for _, l := range op.Op.OldSV {
		if l == op.Op.Label && l != 0 {
			lop.Label = body(l)
			lop.OldSV = append(append([]uint64(nil), op.Op.OldSV...), lop.Label)
		}
	}
	return lop
}

func (w *annWorker) getElems(url string, body []byte) ([]realElem, string) {
	r := w.http("GET", url, body)
	if r.Status != 200 {
		return nil, fmt.Sprintf("status %d %.200s", r.Status, r.Bytes())
	}
	var es []realElem
	b := r.Bytes()
	if len(b) == 0 || string(b) == "null" {
		return nil, ""
	}
	if err := json.Unmarshal(b, &es); err != nil {
		return nil, fmt.Sprintf("undecodable response %.200s: %v", b, err)
	}
	return es, ""
}

func (w *annWorker) getBlocks(url string) (map[int][]realElem, string) {
	r := w.http("GET", url, nil)
	if r.Status != 200 {
		return nil, fmt.Sprintf("status %d %.200s", r.Status, r.Bytes())
	}
	var m map[string][]realElem
	if err := json.Unmarshal(r.Bytes(), &m); err != nil {
		return nil, fmt.Sprintf("undecodable response %.200s: %v", r.Bytes(), err)
	}
	out := map[int][]realElem{}
	for k, es := range m {
		var x, y, z int
		if _, err := fmt.Sscanf(k, "%d,%d,%d", &x, &y, &z); err != nil {
			return nil, "bad block key " + k
		}
		bi := 0
		for i, bc := range w.lo.g.Blocks {
			if bc == [3]int{x, y, z} {
				bi = i + 1
			}
		}
		if bi == 0 {
			if len(es) > 0 {
				return nil, fmt.Sprintf("block %s outside the volume holds %d elements", k, len(es))
			}
			continue
		}
		if _, dup := out[bi]; dup {
			return nil, "block " + k + " listed twice"
		}
		out[bi] = es
	}
	return out, ""
}

// compare reads every endpoint of the property at uuid and compares with the derived views.
func (w *annWorker) compare(uuid string, want annObs, lab *lmm.Labels, withLsz bool) []string {
	lo := w.lo
	base := "/api/node/" + uuid
	// 0. the label volume is where the specification says (otherwise not an annotation matter)
	pb, _ := json.Marshal(lo.pos)
	r := w.http("GET", base+"/seg/labels", pb)
	var got []uint64
	json.Unmarshal(r.Bytes(), &got)
	if r.Status != 200 || len(got) != len(want.PosBody) {
		infra("GET seg/labels: %d %s", r.Status, r.Bytes())
	}
	for i := range got {
		if got[i] != lab.Real(want.PosBody[i]) {
			// voxel writes settle in goroutines no idle predicate covers: re-read before giving up
			return []string{fmt.Sprintf("%sposition %d reads body %d, specification %d (real %d)", annLabelsDiverged, i+1, got[i], want.PosBody[i], lab.Real(want.PosBody[i]))}
		}
	}
	var d []string
	for _, syn := range w.syns {
		d = append(d, w.compareAnn(uuid, syn, want, lab)...)
	}
	if !withLsz {
		return d
	}
	for _, lsz := range w.lszs {
		d = append(d, w.compareLsz(uuid, lsz, lsz == "lszroi", want, lab)...)
	}
	return d
}

// compareAnn: the read endpoints of one annotation instance.
func (w *annWorker) compareAnn(uuid, syn string, want annObs, lab *lmm.Labels) []string {
	lo := w.lo
	var d []string
	base := "/api/node/" + uuid + "/" + syn
	full := map[int]realElem{}
	for _, e := range want.All {
		full[e.Pos] = lo.realElem(e, true)
	}
	expect := func(ps []int) []realElem {
		out := make([]realElem, 0, len(ps))
		for _, p := range ps {
			out = append(out, full[p])
		}
		return out
	}
	cmp := func(what string, got []realElem, ps []int, withRels bool) {
		g, e := canonList(got, withRels), canonList(expect(ps), withRels)
		if !eqStrs(g, e) {
			d = append(d, fmt.Sprintf("%s %s returns %v, the element set gives %v", syn, what, g, e))
		}
	}
	// 1. all-elements
	bm, bad := w.getBlocks(base + "/all-elements")
	if bad != "" {
		d = append(d, syn+" all-elements: "+bad)
	} else {
		for b := 1; b <= len(lo.g.Blocks); b++ {
			cmp(fmt.Sprintf("all-elements block %d", b), bm[b], want.ByBlock[b-1], true)
		}
	}
	// 2. boxes: elements/<size>/<offset> and blocks/<size>/<offset>
	for x, bx := range lo.boxes {
		sz := fmt.Sprintf("%d_%d_%d/%d_%d_%d", bx.Size[0], bx.Size[1], bx.Size[2], bx.Off[0], bx.Off[1], bx.Off[2])
		es, bad := w.getElems(base+"/elements/"+sz, nil)
		if bad != "" {
			d = append(d, syn+" elements/"+sz+": "+bad)
		} else {
			cmp("elements/"+sz, es, want.InBox[x], true)
		}
		bm, bad := w.getBlocks(base + "/blocks/" + sz)
		if bad != "" {
			d = append(d, syn+" blocks/"+sz+": "+bad)
		} else {
			var all []realElem
			for b, es := range bm {
				inBox := false
				for _, bb := range bx.Blocks {
					if bb == b {
						inBox = true
					}
				}
				if !inBox && len(es) > 0 {
					d = append(d, fmt.Sprintf("%s blocks/%s returns block %d which does not intersect the box", syn, sz, b))
				}
				all = append(all, es...)
			}
			cmp("blocks/"+sz, all, want.BlocksOfBox[x], true)
		}
	}
	// 3. tags, with and without relationships
	for t := 1; t <= lo.nt; t++ {
		es, bad := w.getElems(fmt.Sprintf("%s/tag/t%d", base, t), nil)
		if bad != "" {
			d = append(d, fmt.Sprintf("%s tag/t%d: %s", syn, t, bad))
		} else {
			cmp(fmt.Sprintf("tag/t%d", t), es, want.ByTag[t-1], false)
		}
		es, bad = w.getElems(fmt.Sprintf("%s/tag/t%d?relationships=true", base, t), nil)
		if bad != "" {
			d = append(d, fmt.Sprintf("%s tag/t%d?relationships=true: %s", syn, t, bad))
		} else {
			cmp(fmt.Sprintf("tag/t%d?relationships=true", t), es, want.ByTag[t-1], true)
		}
	}
	es, bad := w.getElems(base+"/tag/neverused", nil)
	if bad != "" || len(es) != 0 {
		d = append(d, fmt.Sprintf("%s tag/neverused: %s %v", syn, bad, es))
	}
	// 4. bodies: label/<l>, and labels that are not bodies
	for _, q := range w.labelQueries(want, lab) {
		es, bad := w.getElems(fmt.Sprintf("%s/label/%d", base, q.real), nil)
		if bad != "" {
			d = append(d, fmt.Sprintf("%s label/%d: %s", syn, q.real, bad))
		} else {
			cmp(fmt.Sprintf("label/%d", q.real), es, q.pos, false)
		}
		es, bad = w.getElems(fmt.Sprintf("%s/label/%d?relationships=true", base, q.real), nil)
		if bad != "" {
			d = append(d, fmt.Sprintf("%s label/%d?relationships=true: %s", syn, q.real, bad))
		} else {
			cmp(fmt.Sprintf("label/%d?relationships=true", q.real), es, q.pos, true)
		}
	}
	// 5. region of interest
	es, bad = w.getElems(base+"/roi/zone", nil)
	if bad != "" {
		d = append(d, syn+" roi/zone: "+bad)
	} else {
		cmp("roi/zone", es, want.ROI, true)
	}
	// 6. scan: each of the four ways of walking the block keys sees a non-empty key for every block in use
	for _, q := range []string{"", "?byCoord=true", "?keysOnly=true", "?byCoord=true&keysOnly=true"} {
		r := w.http("GET", base+"/scan"+q, nil)
		var sc struct {
			NumKV    uint64 `json:"num kv pairs"`
			NumEmpty uint64 `json:"num empty blocks"`
		}
		if r.Status != 200 || json.Unmarshal(r.Bytes(), &sc) != nil {
			d = append(d, fmt.Sprintf("%s scan%s: %d %.200s", syn, q, r.Status, r.Bytes()))
			continue
		}
		if int(sc.NumKV)-int(sc.NumEmpty) < len(want.UsedBlocks) {
			d = append(d, fmt.Sprintf("%s scan%s reports %d block keys (%d empty), the element set occupies %d blocks", syn, q, sc.NumKV, sc.NumEmpty, len(want.UsedBlocks)))
		}
	}
	return d
}

type annLabelQuery struct {
	real uint64
	pos  []int
}

// labelQueries: every body with its positions, and the labels that are not bodies (nothing).
func (w *annWorker) labelQueries(want annObs, lab *lmm.Labels) []annLabelQuery {
	var lqs []annLabelQuery
	for _, b := range want.Bodies {
		lqs = append(lqs, annLabelQuery{lab.Real(b.Label), b.Pos})
	}
	for _, l := range want.Ghosts {
		// numbers the specification skipped (voxel edits take nxt+7) were never labels on the real
		// side, where the same number may have been handed out for another specification label
		if _, bound := lab.ToReal[l]; !bound && l > maxU64(w.lo.initSV) {
			continue
		}
		lqs = append(lqs, annLabelQuery{lab.Real(l), nil})
	}
	return lqs
}

// compareLsz: the read endpoints of one labelsz instance (roi: the instance restricted to the
// region of interest).
func (w *annWorker) compareLsz(uuid, lsz string, roi bool, want annObs, lab *lmm.Labels) []string {
	var d []string
	base := "/api/node/" + uuid + "/" + lsz
	var allLabels []uint64
	for _, q := range w.labelQueries(want, lab) {
		allLabels = append(allLabels, q.real)
	}
	lb, _ := json.Marshal(allLabels)
	for j, ix := range want.Index {
		wantCount := map[uint64]uint32{}
		countOf := func(i int) uint32 {
			if roi {
				return want.Bodies[i].RoiCounts[j]
			}
			return want.Bodies[i].Counts[j]
		}
		for i, b := range want.Bodies {
			wantCount[lab.Real(b.Label)] = countOf(i)
		}
		// counts (batch)
		r := w.http("GET", base+"/counts/"+ix.Name, lb)
		var cs []map[string]uint64
		if r.Status != 200 || json.Unmarshal(r.Bytes(), &cs) != nil || len(cs) != len(allLabels) {
			d = append(d, fmt.Sprintf("%s counts/%s %v: %d %.300s", lsz, ix.Name, allLabels, r.Status, r.Bytes()))
		} else {
			for i, l := range allLabels {
				if cs[i]["Label"] != l || uint32(cs[i][ix.Name]) != wantCount[l] {
					d = append(d, fmt.Sprintf("%s counts/%s: label %d answered %v, the element set gives %d", lsz, ix.Name, l, cs[i], wantCount[l]))
				}
			}
		}
		// count (single) for the bodies
		for i, b := range want.Bodies {
			l := lab.Real(b.Label)
			r := w.http("GET", fmt.Sprintf("%s/count/%d/%s", base, l, ix.Name), nil)
			var c map[string]uint64
			if r.Status != 200 || json.Unmarshal(r.Bytes(), &c) != nil || c["Label"] != l || uint32(c[ix.Name]) != countOf(i) {
				d = append(d, fmt.Sprintf("%s count/%d/%s: %d %.200s, the element set gives %d", lsz, l, ix.Name, r.Status, r.Bytes(), countOf(i)))
			}
		}
		// top and threshold: descending sizes; ties in any order; a label without elements of
		// the type is not listed
		ranked, atLeast2 := ix.Ranked, ix.AtLeast2
		if roi {
			ranked, atLeast2 = ix.RoiRanked, nil
			for _, x := range ix.RoiRanked {
				if x.N >= 2 {
					atLeast2 = append(atLeast2, x)
				}
			}
		}
		valid := map[string]bool{}
		for _, x := range ranked {
			valid[fmt.Sprintf("%d:%d", lab.Real(x.Label), x.N)] = true
		}
		rank := func(what string, wantSeq []annRank, alt ...[]annRank) {
			r := w.http("GET", base+"/"+what, nil)
			var got []struct {
				Label uint64
				Size  uint32
			}
			if r.Status != 200 || json.Unmarshal(r.Bytes(), &got) != nil {
				d = append(d, fmt.Sprintf("%s %s: %d %.200s", lsz, what, r.Status, r.Bytes()))
				return
			}
			ok := false
			for _, ws := range append([][]annRank{wantSeq}, alt...) {
				fits := len(got) == len(ws)
				seen := map[uint64]bool{}
				for i := 0; fits && i < len(got); i++ {
					if got[i].Size != ws[i].N || !valid[fmt.Sprintf("%d:%d", got[i].Label, got[i].Size)] || seen[got[i].Label] {
						fits = false
					}
					seen[got[i].Label] = true
				}
				ok = ok || fits
			}
			if !ok {
				var ws []string
				for _, x := range wantSeq {
					ws = append(ws, fmt.Sprintf("{%d %d}", lab.Real(x.Label), x.N))
				}
				d = append(d, fmt.Sprintf("%s %s returns %v, the element set gives %v (ties in any order)", lsz, what, got, ws))
			}
		}
		rank("top/20/"+ix.Name, ranked)
		if len(ranked) > 0 {
			rank("top/1/"+ix.Name, ranked[:1])
		}
		rank("threshold/1/"+ix.Name, ranked)
		rank("threshold/2/"+ix.Name, atLeast2)
		if len(ranked) > 1 {
			// "offset: the starting rank": the interface text leaves open whether ranks start at 0 or 1
			rank("threshold/1/"+ix.Name+"?offset=1&n=1", ranked[1:2], ranked[0:1])
		}
	}
	return d
}

func (w *annWorker) patience(op annOp) time.Duration {
	if op.Op.Op == "blocks" || op.Op.Op == "blocksall" {
		return 10 * time.Second
	}
	return 2 * time.Second
}

// step executes one transition in a fresh child branch of parent; it returns the child and
// whether the implementation is in the target state.  path = operations before op.
func (w *annWorker) step(parent string, path []annOp, op annOp, want annObs, lab *lmm.Labels) (string, bool) {
	child := w.branch(parent)
	w.cur = append(append([]annOp(nil), path...), op)
	fail, req, resp := w.apply(child, op, want, lab)
	atomic.AddInt64(w.edges, 1)
	if op.Op.Op == "moveonto" {
		// two outcomes are permitted (Annotation.tla MoveOnto); the transition is validated when
		// the server chose the outcome of this transition, its sibling transition covers the other
		if (op.Outcome == "refused") == (fail == "") {
			atomic.AddInt64(&w.otherOutcome, 1)
			return child, false
		}
		if op.Outcome == "refused" {
			if resp.Status < 400 || resp.Status >= 500 {
				w.report("refusal-is-not-a-client-error", path, op, req, resp, []string{fmt.Sprintf("status %d", resp.Status)}, lab)
				return child, false
			}
			fail = ""
		}
	}
	if fail == "views-differ-after-reload" {
		w.report(fail, path, op, req, node.Resp{}, w.reloadDiffs, lab)
		return child, false
	}
	if fail != "" {
		w.report(fail, path, op, req, resp, []string{fmt.Sprintf("status %d", resp.Status)}, lab)
		return child, false
	}
	d := w.settle(child, want, lab, w.patience(op))
	if op.Op.Op == "blocks" || op.Op.Op == "blocksall" {
		for _, lsz := range w.lszs {
			w.waitReload(lsz)
		}
	}
	if len(d) > 0 {
		w.report("views-differ-after-operation", path, op, req, node.Resp{}, d, lab)
		return child, false
	}
	return child, true
}

func opClass(op annOp) string {
	switch op.Op.Op {
	case "post":
		return fmt.Sprintf("post%d", len(op.Elems))
	case "blocks", "blocksall":
		return op.Op.Op + "+reload:" + op.Variant
	case "moveonto":
		return "moveonto:" + op.Outcome
	case "ingest":
		return "ingest:" + op.Via
	case "overwrite":
		if op.Op.Label == 0 {
			return "overwrite:erase"
		}
		for _, l := range op.Op.OldSV {
			if l == op.Op.Label {
				return "overwrite:present-supervoxel"
			}
		}
		return "overwrite:new-label"
	}
	return op.Op.Op
}

func checkC13(c *Ctx) int {
	run := ev.NewRun("C13", c.Tier, "model_checking")
	t0 := time.Now()
	rng := rand.New(rand.NewSource(c.Seed*7 + 13))
	small := lmm.NewGeom(c.Seed, true)
	small7 := lmm.NewGeomKind(c.Seed, true, true) // region 7 = the whole of block 4 (left un-ingested)
	without := func(all []string, drop ...string) []string {
		var out []string
		for _, x := range all {
			keep := true
			for _, d := range drop {
				if d == x {
					keep = false
				}
			}
			if keep {
				out = append(out, x)
			}
		}
		return out
	}
	mkSmall := func(name string, g *lmm.Geom, sv []uint64, mp map[uint64]uint64, spec [][2]int, present []int, nt int, kinds []string, fresh []int) *annLayout {
		lo := &annLayout{name: name, g: g, initSV: sv, initMP: mp, nt: nt, nrel: 2, kinds: kinds, fresh: fresh}
		lo.placePositions(rng, spec)
		lo.makeBoxes(rng)
		perm := rng.Perm(len(g.Blocks))
		lo.roiBlocks = []int{perm[0] + 1, perm[1] + 1}
		sort.Ints(lo.roiBlocks)
		lo.seededInitElems(rng, present)
		lo.overwrite = true
		lo.classes = annAllClasses
		if len(fresh) == 0 {
			lo.classes = without(annAllClasses, "ingest")
		}
		// below the first layer of the exhaustive graph: everything but the POST elements / POST blocks
		// families (hundreds of instances per state; the simulated behaviours chain those)
		lo.deep = without(lo.classes, "post1", "pair", "retag", "post3", "blocks")
		lo.variants = []string{"plain", "check", "lowmem"}
		return lo
	}
	// A: bodies 1 = {sv1 (regions 1,2), sv2 (region 3)} and 3 = {sv3 (region 4), sv4 (region 5)}, background region 6,
	//    block 4 (region 7) not ingested; positions: two in one region across blocks, three in block (0,0,0)
	//    (two of them on one body), one at negative x, one (present from the start) in the un-ingested block
	loA := mkSmall("small7/A", small7, []uint64{1, 1, 2, 3, 4, 0, 0}, map[uint64]uint64{1: 1, 2: 1, 3: 3, 4: 3},
		[][2]int{{2, 1}, {2, 2}, {4, 1}, {3, 3}, {3, 1}, {7, 4}}, []int{1, 3, 4, 6}, 2, []string{"PostSyn", "PreSyn", "Note"}, []int{4})
	// B: the single voxel region, a supervoxel spanning two blocks, background at negative coordinates; a second
	//    annotation and a second labelsz are fed by the same labelmap
	loB := mkSmall("small6/B", small, []uint64{5, 5, 6, 7, 7, 0}, map[uint64]uint64{5: 5, 6: 5, 7: 7},
		[][2]int{{1, 1}, {4, 1}, {5, 2}, {6, 3}, {3, 3}, {2, 2}}, []int{1, 2, 5, 6}, 2, []string{"PreSyn", "Gap", "Note", "Unknown"}, nil)
	loB.fanout = true
	// L: the annotation is synced to a labelarray volume (same specification, the voxels carry the body; no
	//    supervoxel operations): block 4 not ingested
	loL := mkSmall("small7/L", small7, []uint64{1, 1, 2, 3, 4, 0, 0}, map[uint64]uint64{1: 1, 2: 1, 3: 3, 4: 3},
		[][2]int{{2, 1}, {2, 2}, {4, 1}, {3, 3}, {3, 1}, {7, 4}}, []int{1, 3, 4, 6}, 2, []string{"PostSyn", "Gap", "Note"}, []int{4})
	loL.labelarray = true
	loL.classes = without(loL.classes, "cleave", "splitsv", "renumber", "overwritesv")
	loL.deep = without(loL.deep, "cleave", "splitsv", "renumber", "overwritesv")
	type plan struct {
		lo             *annLayout
		ops, mcOps     int
		simN, simOps   int
		subNum, subDen int // share of the depth-1 states whose outgoing transitions are replayed too
	}
	var plans []plan
	if c.thorough() {
		// C: three tags, all five kinds, seven positions
		loC := mkSmall("small7/C", small7, []uint64{2, 2, 3, 3, 4, 0, 0}, map[uint64]uint64{2: 2, 3: 2, 4: 4},
			[][2]int{{2, 1}, {2, 2}, {4, 1}, {3, 3}, {3, 1}, {7, 4}, {1, 1}}, []int{1, 2, 6, 7}, 3, []string{"PostSyn", "PreSyn", "Gap", "Note", "Unknown"}, []int{4})
		plans = []plan{{loA, 2, 2, 120, 10, 1, 8}, {loB, 1, 2, 120, 10, 0, 1}, {loC, 1, 2, 60, 10, 0, 1}, {loL, 1, 2, 60, 10, 0, 1}}
	} else {
		plans = []plan{{loA, 1, 2, 32, 8, 0, 1}, {loB, 1, 1, 24, 8, 0, 1}, {loL, 1, 1, 8, 8, 0, 1}}
	}
	if only := os.Getenv("C13_ONLY"); only != "" { // debugging aid: one layout
		var sel []plan
		for _, pl := range plans {
			if pl.lo.name == only {
				sel = append(sel, pl)
			}
		}
		plans = sel
	}
	var states, trans, edges, simStates, late, subtrees, afterRestart, otherOutcome int64
	var tlcS, replayS float64
	classes := map[string]int{}
	var cmu sync.Mutex
	count := func(op annOp) {
		cmu.Lock()
		classes[opClass(op)]++
		cmu.Unlock()
	}
	type tlcOut struct {
		gr     *annGraph
		s, t   int64
		traces [][]annStep
		ss     int64
	}
	outs := make([]tlcOut, len(plans))
	tp := time.Now()
	var fs, join []func()
	for pi := range plans {
		pi, pl := pi, plans[pi]
		fs = append(fs, func() { outs[pi].gr, outs[pi].s, outs[pi].t = annExplore(c, pl.lo, pl.ops, pl.mcOps) })
		parts := c.pick(2, 4)
		trs := make([][][]annStep, parts)
		sss := make([]int64, parts)
		for k := 0; k < parts; k++ {
			k := k
			fs = append(fs, func() {
				trs[k], sss[k] = annSimulate(c, pl.lo, pl.simN/parts, pl.simOps, c.Seed*1000+int64(pi)*10+int64(k)+1)
			})
		}
		join = append(join, func() {
			for k := range trs {
				outs[pi].traces = append(outs[pi].traces, trs[k]...)
				outs[pi].ss += sss[k]
			}
		})
	}
	together(fs...)
	for _, j := range join {
		j()
	}
	tlcS = since(tp)
	for pi, pl := range plans {
		lo := pl.lo
		gr, traces := outs[pi].gr, outs[pi].traces
		states += outs[pi].s
		trans += outs[pi].t
		simStates += outs[pi].ss
		tp := time.Now()
		nw := 12
		var next int64 = -1
		var wg sync.WaitGroup
		var firstErr atomic.Value
		for wi := 0; wi < nw; wi++ {
			wg.Add(1)
			go func(wi int) {
				defer wg.Done()
				defer func() {
					if e := recover(); e != nil {
						if ie, ok := e.(infraErr); ok {
							firstErr.Store(ie.err.Error())
						} else {
							firstErr.Store(fmt.Sprint(e))
						}
					}
				}()
				w := &annWorker{c: c, run: run, lo: lo, w: wi, edges: &edges}
				defer func() {
					atomic.AddInt64(&late, w.late)
					atomic.AddInt64(&otherOutcome, w.otherOutcome)
					if w.n != nil {
						c.DropNode(w.n)
					}
				}()
				var root string
				var lab *lmm.Labels
				// a repo is abandoned after ~200 versions: every DAG operation rewrites metadata whose
				// size grows with the number of versions
				fresh := func() bool {
					if w.n != nil && w.nbr < 200 {
						return true
					}
					if w.n != nil {
						c.DropNode(w.n)
						w.n = nil
					}
					w.nbr = 0
					root, lab = w.start(gr.states[gr.init].obs)
					return root != ""
				}
				var explore func(sk, uuid string, lab *lmm.Labels)
				explore = func(sk, uuid string, lab *lmm.Labels) {
					st := gr.states[sk]
					for _, ei := range st.out {
						e := gr.edges[ei]
						tk := e.T.Canon()
						cl := lab.Clone()
						child, ok := w.step(uuid, gr.pathTo(sk), e.L, e.Obs, cl)
						run.Eval(fmt.Sprintf("%s|%s|%d", lo.name, sk, ei))
						count(e.L)
						if ok && gr.states[tk].parent == ei && len(gr.states[tk].out) > 0 {
							w.commit(child)
							explore(tk, child, cl)
						}
					}
				}
				initOut := gr.states[gr.init].out
				for {
					item := int(atomic.AddInt64(&next, 1))
					if item >= len(initOut)+len(traces) {
						return
					}
					if !fresh() {
						return
					}
					if item < len(initOut) {
						// one transition from the initial state and (thorough) the transitions of its target
						ei := initOut[item]
						e := gr.edges[ei]
						tk := e.T.Canon()
						cl := lab.Clone()
						child, ok := w.step(root, nil, e.L, e.Obs, cl)
						run.Eval(fmt.Sprintf("%s|%s|%d", lo.name, gr.init, ei))
						count(e.L)
						if ok && e.L.Op.Op == "restart" {
							// the restarted server is in the initial state of the specification again: every
							// label operation (and element removal / move) enabled there must still reach the
							// annotation and, through it, the labelsz instances (subscriptions rebuilt at load)
							w.commit(child)
							for _, ej := range initOut {
								e2 := gr.edges[ej]
								switch e2.L.Op.Op {
								case "merge", "cleave", "splitsv", "split", "renumber", "overwrite", "ingest", "delete", "move":
									w.step(child, []annOp{e.L}, e2.L, e2.Obs, cl.Clone())
									run.Eval(fmt.Sprintf("%s|%s|restart+%d", lo.name, gr.init, ej))
									count(e2.L)
									atomic.AddInt64(&afterRestart, 1)
								}
							}
							continue
						}
						if ok && gr.states[tk].parent == ei && len(gr.states[tk].out) > 0 && (uint64(ei)*2654435761+uint64(c.Seed))%uint64(pl.subDen) < uint64(pl.subNum) {
							w.commit(child)
							explore(tk, child, cl)
							atomic.AddInt64(&subtrees, 1)
						}
						continue
					}
					// a simulated behaviour: a chain of versions
					ti := item - len(initOut)
					tr := traces[ti]
					if tr[0].K.Canon() != gr.init {
						infra("simulated behaviour does not start in the initial state")
					}
					uuid, cl := root, lab.Clone()
					var path []annOp
					for i := 1; i < len(tr); i++ {
						child, ok := w.step(uuid, path, tr[i].L, tr[i].Obs, cl)
						path = append(path, tr[i].L)
						run.Eval(fmt.Sprintf("%s|sim%d|%d", lo.name, ti, i))
						count(tr[i].L)
						if !ok {
							break
						}
						if i+1 < len(tr) {
							w.commit(child)
						}
						uuid = child
					}
				}
			}(wi)
		}
		wg.Wait()
		if e := firstErr.Load(); e != nil {
			infra("annotation worker: %v", e)
		}
		replayS += since(tp)
		ex := gr.edges[len(gr.edges)/2]
		run.Sample(map[string]interface{}{"layout": lo.name, "voxel_of_position": lo.pos, "region_of_position": lo.posRegion,
			"graph_states": len(gr.states), "graph_transitions": len(gr.edges), "simulated_behaviours": len(traces),
			"example_transition": ex.L, "example_expected_views": ex.Obs})
	}
	run.Set("states", states)
	run.Set("transitions", trans)
	run.Set("simulation_states_generated", simStates)
	run.Set("traces_validated_against_impl", edges)
	run.Set("operations_replayed_by_class", classes)
	run.Set("comparisons_that_needed_a_second_read", late)
	run.Set("depth1_states_with_all_outgoing_transitions_replayed", subtrees)
	run.Set("label_and_element_operations_replayed_right_after_a_restart", afterRestart)
	run.Set("moves_onto_an_occupied_position_where_the_server_took_the_other_permitted_outcome", otherOutcome)
	run.Set("tlc_wall_s", tlcS)
	run.Set("replay_wall_s", replayS)
	run.Set("rule", "case = one transition of Annotation.tla: POST elements (one element new/overwriting with every kind and tag set; two elements that exchange tag sets and become/stop being partners or get one tag set; three elements over several blocks, new and existing mixed); DELETE element; move onto every free position and onto every occupied one (refused, or the occupant replaced); on the synced labelmap merge, cleave, split-supervoxel, body split, renumber, a mutating voxel write of a region with a new label / 0 / every supervoxel present (own body or mapped), and the ingest (POST raw without mutate, POST blocks) of a block left unwritten that already holds an element, with a new label or a present (mapped) supervoxel; POST blocks replacing one block's content or every block in one request, followed by POST reload (plain, ?check=true, ?inmemory=false) of the annotation and reload of the labelsz instances; a clean restart of the server; POST labels with the current lists.  Replayed: every transition of the TLC state graph to the stated depth, after the restart transition every label operation / delete / move of the initial state again, plus every step of the simulated behaviours (operation class drawn uniformly, then an instance), each in a fresh child branch of the version holding the source state; after n.Idle() all-elements, elements/<size>/<offset> and blocks/<size>/<offset> for 10 boxes (negative offsets, single voxel, off-by-one borders), tag/<t> and label/<l> with and without relationships for every body and every label that is not a body, roi/<name>, scan (4 variants), labelsz count, counts, top, threshold (also ?offset&n) for the 5 index types on an unrestricted labelsz and on one restricted to the ROI are compared with the views TLC derived from the element set; in one layout a second annotation (ScanAllForBlocks) synced to the same labelmap with its own labelsz is driven and compared alike")
	run.Assume = []string{
		"clients keep relationships mutual: every POST leaves the reference graph symmetric (the property speaks of elements that reference each other)",
		"a move onto an occupied position may be refused (4xx, nothing changes) or replace the occupant; the interface text does not choose, the views must agree either way; the label state is checked against the specification before the views are compared (a labelmap divergence is C08's and is reported as an infrastructure error here)",
		"positions are <=8 voxels placed by seed inside known regions of the 4-block lmm geometry; label ids are compared modulo the bijection bound from the server's responses (body split: from the stored voxels)",
		"labelsz top/threshold: the order among equal counts is not prescribed; threshold?offset=1 may count ranks from 0 or from 1 (the interface text is ambiguous)",
		"the un-ingested block consists of one whole region; an ingest request (POST raw without mutate / POST blocks) is only sent for a block never written before - re-ingesting over stored labels is outside the interface contract",
		"scan: the property fixes no numbers; only that each of the four scan modes sees at least one non-empty key per block in use",
	}
	fmt.Printf("C13: tlc %d states / %d transitions model-checked, %d simulation states; %d transitions replayed in %.1fs (tlc %.1fs, replay %.1fs, %d late settles); violations=%d\n",
		states, trans, simStates, edges, since(t0), tlcS, replayS, late, run.Violations())
	return run.Finish()
}
