package main

// C13: annotation indexes are views of one element set, synced with labels.
//
// specs/Annotation.tla (element set, stored tag / body / count copies, Inv_C13) composed with
// specs/Labelmap.tla.  TLC model-checks Inv_C13 and emits (a) the complete transition graph to a
// small depth and (b) simulated behaviours beyond it, each state with the expected result of
// every read endpoint (AObs).  The graph / behaviours are replayed on an annotation instance
// synced to a labelmap instance, with a labelsz instance synced to the annotation, as a tree of
// versions (every transition in a fresh child branch of the version holding its source state).

import (
	"encoding/json"
	"fmt"
	"math/rand"
	"os"
	"sort"
	"strings"
	"sync"
	"sync/atomic"
	"time"

	"verifharness/internal/ev"
	"verifharness/internal/lmm"
	"verifharness/internal/node"
	"verifharness/internal/tlc"
)

func init() { checks["C13"] = checkC13 }

// ---------------------------------------------------------------------------
// specification values

type annRel struct {
	To int `json:"to"`
	T  int `json:"t"`
}

type annElem struct {
	Pos  int      `json:"pos"`
	Kind string   `json:"kind"`
	Tags []int    `json:"tags"`
	Rels []annRel `json:"rels"`
	Prop int      `json:"prop"`
}

type annKey struct {
	SV  []uint64   `json:"sv"`
	MP  lmm.MapU64 `json:"mp"`
	Nxt uint64     `json:"nxt"`
	All []annElem  `json:"all"`
}

func (k annKey) Canon() string {
	b, _ := json.Marshal(k.All)
	return lmm.Key{SV: k.SV, MP: k.MP, Nxt: k.Nxt}.Canon() + "|" + string(b)
}

// annOp is the `last` record: a Labelmap operation or an element operation.
type annOp struct {
	lmm.Op
	Elems []annElem `json:"elems,omitempty"`
	Pos   int       `json:"pos,omitempty"`
	From  int       `json:"from,omitempty"`
	To    int       `json:"to,omitempty"`
	Block int       `json:"block,omitempty"`
}

type annRank struct {
	Label uint64 `json:"label"`
	N     uint32 `json:"n"`
}

type annObs struct {
	All     []annElem `json:"all"`
	ByBlock [][]int   `json:"byBlock"`
	ByTag   [][]int   `json:"byTag"`
	Bodies  []struct {
		Label  uint64   `json:"label"`
		Pos    []int    `json:"pos"`
		Counts []uint32 `json:"counts"`
	} `json:"bodies"`
	Ghosts      []uint64 `json:"ghosts"`
	InBox       [][]int  `json:"inBox"`
	BlocksOfBox [][]int  `json:"blocksOfBox"`
	ROI         []int    `json:"roi"`
	PosBody     []uint64 `json:"posBody"`
	Index       []struct {
		Name     string    `json:"name"`
		Ranked   []annRank `json:"ranked"`
		AtLeast2 []annRank `json:"atLeast2"`
	} `json:"index"`
}

// ---------------------------------------------------------------------------
// layout: geometry, positions, boxes, initial label and element state

type annBox struct {
	Size, Off [3]int
	Pos       []int // positions inside
	Blocks    []int // blocks intersecting
}

type annLayout struct {
	name      string
	g         *lmm.Geom
	initSV    []uint64
	initMP    map[uint64]uint64
	pos       [][3]int
	posRegion []int
	posBlock  []int
	boxes     []annBox
	roiBlocks []int
	nt, nrel  int
	kinds     []string
	initElems []annElem
	overwrite bool // voxel edits (POST raw?mutate=true) are part of the alphabet
}

var annRelNames = []string{"PostSynTo", "PreSynTo", "ConvergentTo", "GroupedWith"}

func (lo *annLayout) P() int { return len(lo.pos) }

// placePositions picks one voxel inside (region, block) for every position: block borders
// and corners are preferred half of the time.
func (lo *annLayout) placePositions(rng *rand.Rand, spec [][2]int) {
	g := lo.g
	used := map[[3]int]bool{}
	for _, rb := range spec {
		r, b := rb[0], rb[1]
		bc := g.Blocks[b-1]
		var all, border [][3]int
		for z := bc[2] * g.BS; z < (bc[2]+1)*g.BS; z++ {
			for y := bc[1] * g.BS; y < (bc[1]+1)*g.BS; y++ {
				for x := bc[0] * g.BS; x < (bc[0]+1)*g.BS; x++ {
					if g.RegionAt(x, y, z) != r || used[[3]int{x, y, z}] {
						continue
					}
					all = append(all, [3]int{x, y, z})
					onB := 0
					for _, c := range []int{x - bc[0]*g.BS, y - bc[1]*g.BS, z - bc[2]*g.BS} {
						if c == 0 || c == g.BS-1 {
							onB++
						}
					}
					if onB >= 1 {
						border = append(border, [3]int{x, y, z})
					}
				}
			}
		}
		if len(all) == 0 {
			infra("no free voxel of region %d in block %d", r, b)
		}
		var p [3]int
		if len(border) > 0 && rng.Intn(2) == 0 {
			p = border[rng.Intn(len(border))]
		} else {
			p = all[rng.Intn(len(all))]
		}
		used[p] = true
		lo.pos = append(lo.pos, p)
		lo.posRegion = append(lo.posRegion, r)
		lo.posBlock = append(lo.posBlock, b)
	}
}

func (lo *annLayout) addBox(off, size [3]int) {
	g := lo.g
	bx := annBox{Size: size, Off: off}
	for i, p := range lo.pos {
		in := true
		for d := 0; d < 3; d++ {
			if p[d] < off[d] || p[d] >= off[d]+size[d] {
				in = false
			}
		}
		if in {
			bx.Pos = append(bx.Pos, i+1)
		}
	}
	for bi, bc := range g.Blocks {
		hit := true
		for d := 0; d < 3; d++ {
			if bc[d]*g.BS+g.BS-1 < off[d] || bc[d]*g.BS >= off[d]+size[d] {
				hit = false
			}
		}
		if hit {
			bx.Blocks = append(bx.Blocks, bi+1)
		}
	}
	lo.boxes = append(lo.boxes, bx)
}

func (lo *annLayout) makeBoxes(rng *rand.Rand) {
	g := lo.g
	lo.addBox(g.Min, g.Size)                             // everything
	lo.addBox([3]int{0, 0, 0}, [3]int{g.BS, g.BS, g.BS}) // exactly block (0,0,0)
	lo.addBox([3]int{-16, 8, 8}, [3]int{32, 24, 24})     // straddles x = 0
	lo.addBox([3]int{-40, -5, -5}, [3]int{30, 50, 50})   // negative offsets, partly outside the data
	p := lo.pos[rng.Intn(len(lo.pos))]
	lo.addBox(p, [3]int{1, 1, 1}) // a single voxel holding a position
	q := lo.pos[rng.Intn(len(lo.pos))]
	lo.addBox([3]int{q[0] - 9, q[1] - 4, q[2] - 2}, [3]int{10, 5, 3}) // the position is the last voxel inside
	lo.addBox([3]int{q[0] + 1, q[1], q[2]}, [3]int{12, 7, 9})         // the position is just outside
	for i := 0; i < 3; i++ {
		var off, size [3]int
		for d := 0; d < 3; d++ {
			off[d] = g.Min[d] - 4 + rng.Intn(g.Size[d])
			size[d] = 1 + rng.Intn(g.Size[d])
		}
		lo.addBox(off, size)
	}
}

// seededInitElems builds a well-formed initial element set: about half of the positions,
// seeded kinds and tags, one mutual relationship.
func (lo *annLayout) seededInitElems(rng *rand.Rand, present []int) {
	for _, p := range present {
		e := annElem{Pos: p, Kind: lo.kinds[rng.Intn(len(lo.kinds))], Prop: 1}
		for t := 1; t <= lo.nt; t++ {
			if rng.Intn(2) == 0 {
				e.Tags = append(e.Tags, t)
			}
		}
		lo.initElems = append(lo.initElems, e)
	}
	if len(lo.initElems) >= 2 {
		a, b := &lo.initElems[0], &lo.initElems[len(lo.initElems)-1]
		t := 1 + rng.Intn(lo.nrel)
		a.Rels = append(a.Rels, annRel{To: b.Pos, T: t})
		b.Rels = append(b.Rels, annRel{To: a.Pos, T: t})
	}
}

func tlaIntSeq(a []int) string {
	s := make([]string, len(a))
	for i, x := range a {
		s[i] = fmt.Sprint(x)
	}
	return "<<" + strings.Join(s, ", ") + ">>"
}

func (lo *annLayout) kindIndex(name string) int {
	for i, k := range lo.kinds {
		if k == name {
			return i + 1
		}
	}
	infra("kind %q not in the layout", name)
	return 0
}

// tlaConstants renders the generated module AnnGeom.
func (lo *annLayout) tlaConstants() string {
	var sb strings.Builder
	sb.WriteString("---- MODULE AnnGeom ----\nEXTENDS TLC\n")
	sb.WriteString("PosRegionDef == " + tlaIntSeq(lo.posRegion) + "\n")
	sb.WriteString("PosBlockDef == " + tlaIntSeq(lo.posBlock) + "\n")
	ks := make([]string, len(lo.kinds))
	for i, k := range lo.kinds {
		ks[i] = fmt.Sprintf("%q", k)
	}
	sb.WriteString("KindSeqDef == <<" + strings.Join(ks, ", ") + ">>\n")
	var svs []uint64
	for s := range lo.initMP {
		svs = append(svs, s)
	}
	sort.Slice(svs, func(i, j int) bool { return svs[i] < svs[j] })
	var mp []string
	for _, s := range svs {
		mp = append(mp, fmt.Sprintf("%d :> %d", s, lo.initMP[s]))
	}
	sb.WriteString("InitMPDef == (" + strings.Join(mp, " @@ ") + ")\n")
	if len(lo.initElems) == 0 {
		sb.WriteString("InitElemsDef == <<>>\n")
	} else {
		var es []string
		for _, e := range lo.initElems {
			var rels []string
			for _, r := range e.Rels {
				rels = append(rels, fmt.Sprintf("<<%d, %d>>", r.To, r.T))
			}
			es = append(es, fmt.Sprintf("%d :> [kind |-> %d, tags |-> %s, rels |-> {%s}, prop |-> %d]",
				e.Pos, lo.kindIndex(e.Kind), tlaIntSet(e.Tags), strings.Join(rels, ", "), e.Prop))
		}
		sb.WriteString("InitElemsDef == (" + strings.Join(es, " @@ ") + ")\n")
	}
	var bp, bb []string
	for _, b := range lo.boxes {
		bp = append(bp, tlaIntSet(b.Pos))
		bb = append(bb, tlaIntSet(b.Blocks))
	}
	sb.WriteString("BoxPosDef == <<" + strings.Join(bp, ", ") + ">>\n")
	sb.WriteString("BoxBlocksDef == <<" + strings.Join(bb, ", ") + ">>\n")
	sb.WriteString("ROIBlocksDef == " + tlaIntSet(lo.roiBlocks) + "\n====\n")
	return sb.String()
}

func (lo *annLayout) config(spec string, maxOps int, invariants, props string) string {
	s := fmt.Sprintf("SPECIFICATION %s\nCONSTANTS\n  R = %d\n  NB = %d\n  NVox <- NVoxDef\n  InitSV <- InitSVDef\n  InitMax = %d\n  MaxOps = %d\n  Classes1 <- Classes1Def\n  Classes2 <- Classes2Def\n  WithOverwrite = %s\n  WithSplit = FALSE\n",
		spec, lo.g.R, len(lo.g.Blocks), maxU64(lo.initSV), maxOps, map[bool]string{true: "TRUE", false: "FALSE"}[lo.overwrite])
	s += fmt.Sprintf("  P = %d\n  PosRegion <- PosRegionDef\n  PosBlock <- PosBlockDef\n  NT = %d\n  KindSeq <- KindSeqDef\n  NRel = %d\n  InitMP <- InitMPDef\n  InitElems <- InitElemsDef\n  NBox = %d\n  BoxPos <- BoxPosDef\n  BoxBlocks <- BoxBlocksDef\n  ROIBlocks <- ROIBlocksDef\n  MaxL = %d\n",
		lo.P(), lo.nt, lo.nrel, len(lo.boxes), int(maxU64(lo.initSV))+7*maxOps+2)
	s += "INVARIANTS " + invariants + "\n"
	if props != "" {
		s += "PROPERTIES " + props + "\n"
	}
	return s + "CHECK_DEADLOCK FALSE\n"
}

func (lo *annLayout) files() map[string][]byte {
	return map[string][]byte{
		"LabelGeom.tla": []byte(lo.g.TLAConstantsDownres(lo.initSV, nil, nil)),
		"AnnGeom.tla":   []byte(lo.tlaConstants()),
	}
}

const annInvs = "Inv_C13 Inv_C08_Conservation Inv_C12_NewLabelsFresh"

// ---------------------------------------------------------------------------
// TLC: exhaustive graph and simulated behaviours

type annEdge struct {
	S, T annKey
	L    annOp
	Obs  annObs
}

type annState struct {
	key    annKey
	obs    annObs
	depth  int
	parent int
	out    []int
}

type annGraph struct {
	states map[string]*annState
	order  []string
	edges  []annEdge
	init   string
}

func (gr *annGraph) pathTo(k string) []annOp {
	var rev []annOp
	for st := gr.states[k]; st != nil && st.parent >= 0; {
		e := gr.edges[st.parent]
		rev = append(rev, e.L)
		st = gr.states[e.S.Canon()]
	}
	for i, j := 0, len(rev)-1; i < j; i, j = i+1, j-1 {
		rev[i], rev[j] = rev[j], rev[i]
	}
	return rev
}

// annExplore model-checks Inv_C13 to depth mcOps and emits the transition graph to depth maxOps.
func annExplore(c *Ctx, lo *annLayout, maxOps, mcOps int) (*annGraph, int64, int64) {
	files := lo.files()
	files["gen_ann_mc.cfg"] = []byte(lo.config("ASpec", mcOps, annInvs, "Act_C13_LabelOpsKeepElements Act_C13_SplitKeepsBodies") + "VIEW AView\n")
	files["gen_ann_emit.cfg"] = []byte(lo.config("ASpecEmit", maxOps, "AEmitObs "+annInvs, "") + "VIEW AView\n")
	var mc, r *tlc.Result
	together(
		func() {
			if mcOps > maxOps {
				mc = c.MustModelCheck(tlc.Opts{Module: "Annotation_mc", Config: "gen_ann_mc.cfg", Files: files, Workers: 6, Timeout: 25 * time.Minute, HeapGB: 12})
			}
		},
		func() {
			r = c.MustModelCheck(tlc.Opts{Module: "Annotation_mc", Config: "gen_ann_emit.cfg", Files: files, Workers: 4, Timeout: 25 * time.Minute, HeapGB: 12})
		})
	if mc == nil {
		mc = r
	}
	if os.Getenv("C13_DEBUG") != "" {
		fmt.Fprintf(os.Stderr, "c13: %s mc(depth %d) %.1fs, emit(depth %d) %.1fs\n", lo.name, mcOps, mc.WallS, maxOps, r.WallS)
	}
	gr := &annGraph{states: map[string]*annState{}}
	obsOf := map[string]annObs{}
	type rawEdge struct {
		S *annKey `json:"s"`
		L annOp   `json:"l"`
		T annKey  `json:"t"`
	}
	var raws []rawEdge
	PrintedJSON(r.Output, func(raw []byte) {
		var probe struct {
			K   *annKey `json:"k"`
			D   int     `json:"d"`
			Obs annObs  `json:"obs"`
		}
		if json.Unmarshal(raw, &probe) == nil && probe.K != nil {
			k := probe.K.Canon()
			obsOf[k] = probe.Obs
			if probe.D == 0 && gr.init == "" {
				gr.states[k] = &annState{key: *probe.K, obs: probe.Obs, parent: -1}
				gr.order = append(gr.order, k)
				gr.init = k
			}
			return
		}
		var e rawEdge
		if json.Unmarshal(raw, &e) == nil && e.S != nil && e.L.Op.Op != "" {
			raws = append(raws, e)
		}
	})
	if gr.init == "" {
		infra("Annotation_mc emitted no initial state: %s", r.Tail(2000))
	}
	// the emission may run on several TLC workers: rebuild the breadth-first order here
	bySrc := map[string][]int{}
	for i, e := range raws {
		sk := e.S.Canon()
		bySrc[sk] = append(bySrc[sk], i)
	}
	for qi := 0; qi < len(gr.order); qi++ {
		sk := gr.order[qi]
		src := gr.states[sk]
		idx := bySrc[sk]
		sort.Slice(idx, func(i, j int) bool { return jsonStr(raws[idx[i]].L) < jsonStr(raws[idx[j]].L) })
		for _, ri := range idx {
			e := raws[ri]
			tk := e.T.Canon()
			ob, ok := obsOf[tk]
			if !ok {
				continue
			}
			if e.L.Op.Op == "overwrite" {
				e.L.Op.NewSV = e.T.SV
			}
			gr.edges = append(gr.edges, annEdge{S: *e.S, L: e.L, T: e.T, Obs: ob})
			ei := len(gr.edges) - 1
			src.out = append(src.out, ei)
			if _, ok := gr.states[tk]; !ok {
				gr.states[tk] = &annState{key: e.T, obs: ob, depth: src.depth + 1, parent: ei}
				gr.order = append(gr.order, tk)
			}
		}
	}
	if gr.init == "" || len(gr.edges) == 0 {
		infra("Annotation_mc emitted nothing: %s", r.Tail(2000))
	}
	return gr, mc.Distinct, mc.Generated
}

// together runs the functions concurrently and re-raises the first infrastructure error.
func together(fs ...func()) {
	var wg sync.WaitGroup
	errs := make([]interface{}, len(fs))
	for i, f := range fs {
		wg.Add(1)
		go func(i int, f func()) {
			defer wg.Done()
			defer func() { errs[i] = recover() }()
			f()
		}(i, f)
	}
	wg.Wait()
	for _, e := range errs {
		if e != nil {
			panic(e)
		}
	}
}

type annStep struct {
	L   annOp  `json:"l"`
	D   int    `json:"d"`
	K   annKey `json:"k"`
	Obs annObs `json:"obs"`
}

// annSimulate random-walks the specification: num behaviours of maxOps operations, every
// visited state with its expected observation.
func annSimulate(c *Ctx, lo *annLayout, num, maxOps int, seed int64) ([][]annStep, int64) {
	files := lo.files()
	files["gen_ann_sim.cfg"] = []byte(lo.config("ASpecSim", maxOps, "Inv_C13", ""))
	for try := 0; try < 2; try++ {
		r := c.RunTLC(tlc.Opts{Module: "Annotation_sim", Config: "gen_ann_sim.cfg", Files: files, Workers: 1,
			Simulate: fmt.Sprintf("num=%d", num), Depth: 2*maxOps + 4, Seed: seed + int64(try)*7919, Timeout: 20 * time.Minute})
		var out [][]annStep
		PrintedJSON(r.Output, func(raw []byte) {
			var h []annStep
			if json.Unmarshal(raw, &h) == nil && len(h) > 1 && h[0].L.Op.Op == "init" {
				for i := range h {
					if h[i].L.Op.Op == "overwrite" {
						h[i].L.Op.NewSV = h[i].K.SV
					}
				}
				out = append(out, h)
			}
		})
		if r.Violation != "" {
			infra("tlc simulation of Annotation_mc reports: %s\n%s", r.Violation, r.Tail(3000))
		}
		if os.Getenv("C13_DEBUG") != "" {
			fmt.Fprintf(os.Stderr, "c13: %s simulate %d x %d: %.1fs\n", lo.name, num, maxOps, r.WallS)
		}
		if len(out) >= num {
			var st int64
			if m := reSimStates.FindStringSubmatch(r.Output); m != nil {
				fmt.Sscan(m[1], &st)
			}
			return out[:num], st
		}
		if try == 1 {
			infra("tlc simulation of Annotation_mc produced %d of %d behaviours\n%s", len(out), num, r.Tail(3000))
		}
	}
	return nil, 0
}

// ---------------------------------------------------------------------------
// the real side

type annDivergence struct {
	Kind      string      `json:"kind"`
	Layout    string      `json:"layout"`
	Positions [][3]int    `json:"voxel_of_position"`
	PosRegion []int       `json:"region_of_position"`
	InitSV    []uint64    `json:"initial_supervoxel_of_region"`
	InitMP    interface{} `json:"initial_mapping"`
	InitElems []annElem   `json:"initial_elements"`
	Path      []annOp     `json:"operations_from_initial_state"`
	Op        annOp       `json:"operation"`
	Request   string      `json:"request,omitempty"`
	Status    int         `json:"status,omitempty"`
	Body      string      `json:"response,omitempty"`
	Diffs     []string    `json:"diffs"`
	Labels    interface{} `json:"spec_to_real_labels,omitempty"`
	LogTail   string      `json:"server_log_tail,omitempty"`
}

type annWorker struct {
	c    *Ctx
	run  *ev.Run
	lo   *annLayout
	w    int
	in   *lmm.Inst
	n    *node.Node
	root string
	nbr  int
	// counters
	edges       *int64
	reqs        int64
	late        int64
	reloadDiffs []string
}

func (w *annWorker) http(method, url string, body []byte) node.Resp {
	w.reqs++
	r, err := w.n.HTTP(method, url, body)
	must(err, method+" "+url)
	return r
}

func (w *annWorker) mustOK(method, url string, body []byte) node.Resp {
	r := w.http(method, url, body)
	if r.Status != 200 {
		infra("%s %s refused during setup: %d %s", method, url, r.Status, r.Bytes())
	}
	return r
}

func (w *annWorker) branch(parent string) string {
	w.nbr++
	r := w.mustOK("POST", "/api/node/"+parent+"/branch", []byte(fmt.Sprintf(`{"branch":"a%d_%d"}`, w.w, w.nbr)))
	var o struct{ Child string }
	json.Unmarshal(r.Bytes(), &o)
	return o.Child
}

func (w *annWorker) commit(u string) {
	w.mustOK("POST", "/api/node/"+u+"/commit", []byte(`{}`))
}

type realRel struct {
	Rel string
	To  [3]int
}

type realElem struct {
	Pos  [3]int
	Kind string
	Tags []string
	Rels []realRel `json:",omitempty"`
	Prop map[string]string
}

func (lo *annLayout) realElem(e annElem, withRels bool) realElem {
	re := realElem{Pos: lo.pos[e.Pos-1], Kind: e.Kind, Tags: []string{}, Prop: map[string]string{"v": fmt.Sprint(e.Prop)}}
	for _, t := range e.Tags {
		re.Tags = append(re.Tags, fmt.Sprintf("t%d", t))
	}
	if withRels {
		for _, r := range e.Rels {
			re.Rels = append(re.Rels, realRel{Rel: annRelNames[(r.T-1)%len(annRelNames)], To: lo.pos[r.To-1]})
		}
	}
	return re
}

func (lo *annLayout) realElems(es []annElem, withRels bool) []realElem {
	out := make([]realElem, 0, len(es))
	for _, e := range es {
		out = append(out, lo.realElem(e, withRels))
	}
	return out
}

func canonElem(e realElem, withRels bool) string {
	tags := append([]string(nil), e.Tags...)
	sort.Strings(tags)
	var rels []string
	if withRels {
		for _, r := range e.Rels {
			rels = append(rels, fmt.Sprintf("%s>%v", r.Rel, r.To))
		}
		sort.Strings(rels)
	}
	var props []string
	for k, v := range e.Prop {
		props = append(props, k+"="+v)
	}
	sort.Strings(props)
	s := fmt.Sprintf("%v %s tags%v prop%v", e.Pos, e.Kind, tags, props)
	if withRels {
		s += fmt.Sprintf(" rels%v", rels)
	}
	return s
}

func canonList(es []realElem, withRels bool) []string {
	out := make([]string, len(es))
	for i, e := range es {
		out[i] = canonElem(e, withRels)
	}
	sort.Strings(out)
	return out
}

func eqStrs(a, b []string) bool {
	if len(a) != len(b) {
		return false
	}
	for i := range a {
		if a[i] != b[i] {
			return false
		}
	}
	return true
}

// start builds the repo: labelmap with the initial voxels and mapping, annotation synced to
// it, labelsz synced to the annotation, an ROI, the initial elements; compares and commits.
func (w *annWorker) start(initObs annObs) (string, *lmm.Labels) {
	lo := w.lo
	w.n = w.c.StartNode(node.Config{})
	r := w.mustOK("POST", "/api/repos", []byte(`{"alias":"ann"}`))
	var o struct{ Root string }
	json.Unmarshal(r.Bytes(), &o)
	w.root = o.Root
	w.in = &lmm.Inst{N: w.n, G: lo.g, Name: "seg", Root: o.Root}
	must(w.in.Create(map[string]string{}), "create labelmap")
	mk := func(typ, name string, extra map[string]string) {
		m := map[string]string{"typename": typ, "dataname": name}
		for k, v := range extra {
			m[k] = v
		}
		b, _ := json.Marshal(m)
		w.mustOK("POST", "/api/repo/"+o.Root+"/instance", b)
	}
	mk("annotation", "syn", nil)
	mk("labelsz", "lsz", nil)
	mk("roi", "zone", map[string]string{"BlockSize": fmt.Sprintf("%d,%d,%d", lo.g.BS, lo.g.BS, lo.g.BS)})
	base := "/api/node/" + o.Root
	w.mustOK("POST", base+"/syn/sync", []byte(`{"sync":"seg"}`))
	w.mustOK("POST", base+"/lsz/sync", []byte(`{"sync":"syn"}`))
	var spans [][4]int
	for _, b := range lo.roiBlocks {
		bc := lo.g.Blocks[b-1]
		spans = append(spans, [4]int{bc[2], bc[1], bc[0], bc[0]})
	}
	sb, _ := json.Marshal(spans)
	w.mustOK("POST", base+"/zone/roi", sb)
	var blocks []int
	for b := range lo.g.Blocks {
		blocks = append(blocks, b+1)
	}
	must(w.in.Ingest(o.Root, lo.initSV, blocks, false), "ingest")
	must(w.in.Idle(), "idle")
	lab := lmm.NewLabels()
	// realise the initial mapping by merges
	groups := map[uint64][]uint64{}
	for s, b := range lo.initMP {
		if s != b {
			groups[b] = append(groups[b], s)
		}
	}
	var tgts []uint64
	for b := range groups {
		tgts = append(tgts, b)
	}
	sort.Slice(tgts, func(i, j int) bool { return tgts[i] < tgts[j] })
	for _, b := range tgts {
		m := groups[b]
		sort.Slice(m, func(i, j int) bool { return m[i] < m[j] })
		st, _, err := w.in.Apply(o.Root, lmm.Op{Op: "merge", Target: b, Merged: m}, lab)
		must(err, "initial merge")
		if st != 200 {
			infra("initial merge refused: %d", st)
		}
		must(w.in.Idle(), "idle")
	}
	initOp := annOp{Op: lmm.Op{Op: "post"}, Elems: lo.initElems}
	if len(lo.initElems) > 0 {
		pb, _ := json.Marshal(lo.realElems(lo.initElems, true))
		r := w.http("POST", base+"/syn/elements", pb)
		if r.Status != 200 {
			w.report("initial-post-refused", nil, initOp, "POST syn/elements "+string(pb), r, []string{fmt.Sprintf("status %d", r.Status)}, lab)
			return "", nil
		}
	}
	if d := w.settle(o.Root, initObs, lab, 2*time.Second); len(d) > 0 {
		w.report("initial-state-mismatch", nil, initOp, "", node.Resp{}, d, lab)
		return "", nil
	}
	w.commit(o.Root)
	return o.Root, lab
}

func (w *annWorker) report(kind string, path []annOp, op annOp, req string, r node.Resp, diffs []string, lab *lmm.Labels) {
	if len(diffs) > 20 {
		diffs = diffs[:20]
	}
	lo := w.lo
	dv := annDivergence{Kind: kind, Layout: lo.name, Positions: lo.pos, PosRegion: lo.posRegion, InitSV: lo.initSV, InitMP: lo.initMP,
		InitElems: lo.initElems, Path: path, Op: op, Request: req, Status: r.Status, Diffs: diffs, LogTail: w.n.StderrTail(1500)}
	if r.Status != 0 {
		b := r.Bytes()
		if len(b) > 600 {
			b = b[:600]
		}
		dv.Body = string(b)
	}
	if lab != nil {
		dv.Labels = lab.ToReal
	}
	w.run.Violation("c13", dv)
}

func (w *annWorker) reloading(name string) bool {
	var o struct {
		Reloading bool `json:"reloading"`
	}
	must(w.n.Call("annotation.reloading", map[string]string{"uuid": w.root, "name": name}, &o), "annotation.reloading")
	return o.Reloading
}

func (w *annWorker) waitReload(name string) {
	deadline := time.Now().Add(30 * time.Second)
	time.Sleep(300 * time.Microsecond)
	for w.reloading(name) {
		if time.Now().After(deadline) {
			infra("reload of %s still running after 30 s", name)
		}
		time.Sleep(500 * time.Microsecond)
	}
}

// settle waits for quiescence and compares; a difference is re-read until it has been stable
// for the given time (sync handlers and reloads run in goroutines no request waits for).
func (w *annWorker) settle(uuid string, want annObs, lab *lmm.Labels, patience time.Duration) []string {
	return w.settlePart(uuid, want, lab, patience, true)
}

func (w *annWorker) settlePart(uuid string, want annObs, lab *lmm.Labels, patience time.Duration, withLsz bool) []string {
	must(w.n.Idle(), "idle")
	d := w.compare(uuid, want, lab, withLsz)
	if len(d) == 0 {
		return nil
	}
	deadline := time.Now().Add(patience)
	sleep := 2 * time.Millisecond
	for len(d) > 0 && time.Now().Before(deadline) {
		time.Sleep(sleep)
		if sleep < 100*time.Millisecond {
			sleep *= 2
		}
		must(w.n.Idle(), "idle")
		d = w.compare(uuid, want, lab, withLsz)
	}
	if len(d) == 0 {
		atomic.AddInt64(&w.late, 1)
	} else if strings.HasPrefix(d[0], annLabelsDiverged) {
		infra("%s", d[0])
	}
	return d
}

const annLabelsDiverged = "label volume diverged from the specification (property C08, not C13): "

// apply executes one specification operation at uuid.  It returns "" or the kind of failure.
func (w *annWorker) apply(uuid string, op annOp, want annObs, lab *lmm.Labels) (fail string, req string, resp node.Resp) {
	lo := w.lo
	base := "/api/node/" + uuid
	pt := func(p int) string { v := lo.pos[p-1]; return fmt.Sprintf("%d_%d_%d", v[0], v[1], v[2]) }
	switch op.Op.Op {
	case "post":
		b, _ := json.Marshal(lo.realElems(op.Elems, true))
		req = "POST syn/elements " + string(b)
		resp = w.http("POST", base+"/syn/elements", b)
	case "delete":
		req = "DELETE syn/element/" + pt(op.Pos)
		resp = w.http("DELETE", base+"/syn/element/"+pt(op.Pos), nil)
	case "move":
		req = "POST syn/move/" + pt(op.From) + "/" + pt(op.To)
		resp = w.http("POST", base+"/syn/move/"+pt(op.From)+"/"+pt(op.To), nil)
	case "blocks":
		bc := lo.g.Blocks[op.Block-1]
		m := map[string][]realElem{fmt.Sprintf("%d,%d,%d", bc[0], bc[1], bc[2]): lo.realElems(op.Elems, true)}
		b, _ := json.Marshal(m)
		req = "POST syn/blocks " + string(b) + "; POST syn/reload; POST lsz/reload"
		resp = w.http("POST", base+"/syn/blocks", b)
		if resp.Status != 200 {
			return "valid-operation-refused", req, resp
		}
		resp = w.http("POST", base+"/syn/reload", nil)
		if resp.Status != 200 {
			return "valid-operation-refused", req, resp
		}
		// the reload runs in a goroutine nothing waits for: the annotation views are compared as
		// "eventually within 10 s" before the labelsz reload (which reads them) is requested
		if d := w.settlePart(uuid, want, lab, 10*time.Second, false); len(d) > 0 {
			w.reloadDiffs = d
			return "views-differ-after-reload", req, resp
		}
		w.waitReload("syn")
		resp = w.http("POST", base+"/lsz/reload", nil)
		if resp.Status != 200 {
			return "valid-operation-refused", req, resp
		}
	case "merge", "cleave", "splitsv", "overwrite":
		st, _, err := w.in.Apply(uuid, op.Op, lab)
		must(err, "apply "+op.Op.Op)
		req = "labelmap " + op.Op.Op
		resp = node.Resp{Status: st}
	default:
		infra("unknown specification operation %q", op.Op.Op)
	}
	if resp.Status != 200 {
		return "valid-operation-refused", req, resp
	}
	return "", req, resp
}

func (w *annWorker) getElems(url string, body []byte) ([]realElem, string) {
	r := w.http("GET", url, body)
	if r.Status != 200 {
		return nil, fmt.Sprintf("status %d %.200s", r.Status, r.Bytes())
	}
	var es []realElem
	b := r.Bytes()
	if len(b) == 0 || string(b) == "null" {
		return nil, ""
	}
	if err := json.Unmarshal(b, &es); err != nil {
		return nil, fmt.Sprintf("undecodable response %.200s: %v", b, err)
	}
	return es, ""
}

func (w *annWorker) getBlocks(url string) (map[int][]realElem, string) {
	r := w.http("GET", url, nil)
	if r.Status != 200 {
		return nil, fmt.Sprintf("status %d %.200s", r.Status, r.Bytes())
	}
	var m map[string][]realElem
	if err := json.Unmarshal(r.Bytes(), &m); err != nil {
		return nil, fmt.Sprintf("undecodable response %.200s: %v", r.Bytes(), err)
	}
	out := map[int][]realElem{}
	for k, es := range m {
		var x, y, z int
		if _, err := fmt.Sscanf(k, "%d,%d,%d", &x, &y, &z); err != nil {
			return nil, "bad block key " + k
		}
		bi := 0
		for i, bc := range w.lo.g.Blocks {
			if bc == [3]int{x, y, z} {
				bi = i + 1
			}
		}
		if bi == 0 {
			if len(es) > 0 {
				return nil, fmt.Sprintf("block %s outside the volume holds %d elements", k, len(es))
			}
			continue
		}
		if _, dup := out[bi]; dup {
			return nil, "block " + k + " listed twice"
		}
		out[bi] = es
	}
	return out, ""
}

// compare reads every endpoint of the property at uuid and compares with the derived views.
func (w *annWorker) compare(uuid string, want annObs, lab *lmm.Labels, withLsz bool) []string {
	lo := w.lo
	var d []string
	base := "/api/node/" + uuid
	full := map[int]realElem{}
	for _, e := range want.All {
		full[e.Pos] = lo.realElem(e, true)
	}
	expect := func(ps []int) []realElem {
		out := make([]realElem, 0, len(ps))
		for _, p := range ps {
			out = append(out, full[p])
		}
		return out
	}
	cmp := func(what string, got []realElem, ps []int, withRels bool) {
		g, e := canonList(got, withRels), canonList(expect(ps), withRels)
		if !eqStrs(g, e) {
			d = append(d, fmt.Sprintf("%s returns %v, the element set gives %v", what, g, e))
		}
	}
	// 0. the label volume is where the specification says (otherwise not an annotation matter)
	pb, _ := json.Marshal(lo.pos)
	r := w.http("GET", base+"/seg/labels", pb)
	var got []uint64
	json.Unmarshal(r.Bytes(), &got)
	if r.Status != 200 || len(got) != len(want.PosBody) {
		infra("GET seg/labels: %d %s", r.Status, r.Bytes())
	}
	for i := range got {
		if got[i] != lab.Real(want.PosBody[i]) {
			// voxel writes settle in goroutines no idle predicate covers: re-read before giving up
			return []string{fmt.Sprintf("%sposition %d reads body %d, specification %d (real %d)", annLabelsDiverged, i+1, got[i], want.PosBody[i], lab.Real(want.PosBody[i]))}
		}
	}
	// 1. all-elements
	bm, bad := w.getBlocks(base + "/syn/all-elements")
	if bad != "" {
		d = append(d, "all-elements: "+bad)
	} else {
		for b := 1; b <= len(lo.g.Blocks); b++ {
			cmp(fmt.Sprintf("all-elements block %d", b), bm[b], want.ByBlock[b-1], true)
		}
	}
	// 2. boxes: elements/<size>/<offset> and blocks/<size>/<offset>
	for x, bx := range lo.boxes {
		sz := fmt.Sprintf("%d_%d_%d/%d_%d_%d", bx.Size[0], bx.Size[1], bx.Size[2], bx.Off[0], bx.Off[1], bx.Off[2])
		es, bad := w.getElems(base+"/syn/elements/"+sz, nil)
		if bad != "" {
			d = append(d, "elements/"+sz+": "+bad)
		} else {
			cmp("elements/"+sz, es, want.InBox[x], true)
		}
		bm, bad := w.getBlocks(base + "/syn/blocks/" + sz)
		if bad != "" {
			d = append(d, "blocks/"+sz+": "+bad)
		} else {
			var all []realElem
			for b, es := range bm {
				inBox := false
				for _, bb := range bx.Blocks {
					if bb == b {
						inBox = true
					}
				}
				if !inBox && len(es) > 0 {
					d = append(d, fmt.Sprintf("blocks/%s returns block %d which does not intersect the box", sz, b))
				}
				all = append(all, es...)
			}
			cmp("blocks/"+sz, all, want.BlocksOfBox[x], true)
		}
	}
	// 3. tags, with and without relationships
	for t := 1; t <= lo.nt; t++ {
		es, bad := w.getElems(fmt.Sprintf("%s/syn/tag/t%d", base, t), nil)
		if bad != "" {
			d = append(d, fmt.Sprintf("tag/t%d: %s", t, bad))
		} else {
			cmp(fmt.Sprintf("tag/t%d", t), es, want.ByTag[t-1], false)
		}
		es, bad = w.getElems(fmt.Sprintf("%s/syn/tag/t%d?relationships=true", base, t), nil)
		if bad != "" {
			d = append(d, fmt.Sprintf("tag/t%d?relationships=true: %s", t, bad))
		} else {
			cmp(fmt.Sprintf("tag/t%d?relationships=true", t), es, want.ByTag[t-1], true)
		}
	}
	es, bad := w.getElems(base+"/syn/tag/neverused", nil)
	if bad != "" || len(es) != 0 {
		d = append(d, fmt.Sprintf("tag/neverused: %s %v", bad, es))
	}
	// 4. bodies: label/<l>, and labels that are not bodies
	type lq struct {
		real uint64
		pos  []int
	}
	var lqs []lq
	var allLabels []uint64
	for _, b := range want.Bodies {
		lqs = append(lqs, lq{lab.Real(b.Label), b.Pos})
		allLabels = append(allLabels, lab.Real(b.Label))
	}
	for _, l := range want.Ghosts {
		// numbers the specification skipped (voxel edits take nxt+7) were never labels on the real
		// side, where the same number may have been handed out for another specification label
		if _, bound := lab.ToReal[l]; !bound && l > maxU64(lo.initSV) {
			continue
		}
		lqs = append(lqs, lq{lab.Real(l), nil})
		allLabels = append(allLabels, lab.Real(l))
	}
	for _, q := range lqs {
		es, bad := w.getElems(fmt.Sprintf("%s/syn/label/%d", base, q.real), nil)
		if bad != "" {
			d = append(d, fmt.Sprintf("label/%d: %s", q.real, bad))
		} else {
			cmp(fmt.Sprintf("label/%d", q.real), es, q.pos, false)
		}
		es, bad = w.getElems(fmt.Sprintf("%s/syn/label/%d?relationships=true", base, q.real), nil)
		if bad != "" {
			d = append(d, fmt.Sprintf("label/%d?relationships=true: %s", q.real, bad))
		} else {
			cmp(fmt.Sprintf("label/%d?relationships=true", q.real), es, q.pos, true)
		}
	}
	// 5. region of interest
	es, bad = w.getElems(base+"/syn/roi/zone", nil)
	if bad != "" {
		d = append(d, "roi/zone: "+bad)
	} else {
		cmp("roi/zone", es, want.ROI, true)
	}
	// 6. labelsz
	if !withLsz {
		return d
	}
	lb, _ := json.Marshal(allLabels)
	for j, ix := range want.Index {
		wantCount := map[uint64]uint32{}
		for _, b := range want.Bodies {
			wantCount[lab.Real(b.Label)] = b.Counts[j]
		}
		// counts (batch)
		r := w.http("GET", base+"/lsz/counts/"+ix.Name, lb)
		var cs []map[string]uint64
		if r.Status != 200 || json.Unmarshal(r.Bytes(), &cs) != nil || len(cs) != len(allLabels) {
			d = append(d, fmt.Sprintf("labelsz counts/%s %v: %d %.300s", ix.Name, allLabels, r.Status, r.Bytes()))
		} else {
			for i, l := range allLabels {
				if cs[i]["Label"] != l || uint32(cs[i][ix.Name]) != wantCount[l] {
					d = append(d, fmt.Sprintf("labelsz counts/%s: label %d answered %v, the element set gives %d", ix.Name, l, cs[i], wantCount[l]))
				}
			}
		}
		// count (single) for the bodies
		for _, b := range want.Bodies {
			l := lab.Real(b.Label)
			r := w.http("GET", fmt.Sprintf("%s/lsz/count/%d/%s", base, l, ix.Name), nil)
			var c map[string]uint64
			if r.Status != 200 || json.Unmarshal(r.Bytes(), &c) != nil || c["Label"] != l || uint32(c[ix.Name]) != b.Counts[j] {
				d = append(d, fmt.Sprintf("labelsz count/%d/%s: %d %.200s, the element set gives %d", l, ix.Name, r.Status, r.Bytes(), b.Counts[j]))
			}
		}
		// top and threshold: descending sizes; ties in any order
		valid := map[string]bool{}
		for _, x := range ix.Ranked {
			valid[fmt.Sprintf("%d:%d", lab.Real(x.Label), x.N)] = true
		}
		rank := func(what string, wantSeq []annRank) {
			r := w.http("GET", base+"/lsz/"+what, nil)
			var got []struct {
				Label uint64
				Size  uint32
			}
			if r.Status != 200 || json.Unmarshal(r.Bytes(), &got) != nil {
				d = append(d, fmt.Sprintf("labelsz %s: %d %.200s", what, r.Status, r.Bytes()))
				return
			}
			// an entry with size 0 states a true count; the property does not forbid listing it
			for len(got) > 0 && got[len(got)-1].Size == 0 {
				got = got[:len(got)-1]
			}
			ok := len(got) == len(wantSeq)
			seen := map[uint64]bool{}
			for i := 0; ok && i < len(got); i++ {
				if got[i].Size != wantSeq[i].N || !valid[fmt.Sprintf("%d:%d", got[i].Label, got[i].Size)] || seen[got[i].Label] {
					ok = false
				}
				seen[got[i].Label] = true
			}
			if !ok {
				var ws []string
				for _, x := range wantSeq {
					ws = append(ws, fmt.Sprintf("{%d %d}", lab.Real(x.Label), x.N))
				}
				d = append(d, fmt.Sprintf("labelsz %s returns %v, the element set gives %v (ties in any order)", what, got, ws))
			}
		}
		rank("top/20/"+ix.Name, ix.Ranked)
		if len(ix.Ranked) > 0 {
			rank("top/1/"+ix.Name, ix.Ranked[:1])
		}
		rank("threshold/1/"+ix.Name, ix.Ranked)
		rank("threshold/2/"+ix.Name, ix.AtLeast2)
	}
	return d
}

func (w *annWorker) patience(op annOp) time.Duration {
	if op.Op.Op == "blocks" {
		return 10 * time.Second
	}
	return 2 * time.Second
}

// step executes one transition in a fresh child branch of parent; it returns the child and
// whether the implementation is in the target state.  path = operations before op.
func (w *annWorker) step(parent string, path []annOp, op annOp, want annObs, lab *lmm.Labels) (string, bool) {
	child := w.branch(parent)
	fail, req, resp := w.apply(child, op, want, lab)
	atomic.AddInt64(w.edges, 1)
	if fail == "views-differ-after-reload" {
		w.report(fail, path, op, req, node.Resp{}, w.reloadDiffs, lab)
		return child, false
	}
	if fail != "" {
		w.report(fail, path, op, req, resp, []string{fmt.Sprintf("status %d", resp.Status)}, lab)
		return child, false
	}
	d := w.settle(child, want, lab, w.patience(op))
	if op.Op.Op == "blocks" {
		w.waitReload("lsz")
	}
	if len(d) > 0 {
		w.report("views-differ-after-operation", path, op, req, node.Resp{}, d, lab)
		return child, false
	}
	return child, true
}

func opClass(op annOp) string {
	if op.Op.Op == "post" {
		return fmt.Sprintf("post%d", len(op.Elems))
	}
	return op.Op.Op
}

func checkC13(c *Ctx) int {
	run := ev.NewRun("C13", c.Tier, "model_checking")
	t0 := time.Now()
	rng := rand.New(rand.NewSource(c.Seed*7 + 13))
	small := lmm.NewGeom(c.Seed, true)
	mkSmall := func(name string, sv []uint64, mp map[uint64]uint64, spec [][2]int, present []int, nt int, kinds []string) *annLayout {
		lo := &annLayout{name: name, g: small, initSV: sv, initMP: mp, nt: nt, nrel: 2, kinds: kinds}
		lo.placePositions(rng, spec)
		lo.makeBoxes(rng)
		perm := rng.Perm(len(small.Blocks))
		lo.roiBlocks = []int{perm[0] + 1, perm[1] + 1}
		sort.Ints(lo.roiBlocks)
		lo.seededInitElems(rng, present)
		lo.overwrite = true
		return lo
	}
	// A: bodies 1 = {sv1 (regions 1,2), sv2 (region 3)} and 3 = {sv3 (region 4), sv4 (region 5)}, background region 6;
	//    positions: two in one region across blocks, three in block (0,0,0) (two of them on one body),
	//    one at negative x, one on background
	loA := mkSmall("small6/A", []uint64{1, 1, 2, 3, 4, 0}, map[uint64]uint64{1: 1, 2: 1, 3: 3, 4: 3},
		[][2]int{{2, 1}, {2, 2}, {4, 1}, {3, 3}, {3, 1}, {6, 4}}, []int{1, 3, 4}, 2, []string{"PostSyn", "PreSyn", "Note"})
	// B: the single voxel region, a supervoxel spanning two blocks, background at negative coordinates
	loB := mkSmall("small6/B", []uint64{5, 5, 6, 7, 7, 0}, map[uint64]uint64{5: 5, 6: 5, 7: 7},
		[][2]int{{1, 1}, {4, 1}, {5, 2}, {6, 3}, {3, 3}, {2, 2}}, []int{1, 2, 5, 6}, 2, []string{"PreSyn", "Gap", "Note", "Unknown"})
	type plan struct {
		lo             *annLayout
		ops, mcOps     int
		simN, simOps   int
		subNum, subDen int // share of the depth-1 states whose outgoing transitions are replayed too
	}
	var plans []plan
	if c.thorough() {
		// C: three tags, all five kinds, seven positions
		loC := mkSmall("small6/C", []uint64{2, 2, 3, 3, 4, 0}, map[uint64]uint64{2: 2, 3: 2, 4: 4},
			[][2]int{{2, 1}, {2, 2}, {4, 1}, {3, 3}, {3, 1}, {6, 4}, {1, 1}}, []int{1, 2, 4, 7}, 3, []string{"PostSyn", "PreSyn", "Gap", "Note", "Unknown"})
		plans = []plan{{loA, 2, 3, 120, 10, 1, 3}, {loB, 1, 2, 120, 10, 0, 1}, {loC, 1, 2, 40, 10, 0, 1}}
	} else {
		plans = []plan{{loA, 1, 2, 32, 8, 0, 1}, {loB, 1, 1, 24, 8, 0, 1}}
	}
	var states, trans, edges, simStates, late, subtrees int64
	var tlcS, replayS float64
	classes := map[string]int{}
	var cmu sync.Mutex
	count := func(op annOp) {
		cmu.Lock()
		classes[opClass(op)]++
		cmu.Unlock()
	}
	type tlcOut struct {
		gr     *annGraph
		s, t   int64
		traces [][]annStep
		ss     int64
	}
	outs := make([]tlcOut, len(plans))
	tp := time.Now()
	var fs, join []func()
	for pi := range plans {
		pi, pl := pi, plans[pi]
		fs = append(fs, func() { outs[pi].gr, outs[pi].s, outs[pi].t = annExplore(c, pl.lo, pl.ops, pl.mcOps) })
		parts := c.pick(2, 4)
		trs := make([][][]annStep, parts)
		sss := make([]int64, parts)
		for k := 0; k < parts; k++ {
			k := k
			fs = append(fs, func() {
				trs[k], sss[k] = annSimulate(c, pl.lo, pl.simN/parts, pl.simOps, c.Seed*1000+int64(pi)*10+int64(k)+1)
			})
		}
		join = append(join, func() {
			for k := range trs {
				outs[pi].traces = append(outs[pi].traces, trs[k]...)
				outs[pi].ss += sss[k]
			}
		})
	}
	together(fs...)
	for _, j := range join {
		j()
	}
	tlcS = since(tp)
	for pi, pl := range plans {
		lo := pl.lo
		gr, traces := outs[pi].gr, outs[pi].traces
		states += outs[pi].s
		trans += outs[pi].t
		simStates += outs[pi].ss
		tp := time.Now()
		nw := 12
		var next int64 = -1
		var wg sync.WaitGroup
		var firstErr atomic.Value
		for wi := 0; wi < nw; wi++ {
			wg.Add(1)
			go func(wi int) {
				defer wg.Done()
				defer func() {
					if e := recover(); e != nil {
						if ie, ok := e.(infraErr); ok {
							firstErr.Store(ie.err.Error())
						} else {
							firstErr.Store(fmt.Sprint(e))
						}
					}
				}()
				w := &annWorker{c: c, run: run, lo: lo, w: wi, edges: &edges}
				defer func() {
					atomic.AddInt64(&late, w.late)
					if w.n != nil {
						c.DropNode(w.n)
					}
				}()
				var root string
				var lab *lmm.Labels
				// a repo is abandoned after ~200 versions: every DAG operation rewrites metadata whose
				// size grows with the number of versions
				fresh := func() bool {
					if w.n != nil && w.nbr < 200 {
						return true
					}
					if w.n != nil {
						c.DropNode(w.n)
						w.n = nil
					}
					w.nbr = 0
					root, lab = w.start(gr.states[gr.init].obs)
					return root != ""
				}
				var explore func(sk, uuid string, lab *lmm.Labels)
				explore = func(sk, uuid string, lab *lmm.Labels) {
					st := gr.states[sk]
					for _, ei := range st.out {
						e := gr.edges[ei]
						tk := e.T.Canon()
						cl := lab.Clone()
						child, ok := w.step(uuid, gr.pathTo(sk), e.L, e.Obs, cl)
						run.Eval(fmt.Sprintf("%s|%s|%d", lo.name, sk, ei))
						count(e.L)
						if ok && gr.states[tk].parent == ei && len(gr.states[tk].out) > 0 {
							w.commit(child)
							explore(tk, child, cl)
						}
					}
				}
				initOut := gr.states[gr.init].out
				for {
					item := int(atomic.AddInt64(&next, 1))
					if item >= len(initOut)+len(traces) {
						return
					}
					if !fresh() {
						return
					}
					if item < len(initOut) {
						// one transition from the initial state and (thorough) the transitions of its target
						ei := initOut[item]
						e := gr.edges[ei]
						tk := e.T.Canon()
						cl := lab.Clone()
						child, ok := w.step(root, nil, e.L, e.Obs, cl)
						run.Eval(fmt.Sprintf("%s|%s|%d", lo.name, gr.init, ei))
						count(e.L)
						if ok && gr.states[tk].parent == ei && len(gr.states[tk].out) > 0 && (uint64(ei)*2654435761+uint64(c.Seed))%uint64(pl.subDen) < uint64(pl.subNum) {
							w.commit(child)
							explore(tk, child, cl)
							atomic.AddInt64(&subtrees, 1)
						}
						continue
					}
					// a simulated behaviour: a chain of versions
					ti := item - len(initOut)
					tr := traces[ti]
					if tr[0].K.Canon() != gr.init {
						infra("simulated behaviour does not start in the initial state")
					}
					uuid, cl := root, lab.Clone()
					var path []annOp
					for i := 1; i < len(tr); i++ {
						child, ok := w.step(uuid, path, tr[i].L, tr[i].Obs, cl)
						path = append(path, tr[i].L)
						run.Eval(fmt.Sprintf("%s|sim%d|%d", lo.name, ti, i))
						count(tr[i].L)
						if !ok {
							break
						}
						if i+1 < len(tr) {
							w.commit(child)
						}
						uuid = child
					}
				}
			}(wi)
		}
		wg.Wait()
		if e := firstErr.Load(); e != nil {
			infra("annotation worker: %v", e)
		}
		replayS += since(tp)
		ex := gr.edges[len(gr.edges)/2]
		run.Sample(map[string]interface{}{"layout": lo.name, "voxel_of_position": lo.pos, "region_of_position": lo.posRegion,
			"graph_states": len(gr.states), "graph_transitions": len(gr.edges), "simulated_behaviours": len(traces),
			"example_transition": ex.L, "example_expected_views": ex.Obs})
	}
	run.Set("states", states)
	run.Set("transitions", trans)
	run.Set("simulation_states_generated", simStates)
	run.Set("traces_validated_against_impl", edges)
	run.Set("operations_replayed_by_class", classes)
	run.Set("comparisons_that_needed_a_second_read", late)
	run.Set("depth1_states_with_all_outgoing_transitions_replayed", subtrees)
	run.Set("tlc_wall_s", tlcS)
	run.Set("replay_wall_s", replayS)
	run.Set("rule", "case = one transition of Annotation.tla (POST elements of one element new/overwriting with every kind and tag set, of two elements that exchange tag sets and become/stop being partners; DELETE element; move onto every free position; merge, cleave, split-supervoxel of the synced labelmap and a mutating voxel write of a region with a new label; POST blocks replacing a block's content followed by reload of annotation and labelsz): every transition of the TLC state graph to the stated depth plus every step of the simulated behaviours, executed on real annotation+labelmap+labelsz instances in a fresh child branch of the version holding the source state; after n.Idle() all-elements, elements/<size>/<offset> and blocks/<size>/<offset> for 10 boxes (negative offsets, single voxel, off-by-one borders), tag/<t> and label/<l> with and without relationships for every body and every label that is not a body, roi/<name>, labelsz count, counts, top, threshold for the 5 index types are compared with the views TLC derived from the element set")
	run.Assume = []string{
		"clients keep relationships mutual: every POST leaves the reference graph symmetric (the property speaks of elements that reference each other)",
		"moves go onto free positions; the label state is checked against the specification before the views are compared (a labelmap divergence is C08's and is reported as an infrastructure error here)",
		"positions are <=8 voxels placed by seed inside known regions of the 4-block lmm geometry; label ids are compared modulo the bijection bound from the server's responses",
		"labelsz top/threshold: the order among equal counts is not prescribed",
	}
	fmt.Printf("C13: tlc %d states / %d transitions model-checked, %d simulation states; %d transitions replayed in %.1fs (tlc %.1fs, replay %.1fs, %d late settles); violations=%d\n",
		states, trans, simStates, edges, since(t0), tlcS, replayS, late, run.Violations())
	return run.Finish()
}
