package main

import (
	"os"
	"encoding/binary"
	"encoding/json"
	"fmt"
	"sort"
	"strings"
	"sync"
	"time"

	"verifharness/internal/ev"
	"verifharness/internal/lmm"
	"verifharness/internal/node"
	"verifharness/internal/tlc"
)

func init() { checks["C12"] = checkC12 }

type idEvent map[string]interface{}

// idsDriver runs an allocation-heavy history on one node and records every identifier the
// server hands out, in issue order.
type idsDriver struct {
	c      *Ctx
	n      *node.Node
	in     *lmm.Inst
	root   string
	cur    string // open version
	events []idEvent
	nbr    int
	ninst  int
	sv     []uint64
	maxSV  uint64
	muts   int
	cleaved []uint64 // bodies cleaved off (can be merged back)
	dead   bool
	// label bookkeeping for voxel-level steps (ingest of higher labels, supervoxel splits)
	svNow      []uint64 // supervoxel stored in every region (nil = unknown after a torn voxel operation)
	maxPresent uint64   // largest label the driver knows to be present
	nHigh      int
	// a second repo on the same server (growth): its own labelmap instance `name`, its own mutation
	// ids (`rk` = the "repo" field of its events); its events go into the trace of `sink`
	name string
	rk   string
	sink *idsDriver
}

func (d *idsDriver) ev(e idEvent) {
	if d.sink != nil {
		d.sink.ev(e)
		return
	}
	d.events = append(d.events, e)
}

func (d *idsDriver) start(cfg node.Config) {
	d.n = d.c.StartNode(cfg)
	d.name, d.rk = "seg", "r"
	d.open()
}

// open creates the repo and the labelmap instance of the driver on its node.
func (d *idsDriver) open() {
	r, err := d.n.HTTP("POST", "/api/repos", []byte(`{"alias":"ids`+d.rk+`"}`))
	must(err, "newrepo")
	var o struct{ Root string }
	json.Unmarshal(r.Bytes(), &o)
	d.root, d.cur = o.Root, o.Root
	d.recordVersions()
	g := lmm.SafeGeom(d.c.Seed, false) // (NewGeom panics for a few seeds, e.g. 3 and 6)
	d.in = &lmm.Inst{N: d.n, G: g, Name: d.name, Root: o.Root}
	must(d.in.Create(nil), "create labelmap")
	d.recordInstance(d.name)
	d.sv = make([]uint64, g.R)
	for i := range d.sv {
		// five supervoxels: 11..14 hold one region each (they are cleaved off and merged back by
		// their ids), 10 holds all the others (so that it can be split again and again)
		d.sv[i] = 10
		if i >= 1 && i <= 4 {
			d.sv[i] = uint64(10 + i)
		}
	}
	var blocks []int
	for b := range g.Blocks {
		blocks = append(blocks, b+1)
	}
	must(d.in.Ingest(d.cur, d.sv, blocks, false), "ingest")
	must(d.n.Idle(), "idle")
	d.ev(idEvent{"ev": "ingest", "inst": d.name, "max": 14})
	d.svNow = append([]uint64(nil), d.sv...)
	d.maxPresent = 14
	// one body holding all supervoxels, so that cleaves are always possible
	d.post("merge", "/merge", []byte(`[10,11,12,13,14]`))
}

func (d *idsDriver) recordVersions() {
	r, err := d.n.HTTP("GET", "/api/repo/"+d.root+"/info", nil)
	if err != nil {
		return
	}
	var ri struct {
		DAG struct {
			Nodes map[string]struct{ VersionID int }
		}
	}
	json.Unmarshal(r.Bytes(), &ri)
	seen := map[int]bool{}
	all := d.events
	if d.sink != nil {
		all = d.sink.events
	}
	for _, e := range all {
		if e["ev"] == "version" {
			seen[e["id"].(int)] = true
		}
	}
	for _, nd := range ri.DAG.Nodes {
		if !seen[nd.VersionID] {
			d.ev(idEvent{"ev": "version", "id": nd.VersionID})
			seen[nd.VersionID] = true
		}
	}
}

func (d *idsDriver) recordInstance(name string) {
	var id uint32
	if err := d.n.Call("ds.instanceid", map[string]string{"UUID": d.root, "Name": name}, &id); err == nil {
		d.ev(idEvent{"ev": "instance", "id": int(id)})
	}
}

// post sends a labelmap request at the open version and records the identifiers in the answer.
func (d *idsDriver) post(kind, path string, body []byte) bool {
	r, err := d.n.HTTP("POST", "/api/node/"+d.cur+"/"+d.name+path, body)
	if err == node.ErrDead {
		d.dead = true
		return false
	}
	must(err, kind)
	if r.Status != 200 {
		if os.Getenv("VCHECK_DEBUG") == "ids" {
			fmt.Printf("DEBUG %s %s -> %d %.200s\n", kind, path, r.Status, r.Bytes())
		}
		return false
	}
	var o struct {
		MutationID       uint64
		CleavedLabel     uint64
		SplitSupervoxel  uint64
		RemainSupervoxel uint64
		Start            uint64 `json:"start"`
		End              uint64 `json:"end"`
	}
	json.Unmarshal(r.Bytes(), &o)
	if o.MutationID != 0 {
		d.ev(idEvent{"ev": "mut", "repo": d.rk, "id": o.MutationID})
		d.muts++
	}
	if o.CleavedLabel != 0 {
		d.ev(idEvent{"ev": "label", "inst": d.name, "id": o.CleavedLabel, "by": "cleave"})
		d.cleaved = append(d.cleaved, o.CleavedLabel)
		d.noteLabel(o.CleavedLabel)
	}
	if o.SplitSupervoxel != 0 {
		d.ev(idEvent{"ev": "label", "inst": d.name, "id": o.SplitSupervoxel, "by": "split"})
		d.ev(idEvent{"ev": "label", "inst": d.name, "id": o.RemainSupervoxel, "by": "remain"})
	}
	if kind == "nextlabel" {
		var n int
		fmt.Sscanf(path, "/nextlabel/%d", &n)
		d.ev(idEvent{"ev": "range", "inst": d.name, "start": o.Start, "end": o.End, "n": n})
		d.noteLabel(o.End)
	}
	return true
}

// step performs one allocating operation.
func (d *idsDriver) step(i int) {
	switch {
	case i%23 == 11:
		// an ingest of labels above everything present, its background work awaited: later
		// allocations must exceed it
		d.ingestHigher(true)
	case i%29 == 13:
		d.splitSV()
	case i%9 == 4:
		d.post("nextlabel", fmt.Sprintf("/nextlabel/%d", 1+i%4), nil)
	case i%17 == 8:
		// a new version (commit + branch) and sometimes a new instance: version / instance ids
		r, err := d.n.HTTP("POST", "/api/node/"+d.cur+"/commit", []byte(`{}`))
		if err == node.ErrDead {
			d.dead = true
			return
		}
		if r.Status == 200 {
			d.nbr++
			r, err = d.n.HTTP("POST", "/api/node/"+d.cur+"/branch", []byte(fmt.Sprintf(`{"branch":"b%d"}`, d.nbr)))
			if err == node.ErrDead {
				d.dead = true
				return
			}
			var o struct{ Child string }
			json.Unmarshal(r.Bytes(), &o)
			if o.Child != "" {
				d.cur = o.Child
			}
		}
		d.recordVersions()
		if i%34 == 8 {
			d.ninst++
			name := fmt.Sprintf("kv%d", d.ninst)
			r, err := d.n.HTTP("POST", "/api/repo/"+d.root+"/instance", []byte(fmt.Sprintf(`{"typename":"keyvalue","dataname":%q}`, name)))
			if err == node.ErrDead {
				d.dead = true
				return
			}
			if r.Status == 200 {
				d.recordInstance(name)
			}
		}
	case len(d.cleaved) > 0 && i%2 == 1:
		// merge the last cleaved body back (mutation id)
		b := d.cleaved[len(d.cleaved)-1]
		d.cleaved = d.cleaved[:len(d.cleaved)-1]
		d.post("merge", "/merge", []byte(fmt.Sprintf("[10,%d]", b)))
	default:
		// cleave one supervoxel off the big body (label + mutation id)
		sv := 11 + uint64(i%4)
		if !d.post("cleave", "/cleave/10", []byte(fmt.Sprintf("[%d]", sv))) && !d.dead {
			// the supervoxel may currently be outside body 10 (cleaved and not yet merged back): try the base one
			d.post("cleave", "/cleave/10", []byte("[14]"))
		}
	}
}

// noteLabel keeps the driver's idea of the largest label present up to date.
func (d *idsDriver) noteLabel(l uint64) {
	if l > d.maxPresent {
		d.maxPresent = l
	}
}

// ingestHigher overwrites the single-voxel region 1 with a label well above everything present
// (a mutating voxel write = an ingest of a higher label).  acked reports whether the request was
// acknowledged; the event is recorded only then.
func (d *idsDriver) ingestHigher(idle bool) bool {
	if d.svNow == nil {
		return false
	}
	g := d.in.G
	d.nHigh++
	h := d.maxPresent + 40 + uint64(d.nHigh)
	sv := append([]uint64(nil), d.svNow...)
	sv[0] = h
	var blocks []int
	for b := range g.Blocks {
		if g.NVox[0][b] > 0 {
			blocks = append(blocks, b+1)
		}
	}
	err := d.in.Ingest(d.cur, sv, blocks, true)
	if err == node.ErrDead || !d.n.Alive() {
		d.dead = true
		return false
	}
	if err != nil {
		return false
	}
	d.svNow = sv
	d.ev(idEvent{"ev": "ingest", "inst": d.name, "max": h})
	d.noteLabel(h)
	if idle {
		if err := d.n.Idle(); err != nil {
			d.dead = !d.n.Alive()
		}
	}
	return true
}

// splitSV splits one region off a supervoxel that still has at least two regions (labels and the
// mutation id of the answer are recorded by post).
func (d *idsDriver) splitSV() bool {
	if d.svNow == nil {
		return false
	}
	regs := map[uint64][]int{}
	for r, s := range d.svNow {
		if s != 0 {
			regs[s] = append(regs[s], r+1)
		}
	}
	var cand []uint64
	for s, rs := range regs {
		if len(rs) >= 2 {
			cand = append(cand, s)
		}
	}
	if len(cand) == 0 {
		return false
	}
	sort.Slice(cand, func(i, j int) bool { return cand[i] < cand[j] })
	s := cand[0]
	cut := regs[s][len(regs[s])-1]
	before := len(d.events)
	ok := d.post("split-supervoxel", fmt.Sprintf("/split-supervoxel/%d", s), lmm.EncodeRLEs(d.in.G.RegionRLEs(map[int]bool{cut: true})))
	if !ok {
		if d.dead {
			d.svNow = nil // the voxels may be half rewritten
		}
		return false
	}
	var split, remain uint64
	for _, e := range d.events[before:] {
		if e["by"] == "split" {
			split = e["id"].(uint64)
		}
		if e["by"] == "remain" {
			remain = e["id"].(uint64)
		}
	}
	for r := range d.svNow {
		if d.svNow[r] == s {
			if r+1 == cut {
				d.svNow[r] = split
			} else {
				d.svNow[r] = remain
			}
		}
	}
	d.noteLabel(split)
	d.noteLabel(remain)
	return true
}

// observePresent reads the stored voxels and records the largest label present (after a crash the
// driver cannot know which writes of the interrupted request reached the store).
func (d *idsDriver) observePresent() {
	g := d.in.G
	url := fmt.Sprintf("/api/node/%s/%s/raw/0_1_2/%d_%d_%d/%d_%d_%d?supervoxels=true", d.cur, d.name, g.Size[0], g.Size[1], g.Size[2], g.Min[0], g.Min[1], g.Min[2])
	r, err := d.n.HTTP("GET", url, nil)
	must(err, "read volume")
	if r.Status != 200 {
		infra("GET raw after recovery: %d %.200s", r.Status, r.Bytes())
	}
	vol := r.Bytes()
	var mx uint64
	for i := 0; i+8 <= len(vol); i += 8 {
		if l := binary.LittleEndian.Uint64(vol[i:]); l > mx {
			mx = l
		}
	}
	d.ev(idEvent{"ev": "present", "inst": d.name, "max": mx})
	d.noteLabel(mx)
	if regs, bad := g.VolumeToRegions(vol); bad == "" {
		d.svNow = regs
	} else {
		d.svNow = nil
	}
}

func (d *idsDriver) restart(clean bool) {
	must(d.n.Restart(clean), "restart")
	d.ev(idEvent{"ev": "restart", "clean": clean})
}

func traceBytes(evs []idEvent) []byte {
	var sb strings.Builder
	for _, e := range evs {
		b, _ := json.Marshal(e)
		sb.Write(b)
		sb.WriteByte('\n')
	}
	return []byte(sb.String())
}

// validateIdsTrace checks a recorded trace against IdsTrace.tla; it returns the number of
// events explained and whether the whole trace is a behaviour of the specification.
func validateIdsTrace(c *Ctx, evs []idEvent) (int, bool) {
	r := c.RunTLC(tlc.Opts{Module: "IdsTrace", Config: "IdsTrace.cfg", Workers: 1, Files: map[string][]byte{"ids_trace.ndjson": traceBytes(evs)}, Timeout: 5 * time.Minute})
	if r.Depth == 0 {
		infra("IdsTrace produced no result: %s", r.Tail(1500))
	}
	return r.Depth - 1, r.OK
}

func checkC12(c *Ctx) int {
	run := ev.NewRun("C12", c.Tier, "model_checking")
	t0 := time.Now()
	pm := modelCheckPersist(c)
	run.Set("states", pm.States)
	run.Set("transitions", pm.Trans)
	type result struct {
		name string
		evs  []idEvent
	}
	var mu sync.Mutex
	var results []result
	// (a) sequential history with restarts around the mutation-id stride boundaries (stride 100)
	restartsAt := map[int]bool{98: true, 99: true, 100: true, 101: true, 102: true, 199: true, 200: true, 201: true}
	histories := c.pick(2, 6)
	parallel(histories, 6, func(_, h int) {
		d := &idsDriver{c: c}
		d.start(node.Config{})
		defer func() { c.DropNode(d.n) }()
		total := c.pick(215, 330)
		for i := 0; d.muts < total && i < 4*total; i++ {
			d.step(i + h)
			if restartsAt[d.muts] || (h > 0 && i%37 == 36) {
				d.restart((i+h)%2 == 0)
				delete(restartsAt, -1)
			}
		}
		mu.Lock()
		results = append(results, result{fmt.Sprintf("restarts-%d", h), d.events})
		mu.Unlock()
	})
	// (a') instance ids across deletion and restart: create, delete (wait until the instance has
	// left the repo), restart, create again - every id must be new
	{
		d := &idsDriver{c: c}
		d.start(node.Config{})
		for k := 0; k < c.pick(3, 8); k++ {
			name := fmt.Sprintf("tmp%d", k)
			r, err := d.n.HTTP("POST", "/api/repo/"+d.root+"/instance", []byte(fmt.Sprintf(`{"typename":"keyvalue","dataname":%q}`, name)))
			must(err, "new instance")
			if r.Status != 200 {
				infra("new instance refused: %d %s", r.Status, r.Bytes())
			}
			d.recordInstance(name)
			if k%2 == 0 {
				// (sometimes a version is created in between, which persists the counters again)
				must(d.n.Call("ds.deletedata", map[string]string{"UUID": d.root, "Name": name, "Passcode": ""}, nil), "delete instance")
				deadline := time.Now().Add(20 * time.Second)
				for {
					ri, err := d.n.HTTP("GET", "/api/repo/"+d.root+"/info", nil)
					must(err, "repo info")
					if !strings.Contains(string(ri.Bytes()), `"`+name+`"`) {
						break
					}
					if time.Now().After(deadline) {
						infra("instance %s still listed 20 s after its deletion", name)
					}
					time.Sleep(5 * time.Millisecond)
				}
			}
			d.restart(k%4 < 2)
		}
		r, err := d.n.HTTP("POST", "/api/repo/"+d.root+"/instance", []byte(`{"typename":"keyvalue","dataname":"last"}`))
		must(err, "new instance")
		if r.Status == 200 {
			d.recordInstance("last")
		}
		mu.Lock()
		results = append(results, result{"instance-delete-restart", d.events})
		mu.Unlock()
		c.DropNode(d.n)
	}
	// (b) crash immediately before / after each persistence write of the counters
	ref := &idsDriver{c: c}
	ref.start(node.Config{})
	ref.n.WTrace(true)
	base, _ := ref.n.Count()
	for i := 0; ref.muts < 120; i++ {
		ref.step(i)
		if i > 3000 {
			infra("identifier history stalls at %d mutation ids after %d steps", ref.muts, i)
		}
	}
	raw, _ := ref.n.WTrace(false)
	c.DropNode(ref.n)
	var wevs []struct {
		N     uint64 `json:"n"`
		Class string `json:"class"`
	}
	json.Unmarshal(raw, &wevs)
	type cp struct {
		n     uint64
		after bool
	}
	var cps []cp
	for _, w := range wevs {
		if (w.Class == "MUT" || w.Class == "IDS") && w.N > base {
			cps = append(cps, cp{w.N, false}, cp{w.N, true})
		}
	}
	// the max-label keys of the labelmap instance are data keys: sample some data writes too
	for i, w := range wevs {
		if w.Class == "data" && w.N > base && i%c.pick(40, 12) == 0 {
			cps = append(cps, cp{w.N, i%2 == 0})
		}
	}
	parallel(len(cps), 8, func(_, i int) {
		d := &idsDriver{c: c}
		d.start(node.Config{})
		defer func() { c.DropNode(d.n) }()
		cnt, _ := d.n.Count()
		if cps[i].n > cnt {
			d.n.Arm(cps[i].n-cnt, cps[i].after)
		}
		for k := 0; d.muts < 125 && !d.dead && k < 3000; k++ {
			d.step(k)
		}
		if d.dead {
			d.n.WaitExit(10 * time.Second)
			d.ev(idEvent{"ev": "crash", "at_write": cps[i].n, "after": cps[i].after})
			if err := d.n.Restart(false); err != nil {
				run.Violation("c12", map[string]interface{}{"kind": "startup-failed-after-crash", "crash_at_write": cps[i].n, "error": err.Error()})
				return
			}
			d.dead = false
			d.cleaved = nil
			d.observePresent()
			for k := 0; k < 40 && !d.dead; k++ {
				d.step(k)
			}
		}
		mu.Lock()
		results = append(results, result{fmt.Sprintf("crash-w%d-%v", cps[i].n, cps[i].after), d.events})
		mu.Unlock()
	})
	// (b2) label counters: a short label-heavy history (ingest of a higher label, cleave,
	// split-supervoxel, nextlabel ...) with a process exit before / after every write of the
	// max-label / repo-max-label / next-label keys and of the voxel block of an ingest - this
	// places the crash between an acknowledged (or half-done) ingest of higher labels and the
	// persistence of the counters, and between persistMaxLabel and persistMaxRepoLabel - then
	// recovery, a read of the labels actually present, and further allocations
	labelSteps := func(d *idsDriver, from, to int) {
		for k := from; k < to && !d.dead; k++ {
			switch k % 7 {
			case 0, 4:
				d.ingestHigher(k%2 == 0) // (every second one is followed by an allocation without waiting for idle)
			case 1, 5:
				if !d.post("cleave", "/cleave/10", []byte(fmt.Sprintf("[%d]", 11+k%4))) && !d.dead {
					d.post("cleave", "/cleave/10", []byte("[14]"))
				}
			case 2:
				d.splitSV()
			case 3:
				d.post("nextlabel", fmt.Sprintf("/nextlabel/%d", 1+k%3), nil)
			case 6:
				if len(d.cleaved) > 0 {
					b := d.cleaved[len(d.cleaved)-1]
					d.cleaved = d.cleaved[:len(d.cleaved)-1]
					d.post("merge", "/merge", []byte(fmt.Sprintf("[10,%d]", b)))
				}
			}
		}
	}
	nLabelSteps := c.pick(14, 28)
	lref := &idsDriver{c: c}
	lref.start(node.Config{})
	lref.n.WTrace(true)
	lbase, _ := lref.n.Count()
	labelSteps(lref, 0, nLabelSteps)
	must(lref.n.Idle(), "idle")
	lraw, _ := lref.n.WTrace(false)
	c.DropNode(lref.n)
	mu.Lock()
	results = append(results, result{"label-history-no-fault", lref.events})
	mu.Unlock()
	var lw []struct {
		N   uint64 `json:"n"`
		TKC int    `json:"tkc"`
	}
	json.Unmarshal(lraw, &lw)
	var lcps []cp
	lkinds := map[int]int{}
	for _, w := range lw {
		if w.N <= lbase {
			continue
		}
		switch w.TKC {
		case 237, 238, 239, 186: // per-version max label, repo-wide max label, next label, voxel block
			lkinds[w.TKC]++
			if c.thorough() || (w.N+uint64(c.Seed))%2 == 0 || w.TKC == 186 {
				lcps = append(lcps, cp{w.N, false}, cp{w.N, true})
			}
		}
	}
	parallel(len(lcps), 10, func(_, i int) {
		d := &idsDriver{c: c}
		d.start(node.Config{})
		defer func() { c.DropNode(d.n) }()
		cnt, _ := d.n.Count()
		if lcps[i].n > cnt {
			d.n.Arm(lcps[i].n-cnt, lcps[i].after)
		}
		labelSteps(d, 0, nLabelSteps)
		if !d.dead {
			if err := d.n.Idle(); err != nil && !d.n.Alive() {
				d.dead = true
			}
		}
		if d.dead || !d.n.Alive() {
			d.n.WaitExit(10 * time.Second)
			d.ev(idEvent{"ev": "crash", "at_write": lcps[i].n, "after": lcps[i].after})
			if err := d.n.Restart(false); err != nil {
				run.Violation("c12", map[string]interface{}{"kind": "startup-failed-after-crash", "crash_at_write": lcps[i].n, "error": err.Error()})
				return
			}
			d.dead = false
			d.cleaved = nil
			d.observePresent()
			labelSteps(d, 1, 9)
		}
		mu.Lock()
		results = append(results, result{fmt.Sprintf("label-crash-w%d-%v", lcps[i].n, lcps[i].after), d.events})
		mu.Unlock()
	})
	run.Set("label_counter_crash_points", len(lcps))
	run.Set("label_counter_writes_in_history", lkinds)

	// growth: client-chosen body labels, repositioned label counter, second repo, restarts straddling
	// the stride writes, merge versions, random instance ids (c12_growth.go)
	gstats := c12Growth(c, func(name string, evs []idEvent) {
		mu.Lock()
		results = append(results, result{name, evs})
		mu.Unlock()
	}, func(v map[string]interface{}) { run.Violation("c12", v) })
	for k, v := range gstats {
		run.Set(k, v)
	}

	// validate all traces in one TLC run (concatenated with reset events), then individually on rejection
	var all []idEvent
	nEvents := 0
	for _, r := range results {
		all = append(all, idEvent{"ev": "reset", "trace": r.name})
		all = append(all, r.evs...)
		nEvents += len(r.evs)
	}
	consumed, ok := validateIdsTrace(c, all)
	if !ok {
		// find the offending trace(s)
		for _, r := range results {
			k, ok := validateIdsTrace(c, r.evs)
			if !ok {
				lo := k - 6
				if lo < 0 {
					lo = 0
				}
				hi := k + 2
				if hi > len(r.evs) {
					hi = len(r.evs)
				}
				run.Violation("c12", map[string]interface{}{"kind": "identifier-trace-rejected", "trace": r.name, "events_explained": k,
					"rejected_event": r.evs[minI(k, len(r.evs)-1)], "context": r.evs[lo:hi], "trace_length": len(r.evs)})
			}
		}
		if run.Violations() == 0 {
			infra("concatenated trace rejected at %d but every single trace accepted", consumed)
		}
	}
	for _, r := range results {
		run.Eval(r.name)
	}
	if len(results) > 0 {
		s := results[0].evs
		if len(s) > 12 {
			s = s[:12]
		}
		run.Sample(map[string]interface{}{"trace": results[0].name, "first_events": s})
	}
	run.Set("traces_validated_against_impl", len(results))
	run.Set("identifier_events", nEvents)
	run.Set("crash_points", len(cps)+len(lcps))
	run.Set("rule", "trace = every identifier handed out by the real server (MutationID of merge/cleave/split-supervoxel responses, CleavedLabel, SplitSupervoxel/RemainSupervoxel, nextlabel ranges, version ids and instance ids) and every ingest of labels above everything present (mutating voxel write), in issue order, over a history with process restarts placed at 98..102 and 199..201 issued mutation ids (stride 100) and, in the crash traces, a process exit injected immediately before/after each persistence write of the counters (MUT, IDS keys; sampled data writes) followed by recovery and further allocation; in the label-counter crash traces a process exit before/after every write of the per-version max-label, repo-wide max-label and next-label keys and of the voxel block of an ingest (so between an acknowledged ingest and the persistence of its labels, and between persistMaxLabel and persistMaxRepoLabel), after which the driver reads the stored voxels, records the largest label actually present and allocates again (some allocations follow an acknowledged ingest without waiting for idle); each trace must be a behaviour of IdsTrace.tla (unique, strictly increasing, fresh w.r.t. labels present); DvidPersist.tla's Inv_C12_CountersAhead is model-checked with a crash anywhere. Label freshness during proofreading is additionally checked on every transition of C08's replay. Growth traces: (g1) body labels chosen by the client through POST mappings are observed in the mapped volume ('present' event) and followed by allocations, also across a restart; (g2) the label counter repositioned with POST set-nextlabel ('reposition' event: IdsTrace waives only 'greater than every label present', allocations still strictly increase from the chosen position) above and below the labels present, with allocations of single labels and ranges, an ingest of higher labels, a clean and a killed restart right after a single-label resp. a range allocation, and a process exit before / after the write of the next-label key; (g3) two repos on one server allocating in turns (mutation ids per repo, version and instance ids server-wide), each fast-forwarded with datastore NewMutationID to 3 ids before its stride write, then restarts (clean / SIGKILL) placed 2 and 1 ids before the write, right after the step in which the store-write trace shows the write of the mutation-id key, and one allocation later, followed by allocations in both repos; version ids of branches and of a merge version; (g4) instance ids with instance_id_gen = random across restarts")
	run.Assume = []string{"concurrent allocation is covered by C11's schedules", "repo ids are not observable through the API (covered by the model and the write-sequence conformance)",
		"after an administrator repositioned the label counter below labels that are present, collisions with those labels are the administrator's choice: only strict increase from the chosen position is required",
		"min_mutation_id_start is not exercised (the node configuration has no field for it)"}
	fmt.Printf("C12: tlc %d states; %d traces (%d identifier events, %d + %d crash points) validated against IdsTrace.tla in %.1fs; violations=%d\n",
		pm.States, len(results), nEvents, len(cps), len(lcps), since(t0), run.Violations())
	return run.Finish()
}

func minI(a, b int) int {
	if a < b {
		return a
	}
	return b
}
