package main

import (
	"bytes"
	"encoding/base64"
	"encoding/binary"
	"fmt"
	"go/ast"
	"go/parser"
	"go/token"
	"image"
	"image/png"
	"math/rand"
	"os"
	"path/filepath"
	"regexp"
	"sort"
	"strings"
	"sync"
	"sync/atomic"
	"time"

	"verifharness/internal/node"
	"verifharness/internal/snap"
)

// C02 over the RPC command path (server/rpc.go handleCommand and every datatype's DoRPC).
//
// The commands are request classes of Gate.tla (scope "rpc"): TLC prints their rows of
// the decision table (each is decided like its HTTP twin; no command can carry the admin
// token) and the Gate machine's behaviours contain them as steps.  Here every command
// the source tree dispatches on (go/ast over handleCommand's `switch subcommand` and over
// each datatype's DoRPC switch on TypeCommand()) is sent to the committed nodes of the
// populated repository through the node's `rpc` call, which speaks gorpc to the real
// dispatcher.  Verdicts as for the HTTP routes, by state: the versioned content, note,
// log and commit flag of the committed nodes must be identical afterwards unless the
// server runs in full-write mode; a command whose row says refused must be answered with
// an error; creating a child version must stay allowed.

// ---------- the node's rpc call ----------

type rpcRes struct {
	Text   string `json:"text"`
	Output string `json:"output"`
	Err    string `json:"err"`
	Panic  bool   `json:"panic"`
	Cmd    string `json:"cmd"`
}

// reply returns the text the client would print.
func (r rpcRes) reply() string {
	if r.Text != "" {
		return r.Text
	}
	b, _ := base64.StdEncoding.DecodeString(r.Output)
	return string(b)
}

// rpcCall sends one command through the real RPC dispatcher of the node.
func rpcCall(n *node.Node, cmd []string, input []byte, files map[string][]byte) (rpcRes, error) {
	args := map[string]interface{}{"Cmd": cmd}
	if len(input) > 0 {
		args["Input"] = base64.StdEncoding.EncodeToString(input)
	}
	if len(files) > 0 {
		m := map[string]string{}
		for k, v := range files {
			m[k] = base64.StdEncoding.EncodeToString(v)
		}
		args["Files"] = m
	}
	var res rpcRes
	err := n.Call("rpc", args, &res)
	return res, err
}

// ---------- source side: which commands exist ----------

// isTypeCommandCall reports whether e is <x>.TypeCommand().
func isTypeCommandCall(e ast.Expr) bool {
	call, ok := e.(*ast.CallExpr)
	if !ok {
		return false
	}
	sel, ok := call.Fun.(*ast.SelectorExpr)
	return ok && sel.Sel.Name == "TypeCommand"
}

// doRPCCommands returns the command words the DoRPC method of recvType in dir dispatches
// on: literals of case clauses of switches over <req>.TypeCommand() and literals compared
// with it by == / !=.
func doRPCCommands(dir, recvType string) (cmds []string, found bool, err error) {
	fset := token.NewFileSet()
	pkgs, err := parser.ParseDir(fset, dir, func(fi os.FileInfo) bool { return !strings.HasSuffix(fi.Name(), "_test.go") }, 0)
	if err != nil {
		return nil, false, err
	}
	set := map[string]bool{}
	for _, pkg := range pkgs {
		for _, f := range pkg.Files {
			for _, decl := range f.Decls {
				fd, ok := decl.(*ast.FuncDecl)
				if !ok || fd.Name.Name != "DoRPC" || fd.Recv == nil || len(fd.Recv.List) != 1 || fd.Body == nil {
					continue
				}
				rt := fd.Recv.List[0].Type
				if st, ok := rt.(*ast.StarExpr); ok {
					rt = st.X
				}
				if id, ok := rt.(*ast.Ident); !ok || id.Name != recvType {
					continue
				}
				found = true
				ast.Inspect(fd.Body, func(n ast.Node) bool {
					switch t := n.(type) {
					case *ast.SwitchStmt:
						if t.Tag != nil && isTypeCommandCall(t.Tag) {
							for _, st := range t.Body.List {
								for _, e := range st.(*ast.CaseClause).List {
									if s, ok := strLit(e); ok {
										set[s] = true
									}
								}
							}
						}
					case *ast.BinaryExpr:
						if t.Op == token.EQL || t.Op == token.NEQ {
							if isTypeCommandCall(t.X) {
								if s, ok := strLit(t.Y); ok {
									set[s] = true
								}
							}
							if isTypeCommandCall(t.Y) {
								if s, ok := strLit(t.X); ok {
									set[s] = true
								}
							}
						}
					}
					return true
				})
			}
		}
	}
	for k := range set {
		cmds = append(cmds, k)
	}
	sort.Strings(cmds)
	return cmds, found, nil
}

// serverRPCCommands returns the first words handleCommand dispatches on and, per first
// word, the sub-commands of its `switch subcommand`.
func serverRPCCommands(repoDir string) (top []string, subs map[string][]string) {
	fset := token.NewFileSet()
	f, err := parser.ParseFile(fset, filepath.Join(repoDir, "server", "rpc.go"), nil, 0)
	must(err, "parse server/rpc.go")
	subs = map[string][]string{}
	for _, decl := range f.Decls {
		fd, ok := decl.(*ast.FuncDecl)
		if !ok || fd.Name.Name != "handleCommand" || fd.Body == nil {
			continue
		}
		for _, st := range fd.Body.List {
			sw, ok := st.(*ast.SwitchStmt)
			if !ok || sw.Tag == nil {
				continue
			}
			for _, cst := range sw.Body.List {
				cc := cst.(*ast.CaseClause)
				for _, e := range cc.List {
					name, ok := strLit(e)
					if !ok {
						continue
					}
					top = append(top, name)
					for _, body := range cc.Body {
						ast.Inspect(body, func(n ast.Node) bool {
							in, ok := n.(*ast.SwitchStmt)
							if !ok || in.Tag == nil {
								return true
							}
							if id, ok := in.Tag.(*ast.Ident); !ok || id.Name != "subcommand" {
								return true
							}
							for _, s2 := range in.Body.List {
								for _, e2 := range s2.(*ast.CaseClause).List {
									if s, ok := strLit(e2); ok {
										subs[name] = append(subs[name], s)
									}
								}
							}
							return true
						})
					}
				}
			}
		}
	}
	if len(top) < 4 || len(subs["repo"]) < 5 {
		infra("server/rpc.go: handleCommand's command switch was not understood by the extractor (top %v, repo %v)", top, subs["repo"])
	}
	sort.Strings(top)
	for k := range subs {
		sort.Strings(subs[k])
	}
	return top, subs
}

type c2RPCSource struct {
	mu      sync.Mutex
	repoDir string
	top     []string
	subs    map[string][]string
	byType  map[string][]string // "pkg|type" -> datatype commands
}

var (
	c2RPCSrc     *c2RPCSource
	c2RPCSrcOnce sync.Once
)

func c2RPCSourceLoad(repoDir string) *c2RPCSource {
	c2RPCSrcOnce.Do(func() {
		top, subs := serverRPCCommands(repoDir)
		c2RPCSrc = &c2RPCSource{repoDir: repoDir, top: top, subs: subs, byType: map[string][]string{}}
	})
	return c2RPCSrc
}

// dataCommands returns the commands the instance's DoRPC dispatches on (nil if it has none).
func (src *c2RPCSource) dataCommands(in *c2Inst) []string {
	src.mu.Lock()
	defer src.mu.Unlock()
	k := in.GoPkg + "|" + in.GoType
	if c, ok := src.byType[k]; ok {
		return c
	}
	dir, typ, err := methodDeclDir(src.repoDir, in.GoPkg, in.GoType, "DoRPC", 0)
	must(err, "locate DoRPC of "+in.Type)
	cmds, found, err := doRPCCommands(dir, typ)
	must(err, "parse DoRPC of "+in.Type)
	if !found {
		infra("datatype %s: no DoRPC method found in %s", in.Type, dir)
	}
	src.byType[k] = cmds
	return cmds
}

// ---------- payloads ----------

// rpcPNG encodes nx x ny pixels of bpv bytes each as the PNG flavour dvid.ImageData maps
// to that many bytes per pixel.
func rpcPNG(bpv, nx, ny int, fill func(x, y int, px []byte)) []byte {
	var img image.Image
	px := make([]byte, bpv)
	switch bpv {
	case 1:
		m := image.NewGray(image.Rect(0, 0, nx, ny))
		for y := 0; y < ny; y++ {
			for x := 0; x < nx; x++ {
				fill(x, y, px)
				copy(m.Pix[y*m.Stride+x:], px)
			}
		}
		img = m
	case 2:
		m := image.NewGray16(image.Rect(0, 0, nx, ny))
		for y := 0; y < ny; y++ {
			for x := 0; x < nx; x++ {
				fill(x, y, px)
				copy(m.Pix[y*m.Stride+2*x:], px)
			}
		}
		img = m
	case 4:
		m := image.NewNRGBA(image.Rect(0, 0, nx, ny))
		for y := 0; y < ny; y++ {
			for x := 0; x < nx; x++ {
				fill(x, y, px)
				copy(m.Pix[y*m.Stride+4*x:], px)
			}
		}
		img = m
	default:
		m := image.NewNRGBA64(image.Rect(0, 0, nx, ny))
		for y := 0; y < ny; y++ {
			for x := 0; x < nx; x++ {
				fill(x, y, px)
				copy(m.Pix[y*m.Stride+8*x:], px)
			}
		}
		img = m
	}
	var buf bytes.Buffer
	must(png.Encode(&buf, img), "png encode")
	return buf.Bytes()
}

type c2RPCCmd struct {
	Class string            `json:"class"` // action of the Gate request class
	Cmd   []string          `json:"cmd"`
	Input []byte            `json:"-"`
	Files map[string][]byte `json:"-"`
	Known bool              `json:"known"` // built from the command's documented format
	Async bool              `json:"-"`     // the command answers before its work is done
}

var c2RPCWriteCommands = map[string]bool{
	"keyvalue|put": true, "neuronjson|put": true, "neuronjson|import-kv": true, "neuronjson|ingest-neuronjson": true,
	"annotation|reload": true, "imagetile|generate": true, "multichan16|load": true,
	"labelblk|load": true, "labelarray|load": true, "labelmap|load": true, "labelblk|composite": true, "labelarray|composite": true,
}

// rpcClass is the Gate class of a datatype command: the listed ones write the instance's
// data at the addressed version; anything else (dumps, help, counters that belong to the
// whole repository, words the datatype does not know) is judged by state only.
func rpcClass(in *c2Inst, sub string) string {
	if c2RPCWriteCommands[in.Type+"|"+sub] {
		return "data-write"
	}
	if in.Bpv > 0 && (sub == "load" || sub == "put") {
		return "data-write"
	}
	return "data-read"
}

// rpcDataPayloads returns the command lines sent for (instance, command) at node u.
func (w *c2World) rpcDataPayloads(in *c2Inst, sub, u, id string, k int) []c2RPCCmd {
	cls := rpcClass(in, sub)
	pre := []string{"node", u, in.Name, sub}
	mk := func(known, async bool, input []byte, files map[string][]byte, rest ...string) c2RPCCmd {
		return c2RPCCmd{Class: cls, Cmd: append(append([]string{}, pre...), rest...), Input: input, Files: files, Known: known, Async: async}
	}
	var out []c2RPCCmd
	lbl := func(x, y int, px []byte) { binary.LittleEndian.PutUint64(px, uint64(70+k%5)) }
	switch {
	case in.Type == "keyvalue" && sub == "put":
		out = append(out, mk(true, false, []byte(`"rpc-`+id+`"`), nil, "k1"), mk(true, false, []byte(`"rpc-`+id+`"`), nil, "sweep"))
	case in.Type == "neuronjson" && sub == "put":
		out = append(out, mk(true, false, []byte(fmt.Sprintf(`{"bodyid":1000,"rpc":%q}`, id)), nil, "1000"),
			mk(true, false, []byte(fmt.Sprintf(`{"bodyid":1777,"rpc":%q}`, id)), nil, "1777"))
	case in.Type == "neuronjson" && sub == "import-kv":
		if w.byName["kvu"] != nil {
			out = append(out, mk(true, true, nil, nil, "kvu"))
		}
		out = append(out, mk(true, true, nil, nil, "kv"))
	case in.Type == "neuronjson" && sub == "ingest-neuronjson":
		out = append(out, mk(true, true, nil, map[string][]byte{"nj.json": []byte(fmt.Sprintf(`[{"bodyid":1000,"ing":%q},{"bodyid":1003,"ing":%q}]`, id, id))}, "{file:nj.json}", "rpcuser"))
	case in.Type == "neuronjson" && sub == "version-changes":
		out = append(out, mk(true, true, nil, nil, "{dir}/version-changes.json"))
	case in.Type == "annotation" && sub == "reload":
		out = append(out, mk(true, true, nil, nil), mk(true, true, nil, nil, "check=true", "inmemory=false"))
	case in.Type == "imagetile" && sub == "generate":
		// the tile specification of the populated instance, so that a generation that runs changes tiles and not the layout
		out = append(out, mk(true, true, []byte(`{"0":{"Resolution":[10.0,10.0,10.0],"TileSize":[32,32,32]}}`), nil, "planes=xy"))
	case in.Type == "labelmap" && sub == "set-nextlabel":
		out = append(out, mk(true, false, nil, nil, fmt.Sprint(5000+k)))
	case (in.Type == "labelmap" || in.Type == "labelarray" || in.Type == "labelblk") && sub == "load":
		f := map[string][]byte{"lbl.png": rpcPNG(8, c2X, c2Y, lbl)}
		out = append(out, mk(true, true, nil, f, fmt.Sprintf("0,0,%d", 3+k%20), "{file:lbl.png}"))
	case in.Bpv > 0 && sub == "load":
		f := map[string][]byte{"img.png": rpcPNG(in.Bpv, c2X, c2Y, func(x, y int, px []byte) {
			for i := range px {
				px[i] = byte(200 + (x+y+k+i)%50)
			}
			if len(px) >= 4 {
				px[len(px)-1] = byte(7 + k%100) // a non-opaque alpha keeps the 4- and 8-byte pixel formats
			}
		})}
		out = append(out, mk(true, true, nil, f, fmt.Sprintf("0,0,%d", 3+k%20), "{file:img.png}"),
			mk(true, true, nil, f, fmt.Sprintf("5,3,%d", 4+k%20), "{file:img.png}")) // not block aligned
	case in.Bpv > 0 && sub == "put":
		f := map[string][]byte{"img.png": rpcPNG(in.Bpv, 32, 32, func(x, y int, px []byte) {
			for i := range px {
				px[i] = byte(100 + (x+k+i)%50)
			}
			if len(px) >= 4 {
				px[len(px)-1] = byte(9 + k%100)
			}
		})}
		out = append(out, mk(true, false, nil, f, "local", "xy", fmt.Sprintf("0,0,%d", 6+k%20), "{file:img.png}"))
	}
	// generic probes: the bare command, and the command with a few plausible arguments
	out = append(out, mk(false, true, nil, nil), mk(false, true, []byte("verif"), nil, "verif-arg", "1,2,3", "{dir}/verif-no-such-file"))
	return out
}

// ---------- the sweep ----------

var reRPCChild = regexp.MustCompile(`Branch ([0-9a-f]{32}) added`)
var reRPCMerged = regexp.MustCompile(`merged into node ([0-9a-f]{32})`)

// c2RPCGroups are the instance sets one RPC chunk populates (plus what they depend on).
var c2RPCGroups = []map[string]bool{
	{"kv": true, "kvu": true, "nj": true, "gray": true, "tiles": true, "roi": true, "mc": true},
	{"lm": true, "ann": true, "lsz": true, "tsv": true, "kv": true},
	{"la": true, "lb": true, "lv": true, "g16": true, "rgba": true, "kv": true},
	{"g32": true, "g64": true, "f32": true, "kv": true, "kv2": true, "roi2": true, "lm2": true, "ann2": true},
}

type c2RPCStats struct {
	mu               sync.Mutex
	commands         int64
	unconfirmedLoads int64
	refused          int64
	accepted         int64
	swept            map[string]bool // type|command or server|command
	effective        map[string]bool // command words whose known payload changed a committed node when the gate was open
	openOK           map[string]bool // known payloads the server accepted on the open node
	openRefused      map[string]string
	notSwept         map[string]string
}

func newC2RPCStats() *c2RPCStats {
	return &c2RPCStats{swept: map[string]bool{}, effective: map[string]bool{}, openOK: map[string]bool{}, openRefused: map[string]string{}, notSwept: map[string]string{}}
}

var c2RPCStat = newC2RPCStats()

// rpcSend executes one command and records it.
func (s *c2Sweeper) rpcSend(rp *c2Repo, c c2RPCCmd, expect string) (rpcRes, c2Sent, bool) {
	res, err := rpcCall(rp.w.n, c.Cmd, c.Input, c.Files)
	atomic.AddInt64(&s.st.requests, 1)
	atomic.AddInt64(&c2RPCStat.commands, 1)
	se := c2Sent{Method: "RPC", URL: strings.Join(c.Cmd, " "), Body: trunc(string(c.Input), 100), Tok: "none", Expect: expect}
	if err != nil {
		if _, isCall := err.(*node.CallError); isCall {
			infra("rpc call failed (transport, not the command): %v", err)
		}
		// dead or hung node: C20's subject
		if err == node.ErrDead {
			atomic.AddInt64(&s.st.crashes, 1)
		} else {
			atomic.AddInt64(&s.st.hangs, 1)
		}
		s.st.mu.Lock()
		s.st.troubles = append(s.st.troubles, fmt.Sprintf("%v: RPC %s | stderr: %s", err, trunc(se.URL, 160), trunc(rp.w.n.StderrTail(1500), 1500)))
		s.st.mu.Unlock()
		must(rp.w.n.Restart(false), "restart after crash/hang")
		se.Status = 599
		return res, se, false
	}
	if res.Err != "" {
		se.Status = 400
		se.Resp = trunc(res.Err, 160)
		atomic.AddInt64(&c2RPCStat.refused, 1)
	} else {
		se.Status = 200
		se.Resp = trunc(res.reply(), 160)
		atomic.AddInt64(&c2RPCStat.accepted, 1)
	}
	if res.Panic {
		se.Status = 500
	}
	return res, se, true
}

func (s *c2Sweeper) rpcSettle(rp *c2Repo, async bool) {
	s.idle(rp)
	if async {
		time.Sleep(60 * time.Millisecond)
		s.idle(rp)
	}
}

// sweepRPC prepares a repository, switches the node to the mode under test and sends
// every datatype command of the group's instances and every repo-level command to the
// committed nodes.
func (s *c2Sweeper) sweepRPC(cfg c2Config, variant, group int, seed int64) {
	src := c2RPCSourceLoad(s.routes.repoDir)
	rp := c2Prepare(s.c, node.Config{}, variant, c2RPCGroups[group])
	defer s.c.DropNode(rp.w.n)
	w := rp.w
	if w.byName["kvu"] != nil {
		// numeric keys for neuronjson import-kv (an unversioned instance lives at the root whatever is committed)
		w.okPost("POST", "/api/node/"+w.root+"/kvu/key/1000", []byte(`{"bodyid":1000,"imported":"from kvu"}`))
		w.okPost("POST", "/api/node/"+w.root+"/kvu/key/1002", []byte(`{"bodyid":1002,"imported":"from kvu"}`))
	}
	must(w.n.RestartWith(true, func(c *node.Config) {
		c.RWMode = map[string]string{"default": "", "readonly": "readonly", "fullwrite": "fullwrite"}[cfg.Mode]
	}), "restart in mode "+cfg.Mode)
	rng := rand.New(rand.NewSource(seed))
	all := w.contentReads(rp.committed, nil)
	for _, k := range rp.stabilise(all) {
		s.st.mu.Lock()
		s.st.unstable[stripUUIDs(k)] = true
		s.st.mu.Unlock()
	}
	exc := cfg.Mode == "fullwrite"
	first := w.take(all)
	seq := 0
	// one unit = commands followed by one comparison of the committed nodes; every command is
	// looked up in the decision table by its own class
	type unitCmd struct {
		c       c2RPCCmd
		rq      gateRq
		evalKey string
	}
	unit := func(label string, reads []snap.Read, base *snap.Snap, cmds []unitCmd, target string, in *c2Inst) *snap.Snap {
		var sent []c2Sent
		async := false
		var rows []gateRow
		keys := map[string]gateRq{}
		for _, uc := range cmds {
			c := uc.c
			row := s.row(uc.rq, cfg, "none")
			rows = append(rows, row)
			keys[uc.evalKey] = uc.rq
			res, se, ok := s.rpcSend(rp, c, row.Out)
			sent = append(sent, se)
			async = async || c.Async
			if !ok {
				continue
			}
			if res.Panic {
				s.st.mu.Lock()
				s.st.troubles = append(s.st.troubles, "handler panic (recovered by the RPC server): "+trunc(se.URL, 160)+" | "+trunc(res.Err, 300))
				s.st.mu.Unlock()
			}
			if c.Known && row.Out != "pass" && (c.Class == "data-write" || c.Class == "new-instance") {
				atomic.AddInt64(&s.st.refusedChecked, 1)
				if res.Err == "" {
					s.run.Violation("c02-gate", c2Divergence{Kind: "rpc-not-refused", Config: cfg, Variant: variant, Target: target, Instance: in, Keyword: uc.evalKey,
						Requests: []c2Sent{se}, Row: row, Note: "the specification refuses this command on a committed node (like its HTTP twin); the server accepted it"})
				}
			}
			if c.Known && row.Child && c.Cmd[2] == "branch" {
				atomic.AddInt64(&s.st.childChecked, 1)
				if res.Err != "" || !reRPCChild.MatchString(res.reply()) {
					s.run.Violation("c02-child", c2Divergence{Kind: "child-creation-refused", Config: cfg, Variant: variant, Target: target, Keyword: uc.evalKey,
						Requests: []c2Sent{se}, Row: row, Note: "creating a child version (new branch) of a committed node must stay allowed"})
				}
			}
		}
		s.rpcSettle(rp, async)
		after := w.take(reads)
		atomic.AddInt64(&s.st.snapshots, 1)
		d := snap.Diff(base, after)
		if !exc {
			d = knownFilter(s.run, w, rp.confirm(base, reads, d))
		}
		c2RPCStat.mu.Lock()
		for k, rq := range keys {
			c2RPCStat.swept[k] = true
			if exc && len(d) > 0 && len(keys) == 1 {
				c2RPCStat.effective[k] = true
			}
			if !exc {
				s.run.Eval(fmt.Sprintf("rpc|%s|%s|%v", k, cfg.Mode, rq.Versioned))
			}
		}
		c2RPCStat.mu.Unlock()
		if len(d) == 0 {
			return base
		}
		if !exc {
			var row interface{}
			if len(rows) > 0 {
				row = rows[0]
			}
			s.run.Violation("c02-frozen", c2Divergence{Kind: "committed-node-changed-by-rpc", Config: cfg, Variant: variant, Target: target, Instance: in, Keyword: label,
				Requests: sent, Diffs: d, Row: row, Note: "versioned content, note, log or commit flag of a committed node differs after these RPC commands (the server is not in full-write mode and a command cannot carry the admin token)"})
		}
		return after
	}

	// (a) datatype commands: node <uuid> <data> <command> ...
	insts := append([]*c2Inst(nil), w.insts...)
	sort.Slice(insts, func(i, j int) bool { return insts[i].Name < insts[j].Name })
	for _, in := range insts {
		words := append([]string{"help", "verif-unknown-command"}, src.dataCommands(in)...)
		reads := w.contentReads(rp.committed, w.focus(in.Name))
		base := w.take(reads)
		var readCmds []unitCmd
		for _, sub := range words {
			cls := rpcClass(in, sub)
			rq := gateRq{Scope: "rpc", Method: "CMD", Action: cls, Versioned: in.Versioned}
			key := in.Type + "|" + sub
			if cls != "data-write" {
				// judged by state only: all of the instance's non-writing commands, then one comparison
				seq++
				t := rp.committed[rng.Intn(len(rp.committed))]
				for _, c := range w.rpcDataPayloads(in, sub, t, fmt.Sprintf("%s%d", cfg.Mode[:1], seq), seq) {
					readCmds = append(readCmds, unitCmd{c, rq, key})
				}
				continue
			}
			// validity of the documented payloads: the same command on the open node (not imagetile
			// generate: it rewrites the instance's unversioned tile layout, which every version is read through)
			if cfg.Mode != "readonly" && in.Type != "imagetile" {
				for _, c := range w.rpcDataPayloads(in, sub, rp.open, fmt.Sprintf("o%d", seq), seq) {
					if !c.Known {
						continue
					}
					res, _, ok := s.rpcSend(rp, c, "pass")
					if !ok {
						continue
					}
					c2RPCStat.mu.Lock()
					if res.Err == "" {
						c2RPCStat.openOK[key] = true
					} else {
						c2RPCStat.openRefused[key] = trunc(res.Err, 160)
					}
					c2RPCStat.mu.Unlock()
				}
			}
			var cmds []unitCmd
			target := ""
			for ti, t := range rp.committed {
				seq++
				for _, c := range w.rpcDataPayloads(in, sub, t, fmt.Sprintf("%s%d", cfg.Mode[:1], seq), seq) {
					if c.Known || ti == 0 { // the generic probes once
						cmds = append(cmds, unitCmd{c, rq, key})
					}
				}
				target = t
			}
			base = unit(key, reads, base, cmds, target, in)
		}
		base = unit(in.Type+" commands that write nothing at the version", reads, base, readCmds, "", in)
	}

	// (b) repo-level commands: repo <uuid> <command> ...
	reads := w.contentReads(rp.committed, map[string]bool{"kv": true})
	base := w.take(reads)
	root, a, cc := rp.committed[0], rp.committed[1], rp.committed[2]
	victim := ""
	if cfg.Mode != "readonly" {
		if res, _, ok := s.rpcSend(rp, c2RPCCmd{Cmd: []string{"repo", rp.open, "new", "keyvalue", "victim"}}, "pass"); ok && res.Err == "" {
			victim = "victim"
		}
	}
	units := map[string][]unitCmd{}
	note := func(k, why string) {
		c2RPCStat.mu.Lock()
		c2RPCStat.notSwept[k] = why
		c2RPCStat.mu.Unlock()
	}
	for _, sub := range append([]string{"verif-unknown-command"}, src.subs["repo"]...) {
		seq++
		id := fmt.Sprintf("%s%d%d", cfg.Mode[:1], group, seq)
		cls, un := "repo-admin", "other"
		var cmds []c2RPCCmd
		mk := func(known bool, u string, rest ...string) {
			cmds = append(cmds, c2RPCCmd{Cmd: append([]string{"repo", u, sub}, rest...), Known: known, Async: true})
		}
		target := rp.committed[seq%3]
		switch sub {
		case "new":
			cls, un = "new-instance", "new"
			for _, t := range rp.committed {
				mk(true, t, "keyvalue", "rpcnew"+id+t[:4])
			}
		case "branch":
			cls, un = "child", "children"
			mk(true, target, "rb"+id)
		case "newversion":
			cls, un = "child", "children"
			mk(true, target) // refused when the node already has a child on its branch: no verdict on that
		case "merge":
			cls, un = "child", "children"
			mk(true, a, cc)
		case "rename":
			un = "admin"
			if victim != "" {
				mk(true, target, victim, victim+"2")
				victim += "2"
			}
			mk(false, target, "verif-no-such-instance", "verif-x")
		case "delete":
			un = "admin"
			if victim != "" {
				mk(true, target, victim)
				victim = ""
			}
			mk(false, target, "verif-no-such-instance")
		case "copy":
			un = "admin"
			mk(true, target, "kv", "kvcopy"+id)
			mk(false, target, "verif-no-such-instance", "verif-x")
		case "storage-details", "flatten-mutations":
			cls = "read"
			mk(false, target)
			mk(false, target, "verif-arg", root, a, "{dir}/verif-out")
		case "make-master":
			// on a master-line node the command is refused; on the first node of a branch it renames
			// branches of the whole repository (a documented dangerous command, not a change at a version)
			mk(false, root, "verif-old-master")
			mk(false, a, "verif-old-master")
			note("repo|make-master on the first node of a branch", "renames the branches of the repository (gap X2)")
		case "hide-branch":
			mk(false, target, "verif-no-such-branch")
			note("repo|hide-branch of an existing branch", "documented to drop the branch's nodes from the metadata (gap X2)")
		case "push":
			note("repo|push", "needs a remote DVID")
			continue
		default:
			mk(false, target)
			mk(false, target, "verif-arg", "verif-arg2", "{dir}/verif-no-such-file")
		}
		rq := gateRq{Scope: "rpc", Method: "CMD", Action: cls, Versioned: true}
		for _, c := range cmds {
			c.Class = cls
			units[un] = append(units[un], unitCmd{c, rq, "server|repo " + sub})
		}
	}
	// (c) the other first words
	for _, name := range src.top {
		switch name {
		case "shutdown":
			note("shutdown", "stops the server by design")
		case "repo", "node":
		case "repos":
			rq := gateRq{Scope: "rpc", Method: "CMD", Action: "repo-admin", Versioned: true}
			units["other"] = append(units["other"],
				unitCmd{c2RPCCmd{Class: "repo-admin", Cmd: []string{"repos", "new", "rpc-alias", "rpc-description"}, Known: true}, rq, "server|repos new"},
				unitCmd{c2RPCCmd{Class: "repo-admin", Cmd: []string{"repos", "verif-unknown-command"}}, rq, "server|repos"})
			note("repos delete", "deletes the whole repository by design (a DvidDAG action, C07)")
		default:
			rq := gateRq{Scope: "rpc", Method: "CMD", Action: "read", Versioned: true}
			units["other"] = append(units["other"], unitCmd{c2RPCCmd{Class: "read", Cmd: []string{name}}, rq, "server|" + name},
				unitCmd{c2RPCCmd{Class: "read", Cmd: []string{name, "keyvalue", "help"}}, rq, "server|" + name})
		}
	}
	for _, un := range []string{"new", "children", "admin", "other"} {
		if len(units[un]) > 0 {
			base = unit("repo-level commands: "+un, reads, base, units[un], "", nil)
		}
	}

	// late effects of commands that answer before their work is done
	time.Sleep(300 * time.Millisecond)
	s.idle(rp)
	if !exc {
		after := w.take(all)
		if d := knownFilter(s.run, w, rp.confirm(first, all, snap.Diff(first, after))); len(d) > 0 {
			s.run.Violation("c02-frozen", c2Divergence{Kind: "committed-node-changed-by-rpc", Config: cfg, Variant: variant, Keyword: "rpc commands of instance group " + fmt.Sprint(group), Diffs: d,
				Note: "after the sweep of the RPC commands the full snapshot of the committed nodes differs from the one taken before it"})
		}
	}
}

// ---------- RPC steps of Gate behaviours ----------

// rpcStep executes a step of scope "rpc" of a Gate behaviour at node u and returns the
// commands sent and, for an accepted child creation, the new node's UUID.
func (rpl *c2Replayer) rpcStep(w *c2World, st gateStep, u string, tag string, gen int) (sent []c2Sent, child string) {
	send := func(c c2RPCCmd) rpcRes {
		res, err := rpcCall(w.n, c.Cmd, c.Input, c.Files)
		must(err, "replay rpc command")
		atomic.AddInt64(&rpl.st.requests, 1)
		atomic.AddInt64(&c2RPCStat.commands, 1)
		se := c2Sent{Method: "RPC", URL: strings.Join(c.Cmd, " "), Body: trunc(string(c.Input), 100), Tok: st.Tok, Status: 200, Resp: trunc(res.reply(), 120), Expect: st.Out}
		if res.Err != "" {
			se.Status, se.Resp = 400, trunc(res.Err, 120)
		}
		sent = append(sent, se)
		return res
	}
	switch st.Rq.Action {
	case "data-write":
		// one generation of command-line writes: keyvalue put (synchronous) on every versioned keyvalue
		// instance and load of an image slice on every image instance.  load answers before the
		// voxels are stored, so an accepted load is followed until a voxel of the slice has changed.
		for _, in := range w.insts {
			if !in.Versioned {
				continue
			}
			switch {
			case in.Type == "keyvalue":
				for _, c := range w.rpcDataPayloads(in, "put", u, tag, gen) {
					if c.Known {
						send(c)
						break
					}
				}
			case in.Bpv > 0:
				z := 3 + gen%20
				// the slice covers the two blocks of the populated volume: one probe in each
				probes := []string{fmt.Sprintf("/api/node/%s/%s/raw/0_1/1_1/0_0_%d", u, in.Name, z), fmt.Sprintf("/api/node/%s/%s/raw/0_1/1_1/%d_%d_%d", u, in.Name, c2X-1, c2Y-1, z)}
				var before []node.Resp
				for _, p := range probes {
					r, err := w.n.HTTP("GET", p, nil)
					must(err, "probe voxel")
					before = append(before, r)
				}
				for _, c := range w.rpcDataPayloads(in, "load", u, tag, gen) {
					if !c.Known {
						continue
					}
					if res := send(c); res.Err == "" {
						deadline := time.Now().Add(5 * time.Second)
						for {
							changed := 0
							for pi, p := range probes {
								now, err := w.n.HTTP("GET", p, nil)
								must(err, "probe voxel")
								if now.Status != before[pi].Status || !bytes.Equal(now.Bytes(), before[pi].Bytes()) {
									changed++
								}
							}
							if changed == len(probes) {
								break
							}
							if time.Now().After(deadline) {
								// the slice's corner values can coincide with the stored ones (1-byte voxels): go on
								atomic.AddInt64(&c2RPCStat.unconfirmedLoads, 1)
								break
							}
							time.Sleep(2 * time.Millisecond)
						}
					}
					break
				}
			}
		}
	case "child":
		res := send(c2RPCCmd{Cmd: []string{"repo", u, "branch", "r" + tag}})
		if m := reRPCChild.FindStringSubmatch(res.reply()); res.Err == "" && m != nil {
			child = m[1]
		}
	case "new-instance":
		send(c2RPCCmd{Cmd: []string{"repo", u, "new", "keyvalue", "other"}})
	default:
		infra("behaviour step: rpc class %+v not mapped", st.Rq)
	}
	return sent, child
}

// c2RPCEvidence records what the RPC sweep did.
func c2RPCEvidence(run interface {
	Set(string, interface{})
}, cpuS float64, chunks int) {
	st := c2RPCStat
	st.mu.Lock()
	defer st.mu.Unlock()
	list := func(m map[string]bool) []string {
		var out []string
		for k := range m {
			out = append(out, k)
		}
		sort.Strings(out)
		return out
	}
	run.Set("rpc_chunks", chunks)
	run.Set("rpc_commands_sent", st.commands)
	run.Set("rpc_commands_answered_with_error", st.refused)
	run.Set("rpc_commands_accepted", st.accepted)
	run.Set("rpc_command_words_swept", list(st.swept))
	run.Set("rpc_effective_payloads_in_fullwrite_mode", list(st.effective))
	run.Set("rpc_write_payloads_accepted_on_open_node", list(st.openOK))
	run.Set("rpc_write_payloads_refused_on_open_node", st.openRefused)
	run.Set("rpc_commands_not_swept", st.notSwept)
	run.Set("rpc_loads_in_behaviours_not_confirmed_by_probe", st.unconfirmedLoads)
	run.Set("rpc_cpu_s", cpuS)
}
