package main

// C11 / C13 growth (gaps C11-3, C13-3 of GAPS.md): annotation sync handlers against element edits.
//
// C13 replays every transition of Annotation.tla with the server idle before the next request, so an
// element edit never meets a queued or running label sync event.  Here the simulated behaviours of the
// same specification (Annotation_sim, the layouts of C13) are replayed WITHOUT waiting between the
// operations: all operations of a behaviour are issued one after the other (each acknowledged before
// the next is sent) in ONE open version, the server is left to settle only after the last one, and the
// final views must be those TLC derived for the final state.  The requests are sequential, so whatever
// order the asynchronous sync events are handled in, the settled state the specification allows is
// the one state of the behaviour's end; an edit lost because a sync handler rewrote a label list it
// had read earlier (or a count applied twice) shows up as a different final view.
//
// Everything about the specification side (layouts, constants, TLC simulation, the comparison of every
// read endpoint) is C13's machinery, used unchanged.

import (
	"fmt"
	"math/rand"
	"sort"
	"strings"
	"sync"
	"sync/atomic"
	"time"

	"verifharness/internal/ev"
	"verifharness/internal/lmm"
)

type c11AnnReplay struct {
	Kind      string      `json:"kind"`
	Layout    string      `json:"layout"`
	Positions [][3]int    `json:"voxel_of_position"`
	PosRegion []int       `json:"region_of_position"`
	InitSV    []uint64    `json:"initial_supervoxel_of_region"`
	InitMP    interface{} `json:"initial_mapping"`
	InitElems []annElem   `json:"initial_elements"`
	Ops       []annOp     `json:"operations_issued_without_waiting_between_them"`
	Requests  []string    `json:"requests"`
	Diffs     []string    `json:"final_views_differ"`
	Labels    interface{} `json:"spec_to_real_labels,omitempty"`
	LogTail   string      `json:"server_log_tail,omitempty"`
}

// known finding (known_findings.json): a label request is acknowledged before the annotation has handled
// its sync event; an element edit that arrives in between works on lists the event will still rewrite
// (DELETE of an element of a merged body leaves it listed under the target; POST into a cleaved
// supervoxel is dropped from the new body's list; a voxel write counts an element posted after it twice;
// a cleave issued while the event of an earlier voxel write is being handled makes the handler map the
// old and the new block content through different mappings and drops an element from every body list).
// Concurrency.tla (template annsync) shows that no locking of the handlers removes this.
const c11KnownAnnSync = "annotation-edit-between-label-request-and-its-sync-event"

// c11AnnKnownPattern: the known finding can explain different final views only if some operation follows
// a label operation in the behaviour (an element edit, or another label operation: its labelmap part
// changes the mapping while the annotation may still be handling the earlier event, and the handlers
// translate block contents and points through the mapping as it is when they run).
func c11AnnKnownPattern(ops []annOp) bool {
	for i, op := range ops {
		switch op.Op.Op {
		case "merge", "cleave", "splitsv", "overwrite":
			if i+1 < len(ops) {
				return true
			}
		}
	}
	return false
}

func c11AnnLayout(c *Ctx) *annLayout {
	// layout A of C13: bodies 1 = {sv1 (regions 1,2), sv2 (region 3)} and 3 = {sv3 (region 4), sv4 (region 5)},
	// background region 6; six positions (two in one region across blocks, three in block (0,0,0), one at
	// negative x, one on background)
	rng := rand.New(rand.NewSource(c.Seed*7 + 13))
	g := lmm.NewGeom(c.Seed, true)
	lo := &annLayout{name: "small6/A", g: g, initSV: []uint64{1, 1, 2, 3, 4, 0}, initMP: map[uint64]uint64{1: 1, 2: 1, 3: 3, 4: 3},
		nt: 2, nrel: 2, kinds: []string{"PostSyn", "PreSyn", "Note"}}
	lo.placePositions(rng, [][2]int{{2, 1}, {2, 2}, {4, 1}, {3, 3}, {3, 1}, {6, 4}})
	lo.makeBoxes(rng)
	perm := rng.Perm(len(g.Blocks))
	lo.roiBlocks = []int{perm[0] + 1, perm[1] + 1}
	sort.Ints(lo.roiBlocks)
	lo.seededInitElems(rng, []int{1, 3, 4})
	lo.overwrite = true
	// the operation classes of Annotation.tla this replay issues back to back (no restarts, no ingest of fresh blocks)
	lo.classes = []string{"post1", "pair", "retag", "delete", "move", "merge", "cleave", "splitsv", "overwrite", "blocks"}
	lo.deep = lo.classes
	lo.variants = []string{"plain"}
	return lo
}

type c11AnnPrep struct {
	lo        *annLayout
	traces    [][]annStep
	simStates int64
	tlcS      float64
	err       interface{}
	done      chan struct{}
}

// c11AnnPrepare starts the TLC simulation of Annotation.tla in the background (it needs no server).
func c11AnnPrepare(c *Ctx) *c11AnnPrep {
	p := &c11AnnPrep{lo: c11AnnLayout(c), done: make(chan struct{})}
	go func() {
		defer close(p.done)
		defer func() { p.err = recover() }()
		t0 := time.Now()
		num, ops := c.pick(8, 240), c.pick(8, 10)
		parts := c.pick(1, 4)
		trs := make([][][]annStep, parts)
		sss := make([]int64, parts)
		var fs []func()
		for k := 0; k < parts; k++ {
			k := k
			fs = append(fs, func() { trs[k], sss[k] = annSimulate(c, p.lo, num/parts, ops, c.Seed*3000+int64(k)+17) })
		}
		together(fs...)
		for k := range trs {
			p.traces = append(p.traces, trs[k]...)
			p.simStates += sss[k]
		}
		p.tlcS = since(t0)
	}()
	return p
}

// c11AnnSyncNoIdle runs the replay and returns the measured coverage.
func c11AnnSyncNoIdle(c *Ctx, run *ev.Run, prep *c11AnnPrep) map[string]interface{} {
	<-prep.done
	if prep.err != nil {
		panic(prep.err)
	}
	t0 := time.Now()
	lo, traces, simStates, tlcS := prep.lo, prep.traces, prep.simStates, prep.tlcS
	var next int64 = -1
	var replayed, opsIssued, refused, labelDiverged, differ, known int64
	classes := map[string]int{}
	var cmu sync.Mutex
	var wg sync.WaitGroup
	var firstErr atomic.Value
	nw := c.pick(6, 12)
	for wi := 0; wi < nw; wi++ {
		wg.Add(1)
		go func(wi int) {
			defer wg.Done()
			var dummy int64
			w := &annWorker{c: c, run: run, lo: lo, w: wi, edges: &dummy}
			defer func() {
				if e := recover(); e != nil {
					msg := fmt.Sprint(e)
					if ie, ok := e.(infraErr); ok {
						msg = ie.err.Error()
					}
					if strings.Contains(msg, "timeout") && w.n != nil {
						msg += "; goroutines of the server: " + c11Stacks(w.n)
					}
					firstErr.Store(msg)
				}
			}()
			defer func() {
				if w.n != nil {
					c.DropNode(w.n)
				}
			}()
			var root string
			var lab *lmm.Labels
			for {
				ti := int(atomic.AddInt64(&next, 1))
				if ti >= len(traces) {
					return
				}
				tr := traces[ti]
				if w.n == nil || w.nbr >= 150 {
					if w.n != nil {
						c.DropNode(w.n)
						w.n = nil
					}
					w.nbr = 0
					root, lab = w.start(tr[0].Obs)
					if root == "" {
						return
					}
				}
				child := w.branch(root)
				cl := lab.Clone()
				last := tr[0]
				var issued []annOp
				var reqs []string
				for i := 1; i < len(tr); i++ {
					op := tr[i].L
					if op.Op.Op == "blocks" {
						break // block ingestion + reload has to wait for the reload by construction (C13 covers it)
					}
					fail, req, _ := w.apply(child, op, tr[i].Obs, cl)
					atomic.AddInt64(&opsIssued, 1)
					if fail != "" {
						// refused (e.g. a label operation whose precondition reads an index a voxel write is still
						// updating): the behaviour ends before this operation; the prefix is judged
						atomic.AddInt64(&refused, 1)
						break
					}
					issued = append(issued, op)
					reqs = append(reqs, req)
					last = tr[i]
					cmu.Lock()
					classes[opClass(op)]++
					cmu.Unlock()
				}
				atomic.AddInt64(&replayed, 1)
				run.Eval(fmt.Sprintf("annsync-noidle|%s|sim%d|%d", lo.name, ti, len(issued)))
				var d []string
				func() {
					defer func() {
						if e := recover(); e != nil {
							if ie, ok := e.(infraErr); ok && len(ie.err.Error()) >= len(annLabelsDiverged) && ie.err.Error()[:len(annLabelsDiverged)] == annLabelsDiverged {
								atomic.AddInt64(&labelDiverged, 1)
								d = nil
								return
							}
							panic(e)
						}
					}()
					d = w.settle(child, last.Obs, cl, 10*time.Second)
				}()
				if len(d) == 0 {
					continue
				}
				atomic.AddInt64(&differ, 1)
				if len(d) > 20 {
					d = d[:20]
				}
				rp := c11AnnReplay{Kind: "no-idle-replay", Layout: lo.name, Positions: lo.pos, PosRegion: lo.posRegion, InitSV: lo.initSV,
					InitMP: lo.initMP, InitElems: lo.initElems, Ops: issued, Requests: reqs, Diffs: d, Labels: cl.ToReal, LogTail: w.n.StderrTail(1200)}
				if run.KnownActive(c11KnownAnnSync) && c11AnnKnownPattern(issued) {
					if atomic.AddInt64(&known, 1) <= 2 {
						run.Sample(rp)
					}
					run.ReportKnown(c11KnownAnnSync)
					continue
				}
				run.Violation("c11-annsync", rp)
			}
		}(wi)
	}
	wg.Wait()
	if e := firstErr.Load(); e != nil {
		infra("annotation no-idle worker: %v", e)
	}
	out := map[string]interface{}{
		"behaviours_replayed_without_idling":         replayed,
		"operations_issued":                          opsIssued,
		"operations_by_class":                        classes,
		"behaviours_cut_at_a_refused_operation":      refused,
		"behaviours_not_judged_label_volume_differs": labelDiverged,
		"behaviours_whose_final_views_differ":        differ,
		"simulation_states_generated":                simStates,
		"tlc_wall_s_in_background":                   tlcS,
		"replay_wall_s":                              since(t0),
	}
	if len(traces) > 0 && len(traces[0]) > 1 {
		var ops []annOp
		for i := 1; i < len(traces[0]); i++ {
			ops = append(ops, traces[0][i].L)
		}
		run.Sample(map[string]interface{}{"annotation_behaviour_replayed_without_idling": ops})
	}
	return out
}
