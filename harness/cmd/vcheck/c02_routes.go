package main

import (
	"fmt"
	"go/ast"
	"go/parser"
	"go/token"
	"os"
	"path/filepath"
	"regexp"
	"sort"
	"strconv"
	"strings"
	"sync"

	"verifharness/internal/ev"
)

// Route extraction for C02: the set of (datatype, endpoint keyword) pairs and the
// node-/repo-level routes are read from the source tree the server under test was
// built from, so that a route added later is swept without touching the check.

const dvidModule = "github.com/janelia-flyem/dvid"

// repoSourceDir returns the directory of the dvid source tree the harness is linked
// against (the `replace` target in harness/go.mod).
func repoSourceDir() string {
	b, err := os.ReadFile(filepath.Join(ev.VerifDir, "harness", "go.mod"))
	must(err, "read harness/go.mod")
	m := regexp.MustCompile(`(?m)^replace\s+` + regexp.QuoteMeta(dvidModule) + `\s+=>\s+(\S+)`).FindSubmatch(b)
	if m == nil {
		infra("no replace directive for %s in harness/go.mod", dvidModule)
	}
	dir := string(m[1])
	if !filepath.IsAbs(dir) {
		dir = filepath.Join(ev.VerifDir, "harness", dir)
	}
	if _, err := os.Stat(filepath.Join(dir, "server", "web.go")); err != nil {
		infra("dvid source tree not found at %s: %v", dir, err)
	}
	return dir
}

// isPartsIndex reports whether e is parts[k] (any slice named parts) for the keyword position k=3.
func isPartsIndex(e ast.Expr, k string) bool {
	ix, ok := e.(*ast.IndexExpr)
	if !ok {
		return false
	}
	id, ok := ix.X.(*ast.Ident)
	if !ok || id.Name != "parts" {
		return false
	}
	lit, ok := ix.Index.(*ast.BasicLit)
	return ok && lit.Kind == token.INT && lit.Value == k
}

func strLit(e ast.Expr) (string, bool) {
	lit, ok := e.(*ast.BasicLit)
	if !ok || lit.Kind != token.STRING {
		return "", false
	}
	s, err := strconv.Unquote(lit.Value)
	return s, err == nil
}

// serveHTTPKeywords parses every non-test file of a package directory and returns the
// endpoint keywords that the ServeHTTP method of recvType dispatches on: string
// literals of case clauses of switches over parts[3] (or a variable assigned from
// parts[3]) and literals compared with it by == / !=.  Functions called from ServeHTTP
// with parts as an argument are not followed: the dispatch on the keyword is in
// ServeHTTP itself in every datatype; the count of switches found is returned so the
// caller can notice a datatype where this stops being true.
func serveHTTPKeywords(dir, recvType string) (kws []string, switches int, err error) {
	fset := token.NewFileSet()
	pkgs, err := parser.ParseDir(fset, dir, func(fi os.FileInfo) bool { return !strings.HasSuffix(fi.Name(), "_test.go") }, 0)
	if err != nil {
		return nil, 0, err
	}
	set := map[string]bool{}
	found := false
	var unresolved []string
	for _, pkg := range pkgs {
		consts, strOf := pkgStringTables(pkg)
		// a case expression that is not a string literal: a string constant of the package, or
		// X.String() for a constant X whose type has a String method made of `case X: return "lit"`
		resolve := func(e ast.Expr) (string, bool) {
			switch t := e.(type) {
			case *ast.Ident:
				v, ok := consts[t.Name]
				return v, ok
			case *ast.ParenExpr:
				if id, ok := t.X.(*ast.Ident); ok {
					v, ok := consts[id.Name]
					return v, ok
				}
			case *ast.CallExpr:
				if sel, ok := t.Fun.(*ast.SelectorExpr); ok && sel.Sel.Name == "String" && len(t.Args) == 0 {
					if id, ok := sel.X.(*ast.Ident); ok {
						v, ok := strOf[id.Name]
						return v, ok
					}
				}
				// string(X) for a string constant X
				if fn, ok := t.Fun.(*ast.Ident); ok && fn.Name == "string" && len(t.Args) == 1 {
					if id, ok := t.Args[0].(*ast.Ident); ok {
						v, ok := consts[id.Name]
						return v, ok
					}
				}
			}
			return "", false
		}
		funcs := map[string]*ast.FuncDecl{}
		for _, f := range pkg.Files {
			for _, decl := range f.Decls {
				if fd, ok := decl.(*ast.FuncDecl); ok && fd.Body != nil {
					funcs[fd.Name.Name] = fd
				}
			}
		}
		clauseMutates := func(cc *ast.CaseClause) bool {
			for _, st := range cc.Body {
				if mentionsMutatingMethod(st) {
					return true
				}
			}
			mut := false
			for _, st := range cc.Body {
				ast.Inspect(st, func(x ast.Node) bool {
					call, ok := x.(*ast.CallExpr)
					if !ok {
						return true
					}
					name := ""
					switch f := call.Fun.(type) {
					case *ast.SelectorExpr:
						name = f.Sel.Name
					case *ast.Ident:
						name = f.Name
					}
					if fd := funcs[name]; fd != nil && name != "ServeHTTP" && mentionsMutatingMethod(fd.Body) {
						mut = true
					}
					return !mut
				})
			}
			return mut
		}
		for _, f := range pkg.Files {
			for _, decl := range f.Decls {
				fd, ok := decl.(*ast.FuncDecl)
				if !ok || fd.Name.Name != "ServeHTTP" || fd.Recv == nil || len(fd.Recv.List) != 1 || fd.Body == nil {
					continue
				}
				rt := fd.Recv.List[0].Type
				if st, ok := rt.(*ast.StarExpr); ok {
					rt = st.X
				}
				if id, ok := rt.(*ast.Ident); !ok || id.Name != recvType {
					continue
				}
				found = true
				// aliases of parts[3]
				alias := map[string]bool{}
				ast.Inspect(fd.Body, func(n ast.Node) bool {
					as, ok := n.(*ast.AssignStmt)
					if !ok {
						return true
					}
					for i, rhs := range as.Rhs {
						if isPartsIndex(rhs, "3") && i < len(as.Lhs) {
							if id, ok := as.Lhs[i].(*ast.Ident); ok {
								alias[id.Name] = true
							}
						}
					}
					return true
				})
				isKw := func(e ast.Expr) bool {
					if isPartsIndex(e, "3") {
						return true
					}
					id, ok := e.(*ast.Ident)
					return ok && alias[id.Name]
				}
				ast.Inspect(fd.Body, func(n ast.Node) bool {
					switch t := n.(type) {
					case *ast.SwitchStmt:
						if t.Tag != nil && isKw(t.Tag) {
							switches++
							for _, st := range t.Body.List {
								cc := st.(*ast.CaseClause)
								mut := clauseMutates(cc)
								for _, e := range cc.List {
									s, ok := strLit(e)
									if !ok {
										if s, ok = resolve(e); ok {
											resolvedNonLiteral[recvType+":"+s] = true
										}
									}
									if ok {
										set[s] = true
										if mut {
											kwMutBranchMu.Lock()
											kwMutBranch[dir+"|"+recvType+":"+s] = true
											kwMutBranchMu.Unlock()
										}
									} else {
										unresolved = append(unresolved, fset.Position(e.Pos()).String())
									}
								}
							}
						}
					case *ast.BinaryExpr:
						if t.Op == token.EQL || t.Op == token.NEQ {
							if isKw(t.X) {
								if s, ok := strLit(t.Y); ok {
									set[s] = true
								}
							}
							if isKw(t.Y) {
								if s, ok := strLit(t.X); ok {
									set[s] = true
								}
							}
						}
					}
					return true
				})
			}
		}
	}
	if !found {
		return nil, 0, fmt.Errorf("no method (*%s).ServeHTTP in %s", recvType, dir)
	}
	if len(unresolved) > 0 {
		// an endpoint keyword the sweep would silently miss
		return nil, 0, fmt.Errorf("(*%s).ServeHTTP: case expression(s) of the keyword switch that are neither string literals nor resolvable constants / String() calls: %s", recvType, strings.Join(unresolved, ", "))
	}
	for k := range set {
		kws = append(kws, k)
	}
	sort.Strings(kws)
	return kws, switches, nil
}

// kwMutBranch records, per "recvType:keyword", whether the case clause of the keyword (or a function it
// calls directly) tests the request method against "post" / "put" / "delete": the keyword has a mutating
// branch.  (A lower bound: a branch reached through `else` or two calls deep is not seen.)
var (
	kwMutBranch   = map[string]bool{}
	kwMutBranchMu sync.Mutex
)

func mentionsMutatingMethod(n ast.Node) bool {
	found := false
	ast.Inspect(n, func(x ast.Node) bool {
		if lit, ok := x.(*ast.BasicLit); ok && lit.Kind == token.STRING {
			if v, err := strconv.Unquote(lit.Value); err == nil {
				switch strings.ToLower(v) {
				case "post", "put", "delete":
					found = true
				}
			}
		}
		if sel, ok := x.(*ast.SelectorExpr); ok {
			switch sel.Sel.Name {
			case "MethodPost", "MethodPut", "MethodDelete":
				found = true
			}
		}
		return !found
	})
	return found
}

// resolvedNonLiteral records the keywords that came from non-literal case expressions (evidence).
var resolvedNonLiteral = map[string]bool{}

// pkgStringTables returns the string constants of a package (name -> value) and, for every
// String method of the shape `switch recv { case X: return "lit" ... }`, the table X -> "lit".
func pkgStringTables(pkg *ast.Package) (consts, strOf map[string]string) {
	consts, strOf = map[string]string{}, map[string]string{}
	for _, f := range pkg.Files {
		for _, decl := range f.Decls {
			switch d := decl.(type) {
			case *ast.GenDecl:
				if d.Tok != token.CONST {
					continue
				}
				for _, sp := range d.Specs {
					vs, ok := sp.(*ast.ValueSpec)
					if !ok {
						continue
					}
					for i, nm := range vs.Names {
						if i < len(vs.Values) {
							if v, ok := strLit(vs.Values[i]); ok {
								consts[nm.Name] = v
							} else if call, ok := vs.Values[i].(*ast.CallExpr); ok && len(call.Args) == 1 {
								// T("lit")
								if v, ok := strLit(call.Args[0]); ok {
									consts[nm.Name] = v
								}
							}
						}
					}
				}
			case *ast.FuncDecl:
				if d.Name.Name != "String" || d.Recv == nil || len(d.Recv.List) != 1 || len(d.Recv.List[0].Names) != 1 || d.Body == nil {
					continue
				}
				recv := d.Recv.List[0].Names[0].Name
				ast.Inspect(d.Body, func(n ast.Node) bool {
					sw, ok := n.(*ast.SwitchStmt)
					if !ok {
						return true
					}
					if id, ok := sw.Tag.(*ast.Ident); !ok || id.Name != recv {
						return true
					}
					for _, st := range sw.Body.List {
						cc := st.(*ast.CaseClause)
						if len(cc.Body) != 1 {
							continue
						}
						ret, ok := cc.Body[0].(*ast.ReturnStmt)
						if !ok || len(ret.Results) != 1 {
							continue
						}
						v, ok := strLit(ret.Results[0])
						if !ok {
							continue
						}
						for _, e := range cc.List {
							if id, ok := e.(*ast.Ident); ok {
								strOf[id.Name] = v
							}
						}
					}
					return false
				})
			}
		}
	}
	return
}

// webRoute is one goji route of server/web.go:initRoutes.
type webRoute struct {
	Method  string `json:"method"`
	Pattern string `json:"pattern"`
	Mux     string `json:"mux"`
	Handler string `json:"handler"`
}

// webRoutes extracts every <mux>.Get/Post/Put/Delete/Head/Patch/Handle("pattern", handler) call of initRoutes.
func webRoutes(repoDir string) []webRoute {
	fset := token.NewFileSet()
	f, err := parser.ParseFile(fset, filepath.Join(repoDir, "server", "web.go"), nil, 0)
	must(err, "parse server/web.go")
	var out []webRoute
	for _, decl := range f.Decls {
		fd, ok := decl.(*ast.FuncDecl)
		if !ok || fd.Name.Name != "initRoutes" || fd.Body == nil {
			continue
		}
		ast.Inspect(fd.Body, func(n ast.Node) bool {
			call, ok := n.(*ast.CallExpr)
			if !ok || len(call.Args) < 2 {
				return true
			}
			sel, ok := call.Fun.(*ast.SelectorExpr)
			if !ok {
				return true
			}
			mux, ok := sel.X.(*ast.Ident)
			if !ok {
				return true
			}
			switch sel.Sel.Name {
			case "Get", "Post", "Put", "Delete", "Head", "Patch", "Options", "Handle":
			default:
				return true
			}
			pat, ok := strLit(call.Args[0])
			if !ok {
				return true
			}
			h := ""
			if id, ok := call.Args[1].(*ast.Ident); ok {
				h = id.Name
			}
			out = append(out, webRoute{Method: strings.ToUpper(sel.Sel.Name), Pattern: pat, Mux: mux.Name, Handler: h})
			return true
		})
	}
	if len(out) == 0 {
		infra("no routes found in server/web.go:initRoutes")
	}
	return out
}

// levelActions returns the distinct :action words of the routes under prefix
// ("/api/node/:uuid/" or "/api/repo/:uuid/"), with the methods registered for each.
func levelActions(routes []webRoute, prefix string) map[string][]string {
	out := map[string][]string{}
	for _, r := range routes {
		if r.Method == "HANDLE" || !strings.HasPrefix(r.Pattern, prefix) {
			continue
		}
		rest := strings.Split(strings.TrimPrefix(r.Pattern, prefix), "/")
		if len(rest) == 0 || rest[0] == "" || strings.HasPrefix(rest[0], ":") {
			continue
		}
		dup := false
		for _, m := range out[rest[0]] {
			if m == r.Method {
				dup = true
			}
		}
		if !dup {
			out[rest[0]] = append(out[rest[0]], r.Method)
		}
	}
	return out
}
