package main

// C16 — neuron annotations: the in-memory head database answers like the store, and
// POSTs merge fields by the documented rules.
//
// specs/NeuronJSON.tla is the specification (persistent snapshots per version, the
// incrementally maintained head database, the Merge rule, the reads).  TLC
//   (a) model-checks Inv_C16_Coherent / Inv_C16_MergeRules exhaustively on a small domain,
//   (b) enumerates the complete decision table of the merge rule for one annotation
//       (every seeded state x every request x every request) with the expected annotation
//       after every request, and
//   (c) random-walks the full specification (posts, batches, deletes, schema posts,
//       commit, new version, restart) and prints each behaviour with the expected state
//       and the expected listing/query reads after every step.
//   (d) model-checks the same invariants plus Inv_StoreIsRead exhaustively on a version DAG
//       (branch, conflict-free merge by KVRead's read rule, one in-memory database per tracked
//       branch head / held version, restarts choosing the `inmemory` configuration),
//   (e) executes seeded scripts of request intentions over such DAGs (c16s.go) and prints the
//       expected content and reads of every version after every request, and
//   (f) model-checks the merge claims with client-supplied _user/_time stamps exhaustively.
// This file replays (b), (c) and (e) on the real server and compares; at every new version
// and restart it additionally compares the complete read set of the in-memory path with
// the store path (committed parent holding identical data; in (e) the same version after a
// restart without / with the inmemory configuration) resp. the pre-restart answers.

import (
	"bytes"
	"encoding/json"
	"fmt"
	"math/rand"
	"os"
	"regexp"
	"sort"
	"strconv"
	"strings"
	"sync"
	"sync/atomic"
	"time"

	pb "google.golang.org/protobuf/proto"

	"github.com/janelia-flyem/dvid/datatype/common/proto"

	"verifharness/internal/ev"
	"verifharness/internal/node"
	"verifharness/internal/tlc"
)

func init() { checks["C16"] = checkC16 }

// ---------------------------------------------------------------------------
// what TLC prints

type njCell struct {
	V int `json:"v"`
	U int `json:"u"`
	T int `json:"t"`
}

type njAnn struct {
	Ex bool              `json:"ex"`
	Fs map[string]njCell `json:"fs"`
}

type njOp struct {
	K     string         `json:"k"`
	ID    int            `json:"id"`
	Upd   map[string]int `json:"upd"`
	ID2   int            `json:"id2,omitempty"`
	Upd2  map[string]int `json:"upd2,omitempty"`
	Rep   bool           `json:"rep"`
	Cond  []string       `json:"cond"`
	Clean bool           `json:"clean"`
	Sk    string         `json:"sk,omitempty"`
	Sc    int            `json:"sc,omitempty"`
}

// njSch is [SchemaKinds -> 0..2]; TLC prints the empty function as [].
type njSch map[string]int

func (s *njSch) UnmarshalJSON(b []byte) error {
	*s = njSch{}
	if len(b) > 0 && b[0] == '[' {
		return nil
	}
	m := map[string]int{}
	if err := json.Unmarshal(b, &m); err != nil {
		return err
	}
	*s = m
	return nil
}

type njStep struct {
	Op     njOp    `json:"op"`
	Post   []njAnn `json:"post"`
	Sch    njSch   `json:"sch"`
	Locked bool    `json:"locked"`
}

type njExp struct {
	Keys []int              `json:"keys"`
	Cnt  map[string]int     `json:"cnt"`
	Ex1  map[string][]int   `json:"ex1"`
	Ex0  map[string][]int   `json:"ex0"`
	Eq   map[string][][]int `json:"eq"`
	Rng  [][][]int          `json:"rng"`
}

type njBehaviour struct {
	Hist  []njStep `json:"hist"`
	Reads []njExp  `json:"reads,omitempty"`
}

// ---------------------------------------------------------------------------
// TLC configurations

type njCfg struct {
	NumIds      int
	Fields      []string
	NumVals     int
	ScalarVals  []int
	MaxSteps    int
	Record      bool
	EmitReads   bool
	Seeds       string
	UpdsAt      string
	Pick        string
	CondSets    [][]string
	Kinds       []string
	SchemaKinds []string
	NRand       int
	Emit        bool
	// version DAG / in-memory configuration / client stamps (defaults: linear history, master head only, no stamps)
	MaxVers   int
	Branches  string
	TrkSets   string
	StatMax   int
	StampSets string
}

func tlaStrSet(a []string) string {
	q := make([]string, len(a))
	for i, s := range a {
		q[i] = strconv.Quote(s)
	}
	return "{" + strings.Join(q, ", ") + "}"
}

func tlaBool(b bool) string {
	if b {
		return "TRUE"
	}
	return "FALSE"
}

func (o njCfg) String() string {
	cs := make([]string, len(o.CondSets))
	for i, s := range o.CondSets {
		cs[i] = tlaStrSet(s)
	}
	sv := make([]string, len(o.ScalarVals))
	for i, v := range o.ScalarVals {
		sv[i] = strconv.Itoa(v)
	}
	inv := "Inv_C16_Coherent Inv_C16_MergeRules Inv_TypeOK Inv_StoreIsRead"
	if o.Emit {
		inv += " Emit"
	}
	def := func(s, d string) string {
		if s == "" {
			return d
		}
		return s
	}
	maxVers := o.MaxVers
	if maxVers == 0 {
		maxVers = o.MaxSteps + 2
	}
	dag := fmt.Sprintf(`  MaxVers = %d
  Branches <- %s
  TrkSets <- %s
  StatMax = %d
  StampSets <- %s
  NumDocs = 2
  Constrain <- NoConstrain
  CField = "a"
  IntVals = {}
  ConvTo <- NoConv
  AtomsOf <- NoAtoms
  Queries <- NoQueries
  Projs <- NoProjs
  EmitAll = FALSE
`, maxVers, def(o.Branches, "NoBranches"), def(o.TrkSets, "OnlyUntracked"), o.StatMax, def(o.StampSets, "OnlyNoSt"))
	return fmt.Sprintf(`SPECIFICATION Spec
CONSTANTS
  NumIds = %d
  Fields = %s
  NumVals = %d
  ScalarVals = {%s}
  MaxSteps = %d
  Record = %s
  EmitReads = %s
  Seeds <- %s
  UpdsAt <- %s
  Pick <- %s
  CondSets = {%s}
  Kinds = %s
  SchemaKinds = %s
  NRand = %d
%sINVARIANTS %s
CHECK_DEADLOCK FALSE
`, o.NumIds, tlaStrSet(o.Fields), o.NumVals, strings.Join(sv, ", "), o.MaxSteps, tlaBool(o.Record), tlaBool(o.EmitReads),
		o.Seeds, o.UpdsAt, o.Pick, strings.Join(cs, ", "), tlaStrSet(o.Kinds), tlaStrSet(o.SchemaKinds), o.NRand, dag, inv)
}

func njParse(out string) []*njBehaviour {
	var bs []*njBehaviour
	PrintedJSON(out, func(raw []byte) {
		var b njBehaviour
		if err := json.Unmarshal(raw, &b); err == nil && len(b.Hist) > 0 {
			bs = append(bs, &b)
		}
	})
	return bs
}

// njExhaustive runs an exhaustive configuration (retrying once: TLC JVMs on this box are
// occasionally killed from outside).
func njExhaustive(c *Ctx, o njCfg, timeout time.Duration) *tlc.Result {
	var r *tlc.Result
	for try := 0; try < 2; try++ {
		r = c.RunTLC(tlc.Opts{Module: "NeuronJSON_mc", Config: "gen_nj.cfg",
			Files: map[string][]byte{"gen_nj.cfg": []byte(o.String())}, Timeout: timeout, HeapGB: 8})
		if r.OK {
			return r
		}
		if r.Violation != "" {
			break
		}
	}
	infra("tlc NeuronJSON_mc did not complete cleanly: %s\n%s", r.Violation, r.Tail(3000))
	return nil
}

var reSimStates = regexp.MustCompile(`The number of states generated: (\d+)`)

// njSimulate random-walks the specification: num behaviours of o.MaxSteps requests.
func njSimulate(c *Ctx, o njCfg, num int, seed int64) ([]*njBehaviour, int64) {
	for try := 0; try < 2; try++ {
		r := c.RunTLC(tlc.Opts{Module: "NeuronJSON_mc", Config: "gen_nj.cfg", Workers: 1,
			Files:    map[string][]byte{"gen_nj.cfg": []byte(o.String())},
			Simulate: fmt.Sprintf("num=%d", num), Depth: o.MaxSteps + 2, Seed: seed, Timeout: 20 * time.Minute})
		bs := njParse(r.Output)
		if r.Violation == "" && len(bs) == num {
			var st int64
			if m := reSimStates.FindStringSubmatch(r.Output); m != nil {
				st, _ = strconv.ParseInt(m[1], 10, 64)
			}
			return bs, st
		}
		if r.Violation != "" || try == 1 {
			infra("tlc simulation of NeuronJSON_mc failed (%d of %d behaviours): %s\n%s", len(bs), num, r.Violation, r.Tail(3000))
		}
	}
	return nil, 0
}

// ---------------------------------------------------------------------------
// concrete values (the value table: abstract value v -> JSON text)

const njOldTime = "2001-01-01T00:00:00Z"

// integer / string scalars: an equality query {"f": v} matches exactly the annotations
// whose field equals v (the pools below never contain these inside arrays).
var njScalarPool = []string{`7`, `42`, `1000`, `"x"`, `"yz"`, `"Q r"`, `"a_b"`, `90071992547409931`}
var njArrayPool = []string{`[1,2]`, `["p","q"]`, `[]`, `[1.5,2]`, `[[1],[2]]`, `[{"k":1}]`, `[3]`, `["p"]`}
var njObjectPool = []string{`{"n":1}`, `{"n":{"m":[1,2]}}`, `{}`, `{"k":"v","l":null}`}

// incl. numbers whose stored spelling differs from the posted one (2.0 -> 2, 1e2 -> 100, -0 -> 0)
var njOtherPool = []string{`true`, `false`, `2.5`, `-3`, `-0`, `18446744073709551615`, `""`, `"é\"\\ <&>"`, `-0.125`, `2.0`, `1e2`}

// njTable picks pairwise distinct concrete values: abstract 1,2 from the scalar pool, the
// others round-robin from arrays / objects / other scalars.
func njTable(rng *rand.Rand, numVals int) []string {
	t := make([]string, numVals)
	p := rng.Perm(len(njScalarPool))
	for v := 0; v < numVals; v++ {
		switch {
		case v < 2:
			t[v] = njScalarPool[p[v]]
		case v%3 == 2:
			t[v] = njArrayPool[rng.Intn(len(njArrayPool))]
		case v%3 == 0:
			t[v] = njObjectPool[rng.Intn(len(njObjectPool))]
		default:
			t[v] = njOtherPool[rng.Intn(len(njOtherPool))]
		}
	}
	return t
}

// njAnyTable is used by the decision table (only GET key is predicted there): every
// abstract value may be any kind of JSON value.
func njAnyTable(rng *rand.Rand, numVals int) []string {
	var all []string
	all = append(all, njScalarPool...)
	all = append(all, njArrayPool...)
	all = append(all, njObjectPool...)
	all = append(all, njOtherPool...)
	p := rng.Perm(len(all))
	t := make([]string, numVals)
	for v := range t {
		t[v] = all[p[v]]
	}
	return t
}

func normNum(v interface{}) interface{} {
	switch x := v.(type) {
	case json.Number:
		s := x.String()
		if i, err := strconv.ParseInt(s, 10, 64); err == nil {
			return json.Number(strconv.FormatInt(i, 10))
		}
		if _, err := strconv.ParseUint(s, 10, 64); err == nil {
			return json.Number(s)
		}
		f, err := strconv.ParseFloat(s, 64)
		if err != nil {
			return x
		}
		if f == float64(int64(f)) && f > -1e15 && f < 1e15 {
			return json.Number(strconv.FormatInt(int64(f), 10))
		}
		return json.Number(strconv.FormatFloat(f, 'g', -1, 64))
	case map[string]interface{}:
		for k, e := range x {
			x[k] = normNum(e)
		}
		return x
	case []interface{}:
		for i, e := range x {
			x[i] = normNum(e)
		}
		return x
	}
	return v
}

func parseCanon(b []byte) (interface{}, error) {
	dec := json.NewDecoder(bytes.NewReader(b))
	dec.UseNumber()
	var v interface{}
	if err := dec.Decode(&v); err != nil {
		return nil, err
	}
	if dec.More() {
		return nil, fmt.Errorf("trailing data")
	}
	return normNum(v), nil
}

// canonJSON re-marshals JSON with sorted object keys and normalised numbers.
func canonJSON(b []byte) (string, bool) {
	v, err := parseCanon(b)
	if err != nil {
		return string(b), false
	}
	out, _ := json.Marshal(v)
	return string(out), true
}

func njUser(u int) string {
	if u == 0 {
		return "seed"
	}
	return fmt.Sprintf("u%d", u)
}

// ---------------------------------------------------------------------------
// session on one instance

type njSess struct {
	n      *node.Node
	inst   string
	head   string // uuid of the master head
	fields []string
	nreq   *int64
	script []string
	keep   bool // keep the request script (history mode)
}

func (s *njSess) http(method, url string, body []byte) node.Resp {
	r, err := s.n.HTTP(method, url, body)
	must(err, method+" "+url)
	atomic.AddInt64(s.nreq, 1)
	if s.keep {
		line := method + " " + url
		if len(body) > 0 && len(body) < 400 {
			line += " " + string(body)
		}
		line += fmt.Sprintf(" -> %d", r.Status)
		if method != "GET" {
			s.script = append(s.script, line)
		}
	}
	return r
}

func (s *njSess) url(uuid, rest string) string {
	return "/api/node/" + uuid + "/" + s.inst + "/" + rest
}

func newNJRepo(n *node.Node, inst string) (string, error) {
	r, err := n.HTTP("POST", "/api/repos", []byte(`{"alias":"c16","description":"c16"}`))
	if err != nil {
		return "", err
	}
	var out struct{ Root string }
	if r.Status != 200 || json.Unmarshal(r.Bytes(), &out) != nil || out.Root == "" {
		return "", fmt.Errorf("new repo: %d %s", r.Status, r.Bytes())
	}
	b, _ := json.Marshal(map[string]string{"typename": "neuronjson", "dataname": inst})
	r, err = n.HTTP("POST", "/api/repo/"+out.Root+"/instance", b)
	if err != nil {
		return "", err
	}
	if r.Status != 200 {
		return "", fmt.Errorf("new instance: %d %s", r.Status, r.Bytes())
	}
	return out.Root, nil
}

// postBody builds the annotation JSON of an update.
func njPostBody(cid int, fields []string, upd map[string]int, table []string, seed bool) []byte {
	var sb strings.Builder
	fmt.Fprintf(&sb, `{"bodyid":%d`, cid)
	for _, f := range fields {
		v := upd[f]
		switch {
		case v == -1:
		case v == 0:
			fmt.Fprintf(&sb, `,%q:null`, f)
		default:
			fmt.Fprintf(&sb, `,%q:%s`, f, table[v-1])
			if seed {
				fmt.Fprintf(&sb, `,%q:"seed",%q:%q`, f+"_user", f+"_time", njOldTime)
			}
		}
	}
	sb.WriteString("}")
	return []byte(sb.String())
}

func njOpts(user string, op njOp) string {
	q := "?u=" + user
	if op.Rep {
		q += "&replace=true"
	}
	if len(op.Cond) > 0 {
		q += "&conditionals=" + strings.Join(op.Cond, ",")
	}
	return q
}

// compareAnn checks GET key/<id>?show=all against the annotation the specification expects.
func njCompareAnn(exp njAnn, cid int, fields []string, table []string, status int, body []byte) string {
	if !exp.Ex {
		if status != 404 {
			return fmt.Sprintf("annotation should not exist, GET key gave %d %s", status, trunc(string(body), 300))
		}
		return ""
	}
	if status != 200 {
		return fmt.Sprintf("annotation should exist, GET key gave %d %s", status, trunc(string(body), 300))
	}
	var obj map[string]json.RawMessage
	if err := json.Unmarshal(body, &obj); err != nil {
		return "unparsable annotation: " + trunc(string(body), 300)
	}
	if string(obj["bodyid"]) != strconv.Itoa(cid) {
		return fmt.Sprintf("bodyid %s, want %d", obj["bodyid"], cid)
	}
	allowed := map[string]bool{"bodyid": true}
	for _, f := range fields {
		allowed[f], allowed[f+"_user"], allowed[f+"_time"] = true, true, true
		cell := exp.Fs[f]
		raw, has := obj[f]
		if cell.V == 0 {
			if has {
				return fmt.Sprintf("field %q should have no value, has %s", f, raw)
			}
			continue
		}
		if !has {
			return fmt.Sprintf("field %q missing, want %s", f, table[cell.V-1])
		}
		got, _ := canonJSON(raw)
		want, _ := canonJSON([]byte(table[cell.V-1]))
		if got != want {
			return fmt.Sprintf("field %q = %s, want %s", f, got, want)
		}
		var u, t string
		json.Unmarshal(obj[f+"_user"], &u)
		json.Unmarshal(obj[f+"_time"], &t)
		if u != njUser(cell.U) {
			return fmt.Sprintf("%s_user = %q, want %q (the request that last changed the value)", f, u, njUser(cell.U))
		}
		if cell.T == 0 && t != njOldTime {
			return fmt.Sprintf("%s_time = %q, want the unchanged seeded time %s", f, t, njOldTime)
		}
		if cell.T == 1 {
			tt, err := time.Parse(time.RFC3339, t)
			if err != nil || tt.Year() < 2020 {
				return fmt.Sprintf("%s_time = %q, want a time stamp written by the server", f, t)
			}
		}
	}
	for k := range obj {
		if !allowed[k] {
			return fmt.Sprintf("unexpected field %q", k)
		}
	}
	return ""
}

func trunc(s string, n int) string {
	if len(s) > n {
		return s[:n] + fmt.Sprintf("...(%d bytes)", len(s))
	}
	return s
}

// aroundDiff shows both strings around their first difference.
func aroundDiff(a, b string) (string, string) {
	i := 0
	for i < len(a) && i < len(b) && a[i] == b[i] {
		i++
	}
	lo := i - 200
	if lo < 0 {
		lo = 0
	}
	cut := func(s string) string {
		hi := i + 400
		if hi > len(s) {
			hi = len(s)
		}
		if lo > len(s) {
			return ""
		}
		return fmt.Sprintf("@%d: %s", lo, s[lo:hi])
	}
	return cut(a), cut(b)
}

// ---------------------------------------------------------------------------
// the read set compared between the in-memory path and the store path

type njRead struct {
	name   string
	method string
	rest   string
	body   []byte
	norm   string // json | sortlist | tar | proto | raw
}

func normResponse(norm string, r node.Resp) string {
	b := r.Bytes()
	out := fmt.Sprintf("%d|", r.Status)
	if r.Status != 200 {
		return out // error texts name the version; only the status is compared
	}
	switch norm {
	case "json":
		s, _ := canonJSON(b)
		if s == "null" {
			s = "[]" // an empty listing: the store path prints null, the in-memory path []
		}
		return out + s
	case "sortlist":
		v, err := parseCanon(b)
		if err == nil && v == nil {
			return out + "[]"
		}
		l, ok := v.([]interface{})
		if err != nil || !ok {
			return out + string(b)
		}
		ss := make([]string, len(l))
		for i, e := range l {
			eb, _ := json.Marshal(e)
			ss[i] = string(eb)
		}
		sort.Strings(ss)
		return out + "[" + strings.Join(ss, ",") + "]"
	case "tar":
		kvs, err := parseTar(b)
		if err != nil {
			return out + "bad tar: " + err.Error()
		}
		for i := range kvs {
			kvs[i].V, _ = canonJSON([]byte(kvs[i].V))
		}
		return out + jsonStr(kvs)
	case "proto":
		kvs, err := parseProtoKVs(b)
		if err != nil {
			return out + "bad protobuf: " + err.Error()
		}
		for i := range kvs {
			kvs[i].V, _ = canonJSON([]byte(kvs[i].V))
		}
		return out + jsonStr(kvs)
	}
	return out + string(b)
}

// njReadSet lists the reads of property C16's observe_at for the given concrete ids.
func njReadSet(cids []int, fields []string, table []string, schemaKinds []string, full bool) []njRead {
	var rs []njRead
	add := func(name, rest, norm string, body []byte) {
		rs = append(rs, njRead{name: name, method: "GET", rest: rest, body: body, norm: norm})
	}
	add("keys", "keys", "json", nil)
	add("all?show=all", "all?show=all", "sortlist", nil)
	add("fields?counts=true", "fields?counts=true", "json", nil)
	add("fields", "fields", "sortlist", nil)
	lo, hi := strconv.Itoa(cids[0]), strconv.Itoa(cids[len(cids)-1])
	add("keyrange(all)", "keyrange/0/a", "json", nil)
	add("keyrangevalues(all,json,show=all)", "keyrangevalues/0/a?json=true&show=all", "json", nil)
	f0 := fields[0]
	add("query exists/1 show=all", "query?show=all", "json", []byte(fmt.Sprintf(`{%q:"exists/1"}`, f0)))
	add("query exists/0 onlyid", "query?onlyid=true", "json", []byte(fmt.Sprintf(`{%q:"exists/0"}`, fields[len(fields)-1])))
	if !full {
		return rs
	}
	add("all", "all", "sortlist", nil)
	add("all?fields&show=user", "all?fields="+f0+"&show=user", "sortlist", nil)
	add("all?show=time", "all?show=time", "sortlist", nil)
	mid := strconv.Itoa(cids[len(cids)/2])
	ranges := [][2]string{{lo, hi}, {lo, mid}, {mid, hi}, {mid, mid}, {strconv.Itoa(cids[0] - 1), lo}, {hi, strconv.Itoa(cids[len(cids)-1] + 1)}}
	for _, r := range ranges {
		add("keyrange/"+r[0]+"/"+r[1], "keyrange/"+r[0]+"/"+r[1], "json", nil)
	}
	add("keyrangevalues json", "keyrangevalues/"+lo+"/"+hi+"?json=true", "json", nil)
	add("keyrangevalues json check", "keyrangevalues/"+lo+"/"+hi+"?json=true&check=true&show=user", "json", nil)
	add("keyrangevalues json fields", "keyrangevalues/"+lo+"/"+mid+"?json=true&fields="+f0+"&show=all", "json", nil)
	add("keyrangevalues tar", "keyrangevalues/"+mid+"/"+hi+"?tar=true&show=all", "tar", nil)
	add("keyrangevalues protobuf", "keyrangevalues/"+lo+"/"+hi+"?show=time", "proto", nil)
	var keyList []string
	for _, id := range cids {
		k := strconv.Itoa(id)
		keyList = append(keyList, k)
		add("key/"+k+"?show=all", "key/"+k+"?show=all", "json", nil)
		add("key/"+k, "key/"+k, "json", nil)
		add("key/"+k+"?show=user&fields", "key/"+k+"?show=user&fields="+f0+","+fields[len(fields)-1], "json", nil)
		rs = append(rs, njRead{name: "HEAD key/" + k, method: "HEAD", rest: "key/" + k, norm: "raw"})
	}
	keyList = append(keyList, strconv.Itoa(cids[len(cids)-1]+5)) // a key that never exists
	kb, _ := json.Marshal(keyList)
	add("keyvalues json", "keyvalues?json=true&show=all", "json", kb)
	add("keyvalues jsontar", "keyvalues?jsontar=true", "tar", kb)
	pk, _ := pb.Marshal(&proto.Keys{Keys: keyList})
	add("keyvalues protobuf", "keyvalues?show=user", "proto", pk)
	// queries in each form
	q := func(name, opts, body string) { add("query "+name+" "+opts, "query"+opts, "json", []byte(body)) }
	for i, f := range fields {
		opts := []string{"?show=all", "?onlyid=true", "", "?fields=" + f + "&show=user"}[i%4]
		q("eq", opts, fmt.Sprintf(`{%q:%s}`, f, table[0]))
		q("eq2", "?onlyid=true", fmt.Sprintf(`{%q:%s}`, f, table[1]))
		// lists of one kind only (a list mixing numbers and strings is answered with a panic
		// text on both paths: not a C16 matter)
		for _, t := range table[:2] {
			other := `5`
			if strings.HasPrefix(t, `"`) {
				other = `"nope"`
			}
			q("list", opts, fmt.Sprintf(`{%q:[%s,%s]}`, f, other, t))
		}
		q("exists1", "?show=all", fmt.Sprintf(`{%q:"exists/1"}`, f))
		q("exists0", []string{"?show=all", "", "?onlyid=true"}[i%3], fmt.Sprintf(`{%q:"exists/0"}`, f))
		q("regex", "?show=user", fmt.Sprintf(`{%q:"re/^[a-zQ]"}`, f))
		q("regexlist", "?onlyid=true", fmt.Sprintf(`{%q:["re/z$","x"]}`, f))
		for v := 2; v < len(table); v++ {
			q(fmt.Sprintf("value%d", v+1), "?onlyid=true", fmt.Sprintf(`{%q:%s}`, f, table[v]))
		}
	}
	f1 := fields[len(fields)-1]
	q("and", "?show=all", fmt.Sprintf(`{%q:%s,%q:"exists/1"}`, f0, table[0], f1))
	q("and0", "?fields="+f1, fmt.Sprintf(`{%q:"exists/0",%q:"exists/1"}`, f0, f1))
	q("or", "?show=all", fmt.Sprintf(`[{%q:%s},{%q:%s}]`, f0, table[0], f1, table[1]))
	q("or-fields", "?fields="+f0, fmt.Sprintf(`[{%q:"exists/1"},{%q:"exists/1"}]`, f0, f1))
	q("bodyid", "?show=all", fmt.Sprintf(`{"bodyid":%d}`, cids[0]))
	q("bodyids", "", fmt.Sprintf(`{"bodyid":[%d,%d,%d]}`, cids[len(cids)-1], cids[0], cids[len(cids)-1]+5))
	q("bodyid+field", "?onlyid=true", fmt.Sprintf(`{"bodyid":%d,%q:"exists/1"}`, cids[0], f0))
	for _, sk := range schemaKinds {
		add(sk, sk, "json", nil)
		rs = append(rs, njRead{name: "HEAD " + sk, method: "HEAD", rest: sk, norm: "raw"})
	}
	return rs
}

func (s *njSess) doReads(uuid string, rs []njRead) []string {
	out := make([]string, len(rs))
	for i, rd := range rs {
		r := s.http(rd.method, s.url(uuid, rd.rest), rd.body)
		out[i] = normResponse(rd.norm, r)
	}
	return out
}

// restarts after SIGKILL whose store did not reopen (not a C16 verdict; bounded below)
var njRestartFailures int64
var njRestartFailureMsg atomic.Value

func njRestartFailed(err error) {
	atomic.AddInt64(&njRestartFailures, 1)
	m := err.Error()
	if i := strings.Index(m, "dvidnode fatal"); i >= 0 {
		m = m[i:]
	}
	njRestartFailureMsg.Store(trunc(m, 400))
}

// ---------------------------------------------------------------------------
// divergence report

type c16Divergence struct {
	Kind      string      `json:"kind"`
	Mode      string      `json:"mode"`
	Step      int         `json:"step,omitempty"`
	Endpoint  string      `json:"endpoint,omitempty"`
	Expected  interface{} `json:"expected,omitempty"`
	Observed  interface{} `json:"observed,omitempty"`
	Detail    string      `json:"detail,omitempty"`
	Behaviour interface{} `json:"behaviour,omitempty"`
	Table     []string    `json:"value_table,omitempty"`
	IDBase    int         `json:"id_base,omitempty"`
	Script    []string    `json:"script,omitempty"`
}

// ---------------------------------------------------------------------------
// (b) decision table: every path uses its own body id in one shared instance

type njTableWorker struct {
	c     *Ctx
	n     *node.Node
	s     *njSess
	mu    sync.Mutex
	paths []int // indices replayed on this instance
}

func njTableIDs(i int) int { return 100000 + i }

func (w *njTableWorker) ensure(nreq *int64, fields []string) {
	if w.n != nil {
		return
	}
	w.n = w.c.StartNode(node.Config{})
	root, err := newNJRepo(w.n, "nj")
	must(err, "table repo")
	w.s = &njSess{n: w.n, inst: "nj", head: root, fields: fields, nreq: nreq}
}

func njPathScript(b *njBehaviour, cid int, fields []string, table []string) []string {
	var out []string
	for k, st := range b.Hist {
		switch st.Op.K {
		case "init":
			if st.Post[0].Ex {
				upd := map[string]int{}
				for _, f := range fields {
					upd[f] = -1
					if st.Post[0].Fs[f].V != 0 {
						upd[f] = st.Post[0].Fs[f].V
					}
				}
				out = append(out, fmt.Sprintf("POST key/%d?u=seed %s", cid, njPostBody(cid, fields, upd, table, true)))
			}
		case "post":
			out = append(out, fmt.Sprintf("POST key/%d%s %s", cid, njOpts(njUser(k), st.Op), njPostBody(cid, fields, st.Op.Upd, table, false)))
		case "del":
			out = append(out, fmt.Sprintf("DELETE key/%d", cid))
		}
	}
	return out
}

// njPathState is what a decision-table path remembers between its two phases.
type njPathState struct {
	times  map[string]string // field -> _time observed after the last executed step
	maxSec int64             // latest server-written stamp seen so far (unix seconds)
	failed bool
}

func njTimes(body []byte, fields []string) map[string]string {
	var obj map[string]json.RawMessage
	out := map[string]string{}
	if json.Unmarshal(body, &obj) != nil {
		return out
	}
	for _, f := range fields {
		var t string
		if json.Unmarshal(obj[f+"_time"], &t) == nil && t != "" {
			out[f] = t
		}
	}
	return out
}

// replaySteps runs steps [from, to) of one decision-table path and compares the
// annotation after every request.  afterSleep: more than a second of wall-clock time
// separates this phase from the previous one, so a stamp written now is strictly later
// than every stamp seen before, and a stamp that must not change is compared exactly.
func (w *njTableWorker) replaySteps(run *ev.Run, idx int, b *njBehaviour, table []string, from, to int, ps *njPathState, afterSleep bool, ncmp *int64) {
	if ps.failed {
		return
	}
	s := w.s
	cid := njTableIDs(idx)
	key := strconv.Itoa(cid)
	fail := func(d c16Divergence) {
		d.Mode = "decision-table"
		d.Behaviour = b
		d.Table = table
		d.Script = njPathScript(b, cid, s.fields, table)
		run.Violation("c16", d)
		ps.failed = true
	}
	for k := from; k < to && k < len(b.Hist); k++ {
		st := b.Hist[k]
		switch st.Op.K {
		case "init":
			if !st.Post[0].Ex {
				continue
			}
			upd := map[string]int{}
			for _, f := range s.fields {
				upd[f] = -1
				if st.Post[0].Fs[f].V != 0 {
					upd[f] = st.Post[0].Fs[f].V
				}
			}
			r := s.http("POST", s.url(s.head, "key/"+key+"?u=seed"), njPostBody(cid, s.fields, upd, table, true))
			if r.Status != 200 {
				infra("seeding POST refused: %d %s", r.Status, r.Bytes())
			}
		case "post":
			r := s.http("POST", s.url(s.head, "key/"+key+njOpts(njUser(k), st.Op)), njPostBody(cid, s.fields, st.Op.Upd, table, false))
			if r.Status != 200 {
				fail(c16Divergence{Kind: "post-refused", Step: k, Observed: fmt.Sprintf("%d %s", r.Status, r.Bytes())})
				return
			}
		case "del":
			r := s.http("DELETE", s.url(s.head, "key/"+key), nil)
			if r.Status != 200 {
				fail(c16Divergence{Kind: "delete-refused", Step: k, Observed: fmt.Sprintf("%d %s", r.Status, r.Bytes())})
				return
			}
		default:
			infra("unexpected op %q in decision table", st.Op.K)
		}
		r := s.http("GET", s.url(s.head, "key/"+key+"?show=all"), nil)
		atomic.AddInt64(ncmp, 1)
		ep := "GET key/" + key + "?show=all (head, in-memory path)"
		if d := njCompareAnn(st.Post[0], cid, s.fields, table, r.Status, r.Bytes()); d != "" {
			fail(c16Divergence{Kind: "merge-rule", Step: k, Endpoint: ep, Expected: st.Post[0], Observed: string(r.Bytes()), Detail: d})
			return
		}
		// exact time stamps
		now := njTimes(r.Bytes(), s.fields)
		var newMax int64 = ps.maxSec
		for _, f := range s.fields {
			cell := st.Post[0].Fs[f]
			if !st.Post[0].Ex || cell.V == 0 {
				continue
			}
			if k > 0 && b.Hist[k-1].Post[0].Ex && b.Hist[k-1].Post[0].Fs[f] == cell {
				if prev, ok := ps.times[f]; ok && prev != now[f] {
					fail(c16Divergence{Kind: "merge-rule", Step: k, Endpoint: ep, Expected: prev, Observed: now[f],
						Detail: fmt.Sprintf("%s_time changed although the value of %q did not change", f, f)})
					return
				}
			}
			if cell.T == 1 {
				tt, err := time.Parse(time.RFC3339, now[f])
				if err == nil {
					if afterSleep && cell.U == k && tt.Unix() <= ps.maxSec {
						fail(c16Divergence{Kind: "merge-rule", Step: k, Endpoint: ep, Expected: "a time later than every earlier stamp of this annotation", Observed: now[f],
							Detail: fmt.Sprintf("%s_time was not renewed although request %d changed the value of %q (>1 s after the previous request)", f, k, f)})
						return
					}
					if tt.Unix() > newMax {
						newMax = tt.Unix()
					}
				}
			}
		}
		ps.times, ps.maxSec = now, newMax
	}
	if to > len(b.Hist)-1 && !ps.failed {
		w.mu.Lock()
		w.paths = append(w.paths, idx)
		w.mu.Unlock()
	}
}

// checkpoint commits the shared instance, opens a child and compares the in-memory path
// (child = new head) with the store path (parent), then restarts and compares again.
func (w *njTableWorker) checkpoint(run *ev.Run, bs []*njBehaviour, tables [][]string, clean bool, ncmp *int64) {
	if w.n == nil || len(w.paths) == 0 {
		return
	}
	s := w.s
	parent := s.head
	r := s.http("POST", "/api/node/"+parent+"/commit", []byte(`{"note":"c16"}`))
	if r.Status != 200 {
		infra("commit: %d %s", r.Status, r.Bytes())
	}
	r = s.http("POST", "/api/node/"+parent+"/newversion", []byte(`{"note":"c16"}`))
	var ch struct{ Child string }
	if r.Status != 200 || json.Unmarshal(r.Bytes(), &ch) != nil || ch.Child == "" {
		infra("newversion: %d %s", r.Status, r.Bytes())
	}
	s.head = ch.Child
	cids := []int{njTableIDs(w.paths[0]), njTableIDs(w.paths[len(w.paths)-1])}
	sort.Ints(cids)
	rs := njReadSet(cids, s.fields, tables[w.paths[0]], nil, false)
	store := s.doReads(parent, rs)
	cmp := func(what string, got []string) {
		for i := range rs {
			atomic.AddInt64(ncmp, 1)
			if got[i] != store[i] {
				a, b := aroundDiff(store[i], got[i])
				run.Violation("c16", c16Divergence{Kind: "coherence", Mode: "decision-table", Endpoint: rs[i].name,
					Detail:   fmt.Sprintf("%s differs from the store path (committed parent holding identical data) after %d decision-table paths on one instance", what, len(w.paths)),
					Expected: a, Observed: b})
			}
		}
	}
	cmp("in-memory path (head)", s.doReads(s.head, rs))
	// the store path must give the annotation the specification expects at the end of every path
	perKey := func(uuid, what string, every int) {
		for j, idx := range w.paths {
			if j%every != 0 {
				continue
			}
			b := bs[idx]
			cid := njTableIDs(idx)
			r := s.http("GET", s.url(uuid, "key/"+strconv.Itoa(cid)+"?show=all"), nil)
			atomic.AddInt64(ncmp, 1)
			if d := njCompareAnn(b.Hist[len(b.Hist)-1].Post[0], cid, s.fields, tables[idx], r.Status, r.Bytes()); d != "" {
				run.Violation("c16", c16Divergence{Kind: "merge-rule", Mode: "decision-table", Step: len(b.Hist) - 1, Endpoint: "GET key?show=all (" + what + ")",
					Expected: b.Hist[len(b.Hist)-1].Post[0], Observed: string(r.Bytes()), Detail: d, Behaviour: b, Table: tables[idx],
					Script: njPathScript(b, cid, s.fields, tables[idx])})
			}
		}
	}
	perKey(parent, "store path", 1)
	if err := w.n.Restart(clean); err != nil {
		if clean {
			must(err, "restart")
		}
		njRestartFailed(err)
		return
	}
	cmp(fmt.Sprintf("head after restart (clean=%v)", clean), s.doReads(s.head, rs))
	perKey(s.head, "head after restart", 3)
}

// ---------------------------------------------------------------------------
// (c) histories: every behaviour on its own repo/instance

type njHistWorker struct {
	c     *Ctx
	n     *node.Node
	cases int
}

func (w *njHistWorker) node() *node.Node {
	if w.n == nil || w.cases >= 25 || !w.n.Alive() {
		if w.n != nil {
			w.c.DropNode(w.n)
		}
		w.n = w.c.StartNode(node.Config{})
		w.cases = 0
	}
	w.cases++
	return w.n
}

var njSchemaDocs = []string{`{"type":"object"}`, `{"type":"object","properties":{"zz9":{"type":"string"}}}`}

func intsEq(a, b []int) bool {
	if len(a) != len(b) {
		return false
	}
	for i := range a {
		if a[i] != b[i] {
			return false
		}
	}
	return true
}

// replayHistory runs one behaviour of the specification on a fresh repo.
func replayHistory(run *ev.Run, n *node.Node, b *njBehaviour, cfg njCfg, seed int64, closeRestart bool, nreq, ncmp, ncheckpoints *int64) {
	rng := rand.New(rand.NewSource(seed))
	table := njTable(rng, cfg.NumVals)
	base := 10 * (1 + rng.Intn(8)) // ids base+1.. : two digits, so numeric and lexicographic order agree
	root, err := newNJRepo(n, "nj")
	must(err, "history repo")
	s := &njSess{n: n, inst: "nj", head: root, fields: cfg.Fields, nreq: nreq, keep: true}
	cids := make([]int, cfg.NumIds)
	for i := range cids {
		cids[i] = base + i + 1
	}
	full := njReadSet(cids, cfg.Fields, table, cfg.SchemaKinds, true)
	failed := false
	var olds []njOldVersion
	report := func(d c16Divergence) {
		d.Mode = "history"
		d.Behaviour = b
		d.Table = table
		d.IDBase = base
		d.Script = s.script
		run.Violation("c16", d)
		failed = true
	}
	idList := func(body []byte) ([]int, bool) {
		var raw []json.RawMessage
		if err := json.Unmarshal(body, &raw); err != nil {
			return nil, false
		}
		out := make([]int, len(raw))
		for i, e := range raw {
			v, err := strconv.Atoi(strings.Trim(string(e), `"`))
			if err != nil {
				return nil, false
			}
			out[i] = v - base
		}
		return out, true
	}
	// reads the specification predicts (evaluated by TLC on the expected snapshot)
	predicted := func(k int, st njStep, exp njExp) {
		for i, cid := range cids {
			r := s.http("GET", s.url(s.head, "key/"+strconv.Itoa(cid)+"?show=all"), nil)
			atomic.AddInt64(ncmp, 1)
			if d := njCompareAnn(st.Post[i], cid, cfg.Fields, table, r.Status, r.Bytes()); d != "" {
				report(c16Divergence{Kind: "state", Step: k, Endpoint: fmt.Sprintf("GET key/%d?show=all", cid), Expected: st.Post[i], Observed: string(r.Bytes()), Detail: d})
			}
		}
		listRead := func(name, method, rest string, body []byte, want []int) {
			r := s.http(method, s.url(s.head, rest), body)
			atomic.AddInt64(ncmp, 1)
			got, ok := idList(r.Bytes())
			if r.Status != 200 || !ok || !intsEq(got, want) {
				report(c16Divergence{Kind: "read", Step: k, Endpoint: name, Expected: want, Observed: fmt.Sprintf("%d %s (abstract ids %v)", r.Status, trunc(string(r.Bytes()), 400), got)})
			}
		}
		listRead("GET keys", "GET", "keys", nil, exp.Keys)
		r := s.http("GET", s.url(s.head, "fields?counts=true"), nil)
		atomic.AddInt64(ncmp, 1)
		cnt := map[string]int{}
		if r.Status != 200 || json.Unmarshal(r.Bytes(), &cnt) != nil {
			report(c16Divergence{Kind: "read", Step: k, Endpoint: "GET fields?counts=true", Observed: fmt.Sprintf("%d %s", r.Status, r.Bytes())})
		} else {
			for _, f := range cfg.Fields {
				if cnt[f] != exp.Cnt[f] {
					report(c16Divergence{Kind: "read", Step: k, Endpoint: "GET fields?counts=true", Expected: exp.Cnt, Observed: cnt,
						Detail: fmt.Sprintf("count of field %q is %d, %d annotations carry it", f, cnt[f], exp.Cnt[f])})
					break
				}
			}
			if cnt["bodyid"] != len(exp.Keys) {
				report(c16Divergence{Kind: "read", Step: k, Endpoint: "GET fields?counts=true", Expected: len(exp.Keys), Observed: cnt, Detail: "count of bodyid differs from the number of annotations"})
			}
		}
		for _, f := range cfg.Fields {
			listRead(fmt.Sprintf("query {%q:\"exists/1\"}?onlyid=true", f), "GET", "query?onlyid=true", []byte(fmt.Sprintf(`{%q:"exists/1"}`, f)), exp.Ex1[f])
			listRead(fmt.Sprintf("query {%q:\"exists/0\"}?onlyid=true", f), "GET", "query?onlyid=true", []byte(fmt.Sprintf(`{%q:"exists/0"}`, f)), exp.Ex0[f])
			for _, v := range cfg.ScalarVals {
				listRead(fmt.Sprintf("query {%q:%s}?onlyid=true", f, table[v-1]), "GET", "query?onlyid=true", []byte(fmt.Sprintf(`{%q:%s}`, f, table[v-1])), exp.Eq[f][v-1])
			}
		}
		for lo := 1; lo <= cfg.NumIds; lo++ {
			for hi := lo; hi <= cfg.NumIds; hi++ {
				listRead(fmt.Sprintf("keyrange/%d/%d", cids[lo-1], cids[hi-1]), "GET", fmt.Sprintf("keyrange/%d/%d", cids[lo-1], cids[hi-1]), nil, exp.Rng[lo-1][hi-1])
			}
		}
		for _, sk := range cfg.SchemaKinds {
			r := s.http("GET", s.url(s.head, sk), nil)
			atomic.AddInt64(ncmp, 1)
			want := st.Sch[sk]
			ok := (want == 0 && r.Status == 404) || (want > 0 && r.Status == 200 && string(r.Bytes()) == njSchemaDocs[want-1])
			if !ok {
				report(c16Divergence{Kind: "schema", Step: k, Endpoint: "GET " + sk, Expected: want, Observed: fmt.Sprintf("%d %s", r.Status, trunc(string(r.Bytes()), 200))})
			}
		}
	}
	compareSets := func(k int, what string, want, got []string) {
		atomic.AddInt64(ncheckpoints, 1)
		for i := range full {
			atomic.AddInt64(ncmp, 1)
			if want[i] != got[i] {
				a, bb := aroundDiff(want[i], got[i])
				report(c16Divergence{Kind: "coherence", Step: k, Endpoint: full[i].method + " " + full[i].rest + " " + string(full[i].body), Detail: what, Expected: a, Observed: bb})
			}
		}
	}
	commit := func() {
		r := s.http("POST", "/api/node/"+s.head+"/commit", []byte(`{"note":"c16"}`))
		if r.Status != 200 {
			infra("commit refused: %d %s", r.Status, r.Bytes())
		}
	}
	newver := func(k int) {
		parent := s.head
		r := s.http("POST", "/api/node/"+parent+"/newversion", []byte(`{"note":"c16"}`))
		var ch struct{ Child string }
		if r.Status != 200 || json.Unmarshal(r.Bytes(), &ch) != nil || ch.Child == "" {
			infra("newversion refused: %d %s", r.Status, r.Bytes())
		}
		s.head = ch.Child
		pr := s.doReads(parent, full)
		olds = append(olds, njOldVersion{parent, pr, k})
		compareSets(k, "in-memory path (new head) vs store path (its committed parent, identical data)", pr, s.doReads(s.head, full))
	}
	// a committed version keeps its answers whatever happens to the head afterwards
	recheckOld := func(k int) {
		for _, o := range olds {
			if failed {
				return
			}
			compareSets(k, fmt.Sprintf("committed version %s (left behind by the new version of step %d) re-read at the end vs its reads when it was committed", o.uuid[:8], o.step), o.reads, s.doReads(o.uuid, full))
		}
	}
	restart := func(k int, clean bool) {
		before := s.doReads(s.head, full)
		if err := n.Restart(clean); err != nil {
			if clean {
				must(err, "restart")
			}
			// the store did not reopen after SIGKILL (seen: Badger refuses a memtable file that was
			// being created when the process died): recovery is C04's subject; abandon this history
			njRestartFailed(err)
			failed = true
			return
		}
		s.script = append(s.script, fmt.Sprintf("RESTART clean=%v", clean))
		compareSets(k, fmt.Sprintf("head after restart (clean=%v) vs the same reads before the restart", clean), before, s.doReads(s.head, full))
	}
	locked := false
	for k, st := range b.Hist {
		op := st.Op
		user := njUser(k)
		accepted := func(r node.Resp) bool {
			if r.Status != 200 {
				report(c16Divergence{Kind: "request-refused", Step: k, Endpoint: op.K, Observed: fmt.Sprintf("%d %s", r.Status, trunc(string(r.Bytes()), 300))})
				return false
			}
			return true
		}
		switch op.K {
		case "init":
		case "post":
			cid := cids[op.ID-1]
			accepted(s.http("POST", s.url(s.head, fmt.Sprintf("key/%d%s", cid, njOpts(user, op))), njPostBody(cid, cfg.Fields, op.Upd, table, false)))
		case "seed":
			cid := cids[op.ID-1]
			accepted(s.http("POST", s.url(s.head, fmt.Sprintf("key/%d?u=seed", cid)), njPostBody(cid, cfg.Fields, op.Upd, table, true)))
		case "batch":
			c1, c2 := cids[op.ID-1], cids[op.ID2-1]
			body, _ := pb.Marshal(&proto.KeyValues{Kvs: []*proto.KeyValue{
				{Key: strconv.Itoa(c1), Value: njPostBody(c1, cfg.Fields, op.Upd, table, false)},
				{Key: strconv.Itoa(c2), Value: njPostBody(c2, cfg.Fields, op.Upd2, table, false)}}})
			s.script = append(s.script, fmt.Sprintf("  keyvalues: %s ; %s", njPostBody(c1, cfg.Fields, op.Upd, table, false), njPostBody(c2, cfg.Fields, op.Upd2, table, false)))
			accepted(s.http("POST", s.url(s.head, "keyvalues"+njOpts(user, op)), body))
		case "del":
			accepted(s.http("DELETE", s.url(s.head, fmt.Sprintf("key/%d?u=%s", cids[op.ID-1], user)), nil))
		case "postschema":
			accepted(s.http("POST", s.url(s.head, op.Sk+"?u="+user), []byte(njSchemaDocs[op.Sc-1])))
		case "delschema":
			accepted(s.http("DELETE", s.url(s.head, op.Sk+"?u="+user), nil))
		case "commit":
			commit()
			locked = true
		case "newver":
			newver(k)
			locked = false
		case "restart":
			restart(k, op.Clean)
		default:
			infra("unknown op kind %q", op.K)
		}
		if failed {
			return
		}
		if locked != st.Locked {
			infra("lock state out of step at %d", k)
		}
		predicted(k, st, b.Reads[k])
		if failed {
			return
		}
	}
	// closing checkpoint: store path vs in-memory path on the final state, then a restart
	k := len(b.Hist)
	if !locked {
		commit()
	}
	newver(k)
	if failed {
		return
	}
	last := b.Hist[len(b.Hist)-1]
	last.Locked = false
	predicted(k, last, b.Reads[len(b.Reads)-1])
	if closeRestart && !failed {
		restart(k, seed%2 == 0)
		if !failed {
			predicted(k, last, b.Reads[len(b.Reads)-1])
		}
	}
	recheckOld(k)
}

type njOldVersion struct {
	uuid  string
	reads []string
	step  int
}

// ---------------------------------------------------------------------------

func njOpKey(b *njBehaviour) string {
	var sb strings.Builder
	for _, st := range b.Hist {
		o := st.Op
		fmt.Fprintf(&sb, "%s%d%v%d%v%v%v%s%d|", o.K, o.ID, o.Upd, o.ID2, o.Upd2, o.Rep, o.Cond, o.Sk, o.Sc)
		if o.K == "init" {
			fmt.Fprintf(&sb, "%v|", st.Post)
		}
	}
	return sb.String()
}

func checkC16(c *Ctx) int {
	run := ev.NewRun("C16", c.Tier, "model_checking")
	t0 := time.Now()
	if os.Getenv("VERIF_C16_PART") == "scripts" { // development aid: the scripted DAG part alone (evidence marked partial)
		var nreq, ncmp, nchk int64
		sr := njScriptedReplay(c, run, njScriptedGen(c), &nreq, &ncmp, &nchk)
		run.Set("partial", "scripts only")
		run.Set("states", sr.states)
		run.Set("transitions", sr.trans)
		run.Set("traces_validated_against_impl", int64(sr.scripts))
		run.Set("tlc_model", []string{sr.model})
		fmt.Printf("C16 (scripts only): %s; %d requests, %d comparisons, %d checkpoints in %.1fs; violations=%d\n", sr.model, nreq, ncmp, nchk, since(t0), run.Violations())
		return run.Finish()
	}
	var states, trans int64
	var nreq, ncmp, ncheckpoints int64
	var models []string
	fields2 := []string{"a", "b"}
	fields3 := []string{"a", "b", "c"}

	// (a) exhaustive model check of coherence and the merge claims (no history)
	// (quick: one value -- the value-dependent merge claims are checked on the decision table's state space below;
	// the version bookkeeping of the DAG specification makes this state space larger than the linear one was)
	// thorough: two values x <= 3 requests and, below, one value x <= 4 requests (two values x 4 requests cost
	// more than 100 CPU-minutes with the DAG bookkeeping in the state)
	mc := njCfg{NumIds: 2, Fields: fields2, NumVals: c.pick(1, 2), ScalarVals: [][]int{{1}, {1, 2}}[c.pick(0, 1)], MaxSteps: 3, Record: false,
		Seeds: "EmptySeeds", UpdsAt: "AllUpdsAt", Pick: "PickAll", CondSets: [][]string{{"a"}},
		Kinds: []string{"post", "batch", "del", "commit", "newver", "restart", "schema"}, SchemaKinds: []string{"schema"}}
	var mcRes, mcRes2 *tlc.Result
	var wg sync.WaitGroup
	wg.Add(1)
	var mcPanic interface{}
	go func() {
		defer wg.Done()
		defer func() { mcPanic = recover() }()
		mcRes = njExhaustive(c, mc, 30*time.Minute)
		if c.thorough() {
			mc2 := mc
			mc2.NumVals, mc2.ScalarVals, mc2.MaxSteps = 1, []int{1}, 4
			mcRes2 = njExhaustive(c, mc2, 30*time.Minute)
		}
	}()

	// (d) exhaustive model check of the version DAG: branches, merges, tracked branch heads and committed
	// versions held in memory, restarts that change the `inmemory` configuration
	dcfg := njCfg{NumIds: 1, Fields: []string{"a"}, NumVals: 1, ScalarVals: []int{1}, MaxSteps: c.pick(9, 11), Record: false,
		Seeds: "EmptySeeds", UpdsAt: "AllUpdsAt", Pick: "PickAll", CondSets: [][]string{{"a"}},
		Kinds: []string{"post", "del", "commit", "newver", "branch", "merge", "restart"}, SchemaKinds: []string{},
		MaxVers: 5, Branches: "OneBranch", TrkSets: "TrkChoices", StatMax: 1}
	var dagRes *tlc.Result
	var dagPanic interface{}
	wg.Add(1)
	go func() {
		defer wg.Done()
		defer func() { dagPanic = recover() }()
		dagRes = njExhaustive(c, dcfg, 40*time.Minute)
	}()

	// (f) the merge claims with client-supplied stamps: every seeded state of one annotation x every POST
	// (update x stamp function x mode) x a second one, exhaustively (model level only; replayed by the scripts)
	stcfg := njCfg{NumIds: 1, Fields: fields2, NumVals: 2, ScalarVals: []int{1, 2}, MaxSteps: c.pick(2, 3), Record: false,
		Seeds: "TableSeeds", UpdsAt: "AllUpdsAt", Pick: "PickAll", CondSets: [][]string{{"a"}},
		Kinds: []string{"post"}, SchemaKinds: []string{}, StampSets: "AllSt"}
	var stRes *tlc.Result
	var stPanic interface{}
	wg.Add(1)
	go func() {
		defer wg.Done()
		defer func() { stPanic = recover() }()
		stRes = njExhaustive(c, stcfg, 30*time.Minute)
	}()

	// (e) scripted behaviours: generated and evaluated by TLC while the decision table is replayed
	var sg *njsGen
	var sgPanic interface{}
	sgDone := make(chan struct{})
	go func() {
		defer close(sgDone)
		defer func() { sgPanic = recover() }()
		sg = njScriptedGen(c)
	}()

	// (c) random walks of the full specification (generated while the decision table is replayed)
	scfg := njCfg{NumIds: 3, Fields: fields3, NumVals: 5, ScalarVals: []int{1, 2}, MaxSteps: c.pick(8, 12), Record: true, EmitReads: true,
		Seeds: "EmptySeeds", UpdsAt: "RandUpdsAt", Pick: "PickOne", CondSets: [][]string{{"a"}, {"b", "c"}, {"c"}},
		Kinds:       []string{"post", "batch", "seed", "del", "commit", "newver", "restart", "schema"},
		SchemaKinds: []string{"schema", "schema_batch", "json_schema"}, NRand: 4, Emit: true}
	nb := c.pick(240, 2400)
	var hists []*njBehaviour
	var simStates int64
	var simPanic interface{}
	simDone := make(chan struct{})
	go func() {
		defer close(simDone)
		defer func() { simPanic = recover() }()
		// several TLC random walks in parallel (distinct seeds derived from VERIF_SEED)
		parts := 4
		res := make([][]*njBehaviour, parts)
		sts := make([]int64, parts)
		parallel(parts, parts, func(_, i int) {
			res[i], sts[i] = njSimulate(c, scfg, nb/parts, c.Seed*1000+int64(i)+1)
		})
		for i := range res {
			hists = append(hists, res[i]...)
			simStates += sts[i]
		}
	}()

	// (b) decision table
	tcfg := njCfg{NumIds: 1, Fields: fields2, NumVals: c.pick(2, 3), ScalarVals: []int{1, 2}, MaxSteps: 2, Record: true,
		Seeds: "TableSeeds", UpdsAt: "AllUpdsAt", Pick: "PickAll", CondSets: [][]string{{"a"}},
		Kinds: []string{"post", "del"}, SchemaKinds: []string{}, Emit: true}
	if c.thorough() {
		tcfg.CondSets = [][]string{{"a"}, {"a", "b"}}
	}
	tr := njExhaustive(c, tcfg, 30*time.Minute)
	paths := njParse(tr.Output)
	if len(paths) == 0 {
		infra("NeuronJSON decision table emitted nothing: %s", tr.Tail(1500))
	}
	states += tr.Distinct
	trans += tr.Generated
	models = append(models, fmt.Sprintf("decision table: 1 annotation, fields %v, %d values + null + unmentioned, modes plain/replace/conditionals%v, every seeded state x %d requests: %d paths (%d states)",
		tcfg.Fields, tcfg.NumVals, tcfg.CondSets, tcfg.MaxSteps, len(paths), tr.Distinct))
	tables := make([][]string, len(paths))
	trng := rand.New(rand.NewSource(c.Seed))
	for i := range tables {
		tables[i] = njAnyTable(trng, tcfg.NumVals)
	}
	workers := 16
	tws := make([]*njTableWorker, workers)
	for i := range tws {
		tws[i] = &njTableWorker{c: c}
	}
	pstate := make([]njPathState, len(paths))
	// phase 1: seed + first request of every path; then > 1 s of wall-clock time; phase 2: the
	// second request, where an unchanged value must keep its stamp exactly and a changed
	// value must carry a strictly later one.
	tablePhase := func(from, to int, afterSleep bool) {
		parallel(workers, workers, func(_, wi int) {
			w := tws[wi]
			w.ensure(&nreq, tcfg.Fields)
			for i := wi; i < len(paths); i += workers {
				w.replaySteps(run, i, paths[i], tables[i], from, to, &pstate[i], afterSleep, &ncmp)
			}
		})
	}
	tablePhase(0, 2, false)
	time.Sleep(1100 * time.Millisecond)
	tablePhase(2, 3, true)
	for i := range paths {
		run.Eval(njOpKey(paths[i]))
	}
	parallel(workers, workers, func(_, wi int) {
		tws[wi].checkpoint(run, paths, tables, wi%2 == 0, &ncmp)
		if tws[wi].n != nil {
			c.DropNode(tws[wi].n)
			tws[wi].n = nil
		}
	})
	tableS := since(t0)
	run.Sample(map[string]interface{}{"decision_table_path": paths[len(paths)/2], "value_table": tables[len(paths)/2]})

	<-simDone
	if simPanic != nil {
		panic(simPanic)
	}
	states += simStates
	trans += simStates
	models = append(models, fmt.Sprintf("random walk: %d behaviours of %d requests over %d ids x fields %v x %d values; kinds %v", len(hists), scfg.MaxSteps, scfg.NumIds, scfg.Fields, scfg.NumVals, scfg.Kinds))
	hws := make([]*njHistWorker, workers)
	for i := range hws {
		hws[i] = &njHistWorker{c: c}
	}
	kinds := map[string]int{}
	for _, b := range hists {
		for _, st := range b.Hist {
			kinds[st.Op.K]++
		}
	}
	parallel(len(hists), workers, func(wi, i int) {
		replayHistory(run, hws[wi].node(), hists[i], scfg, c.Seed*7919+int64(i), i%3 == 0, &nreq, &ncmp, &ncheckpoints)
		run.Eval(njOpKey(hists[i]))
	})
	for _, w := range hws {
		if w.n != nil {
			c.DropNode(w.n)
		}
	}
	if len(hists) > 0 {
		run.Sample(map[string]interface{}{"history": hists[0].Hist, "expected_reads_last_step": hists[0].Reads[len(hists[0].Reads)-1]})
	}

	// (e) scripted behaviours over a version DAG with `inmemory` configurations (c16s.go)
	<-sgDone
	if sgPanic != nil {
		panic(sgPanic)
	}
	sr := njScriptedReplay(c, run, sg, &nreq, &ncmp, &ncheckpoints)
	states += sr.states
	trans += sr.trans
	models = append(models, sr.model)

	wg.Wait()
	if mcPanic != nil {
		panic(mcPanic)
	}
	if dagPanic != nil {
		panic(dagPanic)
	}
	if stPanic != nil {
		panic(stPanic)
	}
	states += stRes.Distinct
	trans += stRes.Generated
	models = append(models, fmt.Sprintf("exhaustive Inv_C16_MergeRules with client-supplied stamps: every seeded state of 1 annotation x fields %v x 2 values x every POST (update x which of <f>_user/<f>_time are supplied x plain/replace/conditionals), sequences of <= %d: %d distinct states", stcfg.Fields, stcfg.MaxSteps, stRes.Distinct))
	states += dagRes.Distinct
	trans += dagRes.Generated
	models = append(models, fmt.Sprintf("exhaustive version DAG (Inv_C16_Coherent with one database per tracked head / held version, Inv_StoreIsRead, Inv_C16_MergeRules): 1 id x field a x 1 value, <= %d versions, master + branch b1, all sequences of <= %d requests (post, delete, commit, new version, branch, conflict-free merge, restart choosing the inmemory configuration): %d distinct states, depth %d",
		dcfg.MaxVers, dcfg.MaxSteps, dagRes.Distinct, dagRes.Depth))
	states += mcRes.Distinct
	trans += mcRes.Generated
	models = append(models, fmt.Sprintf("exhaustive Inv_C16_Coherent/Inv_C16_MergeRules: 2 ids x fields %v x %d values, all sequences of <= %d requests (post, keyvalues batch, delete, commit, new version, restart, schema): %d distinct states, depth %d",
		mc.Fields, mc.NumVals, mc.MaxSteps, mcRes.Distinct, mcRes.Depth))
	if mcRes2 != nil {
		states += mcRes2.Distinct
		trans += mcRes2.Generated
		models = append(models, fmt.Sprintf("the same with 1 value and <= 4 requests: %d distinct states, depth %d", mcRes2.Distinct, mcRes2.Depth))
	}

	// the import-kv command of the RPC path (c16_rpc.go, specs/NJImport.tla)
	nImport, nImportCmp := njRPCImport(c, run)
	run.Set("import_kv_cases_replayed", nImport)
	run.Set("import_kv_comparisons", nImportCmp)

	run.Set("states", states)
	run.Set("transitions", trans)
	run.Set("traces_validated_against_impl", int64(len(paths)+len(hists)+sr.scripts))
	run.Set("evaluations", int64(len(paths)+len(hists)+sr.scripts))
	run.Set("script_request_kinds", sr.kinds)
	run.Set("script_steps_served_from_memory_besides_master_head", sr.servedSteps)
	run.Set("comparisons", ncmp)
	run.Set("requests", nreq)
	run.Set("memory_vs_store_and_restart_checkpoints", ncheckpoints+int64(2*workers))
	run.Set("history_request_kinds", kinds)
	if f := atomic.LoadInt64(&njRestartFailures); f > 0 {
		msg, _ := njRestartFailureMsg.Load().(string)
		run.Set("histories_abandoned_store_unopenable_after_kill", f)
		run.Set("store_unopenable_after_kill_message", trunc(msg, 300))
		fmt.Printf("C16: note: %d restart(s) after SIGKILL found the store unopenable (%s); those histories were abandoned (crash recovery is C04's subject)\n", f, trunc(msg, 160))
		if f > 3 && f*50 > int64(len(hists)) {
			infra("%d of %d histories lost to stores that did not reopen after SIGKILL: %s", f, len(hists), msg)
		}
	}
	run.Set("tlc_model", models)
	run.Set("exhaustive", false)
	run.Set("rule", "a case is one behaviour of specs/NeuronJSON.tla replayed on the real server: (1) the decision table — TLC enumerates exhaustively every seeded state of one annotation x every first request x every second request (POST key plain / replace=true / conditionals, each field unmentioned / null / each value; DELETE) with the expected annotation (values, _user, old-or-fresh _time) after each request; each path runs under its own body id with a seeded concrete JSON value per abstract value (numbers, strings, arrays, nested objects, booleans), and GET key?show=all is compared after every request, at the committed parent (store path) and after a restart; (2) histories — TLC random-walks the full specification (POST key, POST keyvalues, seeding POST, DELETE, schema POST/DELETE, commit, new version, clean/kill restart) and prints the expected state and the expected keys / field counts / keyrange / exists- and equality-query results after every step; each history runs on its own repo, every step's predicted reads are compared, and at every new version (plus a closing one) the complete read set (key, keys, all, fields, counts, keyrange, keyrangevalues json/tar/protobuf, keyvalues, query in every form incl. regex, lists, AND/OR, onlyid, fields=, schemas) of the new head (in-memory path) is compared with its committed parent (store path), and at every restart with the pre-restart answers; (3) scripted DAG behaviours — the harness generates seeded scripts of request intentions (shapes: master and a branch diverge, are merged conflict-free and the merge child becomes the master head; a branch named in the inmemory configuration before it exists; committed versions held in memory by UUID; a json_schema that constrains field a, is deleted and changed by a child version; random), TLC executes each script on specs/NeuronJSON_script.tla (resolving each intention to an enabled request or skipping it, checking the invariants in every state) and prints the content of every version after every request with the expected keys / counts / key ranges / query table (integers, negatives, non-integral numbers, strings, integer / string / mixed lists, regular expressions, array-valued fields, AND / OR, existence) / ?fields= and ?show= projections; the server is (re)started with the inmemory configuration of the script, every request is replayed (incl. schema refusals, string->integer conversion, POST key/0, client-supplied _user/_time, ids above 2^63, POST /query, key/schema spellings) and after every request the predicted reads of the written version and of every version served from memory (all versions at DAG steps and restarts) are compared; at every restart the complete read set of every version (incl. GET fieldtimes where the specification says it is determined) is compared before/after — restarts change the inmemory configuration, so the same version is read through the incrementally maintained in-memory path, the store path and a freshly loaded in-memory copy; distinct_nontrivial = distinct request sequences (incl. seed state)")
	run.Assume = []string{
		"_time: the seeded old stamp vs a stamp written by the server is compared after every request; exact preservation / renewal of server-written stamps is compared in the decision table only (its second request is sent more than one second after the first; RFC3339 stamps have one-second resolution); _user identifies the request that last changed a value",
		"body ids of one instance have the same number of digits (the store path lists keys lexicographically, the in-memory path numerically — documented)",
		"stamps of a field that has no value, fieldtimes, and a null posted for a protected (conditionals) field are not constrained",
		"in the decision table and the random-walk histories equality-query results are predicted only for integer/string values that occur in no array of the same history; in the scripted behaviours the query table is predicted from the value kinds (a value offers itself or its elements; a term matches if one of its scalars, or a string its regular expression matches, is offered); boolean query values, bodyid-only queries and values no term can equal (booleans, objects, nested / float / empty lists) are compared between the paths only",
		"scripted behaviours: merges are conflict-free (no datum has two live unsuperseded entries) and join versions neither of which descends from the other; versions held in memory by UUID are committed; client stamps are supplied only for fields that have a value after the request and never together with conditionals; a request sequence the server's DAG rules refuse is an infrastructure error (C07's subject)",
		"GET fieldtimes (in-memory path only) is compared across a restart only while no stamp of the database has been removed or replaced by an older one since it was loaded (then 'latest stamp seen' and 'latest stamp present' coincide)",
	}
	fmt.Printf("C16: %v; table %.1fs; %d requests, %d comparisons, %d checkpoints in %.1fs; violations=%d known=%v\n",
		models, tableS, nreq, ncmp, ncheckpoints+int64(2*workers), since(t0), run.Violations(), run.KnownSeen())
	return run.Finish()
}
