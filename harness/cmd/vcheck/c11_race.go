package main

// C11, gap X6 of GAPS.md: the Go race detector as an auxiliary diagnostic (thorough tier only).
//
// A race-detector variant of the server under test (go build -race -tags badger,verif) runs ungated
// bursts of the C11 templates; every "WARNING: DATA RACE" block it prints is collected, reduced to its
// two access sites and reported in the evidence as infrastructure information.  A race report alone
// is NOT a property violation (C11 speaks of acknowledged mutations and final states, which the
// schedules and bursts judge); nothing here changes the verdict or the exit code.

import (
	"fmt"
	"os"
	"os/exec"
	"path/filepath"
	"regexp"
	"sort"
	"strings"
	"sync/atomic"
	"time"

	"verifharness/internal/ev"
	"verifharness/internal/node"
)

var (
	reRaceFrame = regexp.MustCompile(`(?m)^  ([A-Za-z0-9_./*()\-]+)\(\)\n\s+(\S+?):(\d+)`)
)

// c11RaceSites reduces one report to "<first frame of access 1> | <first frame of access 2>".
func c11RaceSites(block string) string {
	var sites []string
	for _, part := range regexp.MustCompile(`(?m)^(?:Read|Write|Previous read|Previous write|Atomic|Previous atomic)[^\n]*\n`).Split(block, -1)[1:] {
		if m := reRaceFrame.FindStringSubmatch(part); m != nil {
			fn := m[1]
			if i := strings.LastIndex(fn, "/"); i >= 0 {
				fn = fn[i+1:]
			}
			sites = append(sites, fmt.Sprintf("%s (%s:%s)", fn, filepath.Base(m[2]), m[3]))
		}
		if len(sites) == 2 {
			break
		}
	}
	sort.Strings(sites)
	return strings.Join(sites, " | ")
}

func c11RaceBursts(c *Ctx, run *ev.Run) map[string]interface{} {
	t0 := time.Now()
	out := map[string]interface{}{
		"note": "auxiliary diagnostic: data race reports of a race-detector build of the server during ungated C11 bursts; a race report alone is not a property violation and does not influence the verdict",
	}
	bin := filepath.Join(c.Scratch, "dvidnode-race")
	cmd := exec.Command("go", "build", "-race", "-tags", "badger,verif", "-o", bin, "./cmd/dvidnode")
	cmd.Dir = filepath.Join(ev.VerifDir, "harness")
	cmd.Env = append(os.Environ(), "GOFLAGS=-mod=mod", "GOPROXY=off", "GOSUMDB=off", "GOTOOLCHAIN=local", "CGO_ENABLED=1")
	if b, err := cmd.CombinedOutput(); err != nil {
		out["build"] = "failed (no race diagnostics in this run): " + trunc(string(b), 400)
		return out
	}
	out["build_s"] = since(t0)
	kinds := append([]string(nil), c11BaseTemplates...)
	kinds = append(kinds, "annc")
	nb := 160
	var bursts []*c11Burst
	for i := 0; i < nb; i++ {
		bursts = append(bursts, c11GenBurst(c.Rng, kinds[i%len(kinds)]))
	}
	workers := 4
	ws := make([]*c11Worker, workers)
	for i := range ws {
		ws[i] = &c11Worker{c: c, bin: bin}
	}
	var done int64
	var stderr []string
	func() {
		defer func() {
			// a slow race build that misses a protocol timeout is not a verdict either
			if e := recover(); e != nil {
				out["aborted"] = fmt.Sprint(e)
			}
		}()
		parallel(len(bursts), workers, func(w, i int) {
			ws[w].runBurst(bursts[i])
			atomic.AddInt64(&done, 1)
		})
	}()
	for _, w := range ws {
		for _, n := range w.allNodes {
			stderr = append(stderr, n.Stderr.String())
		}
		w.close()
	}
	distinct := map[string]int{}
	total := 0
	var sample string
	for _, s := range stderr {
		for _, blk := range strings.Split(s, "==================\n") {
			if !strings.Contains(blk, "WARNING: DATA RACE") {
				continue
			}
			total++
			k := c11RaceSites(blk)
			distinct[k]++
			if sample == "" {
				sample = trunc(blk, 1800)
			}
		}
	}
	out["bursts_run"] = atomic.LoadInt64(&done)
	out["data_race_reports"] = total
	out["distinct_access_site_pairs"] = distinct
	if sample != "" {
		out["first_report"] = sample
	}
	out["wall_s"] = since(t0)
	return out
}

// startNodeBin is Ctx.StartNode with an explicit server binary.
func startNodeBin(c *Ctx, bin string, cfg node.Config) *node.Node {
	k := atomic.AddInt64(&c.nodeSeq, 1)
	if cfg.Dir == "" {
		cfg.Dir = filepath.Join(c.Scratch, fmt.Sprintf("node%d", k))
	}
	n, err := node.Start(bin, cfg)
	must(err, "start node")
	c.mu.Lock()
	c.nodes = append(c.nodes, n)
	c.mu.Unlock()
	return n
}
