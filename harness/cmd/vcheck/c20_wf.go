package main

// C20, well-formed requests: the tables of PART 3 of specs/Hostile.tla (annotation posts
// whose elements move tags in opposite directions, neuron-annotation queries over every
// stored-kind x query-kind pair) and the seeded multi-datatype workload of world.go.  None
// of them may be answered with a server error or take the process down.

import (
	"encoding/json"
	"errors"
	"fmt"
	"math/rand"
	"sort"
	"strings"

	"verifharness/internal/node"
)

type annElemState struct {
	P bool    `json:"p"`
	T strList `json:"t"`
}

type annCase struct {
	B1       annElemState       `json:"b1"`
	B2       annElemState       `json:"b2"`
	P1       annElemState       `json:"p1"`
	P2       annElemState       `json:"p2"`
	Crossing bool               `json:"crossing"`
	View     map[string][]int   `json:"view"`
}

type njCase struct {
	Stored string `json:"stored"`
	Query  string `json:"query"`
	Expect string `json:"expect"`
}

type c20WFReplay struct {
	Property string      `json:"property"`
	Table    string      `json:"table"`
	Case     interface{} `json:"case"`
	Script   []string    `json:"script"`
	Failed   string      `json:"failed_request"`
	Status   int         `json:"status"`
	Response string      `json:"response"`
	Dead     bool        `json:"dead,omitempty"`
	Stderr   string      `json:"stderr_tail,omitempty"`
	Again    string      `json:"reproduced_on_fresh_node,omitempty"`
}

// wfSession sends well-formed requests and records the first departure.
type wfSession struct {
	n      *node.Node
	script []string
	bad    *c20WFReplay
}

func (s *wfSession) do(method, url string, body []byte) (int, []byte) {
	if s.bad != nil {
		return 0, nil
	}
	line := fmt.Sprintf("%s %s %s", method, url, truncStr(string(body), 300))
	s.script = append(s.script, line)
	rd := map[string]string{"method": method, "url": url}
	if len(body) > 0 {
		rd["body"] = b64(body)
	}
	var r struct {
		Status int    `json:"status"`
		Body   string `json:"body"`
	}
	err := s.n.Call("c20.http", rd, &r)
	if err != nil {
		if errors.Is(err, node.ErrDead) {
			s.bad = &c20WFReplay{Failed: line, Dead: true, Stderr: c20DeathReport(s.n)}
			return 0, nil
		}
		must(err, "well-formed request")
	}
	rb := unb64(r.Body)
	if r.Status >= 500 {
		s.bad = &c20WFReplay{Failed: line, Status: r.Status, Response: truncStr(string(rb), 800)}
	}
	return r.Status, rb
}

func annElemJSON(x, y, z int, tags []string) map[string]interface{} {
	if tags == nil {
		tags = []string{}
	}
	return map[string]interface{}{"Pos": []int{x, y, z}, "Kind": "Note", "Tags": tags, "Prop": map[string]string{"k": "v"}}
}

// runAnnCase replays one annotation case in its own block of version u.
func runAnnCase(s *wfSession, u string, k int, c *annCase) {
	bx := 40 + k
	x1, x2, y, z := bx*c20BS+3, bx*c20BS+20, 11*c20BS+5, 12*c20BS+7
	base := "/api/node/" + u + "/ann"
	var before, batch []map[string]interface{}
	if c.B1.P {
		before = append(before, annElemJSON(x1, y, z, c.B1.T))
	}
	if c.B2.P {
		before = append(before, annElemJSON(x2, y, z, c.B2.T))
	}
	if c.P1.P {
		batch = append(batch, annElemJSON(x1, y, z, c.P1.T))
	}
	if c.P2.P {
		batch = append(batch, annElemJSON(x2, y, z, c.P2.T))
	}
	if len(before) > 0 {
		b, _ := json.Marshal(before)
		s.do("POST", base+"/elements", b)
	}
	b, _ := json.Marshal(batch)
	s.do("POST", base+"/elements", b)
	s.do("GET", fmt.Sprintf("%s/elements/%d_%d_%d/%d_%d_%d", base, c20BS, c20BS, c20BS, bx*c20BS, 11*c20BS, 12*c20BS), nil)
	if k%8 == 0 {
		s.do("GET", base+"/tag/t1", nil)
		s.do("GET", base+"/tag/t2", nil)
	}
}

var njStoredValues = map[string]string{
	"str": `"KC"`, "int": `12`, "float": `1.5`, "bool": `true`, "liststr": `["KC","b"]`, "listint": `[12,2]`,
	"listmixed": `["KC",12,2.5]`, "obj": `{"x":1}`, "absent": "",
}

func njQueryValues(kind string, rng *rand.Rand) []string {
	switch kind {
	case "str":
		return []string{`"KC"`}
	case "int":
		return []string{`12`}
	case "float":
		return []string{`1.5`}
	case "bool":
		return []string{`true`}
	case "regex":
		return []string{`"re/^K"`}
	case "exists0":
		return []string{`"exists/0"`}
	case "exists1":
		return []string{`"exists/1"`}
	case "liststr":
		return []string{`["KC","x"]`}
	case "listint":
		return []string{`[12,13]`}
	case "listfloat":
		return []string{`[1.5,2.5]`}
	case "listmixed":
		all := []string{`["KC",12]`, `[12,"KC"]`, `[1.5,"KC"]`, `["KC",1.5,12]`, `[12,1.5]`, `[true,"KC"]`, `[12,null]`, `[null,12]`, `["re/^K",12]`, `[[1],2]`}
		i := rng.Intn(len(all))
		return []string{all[i], all[(i+3)%len(all)], all[(i+7)%len(all)]}
	case "listregex":
		return []string{`["re/^K","re/x"]`}
	case "emptylist":
		return []string{`[]`}
	case "null":
		return []string{`null`}
	case "obj":
		return []string{`{"a":1}`}
	}
	return nil
}

// c20WellFormed runs the three well-formed parts; it returns the number of requests sent.
func (d *c20Driver) wellFormed(ann []annCase, nj []njCase) {
	c := d.c
	report := func(table string, cs interface{}, s *wfSession, again func() *wfSession) {
		rp := s.bad
		rp.Property, rp.Table, rp.Case, rp.Script = "C20", table, cs, s.script
		lines := strings.SplitN(rp.Response, "\n", 3)
		what := "process died"
		if !rp.Dead && len(lines) > 1 {
			what = lines[1]
		}
		key := "wellformed|" + table + "|" + what
		d.mu.Lock()
		if g, ok := d.groups[key]; ok {
			g.SameGroup++
			d.mu.Unlock()
			return
		}
		d.groups[key] = &c20Replay{}
		d.mu.Unlock()
		s2 := again()
		if s2.bad == nil {
			d.mu.Lock()
			delete(d.groups, key)
			d.unrepro = append(d.unrepro, fmt.Sprintf("well-formed %s: %s", table, rp.Failed))
			d.mu.Unlock()
			return
		}
		if s2.bad.Dead {
			rp.Again = "process died again"
		} else {
			rp.Again = fmt.Sprintf("%d %s", s2.bad.Status, truncStr(s2.bad.Response, 200))
		}
		d.mu.Lock()
		d.byKind["wellformed-5xx"]++
		d.mu.Unlock()
		if id := c20KnownWF(table, rp); id != "" && d.run.KnownActive(id) {
			d.run.ReportKnown(id)
			return
		}
		d.run.Violation("c20wf", rp)
	}
	sort.Slice(ann, func(i, j int) bool { return jsonStr(ann[i]) < jsonStr(ann[j]) })
	sort.Slice(nj, func(i, j int) bool { return jsonStr(nj[i]) < jsonStr(nj[j]) })

	// (a) annotation tag cases: sharded over worlds
	const shards = 6
	var wfReq int64
	parallel(shards+2, shards+2, func(_, sh int) {
		switch {
		case sh < shards:
			w := newC20World(c, d.cfg)
			defer c.DropNode(w.n)
			for k := sh; k < len(ann); k += shards {
				s := &wfSession{n: w.n}
				runAnnCase(s, w.a, k, &ann[k])
				d.mu.Lock()
				wfReq += int64(len(s.script))
				d.run.Eval(fmt.Sprintf("ann|%d", k))
				d.mu.Unlock()
				if s.bad != nil {
					kk := k
					report("annotation-tags", ann[kk], s, func() *wfSession {
						w2 := newC20World(c, d.cfg)
						defer c.DropNode(w2.n)
						s2 := &wfSession{n: w2.n}
						runAnnCase(s2, w2.a, kk, &ann[kk])
						return s2
					})
					if !w.n.Alive() {
						c.DropNode(w.n)
						w = newC20World(c, d.cfg)
					}
				}
			}
		case sh == shards:
			// (b) neuron annotation queries on the store path (branch version) and the in-memory path (master head)
			runNJ := func(report2 bool) {
				w := newC20World(c, d.cfg)
				defer func() { c.DropNode(w.n) }()
				r := w.mustPost("/api/node/"+w.v1+"/newversion", []byte(`{"note":"master head"}`), "newversion on master")
				var ch struct{ Child string }
				json.Unmarshal(r.Bytes(), &ch)
				rng := rand.New(rand.NewSource(c.Seed + 77))
				for vi, u := range []string{w.a, ch.Child} {
					path := []string{"store", "memory"}[vi]
					kinds := sortedKeys(func() map[string]bool {
						m := map[string]bool{}
						for k := range njStoredValues {
							m[k] = true
						}
						return m
					}())
					for i, sk := range kinds {
						body := fmt.Sprintf(`{"bodyid":%d}`, 7000+i)
						if v := njStoredValues[sk]; v != "" {
							body = fmt.Sprintf(`{"bodyid":%d,"f_%s":%s}`, 7000+i, sk, v)
						}
						w.mustPost(fmt.Sprintf("/api/node/%s/nj/key/%d?u=wf", u, 7000+i), []byte(body), "nj stored value")
					}
					for ci := range nj {
						cs := nj[ci]
						for _, qv := range njQueryValues(cs.Query, rng) {
							q := []byte(fmt.Sprintf(`{"f_%s":%s}`, cs.Stored, qv))
							s := &wfSession{n: w.n}
							method := "GET"
							if ci%2 == 1 && vi == 0 {
								method = "POST"
							}
							st, _ := s.do(method, "/api/node/"+u+"/nj/query", q)
							d.mu.Lock()
							wfReq++
							d.run.Eval(fmt.Sprintf("nj|%s|%s|%s", path, cs.Stored, cs.Query))
							if st >= 400 && st < 500 && cs.Expect == "2xx" {
								d.wfRefused = append(d.wfRefused, fmt.Sprintf("%s %s -> %d", path, q, st))
							}
							d.mu.Unlock()
							if s.bad != nil {
								qq, uu := q, vi
								report("neuronjson-query("+path+")", map[string]string{"stored": cs.Stored, "query": cs.Query, "body": string(q), "path": path}, s, func() *wfSession {
									w2 := newC20World(c, d.cfg)
									defer c.DropNode(w2.n)
									r := w2.mustPost("/api/node/"+w2.v1+"/newversion", []byte(`{"note":"master head"}`), "newversion on master")
									var ch2 struct{ Child string }
									json.Unmarshal(r.Bytes(), &ch2)
									u2 := []string{w2.a, ch2.Child}[uu]
									for i, sk := range kinds {
										body := fmt.Sprintf(`{"bodyid":%d}`, 7000+i)
										if v := njStoredValues[sk]; v != "" {
											body = fmt.Sprintf(`{"bodyid":%d,"f_%s":%s}`, 7000+i, sk, v)
										}
										w2.mustPost(fmt.Sprintf("/api/node/%s/nj/key/%d?u=wf", u2, 7000+i), []byte(body), "nj stored value")
									}
									s2 := &wfSession{n: w2.n}
									s2.do(method, "/api/node/"+u2+"/nj/query", qq)
									return s2
								})
								if !w.n.Alive() {
									return // the remaining cases of this part are dropped with the node
								}
							}
						}
					}
				}
			}
			runNJ(true)
		default:
			// (c) the seeded multi-datatype workload of the other properties
			steps := c.pick(400, 3000)
			n := c.StartNode(d.cfg)
			defer c.DropNode(n)
			wl := newWorld(n, c.Seed)
			for i := 0; i < steps; i++ {
				_, err := wl.step()
				if err != nil {
					if errors.Is(err, node.ErrDead) {
						last := wOp{}
						if len(wl.log) > 0 {
							last = wl.log[len(wl.log)-1]
						}
						d.run.Violation("c20wl", map[string]interface{}{"property": "C20", "table": "workload", "dead_after": last, "stderr_tail": c20DeathReport(n), "seed": c.Seed, "step": i})
						return
					}
					must(err, "workload step")
				}
				if len(wl.log) > 0 {
					op := wl.log[len(wl.log)-1]
					if op.Status >= 500 {
						key := "workload|" + op.Kind
						d.mu.Lock()
						_, seen := d.groups[key]
						if !seen {
							d.groups[key] = &c20Replay{}
							d.byKind["wellformed-5xx"]++
						}
						d.mu.Unlock()
						if !seen {
							tail := wl.log
							if len(tail) > 40 {
								tail = tail[len(tail)-40:]
							}
							d.run.Violation("c20wl", map[string]interface{}{"property": "C20", "table": "workload", "failed": op, "last_ops": tail, "seed": c.Seed, "step": i})
						}
					}
				}
				d.mu.Lock()
				wfReq++
				d.mu.Unlock()
			}
			d.run.Eval("workload")
		}
	})
	d.wfRequests = wfReq
}

func min2(a, b int) int {
	if a < b {
		return a
	}
	return b
}

// known finding ids for well-formed failures
func c20KnownWF(table string, rp *c20WFReplay) string { return "" }
