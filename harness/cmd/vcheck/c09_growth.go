package main

// C09, growth:
//   - "dense" classes (specs/LabelBlockDense.tla): every sub-block draws its own palette size, all
//     ordered pairs of index widths 0..9 adjacent, shared labels, label 0 inside palettes, big
//     shapes (64^3, 128^3, 16x1024x16) in the thorough tier;
//   - bounded sparse views (specs/LabelBlockBounds.tla): every case gets non-empty dvid.Bounds
//     from a class table (per axis: open / min / max / both, unaligned to sub-blocks, on block
//     boundaries, one or two x-adjacent blocks, exact true / false); TLC computes the box, the
//     blocks that pass the block-level screen and the voxel cut of every block;
//   - ReplaceLabel probes: the count returned (getNumVoxels) must be TLC's voxel count of the
//     label, the block after the first probe TLC's Replace;
//   - zero-count sub-blocks: the dense classes' sub-blocks that hold only label 0 are
//     re-serialized with NumSBLabels = 0 and every view must still show the same labelling (or
//     the parser refuses the block);
//   - points outside the block read as label 0.

import (
	"encoding/json"
	"fmt"
	"math/rand"
	"sort"
	"strings"
	"time"

	"verifharness/internal/ev"
	lg "verifharness/internal/lblgeom"
	"verifharness/internal/tlc"
)

// known findings of the growth part (ids in known_findings.json)
const (
	c09ZeroCount = "zero-count-subblock-views-disagree"
)

type denseClass struct {
	codecClass
	DCls struct {
		Wa int `json:"wa"`
		Wb int `json:"wb"`
		V  int `json:"v"`
	} `json:"dcls"`
	Widths []int `json:"widths"`
	Holes  []int `json:"holes"`
	Probes []struct {
		T    int `json:"t"`
		N    int `json:"n"`
		Size int `json:"size"`
	} `json:"probes"`
	Replaced [][]int `json:"replaced"`
}

// growthExp is what TLC expects of the growth observations of one case.
type growthExp struct {
	probeSizes []uint64
	replaced   [][]uint64 // the block after the first probe (palettes), nil if not compared
	boundsKeys []string
	holes      bool
}

var c09Growth = map[int]*growthExp{}

// counters of the growth part (evidence)
var c09G struct {
	bounded, boundedVoxels, probes, holeBlocks, holeRefused, outChecks int
	xClasses, yClasses, zClasses                                       map[string]bool
	pairs                                                              map[[2]int]bool
	maxTable                                                           int
}

func c09DenseClasses(c *Ctx) ([]*denseClass, *tlc.Result) {
	dimSel, variants := 0, 1
	if c.thorough() {
		dimSel, variants = 2, 3
	}
	cfg := fmt.Sprintf("SPECIFICATION Spec\nCONSTANTS\n  DimSel = %d\n  Variants = %d\n  VBase = %d\nINVARIANTS ClaimsAndEmit\nCHECK_DEADLOCK FALSE\n",
		dimSel, variants, int(c.Seed%89))
	r := c.MustModelCheck(tlc.Opts{Module: "LabelBlockDense", Config: "gen_dense.cfg",
		Files: map[string][]byte{"gen_dense.cfg": []byte(cfg)}, Timeout: 20 * time.Minute, Xss: "256m"})
	var out []*denseClass
	PrintedJSON(r.Output, func(raw []byte) {
		var k denseClass
		if err := json.Unmarshal(raw, &k); err == nil && k.Name == "dense" && len(k.Pal) > 0 {
			k.Name = fmt.Sprintf("dense/w%d.%d/v%d/%dx%dx%d/%s", k.DCls.Wa, k.DCls.Wb, k.DCls.V, k.Dims[0], k.Dims[1], k.Dims[2], k.LClass)
			out = append(out, &k)
		}
	})
	if len(out) != 100*variants {
		infra("LabelBlockDense emitted %d classes:\n%s", len(out), r.Tail(2000))
	}
	sort.Slice(out, func(i, j int) bool { return out[i].Name < out[j].Name })
	return out, r
}

// c09DenseCase expands one dense class into a concrete case.
func c09DenseCase(k *denseClass, id, variant int, rng *rand.Rand, thorough bool) (*lg.Case, []uint64) {
	g := lg.Geometry{Size: k.Dims}
	nsb := g.NumSB()
	if nsb != len(k.Pal) {
		infra("class %s: %d palettes for %d sub-blocks", k.Name, len(k.Pal), nsb)
	}
	g.SBs = make([]lg.SB, nsb)
	for q := range g.SBs {
		g.SBs[q] = lg.SB{Scheme: lg.W, Regions: []int{q + 1}}
	}
	maxL := 0
	for _, p := range k.Pal {
		for _, a := range p {
			if a > maxL {
				maxL = a
			}
		}
	}
	for _, p := range k.Probes {
		if p.T > maxL {
			maxL = p.T
		}
		if p.N > maxL {
			maxL = p.N
		}
	}
	for _, s := range k.Sets {
		for _, a := range s.Labels {
			if a > maxL {
				maxL = a
			}
		}
	}
	m := labelMap(k.LClass, maxL+3, rng)
	if k.LClass == "top" {
		// 2^64-1 on a label that is in use: the first non-zero label of a multi-label palette
		n := len(m) - 1
		q := (variant * 5) % nsb
		for i := 0; i < nsb && len(k.Pal[q]) < 2; i++ {
			q = (q + 1) % nsb
		}
		a := k.Pal[q][0]
		if a == 0 && len(k.Pal[q]) > 1 {
			a = k.Pal[q][1]
		}
		if a > 0 && a != n {
			m[n] = uint64(1)<<62 + 12345
			m[a] = ^uint64(0)
		}
	}
	c := &lg.Case{ID: id, Geom: g, Lay: k.Lay, Seed: rng.Int63(), Codec: true, Pair: variant%2 == 1, OutPoints: true}
	c.AllPoints = g.NumVoxels() <= 32768 || (thorough && g.NumVoxels() <= 262144)
	switch variant % 4 {
	case 1:
		c.BCoord = [3]int32{3, 1, 2}
	case 2:
		c.BCoord = [3]int32{int32(rng.Intn(1000)), int32(rng.Intn(1000)), int32(rng.Intn(1000))}
	case 3:
		c.BCoord = [3]int32{-1, -2, -65}
	}
	for _, p := range k.Pal {
		cp := make([]uint64, len(p))
		for i, a := range p {
			cp[i] = m[a]
		}
		c.Pal = append(c.Pal, cp)
	}
	for _, s := range k.Sets {
		cs := make([]uint64, len(s.Labels))
		for i, a := range s.Labels {
			cs[i] = m[a]
		}
		c.Sets = append(c.Sets, cs)
	}
	if g.NumVoxels() <= 262144 {
		o := rng.Intn(8)
		c.SubvolOffs = append(c.SubvolOffs, [3]int32{int32(o % 2), int32((o / 2) % 2), int32(o / 4)})
	}
	e := &growthExp{}
	for _, p := range k.Probes {
		c.Probes = append(c.Probes, [2]uint64{m[p.T], m[p.N]})
		e.probeSizes = append(e.probeSizes, uint64(p.Size))
	}
	for _, p := range k.Replaced {
		cp := make([]uint64, len(p))
		for i, a := range p {
			cp[i] = m[a]
		}
		e.replaced = append(e.replaced, cp)
	}
	if len(k.Holes) > 0 && len(k.Holes) < nsb {
		for _, h := range k.Holes {
			c.Holes = append(c.Holes, h-1)
		}
		e.holes = true
	}
	c09Growth[id] = e
	for q := 0; q+1 < len(k.Widths); q++ {
		c09G.pairs[[2]int{k.Widths[q], k.Widths[q+1]}] = true
	}
	if n := len(k.Counts); n > c09G.maxTable {
		c09G.maxTable = n
	}
	return c, m
}

// c09CodecGrowth adds the growth observations to a case of the original class table: ReplaceLabel
// probes judged by TLC's voxel counts of the class, and points outside the block.
func c09CodecGrowth(k *codecClass, cs *lg.Case, m []uint64, rng *rand.Rand) {
	e := &growthExp{}
	cs.OutPoints = true
	n := len(k.Counts)
	if n > 0 {
		fresh := m[len(m)-2] // an abstract label beyond the class: not in the block
		for _, i := range []int{0, n / 2, n - 1} {
			p := k.Counts[i]
			cs.Probes = append(cs.Probes, [2]uint64{m[p[0]], fresh})
			e.probeSizes = append(e.probeSizes, uint64(p[1]))
		}
		cs.Probes = append(cs.Probes, [2]uint64{fresh, m[k.Counts[0][0]]})
		e.probeSizes = append(e.probeSizes, 0)
	}
	c09Growth[cs.ID] = e
}

// ---- bounds ----

const (
	c09NX = 17
	c09NY = 8
)

// c09AssignBounds gives every case per bounds-class combinations and lets TLC compute the boxes.
func c09AssignBounds(c *Ctx, cases []*lg.Case, per int) (states, trans int64) {
	type req struct {
		ci             int
		nb, xc, yc, zc int
		exact          bool
	}
	var reqs []req
	for ci, cs := range cases {
		if cs.Geom.NumVoxels() > 262144 && ci%2 == 0 {
			continue // the biggest shapes: every second case only
		}
		for j := 0; j < per; j++ {
			r := req{ci: ci, xc: (ci*7+j*5)%c09NX + 1, yc: (ci*3+j)%c09NY + 1, zc: (ci*5+j*3)%c09NY + 1, exact: (ci+j)%4 != 0, nb: 1 + (ci+j)%2}
			switch r.xc {
			case 7, 8, 9, 12, 14:
				r.nb = 2
			}
			if r.xc == 1 && r.yc == 1 && r.zc == 1 {
				r.yc = 2 // the empty bounds are the subject of the unbounded views
			}
			reqs = append(reqs, r)
		}
	}
	var sb strings.Builder
	sb.WriteString("---- MODULE LabelBlockBoundsCases ----\nEXTENDS Integers\nCases == <<\n")
	for i, r := range reqs {
		if i > 0 {
			sb.WriteString(",\n")
		}
		cs := cases[r.ci]
		ex := "FALSE"
		if r.exact {
			ex = "TRUE"
		}
		fmt.Fprintf(&sb, "[size |-> <<%d, %d, %d>>, bc |-> <<%d, %d, %d>>, nb |-> %d, xc |-> %d, yc |-> %d, zc |-> %d, exact |-> %s]",
			cs.Geom.Size[0], cs.Geom.Size[1], cs.Geom.Size[2], cs.BCoord[0], cs.BCoord[1], cs.BCoord[2], r.nb, r.xc, r.yc, r.zc, ex)
	}
	sb.WriteString("\n>>\n====\n")
	cfg := "SPECIFICATION Spec\nINVARIANTS AllClaims Emit\nCHECK_DEADLOCK FALSE\n"
	res := c.MustModelCheck(tlc.Opts{Module: "LabelBlockBounds", Config: "gen_lbb.cfg", Timeout: 15 * time.Minute, Xss: "64m",
		Files: map[string][]byte{"LabelBlockBoundsCases.tla": []byte(sb.String()), "gen_lbb.cfg": []byte(cfg)}})
	type outT struct {
		I    int    `json:"i"`
		Box  [6]int `json:"box"`
		Pass []bool `json:"pass"`
		Cut  []struct {
			Min [3]int32 `json:"min"`
			Max [3]int32 `json:"max"`
		} `json:"cut"`
	}
	outs := make([]*outT, len(reqs))
	got := 0
	PrintedJSON(res.Output, func(raw []byte) {
		var o outT
		if json.Unmarshal(raw, &o) == nil && o.I >= 1 && o.I <= len(reqs) && len(o.Pass) == reqs[o.I-1].nb && len(o.Cut) == len(o.Pass) {
			outs[o.I-1] = &o
			got++
		}
	})
	if got != len(reqs) {
		infra("LabelBlockBounds evaluated %d of %d cases:\n%s", got, len(reqs), res.Tail(1500))
	}
	for i, r := range reqs {
		o := outs[i]
		bc := lg.BoundsCase{Exact: r.exact, NB: r.nb, Pass: o.Pass}
		for j, v := range o.Box {
			if v != geoNone {
				w := int32(v)
				bc.Box[j] = &w
			}
		}
		for _, ct := range o.Cut {
			bc.CutMin = append(bc.CutMin, ct.Min)
			bc.CutMax = append(bc.CutMax, ct.Max)
		}
		cs := cases[r.ci]
		cs.Bounds = append(cs.Bounds, bc)
		e := c09Growth[cs.ID]
		if e == nil {
			e = &growthExp{}
			c09Growth[cs.ID] = e
		}
		e.boundsKeys = append(e.boundsKeys, fmt.Sprintf("x%d/y%d/z%d/exact%v/nb%d", r.xc, r.yc, r.zc, r.exact, r.nb))
		c09G.xClasses[fmt.Sprintf("%d/%v/%d", r.xc, r.exact, r.nb)] = true
		c09G.yClasses[fmt.Sprint(r.yc)] = true
		c09G.zClasses[fmt.Sprint(r.zc)] = true
	}
	return res.Distinct, res.Generated
}

func boundInfra(r *lg.BoundRes) {
	if len(r.Err) >= 8 && r.Err[:8] == "TIMEOUT:" {
		infra("bounded sparse output: %s", r.Err)
	}
}

func c09CompareGrowthViews(viol func(kind string, exp, obs interface{}), run *ev.Run, prefix string, k *codecClass, c *lg.Case, e *growthExp, v *lg.Views, zeroCount bool) {
	if v == nil {
		return
	}
	if len(c.Bounds) > 0 && len(v.Bounded) != len(c.Sets) {
		infra("case %d: %d bounded rows for %d label sets", c.ID, len(v.Bounded), len(c.Sets))
	}
	for si, row := range v.Bounded {
		for bi := range row {
			bo := &row[bi]
			boundInfra(&bo.RLE)
			boundInfra(&bo.Bin)
			c09G.bounded += 2
			c09G.boundedVoxels += bo.RLE.Voxels
			run.Eval(k.key() + "|bounds " + e.boundsKeys[bi])
			if !bo.RLE.OK {
				viol(prefix+"WriteRLEs-bounded", map[string]interface{}{"labels": c.Sets[si], "bounds": c.Bounds[bi], "class": e.boundsKeys[bi]}, bo.RLE.Err+" "+bo.RLE.Detail)
			}
			if !bo.Bin.OK {
				viol(prefix+"WriteBinaryBlocks-bounded", map[string]interface{}{"labels": c.Sets[si], "bounds": c.Bounds[bi], "class": e.boundsKeys[bi]}, bo.Bin.Err+" "+bo.Bin.Detail)
			}
		}
	}
	if len(v.Probes) != len(e.probeSizes) {
		infra("case %d: %d probe observations for %d probes", c.ID, len(v.Probes), len(e.probeSizes))
	}
	for i, po := range v.Probes {
		c09G.probes++
		if po.Panic != "" || po.Err != "" {
			viol(prefix+"ReplaceLabel", map[string]interface{}{"target": c.Probes[i][0], "new": c.Probes[i][1]}, po.Panic+po.Err)
			continue
		}
		if zeroCount && c.Probes[i][0] == 0 {
			// the voxels of a zero-count sub-block are label 0 without a label-table entry: a table-level
			// replacement of label 0 cannot reach them, and the property does not speak of it
			continue
		}
		if po.Replaced != e.probeSizes[i] {
			viol(prefix+"ReplaceLabel-count(getNumVoxels)", map[string]interface{}{"target": c.Probes[i][0], "new": c.Probes[i][1], "voxels": e.probeSizes[i]}, po.Replaced)
		}
		if i == 0 && e.replaced != nil && po.Decoded != nil {
			if !po.Decoded.Uniform {
				viol(prefix+"ReplaceLabel-result", nil, po.Decoded.Bad)
			} else {
				for r := range e.replaced {
					if !u64Equal(po.Decoded.Atoms[r], e.replaced[r]) {
						viol(prefix+"ReplaceLabel-result", map[string]interface{}{"target": c.Probes[i][0], "new": c.Probes[i][1], "region": r + 1, "palette": e.replaced[r]}, po.Decoded.Atoms[r])
						break
					}
				}
			}
		}
	}
	if v.OutRun {
		c09G.outChecks++
		if !v.OutOK {
			viol(prefix+"points-outside-the-block", "label 0 for every point outside the block (Value, GetPointLabels); points inside unaffected", v.Detail)
		}
	}
}

func c09CompareGrowth(viol func(kind string, exp, obs interface{}), run *ev.Run, k *codecClass, c *lg.Case, m []uint64, o *lg.CaseObs) {
	e := c09Growth[c.ID]
	if e == nil {
		return
	}
	c09CompareGrowthViews(viol, run, "", k, c, e, o.Views, false)
	if !e.holes {
		return
	}
	h := o.Hole
	if h == nil {
		infra("case %d: no zero-count observation", c.ID)
	}
	if h.Err != "" {
		infra("case %d: zero-count serialization: %s", c.ID, h.Err)
	}
	c09G.holeBlocks++
	run.Eval(k.key() + "|zero-count")
	if h.Refused != "" {
		c09G.holeRefused++ // the parser refuses the block: every view refuses
		return
	}
	// the same labelling, so every view must show what it shows for the fresh block; a view
	// that departs (wrong labels, an error, a panic) disagrees with the others
	n0 := run.Violations()
	known := run.KnownActive(c09ZeroCount)
	hv := viol
	if known {
		bad := false
		hv = func(kind string, exp, obs interface{}) { bad = true }
		defer func() {
			if bad {
				run.ReportKnown(c09ZeroCount)
			}
		}()
	}
	_ = n0
	if h.Panic != "" {
		hv("zero-count:panic", map[string]interface{}{"zero_count_subblocks": c.Holes}, h.Panic)
		return
	}
	if !h.DecodeOK {
		hv("zero-count:MakeLabelVolume", map[string]interface{}{"zero_count_subblocks": c.Holes}, h.Detail)
	}
	pre := func(kind string, exp, obs interface{}) {
		hv("zero-count:"+kind, map[string]interface{}{"zero_count_subblocks": c.Holes, "expected": exp}, obs)
	}
	c09CompareViews(pre, run, k, c, m, h.Views)
	c09CompareGrowthViews(pre, run, "", k, c, e, h.Views, true)
}

func c09GrowthInit() {
	c09G.xClasses, c09G.yClasses, c09G.zClasses = map[string]bool{}, map[string]bool{}, map[string]bool{}
	c09G.pairs = map[[2]int]bool{}
}

func c09GrowthEvidence(run *ev.Run, nDense, nDenseCases int, tDense float64) {
	run.Set("dense_classes_enumerated_by_TLC", nDense)
	run.Set("dense_arrays", nDenseCases)
	run.Set("dense_adjacent_width_pairs_covered", len(c09G.pairs))
	run.Set("dense_largest_label_table", c09G.maxTable)
	run.Set("bounded_sparse_outputs_compared", c09G.bounded)
	run.Set("bounded_output_voxels", c09G.boundedVoxels)
	run.Set("bounds_x_classes_covered(class/exact/blocks)", len(c09G.xClasses))
	run.Set("bounds_y_classes_covered", len(c09G.yClasses))
	run.Set("bounds_z_classes_covered", len(c09G.zClasses))
	run.Set("replacelabel_probes", c09G.probes)
	run.Set("zero_count_blocks", c09G.holeBlocks)
	run.Set("zero_count_blocks_refused_by_parser", c09G.holeRefused)
	run.Set("outside_point_checks", c09G.outChecks)
	run.Set("dense_tlc_s", tDense)
}
