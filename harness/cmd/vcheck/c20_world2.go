package main

// The second and third world of the hostile driver (C20): same version structure as the first
// (root and v1 committed, the open sibling "b", the open target "a"), other datatypes.
//
//   vox: a multi-scale labelmap "lms" (MaxDownresLevel 2), uint16blk "g16", rgba8blk "rgba", keyvalue "kv"
//   leg: labelblk "lb" <-> labelvol "lv", labelarray "la", annotation "ann" -> labelsz "lsz" (and "ann" -> "lb"),
//        labelmap "lmt" <- tarsupervoxels "tsv", uint8blk "gray" <- imagetile "tiles", keyvalue "kv"

import (
	"archive/tar"
	"bytes"
	"encoding/json"
	"fmt"
	"image"
	"image/color"
	"image/png"
	"sort"
	"sync/atomic"
	"time"

	"verifharness/internal/node"
	"verifharness/internal/snap"
)

// c20NormInfo renders an instance's info with the list of synced instances sorted (it is built from a set).
func c20NormInfo(b []byte) []byte {
	var v map[string]interface{}
	if json.Unmarshal(b, &v) != nil {
		return snap.NormJSON(b)
	}
	if base, ok := v["Base"].(map[string]interface{}); ok {
		if syncs, ok := base["Syncs"].([]interface{}); ok {
			ss := make([]string, len(syncs))
			for i, x := range syncs {
				ss[i] = fmt.Sprint(x)
			}
			sort.Strings(ss)
			base["Syncs"] = ss
		}
	}
	out, _ := json.Marshal(v)
	return snap.NormJSON(out)
}

func c20Bytes(n int, seed int) []byte {
	out := make([]byte, n)
	for i := range out {
		out[i] = byte(1 + (i*13+seed)%250)
	}
	return out
}

// c20Versions commits the root, builds v1 (with the caller's changes), the sibling b and the first target.
func (w *c20World) c20Versions(atV1, atB func(base string)) {
	w.buildIdle()
	base := "/api/node/" + w.root
	w.mustPost(base+"/commit", []byte(`{"note":"root"}`), "commit root")
	r := w.mustPost(base+"/newversion", []byte(`{"note":"v1"}`), "newversion")
	var ch struct{ Child string }
	json.Unmarshal(r.Bytes(), &ch)
	w.v1 = ch.Child
	b1 := "/api/node/" + w.v1
	w.mustPost(b1+"/kv/key/t1", []byte(`"value of t1 at v1"`), "kv t1@v1")
	if atV1 != nil {
		atV1(b1)
	}
	w.buildIdle()
	w.mustPost(b1+"/commit", []byte(`{"note":"v1"}`), "commit v1")
	w.b = w.branch("ctl")
	bb := "/api/node/" + w.b
	w.mustPost(bb+"/kv/key/c3", []byte(`"value of c3 at b"`), "kv c3@b")
	if atB != nil {
		atB(bb)
	}
	w.buildIdle()
	w.retarget()
}

func (w *c20World) c20StartRepo(c *Ctx, cfg node.Config, kind string) {
	cfg.AllowSplit = true
	w.n = c.StartNode(cfg)
	w.timeout = 30 * time.Second
	w.kind = kind
	r := w.mustPost("/api/repos", []byte(`{"alias":"hostile-`+kind+`","description":"C20"}`), "new repo")
	var out struct{ Root string }
	json.Unmarshal(r.Bytes(), &out)
	w.root = out.Root
	w.newInstance("keyvalue", "kv", nil)
	for _, k := range []string{"c1", "c2", "t1"} {
		w.mustPost("/api/node/"+w.root+"/kv/key/"+k, []byte(`"value of `+k+` at root"`), "kv "+k)
	}
}

// ---- vox ------------------------------------------------------------------------------------

func newC20VoxWorld(c *Ctx, cfg node.Config) *c20World {
	t0 := time.Now()
	defer func() { atomic.AddInt64(&c20WorldNanos, int64(time.Since(t0))); atomic.AddInt64(&c20WorldCount, 1) }()
	w := &c20World{}
	w.c20StartRepo(c, cfg, "vox")
	bs := fmt.Sprintf("%d,%d,%d", c20BS, c20BS, c20BS)
	w.newInstance("labelmap", "lms", map[string]string{"BlockSize": bs, "MaxDownresLevel": "2"})
	w.newInstance("uint16blk", "g16", map[string]string{"BlockSize": bs})
	w.newInstance("rgba8blk", "rgba", map[string]string{"BlockSize": bs})
	base := "/api/node/" + w.root
	ctl := c20OffStr(c20CtlOff)
	w.mustPost(base+"/lms/raw/0_1_2/64_64_64/0_0_0", c20Volume(64, 64, 64, c20LabelAt), "lms volume")
	w.buildIdle()
	w.mustPost(base+"/lms/raw/0_1_2/32_32_32/"+ctl, c20Volume(32, 32, 32, func(x, y, z int) uint64 {
		if x < 16 {
			return c20CtlL1
		}
		return c20CtlL2
	}), "lms control volume")
	w.mustPost(base+"/g16/raw/0_1_2/64_64_64/0_0_0", c20Bytes(64*64*64*2, 1), "g16 volume")
	w.mustPost(base+"/g16/raw/0_1_2/32_32_32/"+ctl, c20Bytes(32*32*32*2, 2), "g16 control volume")
	w.mustPost(base+"/rgba/raw/0_1_2/64_64_64/0_0_0", c20Bytes(64*64*64*4, 3), "rgba volume")
	w.mustPost(base+"/rgba/raw/0_1_2/32_32_32/"+ctl, c20Bytes(32*32*32*4, 4), "rgba control volume")
	w.c20Versions(func(b1 string) {
		w.mustPost(b1+"/lms/merge", []byte(`[5,6]`), "lms merge 5<-6")
	}, func(bb string) {
		w.mustPost(bb+"/lms/merge", []byte(`[3,4]`), "lms merge 3<-4 at b")
	})
	return w
}

func (w *c20World) buildReadsVox() {
	var rs []snap.Read
	add := func(key, url string, norm func([]byte) []byte) {
		rs = append(rs, snap.Read{Key: key, Method: "GET", URL: url, Norm: norm})
	}
	add("meta/repo-dag", "/api/repo/"+w.root+"/info", c20RepoDAG)
	add("meta/instances", "/api/repo/"+w.root+"/info", c20InstanceNames)
	add("meta/repo-log", "/api/repo/"+w.root+"/log", snap.NormJSON)
	for _, i := range []string{"lms", "g16", "rgba", "kv"} {
		add("inst/"+i+"/info", "/api/node/"+w.root+"/"+i+"/info", snap.NormJSON)
	}
	add("inst/lms/nextlabel", "/api/node/"+w.root+"/lms/nextlabel", snap.NormJSON)
	ctl := c20OffStr(c20CtlOff)
	bsz := fmt.Sprintf("%d_%d_%d", c20BS, c20BS, c20BS)
	for _, u := range []string{w.root, w.v1, w.b, w.a} {
		base := "/api/node/" + u
		part := "C"
		if u == w.a {
			part = "T"
		}
		T := func(i string) string { return "data/" + i + "@" + u + "/" + part + "/" }
		C := func(i string) string { return "data/" + i + "@" + u + "/C/" }
		full := u == w.a
		add(T("lms")+"maxlabel", base+"/lms/maxlabel", snap.NormJSON)
		add(T("lms")+"raw", base+"/lms/raw/0_1_2/128_64_64/0_0_0", nil)
		add(T("lms")+"raw-s1", base+"/lms/raw/0_1_2/64_32_32/0_0_0?scale=1", nil)
		if full {
			add(T("lms")+"raw-s2", base+"/lms/raw/0_1_2/32_32_32/0_0_0?scale=2", nil)
			add(T("lms")+"raw-sv", base+"/lms/raw/0_1_2/128_64_64/0_0_0?supervoxels=true", nil)
			add(T("lms")+"mappings", base+"/lms/mappings", c20SortLines)
			for _, l := range []uint64{1, 3, 5} {
				add(fmt.Sprintf("%ssparsevol/%d", T("lms"), l), fmt.Sprintf("%s/lms/sparsevol/%d?format=rles", base, l), c20SortRLEs)
				add(fmt.Sprintf("%ssparsevol-s1/%d", T("lms"), l), fmt.Sprintf("%s/lms/sparsevol/%d?format=rles&scale=1", base, l), c20SortRLEs)
				add(fmt.Sprintf("%sindex/%d", T("lms"), l), fmt.Sprintf("%s/lms/index/%d", base, l), c20NormIndex)
			}
		}
		add(C("lms")+"raw", base+"/lms/raw/0_1_2/"+bsz+"/"+ctl, nil)
		add(fmt.Sprintf("%ssparsevol/ctl", C("lms")), fmt.Sprintf("%s/lms/sparsevol/%d?format=rles", base, c20CtlL1), c20SortRLEs)
		if full {
			add(fmt.Sprintf("%sindex/ctl", C("lms")), fmt.Sprintf("%s/lms/index/%d", base, c20CtlL2), c20NormIndex)
			// (the control block at scale 1: block (18,14,25), voxel offset of that block)
			add(C("lms")+"raw-s1", fmt.Sprintf("%s/lms/raw/0_1_2/%s/%d_%d_%d?scale=1", base, bsz, c20CtlBX/2*c20BS, c20CtlBY/2*c20BS, c20CtlBZ/2*c20BS), nil)
		}
		for _, g := range []string{"g16", "rgba"} {
			add(T(g)+"raw", base+"/"+g+"/raw/0_1_2/128_64_64/0_0_0", nil)
			add(C(g)+"raw", base+"/"+g+"/raw/0_1_2/"+bsz+"/"+ctl, nil)
		}
		add(T("kv")+"keys", base+"/kv/keys", snap.NormJSON)
		for _, k := range []string{"c1", "c2", "c3"} {
			add(C("kv")+"key/"+k, base+"/kv/key/"+k, nil)
		}
	}
	w.reads = rs
}

// ---- leg ------------------------------------------------------------------------------------

// c20Tar builds a tar archive from (name, content) pairs.
func c20Tar(files [][2]string) []byte {
	var buf bytes.Buffer
	tw := tar.NewWriter(&buf)
	for _, f := range files {
		tw.WriteHeader(&tar.Header{Name: f[0], Mode: 0644, Size: int64(len(f[1]))})
		tw.Write([]byte(f[1]))
	}
	tw.Close()
	return buf.Bytes()
}

// c20PNG builds a gray PNG tile.
func c20PNG(sx, sy, seed int) []byte {
	img := image.NewGray(image.Rect(0, 0, sx, sy))
	for y := 0; y < sy; y++ {
		for x := 0; x < sx; x++ {
			img.SetGray(x, y, color.Gray{Y: uint8(1 + (x*3+y*7+seed)%250)})
		}
	}
	var buf bytes.Buffer
	png.Encode(&buf, img)
	return buf.Bytes()
}

const c20TileSpec = `{"MinTileCoord":[0,0,0],"MaxTileCoord":[3,3,3],"Levels":{"0":{"Resolution":[10.0,10.0,10.0],"TileSize":[32,32,32]},"1":{"Resolution":[20.0,20.0,20.0],"TileSize":[32,32,32]}}}`

func newC20LegWorld(c *Ctx, cfg node.Config) *c20World {
	t0 := time.Now()
	defer func() { atomic.AddInt64(&c20WorldNanos, int64(time.Since(t0))); atomic.AddInt64(&c20WorldCount, 1) }()
	w := &c20World{}
	w.c20StartRepo(c, cfg, "leg")
	bs := fmt.Sprintf("%d,%d,%d", c20BS, c20BS, c20BS)
	w.newInstance("labelblk", "lb", map[string]string{"BlockSize": bs})
	w.newInstance("labelvol", "lv", map[string]string{"BlockSize": bs})
	w.newInstance("labelarray", "la", map[string]string{"BlockSize": bs})
	w.newInstance("annotation", "ann", nil)
	w.newInstance("labelsz", "lsz", nil)
	w.newInstance("labelmap", "lmt", map[string]string{"BlockSize": bs})
	w.newInstance("tarsupervoxels", "tsv", map[string]string{"Extension": "dat"})
	w.newInstance("uint8blk", "gray", map[string]string{"BlockSize": bs})
	w.newInstance("imagetile", "tiles", map[string]string{"Source": "gray", "Format": "png"})
	base := "/api/node/" + w.root
	w.mustPost(base+"/lb/sync", []byte(`{"sync":"lv"}`), "sync lb")
	w.mustPost(base+"/lv/sync", []byte(`{"sync":"lb"}`), "sync lv")
	w.mustPost(base+"/ann/sync", []byte(`{"sync":"lb,lv"}`), "sync ann")
	w.mustPost(base+"/lsz/sync", []byte(`{"sync":"ann"}`), "sync lsz")
	w.mustPost(base+"/tsv/sync", []byte(`{"sync":"lmt"}`), "sync tsv")
	ctl := c20OffStr(c20CtlOff)
	ctlVol := c20Volume(32, 32, 32, func(x, y, z int) uint64 {
		if x < 16 {
			return c20CtlL1
		}
		return c20CtlL2
	})
	for _, i := range []string{"lb", "la", "lmt"} {
		w.mustPost(base+"/"+i+"/raw/0_1_2/64_64_64/0_0_0", c20Volume(64, 64, 64, c20LabelAt), i+" volume")
		w.buildIdle()
		w.mustPost(base+"/"+i+"/raw/0_1_2/32_32_32/"+ctl, ctlVol, i+" control volume")
		w.buildIdle()
	}
	w.mustPost(base+"/gray/raw/0_1_2/64_64_64/0_0_0", c20Gray(64, 64, 64, 1), "gray volume")
	cx, cy, cz := c20CtlOff[0], c20CtlOff[1], c20CtlOff[2]
	els := []map[string]interface{}{
		c20Elem(10, 10, 10, "PostSyn", []string{"t1"}, "PostSynTo", [3]int{20, 10, 10}),
		c20Elem(20, 10, 10, "PreSyn", []string{"t1", "t2"}, "PreSynTo", [3]int{10, 10, 10}),
		c20Elem(40, 40, 10, "Note", []string{"t2"}, "", [3]int{}),
		c20Elem(cx+6, cy+2, cz+8, "PostSyn", []string{"ctl"}, "PostSynTo", [3]int{cx + 20, cy + 2, cz + 8}),
		c20Elem(cx+20, cy+2, cz+8, "PreSyn", []string{"ctl"}, "PreSynTo", [3]int{cx + 6, cy + 2, cz + 8}),
	}
	eb, _ := json.Marshal(els)
	w.mustPost(base+"/ann/elements", eb, "ann elements")
	// blobs per supervoxel
	w.mustPost(base+"/tsv/load", c20Tar([][2]string{{"1.dat", "blob of supervoxel 1"}, {"2.dat", "blob of supervoxel 2"}, {"5.dat", "blob of supervoxel 5"},
		{fmt.Sprintf("%d.dat", c20CtlL1), "blob of the control supervoxel"}}), "tsv load")
	// tiles
	w.mustPost(base+"/tiles/metadata", []byte(c20TileSpec), "tiles metadata")
	w.mustPost(base+"/tiles/tile/xy/0/0_0_0", c20PNG(32, 32, 1), "tile 0_0_0")
	w.mustPost(base+"/tiles/tile/xy/0/3_3_3", c20PNG(32, 32, 2), "control tile")
	w.c20Versions(func(b1 string) {
		w.mustPost(b1+"/lv/merge", []byte(`[5,6]`), "lv merge 5<-6")
		w.mustPost(b1+"/la/merge", []byte(`[5,6]`), "la merge 5<-6")
		w.mustPost(b1+"/lmt/merge", []byte(`[5,6]`), "lmt merge 5<-6")
	}, nil)
	return w
}

func (w *c20World) buildReadsLeg() {
	var rs []snap.Read
	add := func(key, url string, norm func([]byte) []byte) {
		rs = append(rs, snap.Read{Key: key, Method: "GET", URL: url, Norm: norm})
	}
	add("meta/repo-dag", "/api/repo/"+w.root+"/info", c20RepoDAG)
	add("meta/instances", "/api/repo/"+w.root+"/info", c20InstanceNames)
	add("meta/repo-log", "/api/repo/"+w.root+"/log", snap.NormJSON)
	for _, i := range []string{"lb", "lv", "la", "ann", "lsz", "lmt", "tsv", "gray", "tiles", "kv"} {
		add("inst/"+i+"/info", "/api/node/"+w.root+"/"+i+"/info", c20NormInfo)
	}
	add("inst/tiles/metadata", "/api/node/"+w.root+"/tiles/metadata", snap.NormJSON)
	ctl := c20OffStr(c20CtlOff)
	bsz := fmt.Sprintf("%d_%d_%d", c20BS, c20BS, c20BS)
	for _, u := range []string{w.root, w.v1, w.b, w.a} {
		base := "/api/node/" + u
		part := "C"
		if u == w.a {
			part = "T"
		}
		T := func(i string) string { return "data/" + i + "@" + u + "/" + part + "/" }
		C := func(i string) string { return "data/" + i + "@" + u + "/C/" }
		full := u == w.a
		for _, i := range []string{"lb", "la", "lmt"} {
			add(T(i)+"raw", base+"/"+i+"/raw/0_1_2/128_64_64/0_0_0", nil)
			add(C(i)+"raw", base+"/"+i+"/raw/0_1_2/"+bsz+"/"+ctl, nil)
		}
		for _, i := range []string{"lv", "la"} {
			ls := []uint64{1, 5}
			if full {
				ls = []uint64{1, 2, 3, 5, 6}
			}
			for _, l := range ls {
				add(fmt.Sprintf("%ssparsevol/%d", T(i), l), fmt.Sprintf("%s/%s/sparsevol/%d", base, i, l), c20SortRLEs)
			}
			add(C(i)+"sparsevol/ctl", fmt.Sprintf("%s/%s/sparsevol/%d", base, i, c20CtlL1), c20SortRLEs)
			add(T(i)+"maxlabel", base+"/"+i+"/maxlabel", snap.NormJSON)
		}
		add(T("ann")+"all-elements", base+"/ann/all-elements", snap.NormJSON)
		add(T("ann")+"label/1", base+"/ann/label/1", snap.NormJSONSortedArray)
		add(C("ann")+"tag/ctl", base+"/ann/tag/ctl", snap.NormJSONSortedArray)
		add(C("ann")+"label/ctl1", fmt.Sprintf("%s/ann/label/%d", base, c20CtlL1), snap.NormJSONSortedArray)
		for _, l := range []uint64{1, 2, 3} {
			add(fmt.Sprintf("%scount/%d", T("lsz"), l), fmt.Sprintf("%s/lsz/count/%d/AllSyn", base, l), snap.NormJSON)
		}
		add(T("lsz")+"top", base+"/lsz/top/3/PostSyn", snap.NormJSON)
		add(C("lsz")+"count/ctl", fmt.Sprintf("%s/lsz/count/%d/PostSyn", base, c20CtlL1), snap.NormJSON)
		for _, l := range []uint64{1, 2, 5} {
			add(fmt.Sprintf("%ssupervoxel/%d", T("tsv"), l), fmt.Sprintf("%s/tsv/supervoxel/%d", base, l), nil)
		}
		add(T("tsv")+"tarfile/1", base+"/tsv/tarfile/1", nil)
		add(C("tsv")+"supervoxel/ctl", fmt.Sprintf("%s/tsv/supervoxel/%d", base, c20CtlL1), nil)
		add(T("tiles")+"tile/0", base+"/tiles/tile/xy/0/0_0_0", nil)
		if full {
			// (a tile that is not stored is rendered from the instance's metadata)
			add(T("tiles")+"tile/1", base+"/tiles/tile/xy/0/1_0_0", nil)
		}
		add(C("tiles")+"tile/ctl", base+"/tiles/tile/xy/0/3_3_3", nil)
		add(T("gray")+"raw", base+"/gray/raw/0_1_2/128_64_64/0_0_0", nil)
		add(T("kv")+"keys", base+"/kv/keys", snap.NormJSON)
		for _, k := range []string{"c1", "c2", "c3"} {
			add(C("kv")+"key/"+k, base+"/kv/key/"+k, nil)
		}
	}
	w.reads = rs
}
