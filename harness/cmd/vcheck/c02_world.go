package main

import (
	"sync/atomic"
	"archive/tar"
	"bytes"
	"crypto/sha1"
	"encoding/binary"
	"encoding/hex"
	"encoding/json"
	"fmt"
	"sort"
	"strings"
	"time"

	pb "google.golang.org/protobuf/proto"

	"github.com/janelia-flyem/dvid/datatype/common/proto"

	"verifharness/internal/lmm"
	"verifharness/internal/node"
	"verifharness/internal/snap"
)

// Population of a repository with one (or more) instance of every datatype that can be
// instantiated offline, the versioned-content reads of each, writes for the later
// history, and request payloads for the route sweep (C02).  Nothing here is an oracle:
// verdicts are snapshot comparisons of the real server with itself.

const (
	c2X, c2Y, c2Z = 64, 32, 32 // populated volume (two 32^3 blocks along x)
	c2Vol         = "64_32_32"
	c2Off         = "0_0_0"
)

type c2Inst struct {
	Name      string            `json:"name"`
	Type      string            `json:"type"`
	Cfg       map[string]string `json:"-"`
	Sync      string            `json:"sync,omitempty"` // POST <name>/sync after creation
	Versioned bool              `json:"versioned"`
	Partners  []string          `json:"partners,omitempty"` // instances whose content follows this one's (syncs)
	Bpv       int               `json:"-"`                  // bytes per voxel for image types
	GoPkg     string            `json:"gopkg,omitempty"`
	GoType    string            `json:"-"`
	Keywords  []string          `json:"-"`
}

// c2SplitSVDone counts the accepted split-supervoxel writes of the histories (evidence).
var c2SplitSVDone int64

type c2World struct {
	n        *node.Node
	root     string
	insts    []*c2Inst
	byName   map[string]*c2Inst
	variant  int
	skipped  map[string]string // datatype -> why no instance could be made
	unstable map[string]bool   // read keys (uuid-free) found unstable by the self-check
	nreq     int
	lenient  func(method, url string, body []byte) node.Resp // replay mode: record statuses instead of aborting
}

func c2Catalogue(variant int) []*c2Inst {
	bs := "32,32,32"
	list := []*c2Inst{
		{Name: "kv", Type: "keyvalue"},
		{Name: "kvu", Type: "keyvalue", Cfg: map[string]string{"versioned": "false"}},
		{Name: "roi", Type: "roi", Cfg: map[string]string{"BlockSize": bs}},
		{Name: "nj", Type: "neuronjson"},
		{Name: "gray", Type: "uint8blk", Cfg: map[string]string{"BlockSize": bs}, Bpv: 1, Partners: []string{"tiles"}},
		{Name: "g16", Type: "uint16blk", Cfg: map[string]string{"BlockSize": bs}, Bpv: 2},
		{Name: "g32", Type: "uint32blk", Cfg: map[string]string{"BlockSize": bs}, Bpv: 4},
		{Name: "g64", Type: "uint64blk", Cfg: map[string]string{"BlockSize": bs}, Bpv: 8},
		{Name: "f32", Type: "float32blk", Cfg: map[string]string{"BlockSize": bs}, Bpv: 4},
		{Name: "rgba", Type: "rgba8blk", Cfg: map[string]string{"BlockSize": bs}, Bpv: 4},
		{Name: "lm", Type: "labelmap", Cfg: map[string]string{"BlockSize": bs, "MaxDownresLevel": "1"}, Partners: []string{"ann", "lsz", "tsv"}},
		{Name: "ann", Type: "annotation", Sync: "lm", Partners: []string{"lsz"}},
		{Name: "lsz", Type: "labelsz", Sync: "ann"},
		{Name: "la", Type: "labelarray", Cfg: map[string]string{"BlockSize": bs}},
		{Name: "lb", Type: "labelblk", Cfg: map[string]string{"BlockSize": bs}, Sync: "lv", Partners: []string{"lv"}},
		{Name: "lv", Type: "labelvol", Cfg: map[string]string{"BlockSize": bs}, Sync: "lb", Partners: []string{"lb"}},
		{Name: "tsv", Type: "tarsupervoxels", Cfg: map[string]string{"Extension": "dat"}, Sync: "lm"},
		{Name: "tiles", Type: "imagetile", Cfg: map[string]string{"Source": "gray", "Format": "png"}},
		{Name: "mc", Type: "multichan16"},
		{Name: "gv", Type: "googlevoxels"},
	}
	if variant%3 == 1 {
		// a second labelmap without annotation syncs and an unsynced annotation
		list = append(list, &c2Inst{Name: "lm2", Type: "labelmap", Cfg: map[string]string{"BlockSize": bs, "MaxDownresLevel": "0"}},
			&c2Inst{Name: "ann2", Type: "annotation"})
	}
	if variant%3 == 2 {
		list = append(list, &c2Inst{Name: "kv2", Type: "keyvalue"}, &c2Inst{Name: "roi2", Type: "roi", Cfg: map[string]string{"BlockSize": "16,16,16"}})
	}
	return list
}

func (w *c2World) http(method, url string, body []byte) node.Resp {
	if w.lenient != nil {
		return w.lenient(method, url, body)
	}
	r, err := w.n.HTTP(method, url, body)
	must(err, method+" "+url)
	w.nreq++
	return r
}

// okPost aborts (infrastructure) when a request that must work on an open node does not.
func (w *c2World) okPost(method, url string, body []byte) node.Resp {
	r := w.http(method, url, body)
	if r.Status != 200 && w.lenient == nil {
		infra("population request %s %s -> %d %s", method, url, r.Status, trunc(string(r.Bytes()), 300))
	}
	return r
}

// c2NewWorld creates the repo and its instances on a node running in default mode.
// c2Select restricts the catalogue to the named instances plus what they depend on
// (sync sources, tile sources) and what follows them (sync partners).  nil = everything.
func c2Select(variant int, only map[string]bool) []*c2Inst {
	all := c2Catalogue(variant)
	if only == nil {
		return all
	}
	want := map[string]bool{}
	for k := range only {
		want[k] = true
	}
	for changed := true; changed; {
		changed = false
		for _, in := range all {
			if !want[in.Name] {
				continue
			}
			deps := append([]string{in.Sync, in.Cfg["Source"]}, in.Partners...)
			for _, d := range deps {
				if d != "" && !want[d] {
					want[d] = true
					changed = true
				}
			}
		}
	}
	var out []*c2Inst
	for _, in := range all {
		if want[in.Name] {
			out = append(out, in)
		}
	}
	return out
}

func c2NewWorld(n *node.Node, variant int, only map[string]bool) *c2World {
	w := &c2World{n: n, variant: variant, byName: map[string]*c2Inst{}, skipped: map[string]string{}, unstable: map[string]bool{}}
	r := w.okPost("POST", "/api/repos", []byte(fmt.Sprintf(`{"alias":"c02-%d","description":"c02"}`, variant)))
	var o struct{ Root string }
	json.Unmarshal(r.Bytes(), &o)
	w.root = o.Root
	for _, in := range c2Select(variant, only) {
		cfg := map[string]string{"typename": in.Type, "dataname": in.Name}
		for k, v := range in.Cfg {
			cfg[k] = v
		}
		b, _ := json.Marshal(cfg)
		r := w.http("POST", "/api/repo/"+w.root+"/instance", b)
		if r.Status != 200 {
			w.skipped[in.Type] = trunc(string(r.Bytes()), 160)
			continue
		}
		var gi struct {
			Type      string `json:"type"`
			GoType    string `json:"gotype"`
			Versioned bool   `json:"versioned"`
		}
		must(n.Call("gate.instance", map[string]string{"uuid": w.root, "name": in.Name}, &gi), "gate.instance")
		in.Versioned = gi.Versioned
		if i := strings.LastIndex(gi.GoType, "."); i > 0 {
			in.GoPkg, in.GoType = gi.GoType[:i], gi.GoType[i+1:]
		}
		w.insts = append(w.insts, in)
		w.byName[in.Name] = in
	}
	for _, in := range w.insts {
		if in.Sync != "" && w.byName[in.Sync] != nil {
			w.okPost("POST", "/api/node/"+w.root+"/"+in.Name+"/sync", []byte(fmt.Sprintf(`{"sync":%q}`, in.Sync)))
		}
	}
	return w
}

// ---- generated data ----

// c2Labels is the uint64 label volume of generation g (x fastest).
func c2Labels(g int) []byte {
	buf := make([]byte, c2X*c2Y*c2Z*8)
	i := 0
	for z := 0; z < c2Z; z++ {
		for y := 0; y < c2Y; y++ {
			for x := 0; x < c2X; x++ {
				var l uint64
				switch {
				case x < 32 && y < 16:
					l = 1
				case x < 32:
					l = 2
				case z < 16:
					l = 3
				default:
					l = 2
				}
				if g > 0 && x < 32 && y < 8 && z >= 8*(g%3) && z < 8*(g%3)+8 {
					l = uint64(10 + g)
				}
				binary.LittleEndian.PutUint64(buf[i:], l)
				i += 8
			}
		}
	}
	return buf
}

func c2Image(bpv, g int) []byte {
	buf := make([]byte, c2X*c2Y*c2Z*bpv)
	for i := range buf {
		buf[i] = byte((i*7+g*13)%250) + 1
	}
	if bpv == 4 {
		// keep float32 values finite (exponent byte below 0x7f)
		for i := 3; i < len(buf); i += 4 {
			buf[i] &= 0x3f
		}
	}
	return buf
}

// box of runs along x: [x0,x0+nx) x [y0,y1) x [z0,z1)
func c2BoxRLEs(x0, nx, y0, y1, z0, z1 int) []byte {
	var rl []lmm.RLE
	for z := z0; z < z1; z++ {
		for y := y0; y < y1; y++ {
			rl = append(rl, lmm.RLE{X: x0, Y: y, Z: z, N: nx})
		}
	}
	return lmm.EncodeRLEs(rl)
}

// c2SwapBlocks exchanges the block coordinates 0 <-> 1 along X in a block stream (GET / POST blocks of
// labelmap and labelarray: per block int32 x, y, z, int32 n, n bytes).  nil if the stream does not parse
// or holds no block at X = 0 or 1.
func c2SwapBlocks(b []byte) []byte {
	out := append([]byte(nil), b...)
	swapped := 0
	for i := 0; i < len(out); {
		if i+16 > len(out) {
			return nil
		}
		x := int32(binary.LittleEndian.Uint32(out[i:]))
		n := int(int32(binary.LittleEndian.Uint32(out[i+12:])))
		if n < 0 || i+16+n > len(out) {
			return nil
		}
		if x == 0 || x == 1 {
			binary.LittleEndian.PutUint32(out[i:], uint32(1-x))
			swapped++
		}
		i += 16 + n
	}
	if swapped == 0 {
		return nil
	}
	return out
}

func c2KeyValues(kvs map[string]string) []byte {
	var m proto.KeyValues
	var ks []string
	for k := range kvs {
		ks = append(ks, k)
	}
	sort.Strings(ks)
	for _, k := range ks {
		m.Kvs = append(m.Kvs, &proto.KeyValue{Key: k, Value: []byte(kvs[k])})
	}
	b, _ := pb.Marshal(&m)
	return b
}

func c2Tar(files map[string]string) []byte {
	var buf bytes.Buffer
	tw := tar.NewWriter(&buf)
	var ks []string
	for k := range files {
		ks = append(ks, k)
	}
	sort.Strings(ks)
	for _, k := range ks {
		tw.WriteHeader(&tar.Header{Name: k, Mode: 0644, Size: int64(len(files[k]))})
		tw.Write([]byte(files[k]))
	}
	tw.Close()
	return buf.Bytes()
}

func c2Elements(g int) []byte {
	els := []map[string]interface{}{
		{"Pos": []int{5, 5, 5}, "Kind": "PostSyn", "Tags": []string{"t1"}, "Prop": map[string]string{"p": fmt.Sprint(g)},
			"Rels": []map[string]interface{}{{"Rel": "PostSynTo", "To": []int{40, 5, 5}}}},
		{"Pos": []int{40, 5, 5}, "Kind": "PreSyn", "Tags": []string{"t2"}, "Prop": map[string]string{},
			"Rels": []map[string]interface{}{{"Rel": "PreSynTo", "To": []int{5, 5, 5}}}},
		{"Pos": []int{10, 20, 20}, "Kind": "Note", "Tags": []string{"t1"}, "Prop": map[string]string{"note": fmt.Sprint("n", g)}},
	}
	if g > 0 {
		els = append(els, map[string]interface{}{"Pos": []int{20 + g, 3, 3 + g}, "Kind": "PostSyn", "Tags": []string{fmt.Sprint("g", g)}, "Prop": map[string]string{}})
	}
	b, _ := json.Marshal(els)
	return b
}

// ---- writes ----

// populate writes the generation-0 content of every instance at the (open) root.
func (w *c2World) populate() {
	u := w.root
	w.write(u, 0, "put")
	if w.byName["lm"] != nil {
		// body 1 gets a second supervoxel so that cleave requests are meaningful (the label indices of the voxels
		// just written are built by a goroutine no idle predicate covers: wait until both exist)
		must(w.n.Idle(), "idle")
		for _, l := range []int{1, 3} {
			deadline := time.Now().Add(90 * time.Second)
			for {
				r, err := w.n.HTTP("GET", fmt.Sprintf("/api/node/%s/lm/index/%d", u, l), nil)
				must(err, "GET index")
				if r.Status == 200 && len(r.Bytes()) > 0 {
					break
				}
				if time.Now().After(deadline) {
					infra("label index %d of the populated labelmap did not appear within 90 s", l)
				}
				time.Sleep(20 * time.Millisecond)
			}
		}
		w.okPost("POST", "/api/node/"+u+"/lm/merge", []byte(`[1,3]`))
	}
	if w.byName["tiles"] != nil {
		w.okPost("POST", "/api/node/"+u+"/tiles/metadata", []byte(`{"MinTileCoord":[0,0,0],"MaxTileCoord":[1,0,0],"Levels":{"0":{"Resolution":[10.0,10.0,10.0],"TileSize":[32,32,32]}}}`))
	}
	must(w.n.Idle(), "idle after populate")
}

// write performs one generation of writes ("put": add/overwrite, "del": deletions and
// proofreading operations) on every versioned instance at the open node u.  Requests
// are valid for the catalogue's content; a refusal is reported to the caller.
func (w *c2World) write(u string, g int, kind string) {
	for _, in := range w.insts {
		if !in.Versioned {
			continue
		}
		w.writeInst(in, u, g, kind)
	}
	must(w.n.Idle(), "idle after writes")
}

func (w *c2World) writeInst(in *c2Inst, u string, g int, kind string) {
	base := "/api/node/" + u + "/" + in.Name
	post := func(sub string, body []byte) { w.okPost("POST", base+"/"+sub, body) }
	del := func(sub string) { w.okPost("DELETE", base+"/"+sub, nil) }
	switch in.Type {
	case "keyvalue":
		if kind == "put" {
			post("key/k1", []byte(fmt.Sprintf(`"v1-g%d"`, g)))
			post(fmt.Sprintf("key/k%d", 2+g%3), []byte(fmt.Sprintf(`"v-g%d"`, g)))
			if g == 0 {
				post("key/k0", []byte(`"v0"`))
				post("keyvalues", c2KeyValues(map[string]string{"k8": `"v8"`, "k9": `"v9"`}))
			}
		} else {
			del("key/k0")
			del(fmt.Sprintf("key/k%d", 2+g%3))
		}
	case "roi":
		if kind == "put" {
			post("roi", []byte(fmt.Sprintf(`[[0,0,0,1],[0,1,%d,%d],[1,0,0,0]]`, g%2, 1+g%2)))
		} else {
			del("roi")
		}
	case "neuronjson":
		if kind == "put" {
			// schema documents are versioned metadata of the instance as well
			post("json_schema", []byte(fmt.Sprintf(`{"type":"object","title":"g%d"}`, g)))
			post("schema", []byte(fmt.Sprintf(`{"kind":"schema","gen":%d}`, g)))
			post("schema_batch", []byte(fmt.Sprintf(`{"kind":"batch","gen":%d}`, g)))
			post("key/1000?u=alice", []byte(fmt.Sprintf(`{"bodyid":1000,"a":%d,"b":"x"}`, g)))
			post(fmt.Sprintf("key/%d?u=bob", 1001+g%3), []byte(fmt.Sprintf(`{"bodyid":%d,"c":"g%d"}`, 1001+g%3, g)))
		} else {
			del("schema_batch")
			post("key/1000?u=carol", []byte(`{"bodyid":1000,"b":null}`))
			del(fmt.Sprintf("key/%d", 1001+g%3))
		}
	case "annotation":
		if kind == "put" {
			post("elements", c2Elements(g))
		} else {
			del("element/10_20_20")
			// (a move onto a position that still holds an element of an earlier generation is refused)
			w.http("DELETE", base+"/element/6_6_6", nil) // 400 when nothing is there
			post("move/5_5_5/6_6_6", nil)
		}
	case "labelmap":
		if g == 0 {
			post("raw/0_1_2/"+c2Vol+"/"+c2Off, c2Labels(0))
			must(w.n.Idle(), "idle")
		} else if kind == "put" {
			post("raw/0_1_2/"+c2Vol+"/"+c2Off+"?mutate=true", c2Labels(g))
			must(w.n.Idle(), "idle")
		} else {
			// proofreading: split a slab off supervoxel 2 (every third generation), merge 2 into 1 or cleave
			// supervoxel 3 off body 1
			if g%3 == 2 {
				z0 := 16 + 4*(g/3%4)
				if r := w.http("POST", base+"/split-supervoxel/2", c2BoxRLEs(32, 8, 0, 4, z0, z0+4)); r.Status == 200 {
					atomic.AddInt64(&c2SplitSVDone, 1)
					must(w.n.Idle(), "idle")
					break
				}
			}
			r := w.http("POST", base+"/cleave/1", []byte(`[3]`))
			if r.Status != 200 {
				w.okPost("POST", base+"/merge", []byte(`[1,2]`))
			}
		}
	case "labelarray", "labelblk":
		if g == 0 || kind == "put" {
			post("raw/0_1_2/"+c2Vol+"/"+c2Off, c2Labels(g))
			must(w.n.Idle(), "idle")
		} else if in.Type == "labelarray" {
			w.http("POST", base+"/merge", []byte(`[2,3]`))
		}
	case "labelvol":
		// follows labelblk through its sync
	case "labelsz":
		// follows annotation
	case "tarsupervoxels":
		if kind == "put" {
			post("supervoxel/1", []byte(fmt.Sprintf("sv1-g%d", g)))
			post(fmt.Sprintf("supervoxel/%d", 2+g%2), []byte(fmt.Sprintf("sv-g%d", g)))
		} else {
			del(fmt.Sprintf("supervoxel/%d", 2+g%2))
		}
	case "imagetile":
		if kind == "put" && w.byName["gray"] != nil {
			r := w.http("GET", "/api/node/"+u+"/gray/raw/0_1/32_32/"+fmt.Sprintf("%d_0_%d", 32*(g%2), g%5), nil)
			if r.Status == 200 {
				post("tile/xy/0/0_0_0", r.Bytes())
			}
		}
	case "multichan16", "googlevoxels":
	default:
		if in.Bpv > 0 {
			if kind == "put" {
				post("raw/0_1_2/"+c2Vol+"/"+c2Off, c2Image(in.Bpv, g))
			} else {
				// overwrite one block with zeros (imageblk has no delete through raw)
				post("raw/0_1_2/32_32_32/32_0_0", make([]byte, 32*32*32*in.Bpv))
			}
		}
	}
}

// ---- reads (versioned content only) ----

// instance-level settings that are unversioned by design and therefore not part of the
// versioned content of a node: info, tags, sync, extents/resolution/metadata, the
// repo-wide nextlabel.
func (w *c2World) reads(in *c2Inst, u string) []snap.Read {
	if !in.Versioned {
		return nil
	}
	base := "/api/node/" + u + "/" + in.Name
	kp := "data/" + in.Name + "@" + u + "/"
	var out []snap.Read
	get := func(sub string, norm func([]byte) []byte) {
		out = append(out, snap.Read{Key: kp + sub, Method: "GET", URL: base + "/" + sub, Norm: norm})
	}
	getb := func(sub string, body string, norm func([]byte) []byte) {
		out = append(out, snap.Read{Key: kp + sub + " " + body, Method: "GET", URL: base + "/" + sub, Body: []byte(body), Norm: norm})
	}
	labels := []int{1, 2, 3, 4, 11, 12}
	pts := []string{"5_5_5", "5_20_5", "40_5_5", "5_3_10"}
	switch in.Type {
	case "keyvalue":
		get("keys", snap.NormJSON)
		for _, k := range []string{"k0", "k1", "k2", "k3", "k4", "k8", "k9", "sweep"} {
			get("key/"+k, nil)
		}
		get("keyrange/a/z", snap.NormJSON)
		get("keyrangevalues/a/z?json=true", nil)
		getb("keyvalues?json=true", `["k0","k1","k2","k9"]`, nil)
	case "roi":
		get("roi", snap.NormJSON)
		get("mask/0_1_2/"+c2Vol+"/"+c2Off, nil)
		get("partition?batchsize=2", snap.NormJSON)
		getb("ptquery", `[[1,1,1],[40,40,40],[33,1,1]]`, snap.NormJSON)
	case "neuronjson":
		get("keys", snap.NormJSON)
		get("all", snap.NormJSONSortedArray)
		get("all?show=all", snap.NormJSONSortedArray)
		get("fields", snap.NormJSONSortedArray)
		for _, k := range []string{"1000", "1001", "1002", "1003", "1777"} {
			get("key/"+k, snap.NormJSON)
			get("key/"+k+"?show=all", snap.NormJSON)
		}
		get("keyrangevalues/0/9999?json=true", snap.NormJSON)
		get("json_schema", snap.NormJSON)
		get("schema", snap.NormJSON)
		get("schema_batch", snap.NormJSON)
	case "annotation":
		get("all-elements", snap.NormJSON)
		get("elements/200_200_200/-50_-50_-50", snap.NormJSONSortedArray)
		get("blocks/64_64_64/0_0_0", snap.NormJSON)
		for _, t := range []string{"t1", "t2", "g1", "g2", "sweep"} {
			get("tag/"+t, snap.NormJSONSortedArray)
		}
		for _, l := range labels[:4] {
			get(fmt.Sprintf("label/%d", l), snap.NormJSONSortedArray)
		}
	case "labelsz":
		for _, l := range labels[:4] {
			get(fmt.Sprintf("count/%d/PostSyn", l), snap.NormJSON)
			get(fmt.Sprintf("count/%d/PreSyn", l), snap.NormJSON)
		}
		get("top/5/AllSyn", snap.NormJSON)
		get("top/5/PostSyn", snap.NormJSON)
		get("threshold/1/AllSyn", snap.NormJSON)
	case "labelmap":
		get("raw/0_1_2/"+c2Vol+"/"+c2Off, nil)
		get("raw/0_1_2/"+c2Vol+"/"+c2Off+"?supervoxels=true", nil)
		get("raw/0_1_2/32_16_16/0_0_0?scale=1", nil)
		get("blocks/"+c2Vol+"/"+c2Off+"?compression=uncompressed", c2NormBlocks)
		get("maxlabel", snap.NormJSON)
		get("mappings", c2NormLines)
		get("listlabels", nil)
		get("existing-labels", snap.NormJSON)
		get("supervoxel-splits", snap.NormJSON)
		get("sparsevols-coarse/1/20", nil)
		getb("mapping", `[1,2,3,4,10,11,12]`, snap.NormJSON)
		getb("sizes", `[1,2,3,4,10,11,12]`, snap.NormJSON)
		getb("labels", `[[5,5,5],[5,20,5],[40,5,5],[40,5,20],[5,3,10]]`, snap.NormJSON)
		getb("indices", `[1,2,3]`, c2NormIndices)
		for _, l := range labels {
			get(fmt.Sprintf("size/%d", l), snap.NormJSON)
			get(fmt.Sprintf("supervoxels/%d", l), snap.NormJSONSortedArray)
			get(fmt.Sprintf("sparsevol/%d?format=rles", l), c2NormRLEs)
			get(fmt.Sprintf("sparsevol-coarse/%d", l), c2NormRLEs)
			get(fmt.Sprintf("sparsevol-size/%d", l), snap.NormJSON)
			get(fmt.Sprintf("index/%d", l), c2NormIndex)
			get(fmt.Sprintf("supervoxel-sizes/%d", l), c2NormSVSizes)
		}
		for _, p := range pts {
			get("label/"+p, snap.NormJSON)
			get("label/"+p+"?supervoxels=true", snap.NormJSON)
			get("sparsevol-by-point/"+p, c2NormRLEs)
		}
	case "labelarray":
		get("raw/0_1_2/"+c2Vol+"/"+c2Off, nil)
		get("maxlabel", snap.NormJSON)
		for _, l := range labels {
			get(fmt.Sprintf("sparsevol/%d", l), c2NormRLEs)
			get(fmt.Sprintf("sparsevol-coarse/%d", l), c2NormRLEs)
			get(fmt.Sprintf("sparsevol-size/%d", l), snap.NormJSON)
		}
		for _, p := range pts {
			get("label/"+p, snap.NormJSON)
		}
		getb("labels", `[[5,5,5],[5,20,5],[40,5,5]]`, snap.NormJSON)
	case "labelblk":
		get("raw/0_1_2/"+c2Vol+"/"+c2Off, nil)
		for _, p := range pts {
			get("label/"+p, snap.NormJSON)
		}
		getb("labels", `[[5,5,5],[5,20,5],[40,5,5]]`, snap.NormJSON)
		get("blocks/0_0_0/2", nil)
	case "labelvol":
		get("maxlabel", snap.NormJSON)
		for _, l := range labels {
			get(fmt.Sprintf("sparsevol/%d", l), c2NormRLEs)
			get(fmt.Sprintf("sparsevol-coarse/%d", l), c2NormRLEs)
		}
		for _, p := range pts {
			get("sparsevol-by-point/"+p, c2NormRLEs)
		}
	case "tarsupervoxels":
		for _, s := range []int{1, 2, 3, 4, 5, 77} {
			get(fmt.Sprintf("supervoxel/%d", s), nil)
		}
		getb("exists", `[1,2,3,4,5,77]`, snap.NormJSON)
		for _, l := range labels[:4] {
			get(fmt.Sprintf("missing/%d", l), snap.NormJSON)
			get(fmt.Sprintf("tarfile/%d", l), c2TarNorm)
		}
	case "imagetile":
		get("tile/xy/0/0_0_0", nil)
		get("tile/xy/0/1_0_0", nil)
	case "multichan16", "googlevoxels":
	default:
		if in.Bpv > 0 {
			get("raw/0_1_2/"+c2Vol+"/"+c2Off, nil)
			get("blocks/0_0_0/2", nil)
			get("raw/0_1/32_32/16_0_5", nil)
			get("subvolblocks/"+c2Vol+"/"+c2Off+"?compression=uncompressed", c2NormBlocks)
		}
	}
	return out
}

// c2TarNorm keeps names and contents of a tar stream, sorted (headers carry times, the
// order follows a map).
func c2TarNorm(b []byte) []byte {
	tr := tar.NewReader(bytes.NewReader(b))
	var items []string
	for {
		h, err := tr.Next()
		if err != nil {
			break
		}
		var buf bytes.Buffer
		buf.ReadFrom(tr)
		items = append(items, fmt.Sprintf("%s:%x", h.Name, buf.Bytes()))
	}
	sort.Strings(items)
	return []byte(strings.Join(items, ";"))
}

var c2Det = pb.MarshalOptions{Deterministic: true}

// c2NormIndex re-encodes a protobuf LabelIndex deterministically (its maps are emitted in
// random order).
func c2NormIndex(b []byte) []byte {
	var m proto.LabelIndex
	if pb.Unmarshal(b, &m) != nil {
		return b
	}
	out, err := c2Det.Marshal(&m)
	if err != nil {
		return b
	}
	return out
}

func c2NormIndices(b []byte) []byte {
	var m proto.LabelIndices
	if pb.Unmarshal(b, &m) != nil {
		return b
	}
	out, err := c2Det.Marshal(&m)
	if err != nil {
		return b
	}
	return out
}

// c2NormSVSizes sorts the parallel arrays of supervoxel-sizes by supervoxel.
func c2NormSVSizes(b []byte) []byte {
	var m struct {
		Supervoxels []uint64 `json:"supervoxels"`
		Sizes       []uint64 `json:"sizes"`
	}
	if json.Unmarshal(b, &m) != nil || len(m.Supervoxels) != len(m.Sizes) {
		return b
	}
	items := make([]string, len(m.Sizes))
	for i := range m.Sizes {
		items[i] = fmt.Sprintf("%020d:%d", m.Supervoxels[i], m.Sizes[i])
	}
	sort.Strings(items)
	return []byte(strings.Join(items, ","))
}

// c2NormBlocks sorts a stream of (int32 x, y, z, int32 n, n bytes) records by coordinate.
func c2NormBlocks(b []byte) []byte {
	var items []string
	for pos := 0; pos < len(b); {
		if pos+16 > len(b) {
			return b
		}
		n := int(binary.LittleEndian.Uint32(b[pos+12:]))
		if n < 0 || pos+16+n > len(b) {
			return b
		}
		items = append(items, string(b[pos:pos+16+n]))
		pos += 16 + n
	}
	sort.Strings(items)
	return []byte(strings.Join(items, ""))
}

// c2NormRLEs sorts the spans of a legacy sparse volume (12-byte header + 16-byte spans;
// the spans of different blocks are emitted in varying order).
func c2NormRLEs(b []byte) []byte {
	if len(b) < 12 || (len(b)-12)%16 != 0 {
		return b
	}
	var items []string
	for pos := 12; pos < len(b); pos += 16 {
		x := int32(binary.LittleEndian.Uint32(b[pos:]))
		y := int32(binary.LittleEndian.Uint32(b[pos+4:]))
		z := int32(binary.LittleEndian.Uint32(b[pos+8:]))
		n := int32(binary.LittleEndian.Uint32(b[pos+12:]))
		items = append(items, fmt.Sprintf("%011d,%011d,%011d,%d", int64(z)+1<<31, int64(y)+1<<31, int64(x)+1<<31, n))
	}
	sort.Strings(items)
	return []byte(fmt.Sprintf("%x|%s", b[:12], strings.Join(items, ";")))
}

func c2NormLines(b []byte) []byte {
	lines := strings.Split(string(b), "\n")
	sort.Strings(lines)
	return []byte(strings.Join(lines, "\n"))
}

func c2NodeReads(u string) []snap.Read {
	var out []snap.Read
	for _, what := range []string{"note", "log", "commit"} {
		out = append(out, snap.Read{Key: "node/" + u + "/" + what, Method: "GET", URL: "/api/node/" + u + "/" + what, Norm: snap.NormJSON})
	}
	return out
}

// c2Take executes reads and returns them as a snapshot.
func (w *c2World) take(reads []snap.Read) *snap.Snap {
	s := &snap.Snap{}
	for _, rd := range reads {
		if w.unstable[rd.Key] {
			continue
		}
		r, err := w.n.HTTP(rd.Method, rd.URL, rd.Body)
		must(err, "snapshot read "+rd.Key)
		b := r.Bytes()
		if r.Status != 200 {
			b = nil // error texts embed request ids
		} else if rd.Norm != nil {
			b = rd.Norm(b)
		}
		h := sha1.Sum(b)
		e := snap.Entry{Key: rd.Key, Status: r.Status, Digest: hex.EncodeToString(h[:8])}
		e.Body = trunc(string(b), 200)
		s.Entries = append(s.Entries, e)
	}
	return s
}

// contentReads lists every versioned-content read of the given instances (nil = all)
// at the given nodes, plus the nodes' note, log and commit flag.
func (w *c2World) contentReads(uuids []string, only map[string]bool) []snap.Read {
	var out []snap.Read
	for _, u := range uuids {
		out = append(out, c2NodeReads(u)...)
		for _, in := range w.insts {
			if only != nil && !only[in.Name] {
				continue
			}
			out = append(out, w.reads(in, u)...)
		}
	}
	return out
}

// focus returns the instance and everything whose content follows it.
func (w *c2World) focus(name string) map[string]bool {
	m := map[string]bool{name: true}
	for changed := true; changed; {
		changed = false
		for _, in := range w.insts {
			if m[in.Name] {
				for _, p := range in.Partners {
					if !m[p] {
						m[p] = true
						changed = true
					}
				}
			}
		}
	}
	return m
}

// ---- sweep payloads ----

type c2Payload struct {
	Suffix string // appended to /<keyword>
	Query  string // without leading ?
	Body   []byte
	Known  bool // built from the endpoint's documented format (may be effective)
}

// payloads returns the request variants sent for (instance, keyword, method): the
// documented mutating payloads where the harness knows one, and generic probes.
func (w *c2World) payloads(in *c2Inst, kw, method string, k int, other string) []c2Payload {
	var out []c2Payload
	add := func(suffix, query string, body []byte) {
		out = append(out, c2Payload{Suffix: suffix, Query: query, Body: body, Known: true})
	}
	mut := method == "POST" || method == "PUT" || method == "DELETE"
	js := func(v interface{}) []byte { b, _ := json.Marshal(v); return b }
	if mut {
		switch in.Type {
		case "keyvalue":
			switch kw {
			case "key":
				add("/k1", "", []byte(fmt.Sprintf(`"sweep-%d"`, k)))
				add("/sweep", "", []byte(`"sweep"`))
			case "keyvalues":
				add("", "", c2KeyValues(map[string]string{"k1": `"swept"`, "sweep": `"s"`}))
			case "tags":
				add("", "", []byte(`{"swept":"yes"}`))
			}
		case "neuronjson":
			switch kw {
			case "key":
				add("/1000", "u=sweep", []byte(fmt.Sprintf(`{"bodyid":1000,"a":%d,"swept":true}`, 100+k)))
				add("/1777", "", []byte(`{"bodyid":1777,"swept":true}`))
			case "keyvalues":
				// (a user query string is mandatory for the batch ingest)
				add("", "u=sweep", c2KeyValues(map[string]string{"1000": fmt.Sprintf(`{"bodyid":1000,"swept":%d}`, 2+k), "1778": `{"bodyid":1778,"swept":true}`}))
				add("", "", c2KeyValues(map[string]string{"1000": `{"bodyid":1000,"swept":2}`}))
			case "json_schema", "schema", "schema_batch":
				add("", "", []byte(fmt.Sprintf(`{"type":"object","title":"swept-%d"}`, k)))
			case "query":
				add("", "", []byte(`{"a":0}`))
			case "tags":
				add("", "", []byte(`{"swept":"yes"}`))
			}
		case "roi":
			switch kw {
			case "roi":
				add("", "", []byte(`[[0,0,0,1],[2,2,2,3]]`))
			case "ptquery":
				add("", "", []byte(`[[1,1,1]]`))
			}
		case "annotation":
			switch kw {
			case "elements":
				add("", "", []byte(`[{"Pos":[7,7,7],"Kind":"PostSyn","Tags":["sweep"],"Prop":{}}]`))
			case "element":
				add("/5_5_5", "", nil)
				add("/40_5_5", "", nil)
			case "move":
				add("/5_5_5/8_8_8", "", nil)
				add("/40_5_5/41_5_5", "", nil)
			case "blocks":
				add("", "", []byte(`{"0,0,0":[{"Pos":[9,9,9],"Kind":"Note","Tags":["sweep"],"Prop":{}}]}`))
			case "labels":
				// ingest of per-label element lists: label -> JSON array (as a string)
				add("", "", []byte(fmt.Sprintf(`{"1":"[{\"Pos\":[9,9,%d],\"Kind\":\"Note\",\"Tags\":[],\"Prop\":{}}]","2":"[]"}`, 9+k%7)))
			case "reload", "sync", "tags":
				add("", "", map[string][]byte{"reload": nil, "sync": []byte(`{"sync":"lm"}`), "tags": []byte(`{"swept":"yes"}`)}[kw])
			}
		case "labelsz":
			switch kw {
			case "reload":
				add("", "", nil)
			case "sync":
				add("", "", []byte(`{"sync":"ann"}`))
			}
		case "labelmap":
			switch kw {
			case "raw":
				add("/0_1_2/"+c2Vol+"/"+c2Off, "mutate=true", c2Labels(7))
				add("/0_1_2/32_32_32/64_0_0", "", c2Labels(0)[:32*32*32*8])
			case "blocks", "ingest-supervoxels":
				if other != "" {
					r := w.http("GET", "/api/node/"+other+"/"+in.Name+"/blocks/"+c2Vol+"/"+c2Off+"?compression=blocks", nil)
					if r.Status == 200 {
						// the two blocks of the volume with their coordinates exchanged: the documented stream
						// format, and content that differs from what any node holds
						if sw := c2SwapBlocks(r.Bytes()); sw != nil {
							add("", "", sw)
						}
						add("", "", r.Bytes())
					}
				}
			case "merge":
				add("", "", []byte(`[1,2]`))
				add("", "", []byte(`[2,1]`))
			case "cleave":
				add("/1", "", []byte(`[3]`))
				add("/1", "", []byte(`[1]`))
			case "split-supervoxel":
				add("/2", "", c2BoxRLEs(32, 8, 0, 4, 16, 20))
				add("/1", "", c2BoxRLEs(0, 8, 0, 4, 0, 4))
			case "split":
				add("/2", "", c2BoxRLEs(32, 8, 0, 4, 16, 20))
				add("/1", "", c2BoxRLEs(0, 8, 0, 4, 0, 4))
			case "renumber":
				add("", "", []byte(`[777,2]`))
				add("", "", []byte(`[778,1]`))
			case "set-nextlabel", "nextlabel":
				add("/5000", "", nil)
				add("/7", "", nil)
			case "maxlabel":
				add("/9000", "", nil)
			case "index":
				if other != "" {
					r := w.http("GET", "/api/node/"+other+"/"+in.Name+"/index/2", nil)
					if r.Status == 200 {
						add("/2", "", r.Bytes())
					}
				}
			case "indices":
				if other != "" {
					r := w.http("GET", "/api/node/"+other+"/"+in.Name+"/indices", []byte(`[1,2]`))
					if r.Status == 200 {
						add("", "", r.Bytes())
					}
				}
			case "mappings":
				m := &proto.MappingOps{Mappings: []*proto.MappingOp{{Mutid: 999, Mapped: 1, Original: []uint64{2}}}}
				b, _ := pb.Marshal(m)
				add("", "", b)
			case "sync", "tags", "resolution", "extents", "info":
				add("", "", map[string][]byte{"sync": []byte(`{"sync":""}`), "tags": []byte(`{"swept":"yes"}`), "resolution": []byte(`[9,9,9]`),
					"extents": []byte(`{"MinPoint":[0,0,0],"MaxPoint":[300,300,300]}`), "info": []byte(`{"Compression":"none"}`)}[kw])
			}
		case "labelarray":
			switch kw {
			case "blocks":
				if other != "" {
					r := w.http("GET", "/api/node/"+other+"/"+in.Name+"/blocks/"+c2Vol+"/"+c2Off+"?compression=blocks", nil)
					if r.Status == 200 {
						if sw := c2SwapBlocks(r.Bytes()); sw != nil {
							add("", "", sw)
						}
					}
				}
			case "raw":
				add("/0_1_2/"+c2Vol+"/"+c2Off, "", c2Labels(7))
			case "merge":
				add("", "", []byte(`[1,2]`))
			case "split":
				// (a caller-given split label: a committed version cannot allocate one)
				add("/2", "splitlabel=77", c2BoxRLEs(32, 8, 0, 4, 16, 20))
				add("/2", "", c2BoxRLEs(32, 8, 0, 4, 16, 20))
			case "split-coarse":
				// block coordinates: the second block of the volume
				add("/2", "splitlabel=78", c2BoxRLEs(1, 1, 0, 1, 0, 1))
				add("/2", "", c2BoxRLEs(32, 8, 0, 4, 16, 20))
			case "nextlabel", "maxlabel":
				add("/5000", "", nil)
			case "resolution":
				add("", "", []byte(`[9,9,9]`))
			}
		case "labelblk":
			switch kw {
			case "raw":
				add("/0_1_2/"+c2Vol+"/"+c2Off, "", c2Labels(7))
			case "blocks":
				add("/0_0_0/2", "", c2Labels(7)[:2*32*32*32*8])
			case "resolution":
				add("", "", []byte(`[9,9,9]`))
			}
		case "labelvol":
			switch kw {
			case "merge":
				add("", "", []byte(`[1,2]`))
			case "split":
				add("/2", "splitlabel=77", c2BoxRLEs(32, 8, 0, 4, 16, 20))
				add("/2", "", c2BoxRLEs(32, 8, 0, 4, 16, 20))
			case "split-coarse":
				add("/2", "splitlabel=78", c2BoxRLEs(1, 1, 0, 1, 0, 1))
				add("/2", "", c2BoxRLEs(32, 8, 0, 4, 16, 20))
			case "nextlabel", "maxlabel":
				add("/5000", "", nil)
			case "resync":
				add("/2", "", nil)
			}
		case "tarsupervoxels":
			switch kw {
			case "supervoxel":
				add("/1", "", []byte(fmt.Sprintf("swept-%d", k)))
				add("/77", "", []byte("swept"))
			case "load":
				add("", "", c2Tar(map[string]string{"1.dat": "loaded", "77.dat": "loaded"}))
			case "sync":
				add("", "", []byte(`{"sync":"lm"}`))
			}
		case "imagetile":
			switch kw {
			case "metadata":
				add("", "", []byte(`{"MinTileCoord":[0,0,0],"MaxTileCoord":[3,3,3],"Levels":{"0":{"Resolution":[5.0,5.0,5.0],"TileSize":[32,32,32]}}}`))
			case "tile":
				if other != "" && w.byName["gray"] != nil {
					r := w.http("GET", "/api/node/"+other+"/gray/raw/0_1/32_32/8_0_9", nil)
					if r.Status == 200 {
						add("/xy/0/0_0_0", "", r.Bytes())
						add("/xy/0/1_0_0", "", r.Bytes())
					}
				}
			}
		default:
			if in.Bpv > 0 {
				switch kw {
				case "raw":
					add("/0_1_2/"+c2Vol+"/"+c2Off, "", c2Image(in.Bpv, 7))
				case "blocks":
					add("/0_0_0/2", "", c2Image(in.Bpv, 7)[:2*32*32*32*in.Bpv])
				case "extents":
					add("", "", []byte(`{"MinPoint":[0,0,0],"MaxPoint":[300,300,300]}`))
				case "resolution":
					add("", "", []byte(`[9,9,9]`))
				}
			}
		}
	}
	// generic probes (every keyword, every method)
	generic := [][2]string{{"", `{}`}, {"/1", `[1,2]`}, {"/0_1_2/32_32_32/0_0_0", ""}}
	g := generic[k%len(generic)]
	out = append(out, c2Payload{Suffix: g[0], Body: []byte(g[1])})
	if len(out) == 1 {
		g2 := generic[(k+1)%len(generic)]
		out = append(out, c2Payload{Suffix: g2[0], Body: []byte(g2[1])})
	}
	_ = js
	return out
}
