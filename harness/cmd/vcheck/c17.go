package main

import (
	"bytes"
	"encoding/binary"
	"encoding/json"
	"fmt"
	"image"
	"image/png"
	"math/rand"
	"sort"
	"strings"
	"sync"
	"sync/atomic"
	"time"

	"verifharness/internal/ev"
	"verifharness/internal/node"
	"verifharness/internal/tlc"
)

// C17: image volumes return exactly the voxels that were written.
//
// Specification: specs/ImageVol.tla (versioned map block -> write id, requests write /
// newver, reads as state functions, the claims of the property as StepClaims / StateOK).
//   part A  ImageVol_mc:    TLC explores every request sequence within the bounds, checks the
//                           claims and prints every maximal behaviour with the projection of
//                           its final state; the harness replays them on the real code.
//   part B  ImageVol_cases: seeded longer request sequences on a larger lattice; TLC checks
//                           the claims along each and evaluates the final state (oracle).
//   part C  (exploration)   Voxels.ReadBlock / WriteBlock called directly over swept
//                           sub-block geometries (package-level mechanism of the property).
// The harness refines a write id to voxels with the fixed function ivVoxel and a cell / block
// of the specification to voxel coordinates; it does not compute what a request does.

func init() { checks["C17"] = checkC17 }

type ivBox struct {
	Lo [3]int `json:"lo"`
	Hi [3]int `json:"hi"`
}

type ivOp struct {
	Op     string `json:"op"`
	V      int    `json:"v"`
	API    string `json:"api,omitempty"`
	Mutate bool   `json:"mutate,omitempty"`
	Box    *ivBox `json:"box,omitempty"`
	Roi    int    `json:"roi,omitempty"`
}

type ivFin struct {
	Nver int         `json:"nver"`
	Par  []int       `json:"par"`
	Open []bool      `json:"open"`
	Vol  [][]int     `json:"vol"`  // [version-1][block id-1] = write id, 0 = unwritten
	Ext  [][2][3]int `json:"ext"`  // intended extents (block box), lo > hi = none
	Hull [][2][3]int `json:"hull"` // hull of the written blocks, lo > hi = none
}

type ivBeh struct {
	Hist []ivOp `json:"hist"`
	Fin  ivFin  `json:"fin"`
}

type ivLattice struct {
	NB   [3]int  `json:"nb"`
	Rois [][]int `json:"rois"` // block ids per ROI
}

func (l ivLattice) nblocks() int { return l.NB[0] * l.NB[1] * l.NB[2] }
func (l ivLattice) bid(x, y, z int) int {
	if x < 0 || y < 0 || z < 0 || x >= l.NB[0] || y >= l.NB[1] || z >= l.NB[2] {
		return 0
	}
	return 1 + x + l.NB[0]*(y+l.NB[1]*z)
}
func (l ivLattice) bc(b int) [3]int {
	b--
	return [3]int{b % l.NB[0], (b / l.NB[0]) % l.NB[1], b / (l.NB[0] * l.NB[1])}
}

func (l ivLattice) roisTLA() string {
	var parts []string
	for _, r := range l.Rois {
		var ids []string
		for _, b := range r {
			ids = append(ids, fmt.Sprint(b))
		}
		parts = append(parts, "{"+strings.Join(ids, ", ")+"}")
	}
	return "<< " + strings.Join(parts, ", ") + " >>"
}

func (l ivLattice) cfg(maxVer, maxWrites int, rest string) string {
	return fmt.Sprintf("SPECIFICATION Spec\nCONSTANTS\n  NBX = %d\n  NBY = %d\n  NBZ = %d\n  MaxVersions = %d\n  MaxWrites = %d\n  Rois <- RoisDef\n%s\nCHECK_DEADLOCK FALSE\n",
		l.NB[0], l.NB[1], l.NB[2], maxVer, maxWrites, rest)
}

// ivExplore runs part A in TLC.
func ivExplore(c *Ctx, lat ivLattice, maxVer, maxWrites int) (behs []*ivBeh, classes [3][][2]int, r *tlc.Result) {
	gen := fmt.Sprintf("---- MODULE ImageVolGen ----\nRoisDef == %s\nEmitOn == TRUE\n====\n", lat.roisTLA())
	cfg := lat.cfg(maxVer, maxWrites, "INVARIANTS Inv_C17_State Inv_C17_RunAgrees Emit\nPROPERTIES Act_C17_Step")
	r = c.MustModelCheck(tlc.Opts{Module: "ImageVol_mc", Config: "gen_iv.cfg",
		Files:   map[string][]byte{"ImageVolGen.tla": []byte(gen), "gen_iv.cfg": []byte(cfg)},
		Timeout: 15 * time.Minute})
	gotClasses := false
	PrintedJSON(r.Output, func(raw []byte) {
		if bytes.HasPrefix(raw, []byte(`{"classes"`)) {
			var o struct {
				Classes [3][][2]int `json:"classes"`
			}
			if json.Unmarshal(raw, &o) == nil {
				classes = o.Classes
				gotClasses = true
			}
			return
		}
		var b ivBeh
		if err := json.Unmarshal(raw, &b); err != nil || len(b.Hist) == 0 {
			return
		}
		behs = append(behs, &b)
	})
	if !gotClasses || len(behs) == 0 {
		infra("ImageVol_mc emitted %d behaviours, classes=%v: %s", len(behs), gotClasses, r.Tail(1500))
	}
	return
}

func ivOpTLA(o ivOp) string {
	if o.Op == "newver" {
		return fmt.Sprintf(`[op |-> "newver", v |-> %d]`, o.V)
	}
	m := "FALSE"
	if o.Mutate {
		m = "TRUE"
	}
	return fmt.Sprintf(`[op |-> "write", v |-> %d, api |-> "%s", mutate |-> %s, box |-> [lo |-> <<%d, %d, %d>>, hi |-> <<%d, %d, %d>>], roi |-> %d]`,
		o.V, o.API, m, o.Box.Lo[0], o.Box.Lo[1], o.Box.Lo[2], o.Box.Hi[0], o.Box.Hi[1], o.Box.Hi[2], o.Roi)
}

// ivClasses extracts the per-axis read classes printed by the specification.
func ivClasses(r *tlc.Result) (classes [3][][2]int) {
	got := false
	PrintedJSON(r.Output, func(raw []byte) {
		if bytes.HasPrefix(raw, []byte(`{"classes"`)) {
			var o struct {
				Classes [3][][2]int `json:"classes"`
			}
			if json.Unmarshal(raw, &o) == nil {
				classes = o.Classes
				got = true
			}
		}
	})
	if !got {
		infra("specification printed no read classes: %s", r.Tail(1000))
	}
	return
}

// ivEvalCases runs part B in TLC: claims along every sequence + final projections.
func ivEvalCases(c *Ctx, lat ivLattice, maxVer, maxWrites int, cases [][]ivOp) ([]*ivBeh, *tlc.Result) {
	var sb strings.Builder
	fmt.Fprintf(&sb, "---- MODULE ImageVolCases ----\nRoisDef == %s\nCases == <<\n", lat.roisTLA())
	for i, cs := range cases {
		if i > 0 {
			sb.WriteString(",\n")
		}
		ops := make([]string, len(cs))
		for j, o := range cs {
			ops[j] = ivOpTLA(o)
		}
		sb.WriteString(" << " + strings.Join(ops, ",\n    ") + " >>")
	}
	sb.WriteString("\n>>\n====\n")
	cfg := lat.cfg(maxVer, maxWrites, "INVARIANTS AllClaims EmitCases")
	r := c.MustModelCheck(tlc.Opts{Module: "ImageVol_cases", Config: "gen_ivc.cfg", Workers: 1,
		Files:   map[string][]byte{"ImageVolCases.tla": []byte(sb.String()), "gen_ivc.cfg": []byte(cfg)},
		Timeout: 15 * time.Minute, Xss: "256m"})
	var out []*ivBeh
	PrintedJSON(r.Output, func(raw []byte) {
		var fins []ivFin
		if err := json.Unmarshal(raw, &fins); err != nil || len(fins) != len(cases) {
			return
		}
		out = out[:0]
		for i := range fins {
			out = append(out, &ivBeh{Hist: cases[i], Fin: fins[i]})
		}
	})
	if len(out) != len(cases) {
		infra("ImageVol_cases emitted nothing usable: %s", r.Tail(1500))
	}
	return out, r
}

// ---------------------------------------------------------------------------
// binding of the abstract lattice to a concrete instance

var ivTypes = []struct {
	Name string
	BPV  int
}{{"uint8blk", 1}, {"uint16blk", 2}, {"uint32blk", 4}, {"uint64blk", 8}, {"float32blk", 4}, {"rgba8blk", 4}}

type ivBind struct {
	Type   string `json:"type"`
	BPV    int    `json:"bytes_per_voxel"`
	BS     [3]int `json:"block_size"`
	Origin [3]int `json:"origin_block"` // DVID block coordinate of lattice block (0,0,0)
	BG     byte   `json:"background"`
	Seed   uint64 `json:"value_seed"`
}

func ivMix(h uint64) uint64 {
	h += 0x9E3779B97F4A7C15
	h = (h ^ (h >> 30)) * 0xBF58476D1CE4E5B9
	h = (h ^ (h >> 27)) * 0x94D049BB133111EB
	return h ^ (h >> 31)
}

// ivVoxel is the fixed refinement f(write id, x, y, z): the bytes of one voxel.  The first
// byte always differs from the background so that a written voxel never looks unwritten.
func (b *ivBind) ivVoxel(dst []byte, w int, x, y, z int) {
	h := ivMix(b.Seed + uint64(w)*0x100000001B3)
	h = ivMix(h ^ uint64(uint32(int32(x))))
	h = ivMix(h ^ uint64(uint32(int32(y)))<<7)
	h = ivMix(h ^ uint64(uint32(int32(z)))<<13)
	for i := range dst {
		dst[i] = byte(h >> (8 * uint(i)))
	}
	if dst[0] == b.BG {
		dst[0] = b.BG ^ 0x5A
	}
}

func floorDiv(a, b int) int {
	q := a / b
	if a%b != 0 && (a < 0) != (b < 0) {
		q--
	}
	return q
}

// expectVoxel writes the expected bytes of voxel (x,y,z) at version v (1-based).
func (b *ivBind) expectVoxel(dst []byte, lat ivLattice, fin *ivFin, v int, x, y, z int) {
	id := lat.bid(floorDiv(x, b.BS[0])-b.Origin[0], floorDiv(y, b.BS[1])-b.Origin[1], floorDiv(z, b.BS[2])-b.Origin[2])
	if id != 0 {
		if w := fin.Vol[v-1][id-1]; w != 0 {
			b.ivVoxel(dst, w, x, y, z)
			return
		}
	}
	for i := range dst {
		dst[i] = 0
	}
	if b.BPV == 1 {
		dst[0] = b.BG
	}
}

// expectBox fills the expected bytes of the voxel box [off, off+size) in x-fastest order.
func (b *ivBind) expectBox(lat ivLattice, fin *ivFin, v int, off, size [3]int) []byte {
	out := make([]byte, size[0]*size[1]*size[2]*b.BPV)
	i := 0
	for z := 0; z < size[2]; z++ {
		for y := 0; y < size[1]; y++ {
			for x := 0; x < size[0]; x++ {
				b.expectVoxel(out[i:i+b.BPV], lat, fin, v, off[0]+x, off[1]+y, off[2]+z)
				i += b.BPV
			}
		}
	}
	return out
}

// writeData is the payload of write number w over the voxel box.
func (b *ivBind) writeData(w int, off, size [3]int) []byte {
	out := make([]byte, size[0]*size[1]*size[2]*b.BPV)
	i := 0
	for z := 0; z < size[2]; z++ {
		for y := 0; y < size[1]; y++ {
			for x := 0; x < size[0]; x++ {
				b.ivVoxel(out[i:i+b.BPV], w, off[0]+x, off[1]+y, off[2]+z)
				i += b.BPV
			}
		}
	}
	return out
}

type ivDivergence struct {
	Kind     string      `json:"kind"`
	Part     string      `json:"part"`
	Lattice  ivLattice   `json:"lattice"`
	Bind     ivBind      `json:"binding"`
	Hist     []ivOp      `json:"requests"`
	Version  int         `json:"version,omitempty"`
	Request  string      `json:"request"`
	Detail   string      `json:"detail,omitempty"`
	Expected interface{} `json:"expected,omitempty"`
	Observed interface{} `json:"observed,omitempty"`
	Final    *ivFin      `json:"expected_final_state,omitempty"`
	Script   []string    `json:"script,omitempty"`
}

func hexs(b []byte) string {
	if len(b) > 32 {
		return fmt.Sprintf("%x...(%d bytes)", b[:32], len(b))
	}
	return fmt.Sprintf("%x", b)
}

// firstDiff describes the first differing voxel of two x-fastest buffers.
func firstDiff(want, got []byte, bpv int, off, size [3]int) string {
	if len(want) != len(got) {
		return fmt.Sprintf("length %d, expected %d", len(got), len(want))
	}
	for i := 0; i+bpv <= len(want); i += bpv {
		if !bytes.Equal(want[i:i+bpv], got[i:i+bpv]) {
			k := i / bpv
			x := k % size[0]
			y := (k / size[0]) % size[1]
			z := k / (size[0] * size[1])
			nd := 0
			for j := 0; j+bpv <= len(want); j += bpv {
				if !bytes.Equal(want[j:j+bpv], got[j:j+bpv]) {
					nd++
				}
			}
			return fmt.Sprintf("voxel (%d,%d,%d): expected %x observed %x; %d of %d voxels differ", off[0]+x, off[1]+y, off[2]+z, want[i:i+bpv], got[i:i+bpv], nd, len(want)/bpv)
		}
	}
	return ""
}

// decodePNG returns the pixel bytes of a PNG in the byte layout of the voxel type.
func decodePNG(b []byte, bpv int) ([]byte, int, int, error) {
	img, err := png.Decode(bytes.NewReader(b))
	if err != nil {
		return nil, 0, 0, err
	}
	r := img.Bounds()
	w, h := r.Dx(), r.Dy()
	var pix []byte
	var stride, bpp int
	swap16 := false
	switch m := img.(type) {
	case *image.Gray:
		pix, stride, bpp = m.Pix, m.Stride, 1
	case *image.Gray16:
		pix, stride, bpp, swap16 = m.Pix, m.Stride, 2, true
	case *image.NRGBA:
		pix, stride, bpp = m.Pix, m.Stride, 4
	case *image.RGBA:
		pix, stride, bpp = m.Pix, m.Stride, 4 // only produced for opaque images: identical bytes
	case *image.NRGBA64:
		pix, stride, bpp = m.Pix, m.Stride, 8
	case *image.RGBA64:
		pix, stride, bpp = m.Pix, m.Stride, 8
	default:
		return nil, w, h, fmt.Errorf("unexpected PNG colour model %T", img)
	}
	if bpp != bpv {
		return nil, w, h, fmt.Errorf("PNG has %d bytes/pixel, voxel type has %d", bpp, bpv)
	}
	out := make([]byte, 0, w*h*bpp)
	for y := 0; y < h; y++ {
		row := pix[y*stride : y*stride+w*bpp]
		if swap16 {
			for i := 0; i+1 < len(row); i += 2 {
				out = append(out, row[i+1], row[i])
			}
		} else {
			out = append(out, row...)
		}
	}
	return out, w, h, nil
}

// parseBlockStream parses the subvolblocks / specificblocks format.
func parseBlockStream(b []byte) (map[[3]int][]byte, error) {
	out := map[[3]int][]byte{}
	for len(b) > 0 {
		if len(b) < 16 {
			return out, fmt.Errorf("truncated block header (%d bytes left)", len(b))
		}
		x := int(int32(binary.LittleEndian.Uint32(b[0:])))
		y := int(int32(binary.LittleEndian.Uint32(b[4:])))
		z := int(int32(binary.LittleEndian.Uint32(b[8:])))
		n := int(int32(binary.LittleEndian.Uint32(b[12:])))
		b = b[16:]
		if n < 0 || n > len(b) {
			return out, fmt.Errorf("block (%d,%d,%d) announces %d bytes, %d left", x, y, z, n, len(b))
		}
		if _, dup := out[[3]int{x, y, z}]; dup {
			return out, fmt.Errorf("block (%d,%d,%d) sent twice", x, y, z)
		}
		out[[3]int{x, y, z}] = b[:n]
		b = b[n:]
	}
	return out, nil
}

// ivCounters are shared measured counts.
type ivCounters struct {
	reads    int64
	voxels   int64
	requests int64
}

// ivSession replays one behaviour.
type ivSession struct {
	c       *Ctx
	run     *ev.Run
	n       *node.Node
	lat     ivLattice
	classes [3][][2]int
	bind    ivBind
	beh     *ivBeh
	rng     *rand.Rand
	cnt     *ivCounters
	part    string
	uuids   []string
	script  []string
	nreads  int // class reads per version and shape
	record  bool
}

func (s *ivSession) http(method, url string, body []byte) node.Resp {
	r, err := s.n.HTTP(method, url, body)
	if err == node.ErrDead {
		// the server process died while serving a request of the behaviour: a divergence
		// (reported only if it happens again on a fresh node)
		panic(ivDied{s.div("server-died", 0, method+" "+url, "the server process died while serving this request", nil, s.n.StderrTail(1200))})
	}
	if err != nil {
		infra("%s %s: %v; stderr: %s", method, url, err, s.n.StderrTail(1500))
	}
	atomic.AddInt64(&s.cnt.requests, 1)
	if len(s.script) < 400 {
		s.script = append(s.script, fmt.Sprintf("%s %s [%d body bytes] -> %d", method, url, len(body), r.Status))
	}
	return r
}

func (s *ivSession) div(kind string, v int, req, detail string, want, got interface{}) *ivDivergence {
	return &ivDivergence{Kind: kind, Part: s.part, Lattice: s.lat, Bind: s.bind, Hist: s.beh.Hist, Version: v,
		Request: req, Detail: detail, Expected: want, Observed: got, Final: &s.beh.Fin, Script: s.script}
}

func us(a [3]int) string { return fmt.Sprintf("%d_%d_%d", a[0], a[1], a[2]) }

// voxel box of a lattice block box
func (s *ivSession) boxVoxels(b *ivBox) (off, size [3]int) {
	for a := 0; a < 3; a++ {
		off[a] = (s.bind.Origin[a] + b.Lo[a]) * s.bind.BS[a]
		size[a] = (b.Hi[a] - b.Lo[a] + 1) * s.bind.BS[a]
	}
	return
}

func (s *ivSession) setup() *ivDivergence {
	r := s.http("POST", "/api/repos", []byte(`{"alias":"c17","description":"c17"}`))
	var out struct{ Root string }
	if r.Status != 200 || json.Unmarshal(r.Bytes(), &out) != nil || out.Root == "" {
		infra("new repo: %d %s", r.Status, r.Bytes())
	}
	s.uuids = []string{out.Root}
	bs := fmt.Sprintf("%d,%d,%d", s.bind.BS[0], s.bind.BS[1], s.bind.BS[2])
	cfg := map[string]string{"typename": s.bind.Type, "dataname": "img", "BlockSize": bs}
	if s.bind.BG != 0 {
		cfg["Background"] = fmt.Sprint(s.bind.BG)
	}
	body, _ := json.Marshal(cfg)
	if r := s.http("POST", "/api/repo/"+out.Root+"/instance", body); r.Status != 200 {
		infra("new %s instance: %d %s", s.bind.Type, r.Status, r.Bytes())
	}
	for i, roi := range s.lat.Rois {
		name := fmt.Sprintf("roi%d", i+1)
		body, _ := json.Marshal(map[string]string{"typename": "roi", "dataname": name, "BlockSize": bs})
		if r := s.http("POST", "/api/repo/"+out.Root+"/instance", body); r.Status != 200 {
			infra("new roi instance: %d %s", r.Status, r.Bytes())
		}
		// spans [z, y, x0, x1] in DVID block coordinates, one per block (sorted by z, y, x)
		var spans [][4]int
		for _, id := range roi {
			bc := s.lat.bc(id)
			spans = append(spans, [4]int{s.bind.Origin[2] + bc[2], s.bind.Origin[1] + bc[1], s.bind.Origin[0] + bc[0], s.bind.Origin[0] + bc[0]})
		}
		body, _ = json.Marshal(spans)
		if r := s.http("POST", "/api/node/"+out.Root+"/"+name+"/roi", body); r.Status != 200 {
			infra("post roi: %d %s", r.Status, r.Bytes())
		}
	}
	return nil
}

// apply sends the requests of the behaviour.
func (s *ivSession) apply() *ivDivergence {
	kids := map[int]int{}
	open := map[int]bool{1: true}
	nw := 0
	for i, o := range s.beh.Hist {
		switch o.Op {
		case "newver":
			p := s.uuids[o.V-1]
			if open[o.V] {
				if r := s.http("POST", "/api/node/"+p+"/commit", []byte(`{"note":"c17"}`)); r.Status != 200 {
					infra("commit: %d %s", r.Status, r.Bytes())
				}
				open[o.V] = false
			}
			var r node.Resp
			if kids[o.V] == 0 {
				r = s.http("POST", "/api/node/"+p+"/newversion", []byte(`{"note":"c17"}`))
			} else {
				body, _ := json.Marshal(map[string]string{"branch": fmt.Sprintf("b%d", i), "note": "c17"})
				r = s.http("POST", "/api/node/"+p+"/branch", body)
			}
			var out struct{ Child string }
			if r.Status != 200 || json.Unmarshal(r.Bytes(), &out) != nil || out.Child == "" {
				infra("new version: %d %s", r.Status, r.Bytes())
			}
			kids[o.V]++
			s.uuids = append(s.uuids, out.Child)
			open[len(s.uuids)] = true
		case "write":
			nw++
			off, size := s.boxVoxels(o.Box)
			data := s.bind.writeData(nw, off, size)
			u := s.uuids[o.V-1]
			var url string
			if o.API == "raw" {
				url = "/api/node/" + u + "/img/raw/0_1_2/" + us(size) + "/" + us(off)
				var q []string
				if o.Roi != 0 {
					q = append(q, fmt.Sprintf("roi=roi%d", o.Roi))
				}
				if o.Mutate {
					q = append(q, "mutate=true")
				}
				if len(q) > 0 {
					url += "?" + strings.Join(q, "&")
				}
			} else {
				// a row of whole blocks along X; the payload is block after block
				start := [3]int{s.bind.Origin[0] + o.Box.Lo[0], s.bind.Origin[1] + o.Box.Lo[1], s.bind.Origin[2] + o.Box.Lo[2]}
				span := o.Box.Hi[0] - o.Box.Lo[0] + 1
				data = data[:0]
				for k := 0; k < span; k++ {
					boff := [3]int{(start[0] + k) * s.bind.BS[0], start[1] * s.bind.BS[1], start[2] * s.bind.BS[2]}
					data = append(data, s.bind.writeData(nw, boff, s.bind.BS)...)
				}
				url = fmt.Sprintf("/api/node/%s/img/blocks/%s/%d", u, us(start), span)
				if o.Mutate {
					url += "?mutate=true"
				}
			}
			if r := s.http("POST", url, data); r.Status != 200 {
				return s.div("write-refused", o.V, "POST "+url, fmt.Sprintf("request %d of the behaviour", i+1), 200, fmt.Sprintf("%d %s", r.Status, r.Bytes()))
			}
		}
	}
	return nil
}

func (s *ivSession) jitter(half int) int {
	switch s.rng.Intn(5) {
	case 0, 1:
		return 0
	case 2:
		return half - 1
	}
	return s.rng.Intn(half)
}

// expand turns an axis class (first cell, last cell) into a concrete voxel interval.
func (s *ivSession) expand(a int, cl [2]int) (lo, size int) {
	half := s.bind.BS[a] / 2
	base := s.bind.Origin[a] * s.bind.BS[a]
	lo = base + cl[0]*half + s.jitter(half)
	hi := base + cl[1]*half + s.jitter(half)
	if hi < lo {
		lo, hi = hi, lo
	}
	return lo, hi - lo + 1
}

var ivPlanes = []struct {
	name string
	dims string
	a, b int // the two axes of the slice
	c    int // the fixed axis
}{{"xy", "0_1", 0, 1, 2}, {"xz", "0_2", 0, 2, 1}, {"yz", "1_2", 1, 2, 0}}

// verify performs the reads of one version and compares with the specification state.
func (s *ivSession) verify(v int) *ivDivergence {
	b := &s.bind
	fin := &s.beh.Fin
	u := s.uuids[v-1]
	base := "/api/node/" + u + "/img/"
	cmp := func(kind, url string, want, got []byte, off, size [3]int) *ivDivergence {
		atomic.AddInt64(&s.cnt.reads, 1)
		atomic.AddInt64(&s.cnt.voxels, int64(len(want)/b.BPV))
		if d := firstDiff(want, got, b.BPV, off, size); d != "" {
			return s.div(kind, v, "GET "+url, d, hexs(want), hexs(got))
		}
		return nil
	}
	// --- extents: info and metadata must cover every written voxel
	hull := fin.Hull[v-1]
	if hull[0][0] <= hull[1][0] {
		var wantLo, wantHi [3]int
		for a := 0; a < 3; a++ {
			wantLo[a] = (b.Origin[a] + hull[0][a]) * b.BS[a]
			wantHi[a] = (b.Origin[a]+hull[1][a]+1)*b.BS[a] - 1
		}
		covers := func(name string, lo, hi []int, url string) *ivDivergence {
			atomic.AddInt64(&s.cnt.reads, 1)
			if len(lo) != 3 || len(hi) != 3 {
				return s.div("extents", v, "GET "+url, name+" not set although voxels were written", [2][3]int{wantLo, wantHi}, [2][]int{lo, hi})
			}
			for a := 0; a < 3; a++ {
				if lo[a] > wantLo[a] || hi[a] < wantHi[a] {
					return s.div("extents", v, "GET "+url, name+" does not cover the written voxels", [2][3]int{wantLo, wantHi}, [2][]int{lo, hi})
				}
			}
			return nil
		}
		r := s.http("GET", base+"info", nil)
		var info struct {
			Extended struct{ MinPoint, MaxPoint []int }
			Extents  struct{ MinPoint, MaxPoint []int }
		}
		if r.Status != 200 || json.Unmarshal(r.Bytes(), &info) != nil {
			return s.div("extents", v, "GET "+base+"info", "unusable answer", nil, fmt.Sprintf("%d %s", r.Status, r.Bytes()))
		}
		if d := covers("info.Extents", info.Extents.MinPoint, info.Extents.MaxPoint, base+"info"); d != nil {
			return d
		}
		if d := covers("info.Extended", info.Extended.MinPoint, info.Extended.MaxPoint, base+"info"); d != nil {
			return d
		}
		r = s.http("GET", base+"metadata", nil)
		var md struct {
			Axes       []struct{ Size, Offset int }
			Properties struct{ MinPoint, MaxPoint []int }
		}
		if r.Status != 200 || json.Unmarshal(r.Bytes(), &md) != nil || len(md.Axes) != 3 {
			return s.div("extents", v, "GET "+base+"metadata", "unusable answer", nil, fmt.Sprintf("%d %s", r.Status, r.Bytes()))
		}
		if d := covers("metadata.Properties", md.Properties.MinPoint, md.Properties.MaxPoint, base+"metadata"); d != nil {
			return d
		}
		var alo, ahi []int
		for a := 0; a < 3; a++ {
			alo = append(alo, md.Axes[a].Offset)
			ahi = append(ahi, md.Axes[a].Offset+md.Axes[a].Size-1)
		}
		if d := covers("metadata.Axes", alo, ahi, base+"metadata"); d != nil {
			return d
		}
		// the mechanism behind both: Data.GetExtents at this version
		var ge struct{ Min, Max []int }
		if err := s.n.Call("imageblk.extents", map[string]string{"data": "img", "uuid": u}, &ge); err != nil {
			if _, isCall := err.(*node.CallError); !isCall {
				infra("imageblk.extents: %v", err)
			}
			return s.div("extents", v, "call imageblk.extents", "Data.GetExtents failed", nil, err.Error())
		}
		if d := covers("Data.GetExtents", ge.Min, ge.Max, "call imageblk.extents"); d != nil {
			return d
		}
	}
	// --- one 3-D read of the whole lattice with a margin of one block
	get3d := func(kind string, off, size [3]int) *ivDivergence {
		url := base + "raw/0_1_2/" + us(size) + "/" + us(off)
		r := s.http("GET", url, nil)
		if r.Status != 200 {
			return s.div(kind, v, "GET "+url, "status", 200, fmt.Sprintf("%d %s", r.Status, r.Bytes()))
		}
		return cmp(kind, url, b.expectBox(s.lat, fin, v, off, size), r.Bytes(), off, size)
	}
	var foff, fsize [3]int
	for a := 0; a < 3; a++ {
		foff[a] = (b.Origin[a] - 1) * b.BS[a]
		fsize[a] = (s.lat.NB[a] + 2) * b.BS[a]
	}
	if d := get3d("read-3d-all", foff, fsize); d != nil {
		return d
	}
	// --- seeded reads per structural class
	for k := 0; k < s.nreads; k++ {
		var cl [3][2]int
		var off, size [3]int
		for a := 0; a < 3; a++ {
			cl[a] = s.classes[a][s.rng.Intn(len(s.classes[a]))]
			off[a], size[a] = s.expand(a, cl[a])
		}
		s.run.Eval(fmt.Sprintf("xyz|%v", cl))
		if d := get3d("read-3d", off, size); d != nil {
			d.Detail += fmt.Sprintf("; class %v", cl)
			return d
		}
		for _, pl := range ivPlanes {
			var cl [3][2]int
			var off, size [3]int
			for a := 0; a < 3; a++ {
				cl[a] = s.classes[a][s.rng.Intn(len(s.classes[a]))]
				if a == pl.c {
					cl[a][1] = cl[a][0]
				}
				off[a], size[a] = s.expand(a, cl[a])
			}
			size[pl.c] = 1
			s.run.Eval(fmt.Sprintf("%s|%v", pl.name, cl))
			url := fmt.Sprintf("%sraw/%s/%d_%d/%s", base, pl.dims, size[pl.a], size[pl.b], us(off))
			r := s.http("GET", url, nil)
			if r.Status != 200 {
				return s.div("read-"+pl.name, v, "GET "+url, "status", 200, fmt.Sprintf("%d %s", r.Status, r.Bytes()))
			}
			pix, w, h, err := decodePNG(r.Bytes(), b.BPV)
			if err != nil || w != size[pl.a] || h != size[pl.b] {
				return s.div("read-"+pl.name, v, "GET "+url, fmt.Sprintf("PNG %dx%d err=%v", w, h, err), fmt.Sprintf("%dx%d", size[pl.a], size[pl.b]), nil)
			}
			// expectBox iterates x fastest, then y, then z: with the fixed axis of size 1 this is
			// exactly the row-major order of the slice
			if d := cmp("read-"+pl.name, url, b.expectBox(s.lat, fin, v, off, size), pix, off, size); d != nil {
				d.Detail += fmt.Sprintf("; class %v", cl)
				return d
			}
		}
	}
	// --- block-wise endpoints
	blockBytes := b.BS[0] * b.BS[1] * b.BS[2] * b.BPV
	expBlock := func(bx, by, bz int) (data []byte, written bool) {
		off := [3]int{bx * b.BS[0], by * b.BS[1], bz * b.BS[2]}
		id := s.lat.bid(bx-b.Origin[0], by-b.Origin[1], bz-b.Origin[2])
		return b.expectBox(s.lat, fin, v, off, b.BS), id != 0 && fin.Vol[v-1][id-1] != 0
	}
	// GET blocks: a row along X with margin
	{
		y := b.Origin[1] - 1 + s.rng.Intn(s.lat.NB[1]+2)
		z := b.Origin[2] - 1 + s.rng.Intn(s.lat.NB[2]+2)
		if s.rng.Intn(3) > 0 { // mostly rows inside the lattice
			y = b.Origin[1] + s.rng.Intn(s.lat.NB[1])
			z = b.Origin[2] + s.rng.Intn(s.lat.NB[2])
		}
		x0 := b.Origin[0] - 1 + s.rng.Intn(2)
		span := 1 + s.rng.Intn(s.lat.NB[0]+2-(x0-(b.Origin[0]-1)))
		url := fmt.Sprintf("%sblocks/%d_%d_%d/%d", base, x0, y, z, span)
		r := s.http("GET", url, nil)
		if r.Status != 200 {
			return s.div("read-blocks", v, "GET "+url, "status", 200, fmt.Sprintf("%d %s", r.Status, r.Bytes()))
		}
		var want []byte
		for k := 0; k < span; k++ {
			d, _ := expBlock(x0+k, y, z)
			want = append(want, d...)
		}
		// the answer is block after block; compare as a box of size (bsx, bsy, bsz*span) per block
		got := r.Bytes()
		if len(got) != len(want) {
			return s.div("read-blocks", v, "GET "+url, "length", len(want), len(got))
		}
		for k := 0; k < span; k++ {
			off := [3]int{(x0 + k) * b.BS[0], y * b.BS[1], z * b.BS[2]}
			if d := cmp("read-blocks", url, want[k*blockBytes:(k+1)*blockBytes], got[k*blockBytes:(k+1)*blockBytes], off, b.BS); d != nil {
				d.Detail += fmt.Sprintf("; block %d of the span", k)
				return d
			}
		}
		s.run.Eval(fmt.Sprintf("blocks|x0=%d|span=%d|y=%d|z=%d", x0-b.Origin[0], span, y-b.Origin[1], z-b.Origin[2]))
	}
	checkStream := func(kind, url string, inBox func(c [3]int) bool) *ivDivergence {
		r := s.http("GET", url, nil)
		if r.Status != 200 {
			return s.div(kind, v, "GET "+url, "status", 200, fmt.Sprintf("%d %s", r.Status, r.Bytes()))
		}
		blocks, err := parseBlockStream(r.Bytes())
		if err != nil {
			return s.div(kind, v, "GET "+url, "unparsable block stream: "+err.Error(), nil, hexs(r.Bytes()))
		}
		for c, data := range blocks {
			if !inBox(c) {
				return s.div(kind, v, "GET "+url, fmt.Sprintf("block %v was not requested", c), nil, nil)
			}
			want, _ := expBlock(c[0], c[1], c[2])
			off := [3]int{c[0] * b.BS[0], c[1] * b.BS[1], c[2] * b.BS[2]}
			if d := cmp(kind, url, want, data, off, b.BS); d != nil {
				d.Detail += fmt.Sprintf("; block %v", c)
				return d
			}
		}
		// every written block of the request must be in the stream
		for x := b.Origin[0] - 1; x <= b.Origin[0]+s.lat.NB[0]; x++ {
			for y := b.Origin[1] - 1; y <= b.Origin[1]+s.lat.NB[1]; y++ {
				for z := b.Origin[2] - 1; z <= b.Origin[2]+s.lat.NB[2]; z++ {
					c := [3]int{x, y, z}
					if !inBox(c) {
						continue
					}
					if _, written := expBlock(x, y, z); written {
						if _, ok := blocks[c]; !ok {
							return s.div(kind, v, "GET "+url, fmt.Sprintf("written block %v missing from the stream", c), nil, nil)
						}
					}
				}
			}
		}
		return nil
	}
	// GET subvolblocks over a block-aligned box inside lattice + margin
	{
		var lo, hi [3]int
		for a := 0; a < 3; a++ {
			p := s.rng.Intn(s.lat.NB[a] + 2)
			q := s.rng.Intn(s.lat.NB[a] + 2)
			if p > q {
				p, q = q, p
			}
			lo[a], hi[a] = b.Origin[a]-1+p, b.Origin[a]-1+q
		}
		off := [3]int{lo[0] * b.BS[0], lo[1] * b.BS[1], lo[2] * b.BS[2]}
		size := [3]int{(hi[0] - lo[0] + 1) * b.BS[0], (hi[1] - lo[1] + 1) * b.BS[1], (hi[2] - lo[2] + 1) * b.BS[2]}
		url := base + "subvolblocks/" + us(size) + "/" + us(off) + "?compression=uncompressed"
		if d := checkStream("read-subvolblocks", url, func(c [3]int) bool {
			return c[0] >= lo[0] && c[0] <= hi[0] && c[1] >= lo[1] && c[1] <= hi[1] && c[2] >= lo[2] && c[2] <= hi[2]
		}); d != nil {
			return d
		}
		s.run.Eval(fmt.Sprintf("subvolblocks|%v|%v", [3]int{lo[0] - b.Origin[0], lo[1] - b.Origin[1], lo[2] - b.Origin[2]}, [3]int{hi[0] - lo[0], hi[1] - lo[1], hi[2] - lo[2]}))
	}
	// GET specificblocks for a seeded list of blocks
	{
		want := map[[3]int]bool{}
		var list []string
		n := 1 + s.rng.Intn(5)
		for len(want) < n {
			c := [3]int{b.Origin[0] - 1 + s.rng.Intn(s.lat.NB[0]+2), b.Origin[1] - 1 + s.rng.Intn(s.lat.NB[1]+2), b.Origin[2] - 1 + s.rng.Intn(s.lat.NB[2]+2)}
			if want[c] {
				continue
			}
			want[c] = true
			list = append(list, fmt.Sprintf("%d,%d,%d", c[0], c[1], c[2]))
		}
		url := base + "specificblocks?compression=uncompressed&blocks=" + strings.Join(list, ",")
		if d := checkStream("read-specificblocks", url, func(c [3]int) bool { return want[c] }); d != nil {
			return d
		}
		s.run.Eval(fmt.Sprintf("specificblocks|%d", n))
	}
	return nil
}

// replay runs one behaviour on node n; nil = conforms.
type ivDied struct{ d *ivDivergence }

func ivReplay(c *Ctx, run *ev.Run, n *node.Node, part string, lat ivLattice, classes [3][][2]int, beh *ivBeh, bind ivBind, seed int64, nreads int, cnt *ivCounters) (div *ivDivergence) {
	defer func() {
		if e := recover(); e != nil {
			if dd, ok := e.(ivDied); ok {
				div = dd.d
				return
			}
			panic(e)
		}
	}()
	s := &ivSession{c: c, run: run, n: n, lat: lat, classes: classes, bind: bind, beh: beh, rng: rand.New(rand.NewSource(seed)), cnt: cnt, part: part, nreads: nreads}
	s.setup()
	if d := s.apply(); d != nil {
		return d
	}
	// versions in seeded order so that a read at one version cannot hide behind another
	for _, vi := range s.rng.Perm(beh.Fin.Nver) {
		if d := s.verify(vi + 1); d != nil {
			return d
		}
	}
	return nil
}

// known defects of imageblk this check can run into (known_findings.json)
func ivKnownID(d *ivDivergence) string {
	usesBlocksPost := false
	for _, o := range d.Hist {
		if o.Op == "write" && o.API == "blocks" {
			usesBlocksPost = true
		}
	}
	switch {
	case usesBlocksPost && d.Bind.BPV > 1 && d.Kind != "extents":
		return "post-blocks-ignores-voxel-width"
	case usesBlocksPost && d.Kind == "extents":
		return "post-blocks-no-extents"
	case d.Bind.BG != 0 && strings.HasPrefix(d.Kind, "read-") && d.Kind != "read-blocks":
		return "background-not-applied-to-missing-blocks"
	}
	return ""
}

func ivBinding(rng *rand.Rand, i int, lat ivLattice, thorough bool) ivBind {
	t := ivTypes[i%len(ivTypes)]
	sizes := [][3]int{{8, 16, 4}, {12, 6, 10}, {6, 4, 8}, {16, 16, 16}}
	bs := sizes[rng.Intn(len(sizes))]
	if bs[0] == 16 && t.BPV > 2 && rng.Intn(3) > 0 {
		bs = sizes[rng.Intn(3)]
	}
	if thorough && t.BPV <= 2 && rng.Intn(12) == 0 {
		bs = [3]int{32, 32, 32}
	}
	var org [3]int
	for a := 0; a < 3; a++ {
		switch rng.Intn(4) {
		case 0:
			org[a] = -lat.NB[a] - rng.Intn(3) // wholly negative
		case 1:
			org[a] = -1 - rng.Intn(lat.NB[a]) // straddles zero (or ends at -1)
			if org[a] < -lat.NB[a]+1 && lat.NB[a] > 1 {
				org[a] = -lat.NB[a] + 1
			}
		case 2:
			org[a] = 0
		default:
			org[a] = 1 + rng.Intn(40)
		}
	}
	b := ivBind{Type: t.Name, BPV: t.BPV, BS: bs, Origin: org, Seed: rng.Uint64()}
	if t.BPV == 1 && rng.Intn(3) == 0 {
		b.BG = byte(1 + rng.Intn(255))
	}
	return b
}

// ivGenCases generates seeded request sequences for part B.
func ivGenCases(rng *rand.Rand, lat ivLattice, n, maxVer, maxWrites int) [][]ivOp {
	var out [][]ivOp
	for len(out) < n {
		nver := 1
		open := []bool{true}
		nw := 0
		var ops []ivOp
		steps := 3 + rng.Intn(maxWrites+maxVer-3)
		for len(ops) < steps {
			if nver < maxVer && rng.Intn(4) == 0 {
				p := 1 + rng.Intn(nver)
				ops = append(ops, ivOp{Op: "newver", V: p})
				open[p-1] = false
				open = append(open, true)
				nver++
				continue
			}
			if nw >= maxWrites {
				break
			}
			var ov []int
			for v, o := range open {
				if o {
					ov = append(ov, v+1)
				}
			}
			o := ivOp{Op: "write", V: ov[rng.Intn(len(ov))], API: "raw", Mutate: rng.Intn(2) == 0, Box: &ivBox{}}
			for a := 0; a < 3; a++ {
				p, q := rng.Intn(lat.NB[a]), rng.Intn(lat.NB[a])
				if p > q {
					p, q = q, p
				}
				o.Box.Lo[a], o.Box.Hi[a] = p, q
			}
			switch rng.Intn(4) {
			case 0:
				o.API = "blocks"
				o.Box.Hi[1], o.Box.Hi[2] = o.Box.Lo[1], o.Box.Lo[2]
			case 1, 2:
				o.Roi = rng.Intn(len(lat.Rois) + 1)
			}
			ops = append(ops, o)
			nw++
		}
		if nw == 0 {
			continue
		}
		out = append(out, ops)
	}
	return out
}

func checkC17(c *Ctx) int {
	run := ev.NewRun("C17", c.Tier, "model_checking")
	t0 := time.Now()
	rng := rand.New(rand.NewSource(c.Seed))
	var cnt ivCounters
	var states, trans int64
	var cfgs []string

	// ---- part B (prepared first, evaluated by TLC concurrently with part A): seeded longer
	// sequences on a larger lattice
	latB := ivLattice{NB: [3]int{3, 2, 2}}
	for len(latB.Rois) < 2 {
		k := 1 + rng.Intn(4)
		seen := map[int]bool{}
		var ids []int
		for len(ids) < k {
			id := 1 + rng.Intn(latB.nblocks())
			if !seen[id] {
				seen[id] = true
				ids = append(ids, id)
			}
		}
		// sorted by id = sorted by (z, y, x): the order the roi endpoint expects of spans
		sort.Ints(ids)
		latB.Rois = append(latB.Rois, ids)
	}
	casesB := ivGenCases(rng, latB, c.pick(250, 1600), 4, 6)
	var behsB []*ivBeh
	var rB *tlc.Result
	doneB := make(chan interface{}, 1)
	go func() {
		defer func() { doneB <- recover() }()
		behsB, rB = ivEvalCases(c, latB, 4, 6, casesB)
	}()

	// ---- part A: exhaustive exploration
	latA := ivLattice{NB: [3]int{2, 2, 1}, Rois: [][]int{{1}, {2, 3}}}
	maxVerA := c.pick(2, 3)
	behsA, classesA, rA := ivExplore(c, latA, maxVerA, 2)
	states += rA.Distinct
	trans += rA.Generated
	cfgs = append(cfgs, fmt.Sprintf("ImageVol_mc lattice %v rois %v MaxVersions=%d MaxWrites=2: %d states, %d maximal behaviours (TLC %.0fs)", latA.NB, latA.Rois, maxVerA, rA.Distinct, len(behsA), rA.WallS))
	if e := <-doneB; e != nil {
		panic(e)
	}
	states += rB.Distinct
	trans += rB.Generated
	classesB := ivClasses(rB)
	cfgs = append(cfgs, fmt.Sprintf("ImageVol_cases lattice %v rois %v: %d seeded request sequences (3-9 requests, <= 4 versions) evaluated and claim-checked by TLC (%.0fs)", latB.NB, latB.Rois, len(casesB), rB.WallS))

	// ---- select what is replayed
	type job struct {
		part    string
		lat     ivLattice
		classes [3][][2]int
		beh     *ivBeh
		bind    ivBind
		seed    int64
		nreads  int
	}
	var jobs []job
	for k, b := range behsB {
		jobs = append(jobs, job{"B", latB, classesB, b, ivBinding(rng, k+3, latB, c.thorough()), rng.Int63(), 2})
	}
	// part A in seeded order: what the time budget cuts off is a seeded remainder
	budgetA := c.pick(2000, len(behsA))
	permA := rng.Perm(len(behsA))
	if len(permA) > budgetA {
		permA = permA[:budgetA]
	}
	for k, i := range permA {
		jobs = append(jobs, job{"A", latA, classesA, behsA[i], ivBinding(rng, k, latA, c.thorough()), rng.Int63(), c.pick(2, 1)})
	}
	// ---- replay
	workers := 16
	nodes := make([]*node.Node, workers)
	used := make([]int, workers)
	var mu sync.Mutex
	var replayed, sampled int64
	kinds := map[string]int{}
	deadline := t0.Add(time.Duration(c.pick(48, 500)) * time.Second)
	var skipped, strayDeaths int64
	parallel(len(jobs), workers, func(w, i int) {
		if time.Now().After(deadline) {
			atomic.AddInt64(&skipped, 1)
			return
		}
		j := jobs[i]
		if nodes[w] == nil || used[w] >= 150 || !nodes[w].Alive() {
			if nodes[w] != nil {
				c.DropNode(nodes[w])
			}
			nodes[w] = c.StartNode(node.Config{NoLog: true})
			used[w] = 0
		}
		used[w]++
		d := ivReplay(c, run, nodes[w], j.part, j.lat, j.classes, j.beh, j.bind, j.seed, j.nreads, &cnt)
		atomic.AddInt64(&replayed, 1)
		if k := atomic.AddInt64(&sampled, 1); k <= 2 || (j.part == "A" && k%2000 == 0) {
			run.Sample(map[string]interface{}{"part": j.part, "lattice_blocks": j.lat.NB, "rois": j.lat.Rois, "binding": j.bind, "requests": j.beh.Hist, "expected_block_map_per_version": j.beh.Fin.Vol})
		}
		if d == nil {
			return
		}
		// reproduce on a fresh node before reporting
		fresh := c.StartNode(node.Config{NoLog: true})
		d2 := ivReplay(c, run, fresh, j.part, j.lat, j.classes, j.beh, j.bind, j.seed, j.nreads, &cnt)
		c.DropNode(fresh)
		if d2 == nil && d.Kind == "server-died" {
			// the process died, but not because of this behaviour (e.g. a goroutine of an
			// earlier request): not attributable; never a silent pass (see below)
			atomic.AddInt64(&strayDeaths, 1)
			return
		}
		if d2 == nil {
			infra("divergence %s (%s) not reproduced on a fresh node", d.Kind, d.Request)
		}
		d = d2
		mu.Lock()
		kinds[d.Kind]++
		mu.Unlock()
		if id := ivKnownID(d); id != "" && run.KnownActive(id) {
			run.ReportKnown(id)
			return
		}
		run.Violation("c17", d)
	})
	for _, n := range nodes {
		if n != nil {
			c.DropNode(n)
		}
	}
	// ---- part C: direct ReadBlock / WriteBlock sweep
	nC, distinctC := ivTransferSweep(c, run, rng)
	// ---- part D: stacks of XY images through the load command of the RPC path (c17_rpc.go, specs/ImageSlices.tla)
	nSliceSeqs, nSliceVoxels, _ := imgSliceReplay(c, run)
	run.Set("slice_stack_sequences_replayed", nSliceSeqs)
	run.Set("slice_stack_voxels_compared", nSliceVoxels)

	if strayDeaths > 0 && run.Violations() == 0 {
		infra("the server process died %d times during the run without a reproducible cause", strayDeaths)
	}
	run.Set("unattributed_server_deaths", strayDeaths)
	run.Set("states", states)
	run.Set("transitions", trans)
	run.Set("traces_validated_against_impl", replayed)
	run.Set("evaluations", cnt.reads+nC)
	run.Set("voxels_compared", cnt.voxels)
	run.Set("http_requests", cnt.requests)
	run.Set("behaviours_emitted_by_tlc", len(behsA)+len(behsB))
	run.Set("behaviours_not_replayed_time_budget", skipped)
	run.Set("transfer_sweep_geometries", nC)
	run.Set("transfer_sweep_distinct_classes", distinctC)
	run.Set("configurations", cfgs)
	run.Set("divergence_kinds", kinds)
	run.Set("exhaustive", false)
	run.Set("rule", "part A: TLC (ImageVol_mc) explores every sequence of <= 2 block-aligned writes (POST raw/0_1_2 ingest|mutate x no ROI|ROI of 1 block|ROI of 2 diagonal blocks, POST blocks ingest|mutate over every X row) and version steps (commit+newversion / branch) on a 2x2x1 block lattice, checks StateOK/StepClaims, and prints every maximal behaviour with the expected block map, extents and written hull of every version; the harness replays a seeded selection (quick) or all within the time budget (thorough) on a fresh repo each, binding the lattice to a seeded voxel type (all six), block size (anisotropic 8x16x4, 12x6x10, 6x4x8, 16^3, thorough also 32^3), block origin (negative, straddling zero, zero, positive) and background (uint8blk only, 1/3 non-zero), payload voxels = fixed hash f(write id, x, y, z). part B: seeded sequences of 3-9 requests on a 3x2x2 lattice with up to 4 versions and seeded ROIs, claim-checked and evaluated by TLC (ImageVol_cases). Reads per version: info+metadata extents cover the written hull; one 3-D read of lattice+1 block margin; per structural class (TLC: AxisClasses = first/last half-block cell per axis incl. a one-block margin) seeded concrete 3-D boxes and XY/XZ/YZ PNG slices; GET blocks rows, subvolblocks boxes, specificblocks lists. Expected voxel = f(spec write id of its block) or background. A divergence is re-run on a fresh node before it is reported. distinct_nontrivial = distinct (endpoint, structural read class) pairs read + distinct transfer classes; part C sweeps Voxels.ReadBlock/WriteBlock directly (all 4 shapes x offsets/sizes around a block, anisotropic block) against the same f.")
	run.Assume = []string{
		"block content is determined by the last write of the block (writes are block aligned, as the API requires)",
		"a non-zero Background is only used with uint8blk (imageblk applies it only to 1-byte voxels)",
		"2-D slices are read as PNG (lossless for all six voxel types); jpeg and isotropic reads are not lossless and not checked",
		"the ROI instance has the same block size as the image instance",
		"extents are only required to cover the written voxels (property), not to be tight",
	}
	fmt.Printf("C17: TLC %d states; replayed %d behaviours (%d skipped by time budget), %d reads / %d voxels compared, %d transfer geometries in %.1fs; violations=%d\n",
		states, replayed, skipped, cnt.reads, cnt.voxels, nC, since(t0), run.Violations())
	return run.Finish()
}

