package main

import (
	"bytes"
	"encoding/binary"
	"encoding/json"
	"fmt"
	"image"
	"image/png"
	"math"
	"math/rand"
	"os"
	"path/filepath"
	"sort"
	"strings"
	"sync"
	"sync/atomic"
	"time"

	"github.com/janelia-flyem/dvid/dvid"

	"verifharness/internal/ev"
	"verifharness/internal/node"
	"verifharness/internal/tlc"
)

// C17: image volumes return exactly the voxels that were written.
//
// Specification: specs/ImageVol.tla (versioned map block -> write id, requests write /
// newver, reads as state functions, the claims of the property as StepClaims / StateOK).
//   part A  ImageVol_mc:    TLC explores every request sequence within the bounds, checks the
//                           claims and prints every maximal behaviour with the projection of
//                           its final state; the harness replays them on the real code.
//                           Three configurations: A1 aligned writes on 2x2x1 blocks; A2 one write,
//                           one change of a region of interest and one POST extents in every order
//                           on 2x1x1 blocks (incl. a region of another block size); A3/A4 one file
//                           load (unaligned slab of XY images) and one aligned write on 2x1x1 / 1x1x2.
//   part B  ImageVol_cases: seeded longer request sequences on a larger lattice; TLC checks
//                           the claims along each and evaluates the final state (oracle).
//   part C  (exploration)   Voxels.ReadBlock / WriteBlock called directly over swept
//                           sub-block geometries (package-level mechanism of the property).
// The harness refines a write id to voxels with the fixed function ivVoxel and a cell / block
// of the specification to voxel coordinates; it does not compute what a request does.

func init() { checks["C17"] = checkC17 }

type ivBox struct {
	Lo [3]int `json:"lo"`
	Hi [3]int `json:"hi"`
}

type ivOp struct {
	Op     string `json:"op"` // write | load | newver | setroi | setext
	V      int    `json:"v"`
	API    string `json:"api,omitempty"`
	Mutate bool   `json:"mutate,omitempty"`
	Box    *ivBox `json:"box,omitempty"` // write: block box; setext: cell box
	Roi    int    `json:"roi,omitempty"`
	CBox   *ivBox `json:"cbox,omitempty"`   // load: cell box (cells = half blocks)
	Blocks []int  `json:"blocks,omitempty"` // setroi: the new block set (empty = DELETE roi)
}

type ivFin struct {
	Nver   int         `json:"nver"`
	Par    []int       `json:"par"`
	Open   []bool      `json:"open"`
	Vol    [][]int     `json:"vol"`    // [version-1][block id-1] = aligned write id, 0 = none
	CVol   [][][]int   `json:"cvol"`   // [version-1][region, 0 = none][cell id-1] = write id read there, 0 = background
	Stored [][]int     `json:"stored"` // [version-1][block id-1] = 1 if the block is stored
	Roi    [][][]int   `json:"roi"`    // [version-1][region-1] = block ids
	Ext    [][2][3]int `json:"ext"`    // advertised extents (cell box), lo > hi = none
	Hull   [][2][3]int `json:"hull"`   // hull of the written cells, lo > hi = none
}

type ivBeh struct {
	Hist []ivOp `json:"hist"`
	Fin  ivFin  `json:"fin"`
}

type ivLattice struct {
	NB      [3]int  `json:"nb"`
	Rois    [][]int `json:"rois"`              // block ids per ROI (at the root version)
	Alts    [][]int `json:"roi_alternatives"`  // block sets a ROI is changed to by setroi
	Foreign []int   `json:"rois_of_other_block_size,omitempty"`
}

// ivBounds are the bounds of one TLC configuration.
type ivBounds struct {
	MaxVer, MaxWrites, MaxRoiOps, MaxExtOps, MaxLoads int
}

func (l ivLattice) isForeign(r int) bool {
	for _, f := range l.Foreign {
		if f == r {
			return true
		}
	}
	return false
}

// cid is the cell id of lattice-relative cell coordinates (0 = outside the lattice).
func (l ivLattice) cid(c [3]int) int {
	for a := 0; a < 3; a++ {
		if c[a] < 0 || c[a] >= 2*l.NB[a] {
			return 0
		}
	}
	return 1 + c[0] + 2*l.NB[0]*(c[1]+2*l.NB[1]*c[2])
}

func (l ivLattice) nblocks() int { return l.NB[0] * l.NB[1] * l.NB[2] }
func (l ivLattice) bid(x, y, z int) int {
	if x < 0 || y < 0 || z < 0 || x >= l.NB[0] || y >= l.NB[1] || z >= l.NB[2] {
		return 0
	}
	return 1 + x + l.NB[0]*(y+l.NB[1]*z)
}
func (l ivLattice) bc(b int) [3]int {
	b--
	return [3]int{b % l.NB[0], (b / l.NB[0]) % l.NB[1], b / (l.NB[0] * l.NB[1])}
}

func ivIntSet(ids []int) string {
	var s []string
	for _, b := range ids {
		s = append(s, fmt.Sprint(b))
	}
	return "{" + strings.Join(s, ", ") + "}"
}

func ivSetSeq(sets [][]int) string {
	var parts []string
	for _, r := range sets {
		parts = append(parts, ivIntSet(r))
	}
	return "<< " + strings.Join(parts, ", ") + " >>"
}

// defsTLA are the definitions the generated constant module carries for the lattice.
func (l ivLattice) defsTLA() string {
	return fmt.Sprintf("RoisDef == %s\nRoiAltsDef == %s\nRoiForeignDef == %s\n", ivSetSeq(l.Rois), ivSetSeq(l.Alts), ivIntSet(l.Foreign))
}

func (l ivLattice) cfg(b ivBounds, rest string) string {
	return fmt.Sprintf("SPECIFICATION Spec\nCONSTANTS\n  NBX = %d\n  NBY = %d\n  NBZ = %d\n  MaxVersions = %d\n  MaxWrites = %d\n  Rois <- RoisDef\n  RoiAlts <- RoiAltsDef\n  RoiForeign <- RoiForeignDef\n  MaxRoiOps = %d\n  MaxExtOps = %d\n  MaxLoads = %d\n%s\nCHECK_DEADLOCK FALSE\n",
		l.NB[0], l.NB[1], l.NB[2], b.MaxVer, b.MaxWrites, b.MaxRoiOps, b.MaxExtOps, b.MaxLoads, rest)
}

// ivExplore runs one configuration of part A in TLC.
func ivExplore(c *Ctx, lat ivLattice, b ivBounds) (behs []*ivBeh, classes [3][][2]int, r *tlc.Result) {
	gen := fmt.Sprintf("---- MODULE ImageVolGen ----\n%sEmitOn == TRUE\n====\n", lat.defsTLA())
	cfg := lat.cfg(b, "INVARIANTS Inv_C17_State Inv_C17_RunAgrees Emit\nPROPERTIES Act_C17_Step")
	r = c.MustModelCheck(tlc.Opts{Module: "ImageVol_mc", Config: "gen_iv.cfg", HeapGB: 3,
		Files:   map[string][]byte{"ImageVolGen.tla": []byte(gen), "gen_iv.cfg": []byte(cfg)},
		Timeout: 15 * time.Minute})
	gotClasses := false
	PrintedJSON(r.Output, func(raw []byte) {
		if bytes.HasPrefix(raw, []byte(`{"classes"`)) {
			var o struct {
				Classes [3][][2]int `json:"classes"`
			}
			if json.Unmarshal(raw, &o) == nil {
				classes = o.Classes
				gotClasses = true
			}
			return
		}
		var b ivBeh
		if err := json.Unmarshal(raw, &b); err != nil || len(b.Hist) == 0 {
			return
		}
		behs = append(behs, &b)
	})
	if !gotClasses || len(behs) == 0 {
		infra("ImageVol_mc emitted %d behaviours, classes=%v: %s", len(behs), gotClasses, r.Tail(1500))
	}
	return
}

func ivBoxTLA(b *ivBox) string {
	return fmt.Sprintf("[lo |-> <<%d, %d, %d>>, hi |-> <<%d, %d, %d>>]", b.Lo[0], b.Lo[1], b.Lo[2], b.Hi[0], b.Hi[1], b.Hi[2])
}

func ivOpTLA(o ivOp) string {
	switch o.Op {
	case "newver":
		return fmt.Sprintf(`[op |-> "newver", v |-> %d]`, o.V)
	case "load":
		return fmt.Sprintf(`[op |-> "load", v |-> %d, cbox |-> %s]`, o.V, ivBoxTLA(o.CBox))
	case "setroi":
		return fmt.Sprintf(`[op |-> "setroi", v |-> %d, roi |-> %d, blocks |-> %s]`, o.V, o.Roi, ivIntSet(o.Blocks))
	case "setext":
		return fmt.Sprintf(`[op |-> "setext", v |-> %d, box |-> %s]`, o.V, ivBoxTLA(o.Box))
	}
	m := "FALSE"
	if o.Mutate {
		m = "TRUE"
	}
	return fmt.Sprintf(`[op |-> "write", v |-> %d, api |-> "%s", mutate |-> %s, box |-> [lo |-> <<%d, %d, %d>>, hi |-> <<%d, %d, %d>>], roi |-> %d]`,
		o.V, o.API, m, o.Box.Lo[0], o.Box.Lo[1], o.Box.Lo[2], o.Box.Hi[0], o.Box.Hi[1], o.Box.Hi[2], o.Roi)
}

// ivClasses extracts the per-axis read classes printed by the specification.
func ivClasses(r *tlc.Result) (classes [3][][2]int) {
	got := false
	PrintedJSON(r.Output, func(raw []byte) {
		if bytes.HasPrefix(raw, []byte(`{"classes"`)) {
			var o struct {
				Classes [3][][2]int `json:"classes"`
			}
			if json.Unmarshal(raw, &o) == nil {
				classes = o.Classes
				got = true
			}
		}
	})
	if !got {
		infra("specification printed no read classes: %s", r.Tail(1000))
	}
	return
}

// ivEvalCases runs part B in TLC: claims along every sequence + final projections.
func ivEvalCases(c *Ctx, lat ivLattice, b ivBounds, cases [][]ivOp) ([]*ivBeh, *tlc.Result) {
	var sb strings.Builder
	fmt.Fprintf(&sb, "---- MODULE ImageVolCases ----\nEXTENDS Integers\n%sCases == <<\n", lat.defsTLA())
	for i, cs := range cases {
		if i > 0 {
			sb.WriteString(",\n")
		}
		ops := make([]string, len(cs))
		for j, o := range cs {
			ops[j] = ivOpTLA(o)
		}
		sb.WriteString(" << " + strings.Join(ops, ",\n    ") + " >>")
	}
	sb.WriteString("\n>>\n====\n")
	cfg := lat.cfg(b, "INVARIANTS AllClaims EmitCases")
	r := c.MustModelCheck(tlc.Opts{Module: "ImageVol_cases", Config: "gen_ivc.cfg", Workers: 1, HeapGB: 3,
		Files:   map[string][]byte{"ImageVolCases.tla": []byte(sb.String()), "gen_ivc.cfg": []byte(cfg)},
		Timeout: 15 * time.Minute, Xss: "256m"})
	var out []*ivBeh
	PrintedJSON(r.Output, func(raw []byte) {
		var fins []ivFin
		if err := json.Unmarshal(raw, &fins); err != nil || len(fins) != len(cases) {
			return
		}
		out = out[:0]
		for i := range fins {
			out = append(out, &ivBeh{Hist: cases[i], Fin: fins[i]})
		}
	})
	if len(out) != len(cases) {
		infra("ImageVol_cases emitted nothing usable: %s", r.Tail(1500))
	}
	return out, r
}

// ---------------------------------------------------------------------------
// binding of the abstract lattice to a concrete instance

var ivTypes = []struct {
	Name string
	BPV  int
}{{"uint8blk", 1}, {"uint16blk", 2}, {"uint32blk", 4}, {"uint64blk", 8}, {"float32blk", 4}, {"rgba8blk", 4}}

type ivBind struct {
	Type   string `json:"type"`
	BPV    int    `json:"bytes_per_voxel"`
	BS     [3]int `json:"block_size"`
	Origin [3]int `json:"origin_block"` // DVID block coordinate of lattice block (0,0,0)
	BG     byte   `json:"background"`
	Seed   uint64 `json:"value_seed"`
	Comp   string `json:"compression,omitempty"` // instance setting Compression ("" = default lz4)
	Csum   string `json:"checksum,omitempty"`    // instance setting Checksum ("" = default)
	ExtCfg bool   `json:"minmax_config,omitempty"`
	RoiBS  [3]int `json:"block_size_of_foreign_roi"`
	Spans  int    `json:"roi_span_style"` // 0 one span per block, 1 maximal runs along X, 2 runs + redundant single-block spans
}

func ivMix(h uint64) uint64 {
	h += 0x9E3779B97F4A7C15
	h = (h ^ (h >> 30)) * 0xBF58476D1CE4E5B9
	h = (h ^ (h >> 27)) * 0x94D049BB133111EB
	return h ^ (h >> 31)
}

// bgVoxel writes the bytes of the background voxel: every element of the voxel holds the
// configured Background integer in the element's own type (little endian, as voxels are stored).
func (b *ivBind) bgVoxel(dst []byte) {
	for i := range dst {
		dst[i] = 0
	}
	if b.BG == 0 {
		return
	}
	switch b.Type {
	case "uint8blk", "uint16blk", "uint32blk", "uint64blk":
		dst[0] = b.BG
	case "float32blk":
		binary.LittleEndian.PutUint32(dst, math.Float32bits(float32(b.BG)))
	case "rgba8blk":
		for i := range dst {
			dst[i] = b.BG
		}
	}
}

// ivVoxel is the fixed refinement f(write id, x, y, z): the bytes of one voxel.  The first
// byte always differs from the background's so that a written voxel never looks unwritten.
func (b *ivBind) ivVoxel(dst []byte, w int, x, y, z int) {
	h := ivMix(b.Seed + uint64(w)*0x100000001B3)
	h = ivMix(h ^ uint64(uint32(int32(x))))
	h = ivMix(h ^ uint64(uint32(int32(y)))<<7)
	h = ivMix(h ^ uint64(uint32(int32(z)))<<13)
	for i := range dst {
		dst[i] = byte(h >> (8 * uint(i)))
	}
	var bg [8]byte
	b.bgVoxel(bg[:len(dst)])
	if dst[0] == bg[0] {
		dst[0] = bg[0] ^ 0x5A
	}
}

func floorDiv(a, b int) int {
	q := a / b
	if a%b != 0 && (a < 0) != (b < 0) {
		q--
	}
	return q
}

// expectVoxel writes the expected bytes of voxel (x,y,z) given the cell map of the
// specification (cell id -> write id read there, 0 = background).
func (b *ivBind) expectVoxel(dst []byte, lat ivLattice, cmap []int, x, y, z int) {
	p := [3]int{x, y, z}
	var c [3]int
	for a := 0; a < 3; a++ {
		c[a] = floorDiv(p[a]-b.Origin[a]*b.BS[a], b.BS[a]/2)
	}
	if id := lat.cid(c); id != 0 {
		if w := cmap[id-1]; w != 0 {
			b.ivVoxel(dst, w, x, y, z)
			return
		}
	}
	b.bgVoxel(dst)
}

// expectBox fills the expected bytes of the voxel box [off, off+size) in x-fastest order.
func (b *ivBind) expectBox(lat ivLattice, cmap []int, off, size [3]int) []byte {
	out := make([]byte, size[0]*size[1]*size[2]*b.BPV)
	i := 0
	for z := 0; z < size[2]; z++ {
		for y := 0; y < size[1]; y++ {
			for x := 0; x < size[0]; x++ {
				b.expectVoxel(out[i:i+b.BPV], lat, cmap, off[0]+x, off[1]+y, off[2]+z)
				i += b.BPV
			}
		}
	}
	return out
}

// writeData is the payload of write number w over the voxel box.
func (b *ivBind) writeData(w int, off, size [3]int) []byte {
	out := make([]byte, size[0]*size[1]*size[2]*b.BPV)
	i := 0
	for z := 0; z < size[2]; z++ {
		for y := 0; y < size[1]; y++ {
			for x := 0; x < size[0]; x++ {
				b.ivVoxel(out[i:i+b.BPV], w, off[0]+x, off[1]+y, off[2]+z)
				i += b.BPV
			}
		}
	}
	return out
}

// sliceImage is the XY image of write number w at depth z: the voxel bytes are the pixel bytes.
func (b *ivBind) sliceImage(w int, off, size [3]int, z int) image.Image {
	pix := b.writeData(w, [3]int{off[0], off[1], z}, [3]int{size[0], size[1], 1})
	r := image.Rect(0, 0, size[0], size[1])
	switch b.BPV {
	case 1:
		return &image.Gray{Pix: pix, Stride: size[0], Rect: r}
	case 2:
		return &image.Gray16{Pix: pix, Stride: 2 * size[0], Rect: r}
	case 4:
		return &image.NRGBA{Pix: pix, Stride: 4 * size[0], Rect: r}
	}
	return &image.NRGBA64{Pix: pix, Stride: 8 * size[0], Rect: r}
}
type ivDivergence struct {
	ReadSeed int64       `json:"read_seed"`
	NReads   int         `json:"class_reads_per_version"`
	Kind     string      `json:"kind"`
	Part     string      `json:"part"`
	Lattice  ivLattice   `json:"lattice"`
	Bind     ivBind      `json:"binding"`
	Hist     []ivOp      `json:"requests"`
	Version  int         `json:"version,omitempty"`
	Request  string      `json:"request"`
	Detail   string      `json:"detail,omitempty"`
	Expected interface{} `json:"expected,omitempty"`
	Observed interface{} `json:"observed,omitempty"`
	Final    *ivFin      `json:"expected_final_state,omitempty"`
	Script   []string    `json:"script,omitempty"`
}

func hexs(b []byte) string {
	if len(b) > 32 {
		return fmt.Sprintf("%x...(%d bytes)", b[:32], len(b))
	}
	return fmt.Sprintf("%x", b)
}

// firstDiff describes the first differing voxel of two x-fastest buffers.
func firstDiff(want, got []byte, bpv int, off, size [3]int) string {
	if len(want) != len(got) {
		return fmt.Sprintf("length %d, expected %d", len(got), len(want))
	}
	for i := 0; i+bpv <= len(want); i += bpv {
		if !bytes.Equal(want[i:i+bpv], got[i:i+bpv]) {
			k := i / bpv
			x := k % size[0]
			y := (k / size[0]) % size[1]
			z := k / (size[0] * size[1])
			nd := 0
			for j := 0; j+bpv <= len(want); j += bpv {
				if !bytes.Equal(want[j:j+bpv], got[j:j+bpv]) {
					nd++
				}
			}
			return fmt.Sprintf("voxel (%d,%d,%d): expected %x observed %x; %d of %d voxels differ", off[0]+x, off[1]+y, off[2]+z, want[i:i+bpv], got[i:i+bpv], nd, len(want)/bpv)
		}
	}
	return ""
}

// decodePNG returns the pixel bytes of a PNG in the byte layout of the voxel type.
func decodePNG(b []byte, bpv int) ([]byte, int, int, error) {
	img, err := png.Decode(bytes.NewReader(b))
	if err != nil {
		return nil, 0, 0, err
	}
	r := img.Bounds()
	w, h := r.Dx(), r.Dy()
	var pix []byte
	var stride, bpp int
	swap16 := false
	switch m := img.(type) {
	case *image.Gray:
		pix, stride, bpp = m.Pix, m.Stride, 1
	case *image.Gray16:
		pix, stride, bpp, swap16 = m.Pix, m.Stride, 2, true
	case *image.NRGBA:
		pix, stride, bpp = m.Pix, m.Stride, 4
	case *image.RGBA:
		pix, stride, bpp = m.Pix, m.Stride, 4 // only produced for opaque images: identical bytes
	case *image.NRGBA64:
		pix, stride, bpp = m.Pix, m.Stride, 8
	case *image.RGBA64:
		pix, stride, bpp = m.Pix, m.Stride, 8
	default:
		return nil, w, h, fmt.Errorf("unexpected PNG colour model %T", img)
	}
	if bpp != bpv {
		return nil, w, h, fmt.Errorf("PNG has %d bytes/pixel, voxel type has %d", bpp, bpv)
	}
	out := make([]byte, 0, w*h*bpp)
	for y := 0; y < h; y++ {
		row := pix[y*stride : y*stride+w*bpp]
		if swap16 {
			for i := 0; i+1 < len(row); i += 2 {
				out = append(out, row[i+1], row[i])
			}
		} else {
			out = append(out, row...)
		}
	}
	return out, w, h, nil
}

// parseBlockStream parses the subvolblocks / specificblocks format.
func parseBlockStream(b []byte) (map[[3]int][]byte, error) {
	out := map[[3]int][]byte{}
	for len(b) > 0 {
		if len(b) < 16 {
			return out, fmt.Errorf("truncated block header (%d bytes left)", len(b))
		}
		x := int(int32(binary.LittleEndian.Uint32(b[0:])))
		y := int(int32(binary.LittleEndian.Uint32(b[4:])))
		z := int(int32(binary.LittleEndian.Uint32(b[8:])))
		n := int(int32(binary.LittleEndian.Uint32(b[12:])))
		b = b[16:]
		if n < 0 || n > len(b) {
			return out, fmt.Errorf("block (%d,%d,%d) announces %d bytes, %d left", x, y, z, n, len(b))
		}
		if _, dup := out[[3]int{x, y, z}]; dup {
			return out, fmt.Errorf("block (%d,%d,%d) sent twice", x, y, z)
		}
		out[[3]int{x, y, z}] = b[:n]
		b = b[n:]
	}
	return out, nil
}

// ivCounters are shared measured counts.
type ivCounters struct {
	reads    int64
	voxels   int64
	requests int64
}

// ivSession replays one behaviour.
type ivSession struct {
	c       *Ctx
	run     *ev.Run
	n       *node.Node
	lat     ivLattice
	classes [3][][2]int
	bind    ivBind
	beh     *ivBeh
	rng     *rand.Rand
	cnt     *ivCounters
	part    string
	uuids   []string
	script  []string
	nreads  int // class reads per version and shape
	record  bool
	hasExt  bool // the behaviour posts extents
	seed    int64
}

func (s *ivSession) http(method, url string, body []byte) node.Resp {
	r, err := s.n.HTTP(method, url, body)
	if err == node.ErrDead {
		// the server process died while serving a request of the behaviour: a divergence
		// (reported only if it happens again on a fresh node)
		panic(ivDied{s.div("server-died", 0, method+" "+url, "the server process died while serving this request", nil, s.n.StderrTail(1200))})
	}
	if err != nil {
		infra("%s %s: %v; stderr: %s", method, url, err, s.n.StderrTail(1500))
	}
	atomic.AddInt64(&s.cnt.requests, 1)
	if len(s.script) < 400 {
		s.script = append(s.script, fmt.Sprintf("%s %s [%d body bytes] -> %d", method, url, len(body), r.Status))
	}
	return r
}

func (s *ivSession) div(kind string, v int, req, detail string, want, got interface{}) *ivDivergence {
	return &ivDivergence{ReadSeed: s.seed, NReads: s.nreads, Kind: kind, Part: s.part, Lattice: s.lat, Bind: s.bind, Hist: s.beh.Hist, Version: v,
		Request: req, Detail: detail, Expected: want, Observed: got, Final: &s.beh.Fin, Script: s.script}
}

func us(a [3]int) string { return fmt.Sprintf("%d_%d_%d", a[0], a[1], a[2]) }

// voxel box of a lattice block box
func (s *ivSession) boxVoxels(b *ivBox) (off, size [3]int) {
	for a := 0; a < 3; a++ {
		off[a] = (s.bind.Origin[a] + b.Lo[a]) * s.bind.BS[a]
		size[a] = (b.Hi[a] - b.Lo[a] + 1) * s.bind.BS[a]
	}
	return
}

// voxel box of a cell box (cells have half a block edge)
func (s *ivSession) cellBoxVoxels(b *ivBox) (lo, hi [3]int) {
	for a := 0; a < 3; a++ {
		half := s.bind.BS[a] / 2
		base := s.bind.Origin[a] * s.bind.BS[a]
		lo[a] = base + b.Lo[a]*half
		hi[a] = base + (b.Hi[a]+1)*half - 1
	}
	return
}

// roiSpans turns a block set into the spans [z, y, x0, x1] (DVID block coordinates) posted to
// the roi instance: one span per block, maximal runs along X (multi-block spans), or the runs
// plus redundant single-block spans inside them (overlapping spans).
func (s *ivSession) roiSpans(ids []int) [][4]int {
	ids = append([]int(nil), ids...)
	sort.Ints(ids) // by id = by (z, y, x)
	org := s.bind.Origin
	var spans [][4]int
	for _, id := range ids {
		bc := s.lat.bc(id)
		x, y, z := org[0]+bc[0], org[1]+bc[1], org[2]+bc[2]
		if n := len(spans); s.bind.Spans > 0 && n > 0 && spans[n-1][0] == z && spans[n-1][1] == y && spans[n-1][3] == x-1 {
			spans[n-1][3] = x
			continue
		}
		spans = append(spans, [4]int{z, y, x, x})
	}
	if s.bind.Spans == 2 {
		for _, sp := range append([][4]int(nil), spans...) {
			if sp[3] > sp[2] {
				spans = append(spans, [4]int{sp[0], sp[1], sp[3], sp[3]})
			}
		}
	}
	return spans
}

func (s *ivSession) roiName(r int) string { return fmt.Sprintf("roi%d", r) }

func (s *ivSession) postRoi(u string, r int, ids []int) {
	url := "/api/node/" + u + "/" + s.roiName(r) + "/roi"
	if len(ids) == 0 {
		if rr := s.http("DELETE", url, nil); rr.Status != 200 {
			infra("delete roi: %d %s", rr.Status, rr.Bytes())
		}
		return
	}
	body, _ := json.Marshal(s.roiSpans(ids))
	if rr := s.http("POST", url, body); rr.Status != 200 {
		infra("post roi: %d %s", rr.Status, rr.Bytes())
	}
}

func (s *ivSession) setup() *ivDivergence {
	r := s.http("POST", "/api/repos", []byte(`{"alias":"c17","description":"c17"}`))
	var out struct{ Root string }
	if r.Status != 200 || json.Unmarshal(r.Bytes(), &out) != nil || out.Root == "" {
		infra("new repo: %d %s", r.Status, r.Bytes())
	}
	s.uuids = []string{out.Root}
	bs := fmt.Sprintf("%d,%d,%d", s.bind.BS[0], s.bind.BS[1], s.bind.BS[2])
	cfg := map[string]string{"typename": s.bind.Type, "dataname": "img", "BlockSize": bs}
	if s.bind.BG != 0 {
		cfg["Background"] = fmt.Sprint(s.bind.BG)
	}
	if s.bind.Comp != "" {
		cfg["Compression"] = s.bind.Comp
	}
	if s.bind.Csum != "" {
		cfg["Checksum"] = s.bind.Csum
	}
	if s.bind.ExtCfg {
		// extents given at creation: one voxel somewhere inside the lattice
		p := fmt.Sprintf("%d,%d,%d", s.bind.Origin[0]*s.bind.BS[0]+1, s.bind.Origin[1]*s.bind.BS[1]+1, s.bind.Origin[2]*s.bind.BS[2]+1)
		cfg["MinPoint"], cfg["MaxPoint"] = p, p
	}
	body, _ := json.Marshal(cfg)
	if r := s.http("POST", "/api/repo/"+out.Root+"/instance", body); r.Status != 200 {
		infra("new %s instance: %d %s", s.bind.Type, r.Status, r.Bytes())
	}
	for i, roi := range s.lat.Rois {
		rbs := bs
		if s.lat.isForeign(i + 1) {
			rbs = fmt.Sprintf("%d,%d,%d", s.bind.RoiBS[0], s.bind.RoiBS[1], s.bind.RoiBS[2])
		}
		body, _ := json.Marshal(map[string]string{"typename": "roi", "dataname": s.roiName(i + 1), "BlockSize": rbs})
		if r := s.http("POST", "/api/repo/"+out.Root+"/instance", body); r.Status != 200 {
			infra("new roi instance: %d %s", r.Status, r.Bytes())
		}
		if len(roi) > 0 {
			s.postRoi(out.Root, i+1, roi)
		}
	}
	return nil
}

// apply sends the requests of the behaviour.
func (s *ivSession) apply() *ivDivergence {
	kids := map[int]int{}
	open := map[int]bool{1: true}
	nw := 0
	for i, o := range s.beh.Hist {
		switch o.Op {
		case "newver":
			p := s.uuids[o.V-1]
			if open[o.V] {
				if r := s.http("POST", "/api/node/"+p+"/commit", []byte(`{"note":"c17"}`)); r.Status != 200 {
					infra("commit: %d %s", r.Status, r.Bytes())
				}
				open[o.V] = false
			}
			var r node.Resp
			if kids[o.V] == 0 {
				r = s.http("POST", "/api/node/"+p+"/newversion", []byte(`{"note":"c17"}`))
			} else {
				body, _ := json.Marshal(map[string]string{"branch": fmt.Sprintf("b%d", i), "note": "c17"})
				r = s.http("POST", "/api/node/"+p+"/branch", body)
			}
			var out struct{ Child string }
			if r.Status != 200 || json.Unmarshal(r.Bytes(), &out) != nil || out.Child == "" {
				infra("new version: %d %s", r.Status, r.Bytes())
			}
			kids[o.V]++
			s.uuids = append(s.uuids, out.Child)
			open[len(s.uuids)] = true
		case "setroi":
			s.postRoi(s.uuids[o.V-1], o.Roi, o.Blocks)
		case "setext":
			s.hasExt = true
			lo, hi := s.cellBoxVoxels(o.Box)
			body, _ := json.Marshal(map[string][3]int{"MinPoint": lo, "MaxPoint": hi})
			url := "/api/node/" + s.uuids[o.V-1] + "/img/extents"
			if r := s.http("POST", url, body); r.Status != 200 {
				return s.div("extents-refused", o.V, "POST "+url, fmt.Sprintf("request %d of the behaviour, body %s", i+1, body), 200, fmt.Sprintf("%d %s", r.Status, r.Bytes()))
			}
		case "load":
			nw++
			lo, hi := s.cellBoxVoxels(o.CBox)
			size := [3]int{hi[0] - lo[0] + 1, hi[1] - lo[1] + 1, hi[2] - lo[2] + 1}
			dir := filepath.Join(s.c.Scratch, fmt.Sprintf("ivload-%p-%d", s, nw))
			if err := os.MkdirAll(dir, 0755); err != nil {
				infra("mkdir %s: %v", dir, err)
			}
			var files []string
			for z := 0; z < size[2]; z++ {
				var buf bytes.Buffer
				if err := png.Encode(&buf, s.bind.sliceImage(nw, lo, size, lo[2]+z)); err != nil {
					infra("png encode: %v", err)
				}
				fn := filepath.Join(dir, fmt.Sprintf("s%05d.png", z))
				if err := os.WriteFile(fn, buf.Bytes(), 0644); err != nil {
					infra("write %s: %v", fn, err)
				}
				files = append(files, fn)
			}
			var res struct{ Err string }
			req := fmt.Sprintf("call imageblk.load offset %v, %d XY images of %dx%d", lo, size[2], size[0], size[1])
			err := s.n.Call("imageblk.load", map[string]interface{}{"data": "img", "uuid": s.uuids[o.V-1], "offset": lo, "files": files}, &res)
			os.RemoveAll(dir)
			atomic.AddInt64(&s.cnt.requests, 1)
			if len(s.script) < 400 {
				s.script = append(s.script, req)
			}
			if err == node.ErrDead {
				panic(ivDied{s.div("server-died", o.V, req, "the server process died while loading the images", nil, s.n.StderrTail(1200))})
			}
			if err != nil {
				if _, isCall := err.(*node.CallError); !isCall {
					infra("imageblk.load: %v", err)
				}
				return s.div("load-failed", o.V, req, fmt.Sprintf("request %d of the behaviour", i+1), "loaded", err.Error())
			}
			if res.Err != "" {
				return s.div("load-failed", o.V, req, fmt.Sprintf("request %d of the behaviour", i+1), "loaded", res.Err)
			}
		case "write":
			nw++
			off, size := s.boxVoxels(o.Box)
			data := s.bind.writeData(nw, off, size)
			u := s.uuids[o.V-1]
			var url string
			if o.API == "raw" {
				url = "/api/node/" + u + "/img/raw/0_1_2/" + us(size) + "/" + us(off)
				var q []string
				if o.Roi != 0 {
					q = append(q, "roi="+s.roiName(o.Roi))
				}
				if o.Mutate {
					q = append(q, "mutate=true")
				}
				if len(q) > 0 {
					url += "?" + strings.Join(q, "&")
				}
			} else {
				// a row of whole blocks along X; the payload is block after block
				start := [3]int{s.bind.Origin[0] + o.Box.Lo[0], s.bind.Origin[1] + o.Box.Lo[1], s.bind.Origin[2] + o.Box.Lo[2]}
				span := o.Box.Hi[0] - o.Box.Lo[0] + 1
				data = data[:0]
				for k := 0; k < span; k++ {
					boff := [3]int{(start[0] + k) * s.bind.BS[0], start[1] * s.bind.BS[1], start[2] * s.bind.BS[2]}
					data = append(data, s.bind.writeData(nw, boff, s.bind.BS)...)
				}
				url = fmt.Sprintf("/api/node/%s/img/blocks/%s/%d", u, us(start), span)
				if o.Mutate {
					url += "?mutate=true"
				}
			}
			r := s.http("POST", url, data)
			if s.lat.isForeign(o.Roi) {
				// the specification refuses a write through a region of another block size
				if r.Status >= 400 && r.Status < 500 {
					continue
				}
				return s.div("write-not-refused", o.V, "POST "+url, fmt.Sprintf("request %d of the behaviour: the region %s has block size %v, the volume %v", i+1, s.roiName(o.Roi), s.bind.RoiBS, s.bind.BS), "4xx", fmt.Sprintf("%d %s", r.Status, r.Bytes()))
			}
			if r.Status != 200 {
				return s.div("write-refused", o.V, "POST "+url, fmt.Sprintf("request %d of the behaviour", i+1), 200, fmt.Sprintf("%d %s", r.Status, r.Bytes()))
			}
		}
	}
	return nil
}

func (s *ivSession) jitter(half int) int {
	switch s.rng.Intn(5) {
	case 0, 1:
		return 0
	case 2:
		return half - 1
	}
	return s.rng.Intn(half)
}

// expand turns an axis class (first cell, last cell) into a concrete voxel interval.
func (s *ivSession) expand(a int, cl [2]int) (lo, size int) {
	half := s.bind.BS[a] / 2
	base := s.bind.Origin[a] * s.bind.BS[a]
	lo = base + cl[0]*half + s.jitter(half)
	hi := base + cl[1]*half + s.jitter(half)
	if hi < lo {
		lo, hi = hi, lo
	}
	return lo, hi - lo + 1
}

var ivPlanes = []struct {
	name string
	dims string
	a, b int // the two axes of the slice
	c    int // the fixed axis
}{{"xy", "0_1", 0, 1, 2}, {"xz", "0_2", 0, 2, 1}, {"yz", "1_2", 1, 2, 0}}

// streamPayload decodes the payload of one block of a block stream requested without
// "compression=uncompressed": the stored value without its format byte and checksum.
func (s *ivSession) streamPayload(data []byte) ([]byte, error) {
	var f dvid.CompressionFormat
	switch s.bind.Comp {
	case "none":
		return data, nil
	case "", "lz4":
		f = dvid.LZ4
	case "snappy":
		f = dvid.Snappy
	case "gzip":
		f = dvid.Gzip
	default:
		return nil, fmt.Errorf("no decoder for compression %q", s.bind.Comp)
	}
	comp, _ := dvid.NewCompression(f, dvid.DefaultCompression)
	// only the decompressor of the dvid package is used here (property C15 covers it)
	full := append([]byte{byte(dvid.EncodeSerializationFormat(comp, dvid.NoChecksum))}, data...)
	out, _, err := dvid.DeserializeData(full, true)
	return out, err
}

// verify performs the reads of one version and compares with the specification state.
func (s *ivSession) verify(v int) *ivDivergence {
	b := &s.bind
	fin := &s.beh.Fin
	u := s.uuids[v-1]
	base := "/api/node/" + u + "/img/"
	nroi := len(s.lat.Rois)
	cmap := func(r int) []int { return fin.CVol[v-1][r] }
	cmp := func(kind, url string, want, got []byte, off, size [3]int) *ivDivergence {
		atomic.AddInt64(&s.cnt.reads, 1)
		atomic.AddInt64(&s.cnt.voxels, int64(len(want)/b.BPV))
		if d := firstDiff(want, got, b.BPV, off, size); d != "" {
			return s.div(kind, v, "GET "+url, d, hexs(want), hexs(got))
		}
		return nil
	}
	roiQ := func(r int) string {
		if r == 0 {
			return ""
		}
		return "?roi=" + s.roiName(r)
	}
	// a read through a region of another block size is refused by the specification
	refused := func(kind, url string, r int, resp node.Resp) (bool, *ivDivergence) {
		if !s.lat.isForeign(r) {
			return false, nil
		}
		atomic.AddInt64(&s.cnt.reads, 1)
		if resp.Status >= 400 && resp.Status < 500 {
			return true, nil
		}
		return true, s.div("read-not-refused", v, "GET "+url, fmt.Sprintf("%s: the region %s has block size %v, the volume %v", kind, s.roiName(r), b.RoiBS, b.BS), "4xx", fmt.Sprintf("%d, %d bytes", resp.Status, len(resp.Bytes())))
	}
	// --- extents: info and metadata must cover every written voxel (and the extents a client posted)
	hull := fin.Hull[v-1]
	if s.hasExt && fin.Ext[v-1][0][0] <= fin.Ext[v-1][1][0] {
		hull = fin.Ext[v-1] // contains the written hull (ExtentsCover)
	}
	if hull[0][0] <= hull[1][0] {
		wantLo, wantHi := s.cellBoxVoxels(&ivBox{Lo: hull[0], Hi: hull[1]})
		covers := func(name string, lo, hi []int, url string) *ivDivergence {
			atomic.AddInt64(&s.cnt.reads, 1)
			if len(lo) != 3 || len(hi) != 3 {
				return s.div("extents", v, "GET "+url, name+" not set although voxels were written", [2][3]int{wantLo, wantHi}, [2][]int{lo, hi})
			}
			for a := 0; a < 3; a++ {
				if lo[a] > wantLo[a] || hi[a] < wantHi[a] {
					return s.div("extents", v, "GET "+url, name+" does not cover the written voxels", [2][3]int{wantLo, wantHi}, [2][]int{lo, hi})
				}
			}
			return nil
		}
		r := s.http("GET", base+"info", nil)
		var info struct {
			Extended struct{ MinPoint, MaxPoint []int }
			Extents  struct{ MinPoint, MaxPoint []int }
		}
		if r.Status != 200 || json.Unmarshal(r.Bytes(), &info) != nil {
			return s.div("extents", v, "GET "+base+"info", "unusable answer", nil, fmt.Sprintf("%d %s", r.Status, r.Bytes()))
		}
		if d := covers("info.Extents", info.Extents.MinPoint, info.Extents.MaxPoint, base+"info"); d != nil {
			return d
		}
		if d := covers("info.Extended", info.Extended.MinPoint, info.Extended.MaxPoint, base+"info"); d != nil {
			return d
		}
		r = s.http("GET", base+"metadata", nil)
		var md struct {
			Axes       []struct{ Size, Offset int }
			Properties struct{ MinPoint, MaxPoint []int }
		}
		if r.Status != 200 || json.Unmarshal(r.Bytes(), &md) != nil || len(md.Axes) != 3 {
			return s.div("extents", v, "GET "+base+"metadata", "unusable answer", nil, fmt.Sprintf("%d %s", r.Status, r.Bytes()))
		}
		if d := covers("metadata.Properties", md.Properties.MinPoint, md.Properties.MaxPoint, base+"metadata"); d != nil {
			return d
		}
		var alo, ahi []int
		for a := 0; a < 3; a++ {
			alo = append(alo, md.Axes[a].Offset)
			ahi = append(ahi, md.Axes[a].Offset+md.Axes[a].Size-1)
		}
		if d := covers("metadata.Axes", alo, ahi, base+"metadata"); d != nil {
			return d
		}
		// the mechanism behind both: Data.GetExtents at this version
		var ge struct{ Min, Max []int }
		if err := s.n.Call("imageblk.extents", map[string]string{"data": "img", "uuid": u}, &ge); err != nil {
			if _, isCall := err.(*node.CallError); !isCall {
				infra("imageblk.extents: %v", err)
			}
			return s.div("extents", v, "call imageblk.extents", "Data.GetExtents failed", nil, err.Error())
		}
		if d := covers("Data.GetExtents", ge.Min, ge.Max, "call imageblk.extents"); d != nil {
			return d
		}
	}
	// --- a 2-D POST is not part of the API: refused, and (by the reads below) without effect
	if s.rng.Intn(3) == 0 {
		pl := ivPlanes[s.rng.Intn(3)]
		var off [3]int
		for a := 0; a < 3; a++ {
			off[a] = b.Origin[a] * b.BS[a]
		}
		url := fmt.Sprintf("%sraw/%s/%d_%d/%s", base, pl.dims, b.BS[pl.a], b.BS[pl.b], us(off))
		var buf bytes.Buffer
		png.Encode(&buf, b.sliceImage(99, off, [3]int{b.BS[pl.a], b.BS[pl.b], 1}, off[2]))
		if r := s.http("POST", url, buf.Bytes()); r.Status < 400 || r.Status >= 500 {
			return s.div("post-2d-not-refused", v, "POST "+url, "a 2-D slice cannot be posted", "4xx", fmt.Sprintf("%d %s", r.Status, r.Bytes()))
		}
		atomic.AddInt64(&s.cnt.reads, 1)
	}
	// --- 3-D reads of the whole lattice with a margin of one block, without and through every region
	get3d := func(kind string, off, size [3]int, r int) *ivDivergence {
		url := base + "raw/0_1_2/" + us(size) + "/" + us(off) + roiQ(r)
		resp := s.http("GET", url, nil)
		if is, d := refused(kind, url, r, resp); is {
			return d
		}
		if resp.Status != 200 {
			return s.div(kind, v, "GET "+url, "status", 200, fmt.Sprintf("%d %s", resp.Status, resp.Bytes()))
		}
		return cmp(kind, url, b.expectBox(s.lat, cmap(r), off, size), resp.Bytes(), off, size)
	}
	var foff, fsize [3]int
	for a := 0; a < 3; a++ {
		foff[a] = (b.Origin[a] - 1) * b.BS[a]
		fsize[a] = (s.lat.NB[a] + 2) * b.BS[a]
	}
	for r := 0; r <= nroi; r++ {
		kind := "read-3d-all"
		if r > 0 {
			kind = "read-3d-all-roi"
		}
		if d := get3d(kind, foff, fsize, r); d != nil {
			return d
		}
	}
	pickRoi := func() int {
		if nroi == 0 || s.rng.Intn(2) == 0 {
			return 0
		}
		return 1 + s.rng.Intn(nroi)
	}
	// --- seeded reads per structural class
	for k := 0; k < s.nreads; k++ {
		var cl [3][2]int
		var off, size [3]int
		for a := 0; a < 3; a++ {
			cl[a] = s.classes[a][s.rng.Intn(len(s.classes[a]))]
			off[a], size[a] = s.expand(a, cl[a])
		}
		r := pickRoi()
		tag := ""
		if r > 0 {
			tag = "-roi"
		}
		s.run.Eval(fmt.Sprintf("xyz%s|%v", tag, cl))
		if d := get3d("read-3d"+tag, off, size, r); d != nil {
			d.Detail += fmt.Sprintf("; class %v", cl)
			return d
		}
		for _, pl := range ivPlanes {
			var cl [3][2]int
			var off, size [3]int
			for a := 0; a < 3; a++ {
				cl[a] = s.classes[a][s.rng.Intn(len(s.classes[a]))]
				if a == pl.c {
					cl[a][1] = cl[a][0]
				}
				off[a], size[a] = s.expand(a, cl[a])
			}
			size[pl.c] = 1
			r := pickRoi()
			tag := ""
			if r > 0 {
				tag = "-roi"
			}
			// "isotropic" equals "raw" when the voxels are isotropic (the default resolution);
			// an explicit "png" suffix is the default format
			kw, suffix := "raw", ""
			if s.rng.Intn(4) == 0 {
				kw = "isotropic"
			}
			if s.rng.Intn(4) == 0 {
				suffix = "/png"
			}
			s.run.Eval(fmt.Sprintf("%s%s|%v", pl.name, tag, cl))
			url := fmt.Sprintf("%s%s/%s/%d_%d/%s%s%s", base, kw, pl.dims, size[pl.a], size[pl.b], us(off), suffix, roiQ(r))
			resp := s.http("GET", url, nil)
			if is, d := refused("read-"+pl.name, url, r, resp); is {
				if d != nil {
					return d
				}
				continue
			}
			if resp.Status != 200 {
				return s.div("read-"+pl.name+tag, v, "GET "+url, "status", 200, fmt.Sprintf("%d %s", resp.Status, resp.Bytes()))
			}
			pix, w, h, err := decodePNG(resp.Bytes(), b.BPV)
			if err != nil || w != size[pl.a] || h != size[pl.b] {
				return s.div("read-"+pl.name+tag, v, "GET "+url, fmt.Sprintf("PNG %dx%d err=%v", w, h, err), fmt.Sprintf("%dx%d", size[pl.a], size[pl.b]), nil)
			}
			// expectBox iterates x fastest, then y, then z: with the fixed axis of size 1 this is
			// exactly the row-major order of the slice
			if d := cmp("read-"+pl.name+tag, url, b.expectBox(s.lat, cmap(r), off, size), pix, off, size); d != nil {
				d.Detail += fmt.Sprintf("; class %v", cl)
				return d
			}
		}
	}
	// --- block-wise endpoints
	blockBytes := b.BS[0] * b.BS[1] * b.BS[2] * b.BPV
	expBlock := func(bx, by, bz int) (data []byte, written bool) {
		off := [3]int{bx * b.BS[0], by * b.BS[1], bz * b.BS[2]}
		id := s.lat.bid(bx-b.Origin[0], by-b.Origin[1], bz-b.Origin[2])
		return b.expectBox(s.lat, cmap(0), off, b.BS), id != 0 && fin.Stored[v-1][id-1] != 0
	}
	// GET blocks: a row along X with margin
	{
		y := b.Origin[1] - 1 + s.rng.Intn(s.lat.NB[1]+2)
		z := b.Origin[2] - 1 + s.rng.Intn(s.lat.NB[2]+2)
		if s.rng.Intn(3) > 0 { // mostly rows inside the lattice
			y = b.Origin[1] + s.rng.Intn(s.lat.NB[1])
			z = b.Origin[2] + s.rng.Intn(s.lat.NB[2])
		}
		x0 := b.Origin[0] - 1 + s.rng.Intn(2)
		span := 1 + s.rng.Intn(s.lat.NB[0]+2-(x0-(b.Origin[0]-1)))
		url := fmt.Sprintf("%sblocks/%d_%d_%d/%d", base, x0, y, z, span)
		r := s.http("GET", url, nil)
		if r.Status != 200 {
			return s.div("read-blocks", v, "GET "+url, "status", 200, fmt.Sprintf("%d %s", r.Status, r.Bytes()))
		}
		var want []byte
		for k := 0; k < span; k++ {
			d, _ := expBlock(x0+k, y, z)
			want = append(want, d...)
		}
		// the answer is block after block; compare as a box of size (bsx, bsy, bsz*span) per block
		got := r.Bytes()
		if len(got) != len(want) {
			return s.div("read-blocks", v, "GET "+url, "length", len(want), len(got))
		}
		for k := 0; k < span; k++ {
			off := [3]int{(x0 + k) * b.BS[0], y * b.BS[1], z * b.BS[2]}
			if d := cmp("read-blocks", url, want[k*blockBytes:(k+1)*blockBytes], got[k*blockBytes:(k+1)*blockBytes], off, b.BS); d != nil {
				d.Detail += fmt.Sprintf("; block %d of the span", k)
				return d
			}
		}
		s.run.Eval(fmt.Sprintf("blocks|x0=%d|span=%d|y=%d|z=%d", x0-b.Origin[0], span, y-b.Origin[1], z-b.Origin[2]))
	}
	// block streams: "uncompressed" or the stored payload (default) of every stored block
	checkStream := func(kind, url string, stored bool, inBox func(c [3]int) bool) *ivDivergence {
		r := s.http("GET", url, nil)
		if r.Status != 200 {
			return s.div(kind, v, "GET "+url, "status", 200, fmt.Sprintf("%d %s", r.Status, r.Bytes()))
		}
		blocks, err := parseBlockStream(r.Bytes())
		if err != nil {
			return s.div(kind, v, "GET "+url, "unparsable block stream: "+err.Error(), nil, hexs(r.Bytes()))
		}
		for c, data := range blocks {
			if !inBox(c) {
				return s.div(kind, v, "GET "+url, fmt.Sprintf("block %v was not requested", c), nil, nil)
			}
			if stored {
				if data, err = s.streamPayload(data); err != nil {
					return s.div(kind, v, "GET "+url, fmt.Sprintf("block %v: the stored payload (instance compression %q) cannot be decoded: %v", c, b.Comp, err), nil, nil)
				}
			}
			want, _ := expBlock(c[0], c[1], c[2])
			off := [3]int{c[0] * b.BS[0], c[1] * b.BS[1], c[2] * b.BS[2]}
			if d := cmp(kind, url, want, data, off, b.BS); d != nil {
				d.Detail += fmt.Sprintf("; block %v", c)
				return d
			}
		}
		// every written block of the request must be in the stream
		for x := b.Origin[0] - 1; x <= b.Origin[0]+s.lat.NB[0]; x++ {
			for y := b.Origin[1] - 1; y <= b.Origin[1]+s.lat.NB[1]; y++ {
				for z := b.Origin[2] - 1; z <= b.Origin[2]+s.lat.NB[2]; z++ {
					c := [3]int{x, y, z}
					if !inBox(c) {
						continue
					}
					if _, written := expBlock(x, y, z); written {
						if _, ok := blocks[c]; !ok {
							return s.div(kind, v, "GET "+url, fmt.Sprintf("written block %v missing from the stream", c), nil, nil)
						}
					}
				}
			}
		}
		return nil
	}
	streamQ := func() (q string, stored bool) {
		if s.rng.Intn(2) == 0 {
			return "compression=uncompressed", false
		}
		return "", true
	}
	// GET subvolblocks over a block-aligned box inside lattice + margin
	{
		var lo, hi [3]int
		for a := 0; a < 3; a++ {
			p := s.rng.Intn(s.lat.NB[a] + 2)
			q := s.rng.Intn(s.lat.NB[a] + 2)
			if p > q {
				p, q = q, p
			}
			lo[a], hi[a] = b.Origin[a]-1+p, b.Origin[a]-1+q
		}
		off := [3]int{lo[0] * b.BS[0], lo[1] * b.BS[1], lo[2] * b.BS[2]}
		size := [3]int{(hi[0] - lo[0] + 1) * b.BS[0], (hi[1] - lo[1] + 1) * b.BS[1], (hi[2] - lo[2] + 1) * b.BS[2]}
		q, stored := streamQ()
		url := base + "subvolblocks/" + us(size) + "/" + us(off)
		if q != "" {
			url += "?" + q
		}
		if d := checkStream("read-subvolblocks", url, stored, func(c [3]int) bool {
			return c[0] >= lo[0] && c[0] <= hi[0] && c[1] >= lo[1] && c[1] <= hi[1] && c[2] >= lo[2] && c[2] <= hi[2]
		}); d != nil {
			return d
		}
		s.run.Eval(fmt.Sprintf("subvolblocks|%v|%v|stored=%v", [3]int{lo[0] - b.Origin[0], lo[1] - b.Origin[1], lo[2] - b.Origin[2]}, [3]int{hi[0] - lo[0], hi[1] - lo[1], hi[2] - lo[2]}, stored))
	}
	// GET specificblocks for a seeded list of blocks
	{
		want := map[[3]int]bool{}
		var list []string
		n := 1 + s.rng.Intn(5)
		for len(want) < n {
			c := [3]int{b.Origin[0] - 1 + s.rng.Intn(s.lat.NB[0]+2), b.Origin[1] - 1 + s.rng.Intn(s.lat.NB[1]+2), b.Origin[2] - 1 + s.rng.Intn(s.lat.NB[2]+2)}
			if want[c] {
				continue
			}
			want[c] = true
			list = append(list, fmt.Sprintf("%d,%d,%d", c[0], c[1], c[2]))
		}
		q, stored := streamQ()
		if q != "" {
			q += "&"
		}
		if s.rng.Intn(6) == 0 {
			// prefetch: nothing is sent
			url := base + "specificblocks?" + q + "prefetch=on&blocks=" + strings.Join(list, ",")
			r := s.http("GET", url, nil)
			atomic.AddInt64(&s.cnt.reads, 1)
			if r.Status != 200 || len(r.Bytes()) != 0 {
				return s.div("read-specificblocks", v, "GET "+url, "a prefetch request sends no data", "200, 0 bytes", fmt.Sprintf("%d, %d bytes", r.Status, len(r.Bytes())))
			}
		}
		url := base + "specificblocks?" + q + "blocks=" + strings.Join(list, ",")
		if d := checkStream("read-specificblocks", url, stored, func(c [3]int) bool { return want[c] }); d != nil {
			return d
		}
		s.run.Eval(fmt.Sprintf("specificblocks|%d|stored=%v", n, stored))
	}
	return nil
}

// replay runs one behaviour on node n; nil = conforms.
type ivDied struct{ d *ivDivergence }

func ivReplay(c *Ctx, run *ev.Run, n *node.Node, part string, lat ivLattice, classes [3][][2]int, beh *ivBeh, bind ivBind, seed int64, nreads int, cnt *ivCounters) (div *ivDivergence) {
	defer func() {
		if e := recover(); e != nil {
			if dd, ok := e.(ivDied); ok {
				div = dd.d
				return
			}
			panic(e)
		}
	}()
	s := &ivSession{c: c, run: run, n: n, lat: lat, classes: classes, bind: bind, beh: beh, rng: rand.New(rand.NewSource(seed)), cnt: cnt, part: part, nreads: nreads, seed: seed}
	s.setup()
	if d := s.apply(); d != nil {
		return d
	}
	// versions in seeded order so that a read at one version cannot hide behind another
	for _, vi := range s.rng.Perm(beh.Fin.Nver) {
		if d := s.verify(vi + 1); d != nil {
			return d
		}
	}
	return nil
}

// known defects of imageblk this check can run into (known_findings.json)
func ivKnownID(d *ivDivergence) string {
	usesBlocksPost, usesLoad := false, false
	for _, o := range d.Hist {
		if o.Op == "write" && o.API == "blocks" {
			usesBlocksPost = true
		}
		if o.Op == "load" {
			usesLoad = true
		}
	}
	switch {
	case d.Kind == "write-not-refused" || d.Kind == "read-not-refused":
		return "roi-of-other-block-size-not-refused"
	case usesLoad && d.Kind == "load-failed":
		return "load-panics-at-negative-xy"
	case usesLoad && (strings.HasPrefix(d.Kind, "read-") || d.Kind == "server-died") && d.Bind.Origin[2] < 0:
		return "load-negative-z"
	case usesBlocksPost && d.Bind.BPV > 1 && d.Kind != "extents":
		return "post-blocks-ignores-voxel-width"
	case usesBlocksPost && d.Kind == "extents":
		return "post-blocks-no-extents"
	case d.Bind.BG != 0 && d.Bind.BPV > 1 && strings.HasPrefix(d.Kind, "read-"):
		return "background-of-multi-byte-voxels"
	case d.Bind.BG != 0 && strings.HasPrefix(d.Kind, "read-") && d.Kind != "read-blocks":
		return "background-not-applied-to-missing-blocks"
	}
	return ""
}

func ivBinding(rng *rand.Rand, i int, lat ivLattice, thorough bool) ivBind {
	t := ivTypes[i%len(ivTypes)]
	sizes := [][3]int{{8, 16, 4}, {12, 6, 10}, {6, 4, 8}, {16, 16, 16}}
	bs := sizes[rng.Intn(len(sizes))]
	if bs[0] == 16 && t.BPV > 2 && rng.Intn(3) > 0 {
		bs = sizes[rng.Intn(3)]
	}
	if thorough && t.BPV <= 2 && rng.Intn(12) == 0 {
		bs = [3]int{32, 32, 32}
	}
	var org [3]int
	for a := 0; a < 3; a++ {
		switch rng.Intn(4) {
		case 0:
			org[a] = -lat.NB[a] - rng.Intn(3) // wholly negative
		case 1:
			org[a] = -1 - rng.Intn(lat.NB[a]) // straddles zero (or ends at -1)
			if org[a] < -lat.NB[a]+1 && lat.NB[a] > 1 {
				org[a] = -lat.NB[a] + 1
			}
		case 2:
			org[a] = 0
		default:
			org[a] = 1 + rng.Intn(40)
		}
	}
	b := ivBind{Type: t.Name, BPV: t.BPV, BS: bs, Origin: org, Seed: rng.Uint64()}
	if rng.Intn(3) == 0 {
		b.BG = byte(1 + rng.Intn(255))
	}
	// storage settings of the instance: mostly the defaults (lz4, default checksum)
	switch rng.Intn(8) {
	case 0:
		b.Comp = "none"
	case 1:
		b.Comp = "snappy"
	case 2:
		b.Comp = "gzip"
	case 3:
		b.Comp = "lz4"
	}
	switch rng.Intn(6) {
	case 0:
		b.Csum = "crc32"
	case 1:
		b.Csum = "none"
	}
	b.ExtCfg = rng.Intn(8) == 0
	b.Spans = rng.Intn(3)
	// the block size of a region "of another block size": differs on at least one axis
	b.RoiBS = bs
	switch rng.Intn(3) {
	case 0:
		b.RoiBS = [3]int{2 * bs[0], 2 * bs[1], 2 * bs[2]}
	case 1:
		b.RoiBS[rng.Intn(3)] /= 2
	default:
		b.RoiBS[rng.Intn(3)] += 1 + rng.Intn(5)
	}
	return b
}

// ivGenCases generates seeded request sequences for part B.
func ivGenCases(rng *rand.Rand, lat ivLattice, n int, bd ivBounds) [][]ivOp {
	var out [][]ivOp
	for len(out) < n {
		nver := 1
		open := []bool{true}
		nw, nl, nr, ne, margin := 0, 0, 0, 0, 0
		var ops []ivOp
		steps := 3 + rng.Intn(bd.MaxWrites+bd.MaxVer-3)
		openVer := func() int {
			var ov []int
			for v, o := range open {
				if o {
					ov = append(ov, v+1)
				}
			}
			return ov[rng.Intn(len(ov))]
		}
		for len(ops) < steps {
			if nver < bd.MaxVer && rng.Intn(4) == 0 {
				p := 1 + rng.Intn(nver)
				ops = append(ops, ivOp{Op: "newver", V: p})
				open[p-1] = false
				open = append(open, true)
				nver++
				continue
			}
			switch k := rng.Intn(12); {
			case k == 0 && nr < bd.MaxRoiOps && len(lat.Rois) > 0:
				// change a region of the volume's block size
				r := 1 + rng.Intn(len(lat.Rois))
				if lat.isForeign(r) {
					continue
				}
				ops = append(ops, ivOp{Op: "setroi", V: openVer(), Roi: r, Blocks: append([]int{}, lat.Alts[rng.Intn(len(lat.Alts))]...)})
				nr++
				continue
			case k == 1 && ne < bd.MaxExtOps:
				// extents posted by a client contain what was posted before (the specification's
				// Enabled also requires them to contain everything written so far: the whole lattice
				// with a growing margin always does)
				margin += rng.Intn(3)
				bx := &ivBox{}
				for a := 0; a < 3; a++ {
					bx.Lo[a], bx.Hi[a] = -margin, 2*lat.NB[a]-1+margin
				}
				ops = append(ops, ivOp{Op: "setext", V: openVer(), Box: bx})
				ne++
				continue
			case k == 2 && nl < bd.MaxLoads && nw < bd.MaxWrites:
				o := ivOp{Op: "load", V: openVer(), CBox: &ivBox{}}
				for a := 0; a < 3; a++ {
					p, q := rng.Intn(2*lat.NB[a]), rng.Intn(2*lat.NB[a])
					if p > q {
						p, q = q, p
					}
					o.CBox.Lo[a], o.CBox.Hi[a] = p, q
				}
				ops = append(ops, o)
				nw++
				nl++
				continue
			}
			if nw >= bd.MaxWrites {
				break
			}
			o := ivOp{Op: "write", V: openVer(), API: "raw", Mutate: rng.Intn(2) == 0, Box: &ivBox{}}
			for a := 0; a < 3; a++ {
				p, q := rng.Intn(lat.NB[a]), rng.Intn(lat.NB[a])
				if p > q {
					p, q = q, p
				}
				o.Box.Lo[a], o.Box.Hi[a] = p, q
			}
			switch rng.Intn(4) {
			case 0:
				o.API = "blocks"
				o.Box.Hi[1], o.Box.Hi[2] = o.Box.Lo[1], o.Box.Lo[2]
			case 1, 2:
				o.Roi = rng.Intn(len(lat.Rois) + 1)
			}
			ops = append(ops, o)
			nw++
		}
		if nw == 0 {
			continue
		}
		out = append(out, ops)
	}
	return out
}

// ivReplayFile re-runs the behaviour of a replay file (./check C17 --replay <path>): the
// requests and the expected final state of the specification are taken from the file.
func ivReplayFile(c *Ctx) int {
	raw, err := os.ReadFile(c.Replay)
	must(err, "read replay file")
	var d ivDivergence
	must(json.Unmarshal(raw, &d), "parse replay file")
	if d.Final == nil || len(d.Hist) == 0 {
		infra("%s holds no behaviour of parts A/B (part %q)", c.Replay, d.Part)
	}
	// AxisClasses of the specification: all (first cell, last cell) pairs incl. the margin
	var classes [3][][2]int
	for a := 0; a < 3; a++ {
		for p := -2; p <= 2*d.Lattice.NB[a]+1; p++ {
			for q := p; q <= 2*d.Lattice.NB[a]+1; q++ {
				classes[a] = append(classes[a], [2]int{p, q})
			}
		}
	}
	run := ev.NewRun("C17", c.Tier, "model_checking")
	var cnt ivCounters
	if d.NReads == 0 {
		d.NReads = 2
	}
	n := c.StartNode(node.Config{NoLog: true})
	got := ivReplay(c, run, n, d.Part, d.Lattice, classes, &ivBeh{Hist: d.Hist, Fin: *d.Final}, d.Bind, d.ReadSeed, d.NReads, &cnt)
	c.DropNode(n)
	if got == nil {
		fmt.Printf("C17 replay %s: the behaviour conforms (%d reads compared)\n", c.Replay, cnt.reads)
		return 0
	}
	fmt.Printf("C17 replay %s: diverges again: %s %s: %s\n", c.Replay, got.Kind, got.Request, got.Detail)
	return 1
}

func checkC17(c *Ctx) int {
	if c.Replay != "" {
		return ivReplayFile(c)
	}
	run := ev.NewRun("C17", c.Tier, "model_checking")
	t0 := time.Now()
	rng := rand.New(rand.NewSource(c.Seed))
	var cnt ivCounters
	var states, trans int64
	var cfgs []string

	// ---- part B (prepared first, evaluated by TLC concurrently with part A): seeded longer
	// sequences on a larger lattice, all request kinds
	latB := ivLattice{NB: [3]int{3, 2, 2}}
	seededSet := func(k int) []int {
		seen := map[int]bool{}
		var ids []int
		for len(ids) < k {
			id := 1 + rng.Intn(latB.nblocks())
			if !seen[id] {
				seen[id] = true
				ids = append(ids, id)
			}
		}
		sort.Ints(ids)
		return ids
	}
	for len(latB.Rois) < 2 {
		latB.Rois = append(latB.Rois, seededSet(1+rng.Intn(4)))
	}
	// a third region with spans along X (multi-block spans) and a fourth of another block size
	latB.Rois = append(latB.Rois, []int{1, 2, 3, 8, 9, 11, 12}, seededSet(3))
	latB.Foreign = []int{4}
	latB.Alts = [][]int{{}, seededSet(2), {4, 5, 6, 7}, seededSet(5)}
	bdB := ivBounds{MaxVer: 4, MaxWrites: 6, MaxRoiOps: 3, MaxExtOps: 2, MaxLoads: 2}
	// directed sequences first (replayed before everything else), then the seeded ones
	directedB := [][]ivOp{
		// a sibling branch writes the whole lattice; then, in another branch without data of its
		// own, a file load inside that box followed by a small aligned write: the advertised
		// extents of that branch must cover the load
		{{Op: "newver", V: 1}, {Op: "newver", V: 2},
			{Op: "write", V: 3, API: "raw", Box: &ivBox{Lo: [3]int{0, 0, 0}, Hi: [3]int{2, 1, 1}}},
			{Op: "newver", V: 2},
			{Op: "load", V: 4, CBox: &ivBox{Lo: [3]int{1, 0, 1}, Hi: [3]int{3, 2, 3}}},
			{Op: "write", V: 4, API: "raw", Box: &ivBox{Lo: [3]int{2, 0, 0}, Hi: [3]int{2, 0, 1}}}},
		// a region changed in a child version, used there by a write and by reads, then deleted
		{{Op: "write", V: 1, API: "raw", Box: &ivBox{Lo: [3]int{0, 0, 0}, Hi: [3]int{2, 1, 1}}},
			{Op: "newver", V: 1},
			{Op: "setroi", V: 2, Roi: 1, Blocks: []int{4, 5, 6, 7}},
			{Op: "write", V: 2, API: "raw", Mutate: true, Roi: 1, Box: &ivBox{Lo: [3]int{0, 0, 0}, Hi: [3]int{2, 1, 1}}},
			{Op: "newver", V: 2},
			{Op: "setroi", V: 3, Roi: 1, Blocks: []int{}}},
	}
	casesB := append(directedB, ivGenCases(rng, latB, c.pick(220, 1500), bdB)...)
	var behsB []*ivBeh
	var rB *tlc.Result
	doneB := make(chan interface{}, 1)
	go func() {
		defer func() { doneB <- recover() }()
		behsB, rB = ivEvalCases(c, latB, bdB, casesB)
	}()

	// ---- part A: exhaustive exploration, three configurations side by side
	type partA struct {
		name    string
		lat     ivLattice
		bd      ivBounds
		behs    []*ivBeh
		classes [3][][2]int
		r       *tlc.Result
		budget  int
	}
	partsA := []*partA{
		{name: "A1", lat: ivLattice{NB: [3]int{2, 2, 1}, Rois: [][]int{{1}, {2, 3}}, Alts: [][]int{{}}},
			bd: ivBounds{MaxVer: c.pick(2, 3), MaxWrites: 2}, budget: c.pick(1100, 1 << 30)},
		{name: "A2", lat: ivLattice{NB: [3]int{2, 1, 1}, Rois: [][]int{{1}, {2}, {1, 2}}, Alts: [][]int{{2}, {}}, Foreign: []int{3}},
			bd: ivBounds{MaxVer: 2, MaxWrites: 1, MaxRoiOps: 1, MaxExtOps: 1}, budget: c.pick(500, 1 << 30)},
		{name: "A3", lat: ivLattice{NB: [3]int{2, 1, 1}, Rois: [][]int{{2}}, Alts: [][]int{{}}},
			bd: ivBounds{MaxVer: 2, MaxWrites: 2, MaxLoads: 1}, budget: c.pick(350, 1 << 30)},
		{name: "A4", lat: ivLattice{NB: [3]int{1, 1, 2}, Rois: [][]int{{2}}, Alts: [][]int{{}}},
			bd: ivBounds{MaxVer: 2, MaxWrites: 2, MaxLoads: 1}, budget: c.pick(350, 1 << 30)},
	}
	doneA := make(chan interface{}, len(partsA))
	for _, p := range partsA {
		go func(p *partA) {
			defer func() { doneA <- recover() }()
			p.behs, p.classes, p.r = ivExplore(c, p.lat, p.bd)
		}(p)
	}
	for range partsA {
		if e := <-doneA; e != nil {
			panic(e)
		}
	}
	for _, p := range partsA {
		states += p.r.Distinct
		trans += p.r.Generated
		cfgs = append(cfgs, fmt.Sprintf("ImageVol_mc %s lattice %v rois %v (of another block size: %v) alternatives %v bounds %+v: %d states, %d maximal behaviours (TLC %.0fs)",
			p.name, p.lat.NB, p.lat.Rois, p.lat.Foreign, p.lat.Alts, p.bd, p.r.Distinct, len(p.behs), p.r.WallS))
	}
	if e := <-doneB; e != nil {
		panic(e)
	}
	states += rB.Distinct
	trans += rB.Generated
	classesB := ivClasses(rB)
	cfgs = append(cfgs, fmt.Sprintf("ImageVol_cases lattice %v rois %v (of another block size: %v) alternatives %v: %d seeded request sequences (3-9 requests, <= 4 versions, <= 2 file loads, <= 3 region changes, <= 2 posted extents) evaluated and claim-checked by TLC (%.0fs)",
		latB.NB, latB.Rois, latB.Foreign, latB.Alts, len(casesB), rB.WallS))
	tTLC := since(t0)

	// ---- select what is replayed
	type job struct {
		part    string
		lat     ivLattice
		classes [3][][2]int
		beh     *ivBeh
		bind    ivBind
		seed    int64
		nreads  int
	}
	var jobs []job
	for k, b := range behsB {
		jobs = append(jobs, job{"B", latB, classesB, b, ivBinding(rng, k+3, latB, c.thorough()), rng.Int63(), 2})
	}
	// part A in seeded order: what the time budget cuts off is a seeded remainder
	nEmitted := len(behsB)
	for _, p := range partsA {
		nEmitted += len(p.behs)
		perm := rng.Perm(len(p.behs))
		if len(perm) > p.budget {
			perm = perm[:p.budget]
		}
		for k, i := range perm {
			jobs = append(jobs, job{p.name, p.lat, p.classes, p.behs[i], ivBinding(rng, k, p.lat, c.thorough()), rng.Int63(), c.pick(2, 1)})
		}
	}
	// interleave the parts so that a time budget cuts all of them proportionally (the directed
	// sequences of part B stay in front)
	rest := jobs[len(directedB):]
	rng.Shuffle(len(rest), func(i, j int) { rest[i], rest[j] = rest[j], rest[i] })
	// ---- replay
	workers := 16
	nodes := make([]*node.Node, workers)
	used := make([]int, workers)
	var mu sync.Mutex
	var replayed, sampled int64
	kinds := map[string]int{}
	perPart := map[string]int{}
	deadline := t0.Add(time.Duration(c.pick(47, 520)) * time.Second)
	if min := time.Now().Add(time.Duration(c.pick(20, 240)) * time.Second); deadline.Before(min) {
		deadline = min // TLC was slow (loaded machine): still replay for a while
	}
	var skipped, strayDeaths int64
	parallel(len(jobs), workers, func(w, i int) {
		if time.Now().After(deadline) {
			atomic.AddInt64(&skipped, 1)
			return
		}
		j := jobs[i]
		if nodes[w] == nil || used[w] >= 150 || !nodes[w].Alive() {
			if nodes[w] != nil {
				c.DropNode(nodes[w])
			}
			nodes[w] = c.StartNode(node.Config{NoLog: true})
			used[w] = 0
		}
		used[w]++
		d := ivReplay(c, run, nodes[w], j.part, j.lat, j.classes, j.beh, j.bind, j.seed, j.nreads, &cnt)
		atomic.AddInt64(&replayed, 1)
		mu.Lock()
		perPart[j.part]++
		np := perPart[j.part]
		mu.Unlock()
		if k := atomic.AddInt64(&sampled, 1); np == 1 || k%3000 == 0 {
			run.Sample(map[string]interface{}{"part": j.part, "lattice_blocks": j.lat.NB, "rois": j.lat.Rois, "binding": j.bind, "requests": j.beh.Hist,
				"expected_aligned_write_per_version_and_block": j.beh.Fin.Vol, "expected_cell_map_of_last_version_per_region": j.beh.Fin.CVol[len(j.beh.Fin.CVol)-1], "expected_stored_blocks": j.beh.Fin.Stored, "expected_written_hull_cells": j.beh.Fin.Hull})
		}
		if d == nil {
			return
		}
		// reproduce on a fresh node before reporting
		fresh := c.StartNode(node.Config{NoLog: true})
		d2 := ivReplay(c, run, fresh, j.part, j.lat, j.classes, j.beh, j.bind, j.seed, j.nreads, &cnt)
		c.DropNode(fresh)
		if d2 == nil && d.Kind == "server-died" {
			// the process died, but not because of this behaviour (e.g. a goroutine of an
			// earlier request): not attributable; never a silent pass (see below)
			atomic.AddInt64(&strayDeaths, 1)
			return
		}
		if d2 == nil {
			infra("divergence %s (%s) not reproduced on a fresh node", d.Kind, d.Request)
		}
		d = d2
		mu.Lock()
		kinds[d.Kind]++
		nk := kinds[d.Kind]
		mu.Unlock()
		if id := ivKnownID(d); id != "" && run.KnownActive(id) {
			run.ReportKnown(id)
			return
		}
		if nk > 12 {
			return // enough replay files of this kind; the verdict is a violation already
		}
		run.Violation("c17", d)
	})
	for _, n := range nodes {
		if n != nil {
			c.DropNode(n)
		}
	}
	// ---- part C: direct ReadBlock / WriteBlock sweep
	nC, distinctC := ivTransferSweep(c, run, rng)
	// ---- part D: stacks of XY images through the load command of the RPC path (c17_rpc.go, specs/ImageSlices.tla)
	nSliceSeqs, nSliceVoxels, _ := imgSliceReplay(c, run)
	run.Set("slice_stack_sequences_replayed", nSliceSeqs)
	run.Set("slice_stack_voxels_compared", nSliceVoxels)

	if replayed == 0 {
		infra("no behaviour was replayed within the time budget (TLC took %.0fs)", tTLC)
	}
	if strayDeaths > 0 && run.Violations() == 0 {
		infra("the server process died %d times during the run without a reproducible cause", strayDeaths)
	}
	run.Set("unattributed_server_deaths", strayDeaths)
	run.Set("states", states)
	run.Set("transitions", trans)
	run.Set("traces_validated_against_impl", replayed)
	run.Set("replayed_per_part", perPart)
	run.Set("evaluations", cnt.reads+nC)
	run.Set("voxels_compared", cnt.voxels)
	run.Set("http_requests", cnt.requests)
	run.Set("behaviours_emitted_by_tlc", nEmitted)
	run.Set("behaviours_not_replayed_time_budget", skipped)
	run.Set("tlc_wall_s", tTLC)
	run.Set("transfer_sweep_geometries", nC)
	run.Set("transfer_sweep_distinct_classes", distinctC)
	run.Set("configurations", cfgs)
	run.Set("divergence_kinds", kinds)
	run.Set("exhaustive", false)
	run.Set("rule", "part A: TLC (ImageVol_mc) explores every request sequence within the bounds of three configurations - A1: <= 2 block-aligned writes (POST raw/0_1_2 ingest|mutate x no ROI|ROI of 1 block|ROI of 2 diagonal blocks, POST blocks ingest|mutate over every X row) and version steps (commit+newversion / branch) on a 2x2x1 block lattice; A2: one write, one change of a region of interest (POST roi / DELETE roi at any open version: regions are versioned) and one POST extents in every order on 2x1x1 blocks, with a third region whose block size differs from the volume's (requests naming it are refused); A3/A4: one file load (LoadImages over every box of half-block cells = unaligned slab of XY PNG images merged into existing blocks) and one aligned write in both orders on 2x1x1 and on 1x1x2 blocks (two block layers in Z) - checks StateOK/StepClaims, and prints every maximal behaviour with, per version, the expected cell map as read without and through every region, the stored blocks, the advertised extents and the hull of the written cells; the harness replays a seeded selection (quick) or all within the time budget (thorough) on a fresh repo each, binding the lattice to a seeded voxel type (all six), block size (anisotropic 8x16x4, 12x6x10, 6x4x8, 16^3, thorough also 32^3), block origin (negative, straddling zero, zero, positive), Background (1/3 non-zero, all voxel types), instance Compression (default lz4 | none | snappy | gzip | lz4) and Checksum (default | crc32 | none), MinPoint/MaxPoint at creation (1/8), ROI span encoding (one span per block | maximal multi-block spans | overlapping spans); payload voxels = fixed hash f(write id, x, y, z). part B: two directed and seeded sequences of 3-9 requests of all kinds on a 3x2x2 lattice with up to 4 versions, 4 regions (one of another block size) and seeded alternatives, claim-checked and evaluated by TLC (ImageVol_cases). Reads per version: info+metadata extents cover the written hull (and posted extents); a refused 2-D POST; 3-D reads of lattice+1 block margin without and through every region (?roi=); per structural class (TLC: AxisClasses = first/last half-block cell per axis incl. a one-block margin) seeded concrete 3-D boxes and XY/XZ/YZ PNG slices (raw | isotropic, default | /png), each with a seeded region or none; GET blocks rows, subvolblocks boxes, specificblocks lists as uncompressed or stored-payload streams (decoded with the instance's compression), prefetch. Expected voxel = f(spec write id of its cell) or the background value of the voxel type. A divergence is re-run on a fresh node before it is reported. distinct_nontrivial = distinct (endpoint, structural read class) pairs read + distinct transfer classes; part C sweeps Voxels.ReadBlock/WriteBlock directly (all 4 shapes x offsets/sizes around a block, anisotropic block) against the same f.")
	run.Assume = []string{
		"block content is determined by the last aligned write of the block and the later file loads over its half-block cells (HTTP writes are block aligned, as the API requires)",
		"the background value of a multi-byte voxel type is the Background integer in every element of the voxel (uint16/32/64 little endian, float32 as a float, rgba8 in every channel)",
		"2-D slices are read as PNG (lossless for all six voxel types); jpeg reads, isotropic reads of anisotropic resolutions, tiff/bmp suffixes and the attenuation option are not lossless or not decodable here and not checked; jpeg-compressed instances are lossy and not used",
		"a region of interest of another block size is expected to be refused (it cannot restrict the volume block by block)",
		"a file load covers at most two block layers in Z (the loader re-reads existing blocks only for the first and the last layer, as its comment says)",
		"a client posts extents that contain the extents already advertised; extents are only required to cover the written voxels and the posted extents, not to be tight",
	}
	fmt.Printf("C17: TLC %d states (%.0fs); replayed %d behaviours %v (%d skipped by time budget), %d reads / %d voxels compared, %d transfer geometries in %.1fs; violations=%d\n",
		states, tTLC, replayed, perPart, skipped, cnt.reads, cnt.voxels, nC, since(t0), run.Violations())
	return run.Finish()
}
