package main

// C04: crash points outside the data workload.
//  - firstStartCrash: the very first start-up of a server on empty stores writes its metadata
//    (format version, id caches, next ids); a process death at each of those writes must leave
//    stores the next start opens, reading as an empty server on which the workload then runs
//    exactly as on a server that never crashed.
//  - deletionCrash: deleting a data instance is a repo-level operation carried out in the
//    background (delete every key of the instance, then drop it from the repository); a
//    process death at each of its writes must leave the instance entirely present (with all
//    its data) or, once start-up and its background work have finished, entirely absent.

import (
	"encoding/json"
	"fmt"
	"os"
	"path/filepath"
	"strings"
	"sync/atomic"
	"time"

	"verifharness/internal/ev"
	"verifharness/internal/node"
	"verifharness/internal/snap"
)

func firstStartCrash(c *Ctx, run *ev.Run, ref *c04Ref, seed int64) int64 {
	first := ref.counts[0] // writes of a first start-up
	ops := 6
	if ops > len(ref.kinds) {
		ops = len(ref.kinds)
	}
	type pt struct {
		m     uint64
		after bool
	}
	var pts []pt
	for m := uint64(1); m <= first; m++ {
		pts = append(pts, pt{m, false}, pt{m, true})
	}
	var nruns int64
	parallel(len(pts), 8, func(_, i int) {
		p := pts[i]
		when := "before"
		if p.after {
			when = "after"
		}
		k := atomic.AddInt64(&c.nodeSeq, 1)
		dir := filepath.Join(c.Scratch, fmt.Sprintf("first%d", k))
		div := c04Divergence{Seed: seed, CrashWrite: p.m, When: when, Interrupted: "the first start-up on empty stores"}
		cfg := node.Config{Dir: dir, Env: []string{fmt.Sprintf("VERIF_CRASH_AT=%d", p.m), "VERIF_CRASH_AFTER=" + map[bool]string{true: "1", false: "0"}[p.after]}}
		if n0, err := node.Start(c.Bin, cfg); err == nil {
			// the start-up issued fewer writes than the reference one: nothing to judge
			n0.Destroy()
			return
		}
		cfg.Env = nil
		n, err := node.Start(c.Bin, cfg)
		if err != nil && strings.Contains(err.Error(), "timeout") {
			infra("start after a crashed first start-up: %v", err) // an overloaded machine, not a verdict
		}
		if err != nil {
			div.Kind = "startup-failed-after-crash"
			div.Diffs = []string{err.Error()}
			run.Violation("c04", div)
			os.RemoveAll(dir)
			return
		}
		c.mu.Lock()
		c.nodes = append(c.nodes, n)
		c.mu.Unlock()
		defer c.DropNode(n)
		atomic.AddInt64(&nruns, 1)
		got, err := snap.TakeCanon(n, c04SnapOpts())
		must(err, "snapshot")
		if d := snap.Diff(ref.snaps[0], got); len(d) > 0 {
			div.Kind = "server-not-empty-or-unreadable-after-crashed-first-start"
			div.Diffs = d
			run.Violation("c04", div)
			return
		}
		// the workload runs as on a server that never crashed
		w := c04World(n, seed)
		acked := 0
		for acked < ops {
			kind, err := w.step()
			must(err, "world step")
			if kind == "" {
				continue
			}
			must(n.Idle(), "idle")
			acked++
		}
		got, err = snap.TakeCanon(n, c04SnapOpts())
		must(err, "snapshot")
		if d := snap.Diff(ref.snaps[acked], got); len(d) > 0 {
			div.Kind = "workload-differs-after-crashed-first-start"
			div.Diffs = d
			div.History = w.log
			div.AckedOps = acked
			run.Violation("c04", div)
			return
		}
		run.Eval(fmt.Sprintf("first-start|w%d|%s", p.m, when))
	})
	run.Set("first_startup_writes", first)
	run.Set("first_startup_crash_runs", nruns)
	return nruns
}

const c04DeletionNotResumed = "instance-deletion-interrupted-by-crash-is-not-resumed"

// deletionCrash: see the file comment.
func deletionCrash(c *Ctx, run *ev.Run, seed int64) int64 {
	steps := 22
	type refT struct {
		before, after *snap.Snap
		root, name    string
		writes        int
	}
	// build the history; the instance deleted is the first one of the first repo that holds data
	build := func(n *node.Node) (*world, string, string) {
		w := c04World(n, seed)
		for i := 0; i < steps; {
			kind, err := w.step()
			must(err, "world step")
			if kind == "" {
				continue
			}
			must(n.Idle(), "idle")
			i++
		}
		for _, r := range w.repos {
			for _, op := range w.log {
				for _, in := range r.insts {
					if op.Status == 200 && strings.Contains(op.URL, "/"+in.name+"/") && op.Method != "GET" && !strings.HasSuffix(op.URL, "/tags") && !strings.Contains(op.URL, "/tags?") {
						return w, r.root, in.name
					}
				}
			}
		}
		infra("deletion crash: the workload wrote no data")
		return nil, "", ""
	}
	gone := func(n *node.Node, root, name string, wait time.Duration) bool {
		deadline := time.Now().Add(wait)
		for {
			ri, err := n.HTTP("GET", "/api/repo/"+root+"/info", nil)
			if err != nil {
				return false
			}
			if !strings.Contains(string(ri.Bytes()), `"`+name+`"`) {
				return true
			}
			if time.Now().After(deadline) {
				return false
			}
			time.Sleep(3 * time.Millisecond)
		}
	}
	var ref refT
	{
		n := c.StartNode(node.Config{})
		_, root, name := build(n)
		var err error
		ref.before, err = snap.TakeCanon(n, c04SnapOpts())
		must(err, "snapshot")
		n.WTrace(true)
		must(n.Call("ds.deletedata", map[string]string{"UUID": root, "Name": name, "Passcode": ""}, nil), "delete instance")
		if !gone(n, root, name, 20*time.Second) {
			infra("instance %s still listed 20 s after its deletion", name)
		}
		must(n.Idle(), "idle")
		raw, _ := n.WTrace(false)
		var evs []crashWrite
		json.Unmarshal(raw, &evs)
		ref.writes = len(evs)
		ref.after, err = snap.TakeCanon(n, c04SnapOpts())
		must(err, "snapshot")
		ref.root, ref.name = root, name
		c.DropNode(n)
		run.Sample(map[string]interface{}{"deleted_instance": name, "writes_of_the_deletion": evs})
	}
	type pt struct {
		k     int
		after bool
	}
	var pts []pt
	for k := 1; k <= ref.writes; k++ {
		pts = append(pts, pt{k, false}, pt{k, true})
	}
	var nruns int64
	parallel(len(pts), 8, func(_, i int) {
		p := pts[i]
		when := "before"
		if p.after {
			when = "after"
		}
		n := c.StartNode(node.Config{})
		defer c.DropNode(n)
		w, root, name := build(n)
		div := c04Divergence{Seed: seed, CrashWrite: uint64(p.k), When: when, Interrupted: "deletion of data instance " + name + " (write " + fmt.Sprint(p.k) + " of the deletion)"}
		must(n.Arm(uint64(p.k), p.after), "arm")
		err := n.Call("ds.deletedata", map[string]string{"UUID": root, "Name": name, "Passcode": ""}, nil)
		if err != nil && err != node.ErrDead && n.Alive() {
			must(err, "delete instance")
		}
		// the deletion runs in the background: wait for the injected exit
		deadline := time.Now().Add(15 * time.Second)
		for n.Alive() && time.Now().Before(deadline) {
			if _, err := n.Count(); err != nil {
				break
			}
			if gone(n, root, name, 0) {
				if err := n.Idle(); err != nil {
					break
				}
				if _, err := n.Do(node.Req{Op: "disarm"}); err == nil && n.Alive() {
					return // fewer writes than in the reference run
				}
			}
			time.Sleep(2 * time.Millisecond)
		}
		if n.Alive() {
			return
		}
		n.WaitExit(10 * time.Second)
		if err := n.Restart(false); err != nil {
			div.Kind = "startup-failed-after-crash"
			div.Diffs = []string{err.Error()}
			div.History = w.log
			run.Violation("c04", div)
			return
		}
		atomic.AddInt64(&nruns, 1)
		// entirely present (= the snapshot before the deletion), or - a deletion resumed by the
		// start-up finishes in the background - entirely absent once the instance has left the repo
		got, err := snap.TakeCanon(n, c04SnapOpts())
		must(err, "snapshot")
		db := snap.Diff(ref.before, got)
		if len(db) == 0 {
			run.Eval(fmt.Sprintf("delete|w%d|%s|absent", p.k, when))
			return
		}
		var da []string
		if gone(n, root, name, 20*time.Second) {
			must(n.Idle(), "idle")
			got, err = snap.TakeCanon(n, c04SnapOpts())
			must(err, "snapshot")
			da = snap.Diff(ref.after, got)
			if len(da) == 0 {
				run.Eval(fmt.Sprintf("delete|w%d|%s|present", p.k, when))
				return
			}
			db = snap.Diff(ref.before, got)
		}
		if run.KnownActive(c04DeletionNotResumed) {
			// known finding: the instance is still listed but (part of) its data is gone; everything
			// outside the instance must be as before
			rest := snap.DiffFiltered(ref.before, got, func(key string) bool { return !strings.HasPrefix(key, "data/"+name+"@") })
			if len(rest) == 0 {
				run.ReportKnown(c04DeletionNotResumed)
				run.Eval(fmt.Sprintf("delete|w%d|%s|known-half-deleted", p.k, when))
				return
			}
		}
		div.Kind = "interrupted-instance-deletion-neither-present-nor-absent"
		if len(db) > 8 {
			db = db[:8]
		}
		div.Diffs = db
		div.History = w.log
		run.Violation("c04", div)
	})
	run.Set("instance_deletion_writes", ref.writes)
	run.Set("instance_deletion_crash_runs", nruns)
	return nruns
}
