package main

import (
	"fmt"
	"os"
	"sync"
	"sync/atomic"
	"time"

	"verifharness/internal/ev"
	"verifharness/internal/lmm"
)

func init() { checks["C14"] = checkC14 }

const c14LastScaleIdle = "idle-ignores-last-scale"

// checkC14: the Labelmap.tla state graph (including mutating voxel writes and supervoxel
// splits) is replayed on an instance with down-sampling enabled; after every transition, as
// soon as the instance reports itself idle, every stored lower-resolution level is read and
// each voxel compared with the documented vote evaluated by TLC over the class table.
func checkC14(c *Ctx) int {
	run := ev.NewRun("C14", c.Tier, "model_checking")
	t0 := time.Now()
	g := lmm.NewGeomKind(c.Seed, true, true)
	l1, l2 := g.Downres()
	type layout struct {
		name   string
		initSV []uint64
		ops    int
	}
	layouts := []layout{{"small7/A", []uint64{1, 1, 2, 2, 3, 0, 4}, c.pick(1, 2)}, {"small7/C", []uint64{5, 2, 2, 5, 2, 9, 0}, c.pick(1, 2)}}
	// body splits (and index / mapping re-ingest) with the lower-resolution levels switched on
	layouts = append(layouts, layout{"small7/S", []uint64{3, 3, 3, 8, 8, 0, 3}, c.pick(1, 2)})
	if c.thorough() {
		layouts = append(layouts, layout{"small7/D", []uint64{3, 3, 3, 3, 0, 3, 3}, 2})
	}
	var states, trans, edges, levelReads, restarts, scaleReads int64
	part := os.Getenv("C14_PART") // debugging aid: "levels" = only the stored-level configurations, "graph" = only the state graph
	if part == "levels" {
		layouts = nil
	}
	for _, lo := range layouts {
		lmWithSplit = lo.name == "small7/S"
		gr, s, t := lmExplore(c, g, lo.initSV, lo.ops, lo.ops, l1, l2, !lmWithSplit)
		lmWithSplit = false
		states += s
		trans += t
		nw := 12
		var wg sync.WaitGroup
		var firstErr atomic.Value
		for wi := 0; wi < nw; wi++ {
			wg.Add(1)
			go func(wi int) {
				defer wg.Done()
				defer func() {
					if e := recover(); e != nil {
						if ie, ok := e.(infraErr); ok {
							firstErr.Store(ie.err.Error())
						} else {
							firstErr.Store(fmt.Sprint(e))
						}
					}
				}()
				w := &lmWorker{c: c, run: run, run12: ev.NewRun("C12", c.Tier, "model_checking"), gr: gr, g: g, initSV: lo.initSV, gname: lo.name, w: wi, nw: nw,
					cfg: map[string]string{"MaxDownresLevel": "2"}, edges: &edges, restarts: &restarts, noExt: true}
				w.afterEdge = func(w *lmWorker, uuid string, e lmEdge, lab *lmm.Labels) {
					d, err := w.in.CompareLevels(uuid, e.Obs, lab, l1, l2)
					must(err, "compare levels")
					atomic.AddInt64(&levelReads, 4)
					if len(d) > 0 {
						// give background work a generous moment: a level that only becomes right later was
						// not up to date when the volume reported itself idle
						time.Sleep(300 * time.Millisecond)
						d2, _ := w.in.CompareLevels(uuid, e.Obs, lab, l1, l2)
						kind := "lower-resolution-level-wrong"
						if len(d2) == 0 {
							kind = "idle-reported-before-levels-were-stored"
						}
						run.Violation("c14", c08Divergence{Kind: kind, Geometry: w.gname, InitSV: w.initSV, Path: w.gr.pathTo(e.T.Canon()), Op: e.L, Diffs: d, Labels: lab.ToReal})
						return
					}
					// the same stored levels through the other endpoints (blocks, specificblocks, label(s), sparsevol with scale=)
					d, n, err := w.in.CompareLevelReads(uuid, e.Obs, lab, l1, l2)
					must(err, "compare level reads")
					atomic.AddInt64(&scaleReads, int64(n))
					if len(d) > 0 {
						if len(d) > 12 {
							d = d[:12]
						}
						run.Violation("c14", c08Divergence{Kind: "lower-resolution-level-differs-through-another-endpoint", Geometry: w.gname, InitSV: w.initSV, Path: w.gr.pathTo(e.T.Canon()), Op: e.L, Diffs: d, Labels: lab.ToReal})
					}
				}
				root, lab := w.start()
				defer c.DropNode(w.n)
				w.explore(gr.init, root, lab)
			}(wi)
		}
		wg.Wait()
		if e := firstErr.Load(); e != nil {
			infra("labelmap worker: %v", e)
		}
		run.Sample(map[string]interface{}{"layout": lo.name, "initial_supervoxels": lo.initSV, "level1_classes": len(l1.Classes), "level2_classes": len(l2.Classes),
			"example_class_children": l1.Classes[len(l1.Classes)/2], "transitions": len(gr.edges)})
	}
	// the stored levels as specification state: 8-octant parents, MaxDownresLevel 0 / 1 / 3, stale and directly written
	// levels, non-mutating re-POSTs, simulated long behaviours, the idle predicate during a request
	lst := &lvStats{}
	if part != "graph" {
		c14Levels(c, run, lst)
	}
	states += lst.states
	trans += lst.trans
	edges += lst.edges
	levelReads += lst.levelReads
	run.Set("stored_level_behaviours_replayed", lst.behaviours)
	run.Set("stored_level_operations_by_kind", lst.byOp)
	run.Set("reads_above_the_maximum_level_refused_or_empty", lst.refused)
	run.Set("states", states)
	run.Set("transitions", trans)
	run.Set("traces_validated_against_impl", edges)
	run.Set("level_volumes_compared", levelReads)
	run.Set("level_reads_through_other_endpoints", scaleReads)
	run.Set("level_reads_by_option_combination", lmm.TakeStats())
	run.Set("rule", "case = one transition of the Labelmap.tla state graph (merge, cleave, split-supervoxel, renumber, mutating voxel write of a region, body split, index / mapping re-ingest; ingestion through POST raw and POST blocks?downres=true) on a labelmap instance with MaxDownresLevel=2; after the transition and the instance's own idle predicate, the stored level-1 and level-2 volumes (supervoxels and mapped) are read in full through GET raw?scale= and, with rotating options, through GET blocks?scale= / specificblocks?scale= (every compression), label / labels?scale= and sparsevol?scale= (rles, srles, blocks; body and supervoxel), and every voxel is compared with the vote TLC evaluates for its class (classes = distinct multisets of the 8 regions / level-1 classes beneath a voxel, computed by brute force from the shared geometry).  Growth (LabelmapLevels.tla): the stored levels are specification state st[level][class] for MaxDownresLevel = 0, 1, 2 and 3, recomputed per touched block like the server does; TLC enumerates every behaviour up to the depth bound (depth 1 completely, a seeded share of the second operations; long simulated behaviours with restarts) of: mutating POST raw of a whole block-aligned box in ONE request (1, 2, 4 and all 8 octants of one parent block, the whole volume), split-supervoxel with and without ?downres=false, solid blocks written directly at scale k through POST blocks?scale=k and ingest-supervoxels?scale=k, non-mutating POST raw over existing blocks in a child version, merge / cleave; checks Inv_C14_UpToDate (without the stale variants the incremental recomputation equals the documented vote, for every number of levels) and Inv_C14_Heals (after a stale split or a direct write, every level voxel above a block touched by the next mutation is again the vote of what is stored beneath it); every behaviour is replayed as a tree of versions on a geometry with a complete 2x2x2 cube of level-0 blocks plus one block at odd negative y / z (ingested as one box, as one POST blocks?downres=true, or in two POST blocks requests that give the parent block 1..4 and then 4..7 octants) and on the 4-block geometry, and every stored level is compared voxel by voxel with st; a scale above the maximum must be refused or empty; while one mutating request runs the node samples the instance's idle predicate (Updating or AnyScaleUpdating) between two reads of ScaleUpdating(max): idle must not be reported while the coarsest level is being updated; distinct = (configuration, behaviour prefix)")
	run.Assume = []string{"2x2x2 voting on cubic 32^3 blocks; 4 level-0 blocks incl. a negative block coordinate (parents with 1 and 3 present octants) and 9 level-0 blocks (a parent with all 8 octants, one with a single octant at odd negative coordinates)", "labels compared modulo an order-preserving bijection bound from responses",
		"parents with 5..7 touched octants arise at ingestion only (POST blocks in two requests); a mutating POST raw of a box touches 1, 2, 4 or 8 octants of a parent", "what the mapping makes of a stale level voxel that still holds a split-away supervoxel is not compared (supervoxel reads of the levels are)", "after a non-mutating re-POST only voxels and levels are compared (its label indices are double counted by design)"}
	fmt.Printf("C14: tlc %d states; %d transitions replayed, %d level volumes compared (%d/%d classes) in %.1fs; violations=%d\n",
		states, edges, levelReads, len(l1.Classes), len(l2.Classes), since(t0), run.Violations())
	return run.Finish()
}
