package main

// Payload documents for the hostile driver of C20: a valid payload is kept as a tree of
// structural fields (binary layouts with automatic length fields and re-wrapped gzip
// containers; JSON documents), so that a mutation class chosen by the specification
// (specs/Hostile.tla) can be instantiated at a structural position.

import (
	"bytes"
	"compress/gzip"
	"encoding/binary"
	"encoding/json"
	"fmt"
	"math/rand"
	"sort"
	"strings"
)

// ---------------------------------------------------------------------------------
// binary documents
// ---------------------------------------------------------------------------------

// bnode is a node of a binary payload.
type bnode struct {
	Name string
	Kind string   // field kind of the specification ("" for a plain group, which is not a field)
	Enc  string   // leaf encoding: "raw", "u8", "u16", "u32", "i32", "u64", "varint", "u16s", "u32s", "u64s"
	Val  []byte   // leaf bytes of the valid payload (ignored for automatic lengths)
	Kids []*bnode // group / container members
	Gzip bool     // container: members are gzip-compressed as one stream (a field of kind "gz")
	// automatic length: this leaf declares the encoded byte length of LenOf
	LenOf *bnode
	// for an index leaf: the number of entries of the table it points into
	Table int
}

func bleaf(name, kind, enc string, val []byte) *bnode {
	return &bnode{Name: name, Kind: kind, Enc: enc, Val: val}
}
func bgroup(kids ...*bnode) *bnode { return &bnode{Kids: kids} }
func bgz(name string, kids ...*bnode) *bnode {
	return &bnode{Name: name, Kind: "gz", Gzip: true, Kids: kids}
}
func blen(name, enc string, of *bnode) *bnode {
	return &bnode{Name: name, Kind: "len", Enc: enc, LenOf: of}
}

func le32(v uint32) []byte { b := make([]byte, 4); binary.LittleEndian.PutUint32(b, v); return b }
func le64(v uint64) []byte { b := make([]byte, 8); binary.LittleEndian.PutUint64(b, v); return b }
func varint(v uint64) []byte {
	b := make([]byte, binary.MaxVarintLen64)
	return b[:binary.PutUvarint(b, v)]
}

// bfield is one structural field in document order.
type bfield struct {
	N     *bnode
	Inner bool // lives inside a gzip container
	Box   *bnode // the enclosing gzip container (nil at top level)
}

func (n *bnode) fields() []bfield {
	var out []bfield
	var walk func(m *bnode, box *bnode)
	walk = func(m *bnode, box *bnode) {
		if m.Kind != "" {
			out = append(out, bfield{N: m, Inner: box != nil, Box: box})
		}
		nb := box
		if m.Gzip {
			nb = m
		}
		for _, k := range m.Kids {
			walk(k, nb)
		}
	}
	walk(n, nil)
	return out
}

// bmut is a mutation of a binary document.
type bmut struct {
	Target *bnode
	Class  string
	Rng    *rand.Rand
	Total  int    // size of the valid payload (for "beyond the payload" values)
	Note   string // what was done (filled while encoding)
	OK     bool   // the mutation was applied and changed the bytes
	Max    bool   // take the most extreme candidate value (first variant of a case)
	Turn   int    // the variants of one case walk through the candidate values
}

func gz(b []byte) []byte {
	var buf bytes.Buffer
	w := gzip.NewWriter(&buf)
	w.Write(b)
	w.Close()
	return buf.Bytes()
}

type benc struct {
	m    *bmut
	memo map[*bnode][]byte
	// spans of top-level (not re-wrapped) fields in the final bytes
	spans map[*bnode][2]int
}

func flipBits(b []byte, rng *rand.Rand, k int) []byte {
	out := append([]byte(nil), b...)
	if len(out) == 0 {
		return out
	}
	for i := 0; i < k; i++ {
		p := rng.Intn(len(out) * 8)
		out[p/8] ^= 1 << uint(p%8)
	}
	return out
}

func elemWidth(enc string) int {
	switch enc {
	case "u8":
		return 1
	case "u16", "u16s":
		return 2
	case "u32", "i32", "u32s":
		return 4
	case "u64", "u64s":
		return 8
	}
	return 0
}

// putElem overwrites one element (random for tables) of an integer leaf.
func putElem(val []byte, enc string, v uint64, rng *rand.Rand) ([]byte, int) {
	w := elemWidth(enc)
	if enc == "varint" {
		return varint(v), 0
	}
	if w == 0 || len(val) < w {
		return val, -1
	}
	out := append([]byte(nil), val...)
	n := len(val) / w
	i := 0
	if n > 1 {
		i = rng.Intn(n)
	}
	switch w {
	case 1:
		out[i] = byte(v)
	case 2:
		binary.LittleEndian.PutUint16(out[i*2:], uint16(v))
	case 4:
		binary.LittleEndian.PutUint32(out[i*4:], uint32(v))
	case 8:
		binary.LittleEndian.PutUint64(out[i*8:], v)
	}
	return out, i
}

func maxOf(enc string) uint64 {
	switch elemWidth(enc) {
	case 1:
		return 0xff
	case 2:
		return 0xffff
	case 4:
		return 0xffffffff
	}
	return ^uint64(0)
}

// leafValue applies a value mutation to a leaf.
func (e *benc) leafValue(n *bnode, val []byte) []byte {
	m := e.m
	if m == nil || m.Target != n {
		return val
	}
	rng := m.Rng
	switch m.Class {
	case "flip":
		k := 1 + rng.Intn(3)
		out := flipBits(val, rng, k)
		m.Note = fmt.Sprintf("flipped %d bit(s) of %s", k, n.Name)
		m.OK = !bytes.Equal(out, val)
		return out
	case "inflate":
		// values beyond anything the payload could hold
		var cands []uint64
		mx := maxOf(n.Enc)
		switch {
		case n.Enc == "varint":
			cands = []uint64{uint64(m.Total) + 7, 1<<31 - 1, 1 << 32, 1<<63 - 1}
		case elemWidth(n.Enc) == 2:
			cands = []uint64{0xffff, 0x7fff, 0xfff0}
		default:
			cands = []uint64{uint64(m.Total) + 1, 0x7fffffff, mx, mx - 7, 0x80000000}
		}
		if n.Kind == "dim" {
			cands = []uint64{0xffffffff, 0x10000, 0x7fffffff, 4097}
		}
		v := cands[m.Turn%len(cands)]
		if m.Max {
			for _, c := range cands {
				if c > v {
					v = c
				}
			}
		}
		out, i := putElem(val, n.Enc, v, rng)
		m.Note = fmt.Sprintf("%s[%d] := %d", n.Name, i, v)
		m.OK = !bytes.Equal(out, val)
		return out
	case "zero":
		out, i := putElem(val, n.Enc, 0, rng)
		m.Note = fmt.Sprintf("%s[%d] := 0", n.Name, i)
		m.OK = !bytes.Equal(out, val)
		return out
	case "idx_out":
		// m.Total carries nothing here; the table size is passed through the builder in n.Val's sibling: use extremes
		cands := []uint64{uint64(idxTableSize(n)), 0xffffffff, 0x7fffffff, 0x00010000}
		v := cands[m.Turn%len(cands)]
		out, i := putElem(val, n.Enc, v, rng)
		m.Note = fmt.Sprintf("%s[%d] := %d (table has %d entries)", n.Name, i, v, idxTableSize(n))
		m.OK = !bytes.Equal(out, val)
		return out
	case "extreme":
		var cands []uint64
		switch n.Kind {
		case "coord":
			cands = []uint64{0x80000000, 0x7fffffff, 0xffffffff, 0x7ffffff0}
		case "run":
			// a run length is data, not a count of following bytes: a run of 2^31 voxels is inside
			// the format and legitimately expensive, so the large value stays moderate
			cands = []uint64{0, 0xffffffff, 1 << 20, 0x80000000}
		default: // lbl, vint
			cands = []uint64{0, ^uint64(0), 1 << 63, 1<<63 - 1}
		}
		v := cands[m.Turn%len(cands)]
		out, i := putElem(val, n.Enc, v, rng)
		m.Note = fmt.Sprintf("%s[%d] := %#x", n.Name, i, v)
		m.OK = !bytes.Equal(out, val)
		return out
	}
	return val
}

func idxTableSize(n *bnode) int { return n.Table }

func isTrunc(c string) bool { return c == "trunc_before" || c == "trunc_mid" }

// contains reports whether t is n or a descendant of n.
func (n *bnode) contains(t *bnode) bool {
	if n == t {
		return true
	}
	for _, k := range n.Kids {
		if k.contains(t) {
			return true
		}
	}
	return false
}

// enc encodes a node (memoised: every random choice is made once).
func (e *benc) enc(n *bnode) []byte {
	if b, ok := e.memo[n]; ok {
		return b
	}
	var out []byte
	switch {
	case n.Gzip:
		var inner []byte
		cut := -1
		for _, k := range n.Kids {
			kb := e.encInner(k, len(inner), &cut)
			inner = append(inner, kb...)
		}
		if cut >= 0 && cut < len(inner) {
			e.m.Note += fmt.Sprintf("; body of %s cut at %d of %d bytes and compressed again", n.Name, cut, len(inner))
			e.m.OK = true
			inner = inner[:cut]
		}
		out = gz(inner)
		if e.m != nil && e.m.Target == n && e.m.Class == "flip" {
			k := 1 + e.m.Rng.Intn(3)
			o2 := flipBits(out, e.m.Rng, k)
			e.m.Note = fmt.Sprintf("flipped %d bit(s) of the compressed stream %s", k, n.Name)
			e.m.OK = !bytes.Equal(o2, out)
			out = o2
		}
	case len(n.Kids) > 0:
		for _, k := range n.Kids {
			out = append(out, e.enc(k)...)
		}
	case n.LenOf != nil:
		l := len(e.enc(n.LenOf))
		var val []byte
		switch n.Enc {
		case "u32":
			val = le32(uint32(l))
		case "varint":
			val = varint(uint64(l))
		default:
			panic("bad length encoding " + n.Enc)
		}
		out = e.leafValue(n, val)
	default:
		out = e.leafValue(n, n.Val)
	}
	e.memo[n] = out
	return out
}

// layout records the byte spans of the fields that are visible in the final bytes.
func (e *benc) layout(n *bnode, base int) {
	if n.Kind != "" {
		e.spans[n] = [2]int{base, len(e.enc(n))}
	}
	if n.Gzip {
		return
	}
	off := base
	for _, k := range n.Kids {
		e.layout(k, off)
		off += len(e.enc(k))
	}
}

// encInner encodes a member of a gzip container, noting where a truncation of the body falls.
func (e *benc) encInner(n *bnode, base int, cut *int) []byte {
	var out []byte
	switch {
	case len(n.Kids) > 0:
		for _, k := range n.Kids {
			out = append(out, e.encInner(k, base+len(out), cut)...)
		}
		return out
	case n.LenOf != nil:
		panic("length field inside a compressed container is not supported")
	}
	out = e.leafValue(n, n.Val)
	if e.m != nil && e.m.Target == n && isTrunc(e.m.Class) {
		if e.m.Class == "trunc_before" {
			*cut = base
		} else if len(out) >= 2 {
			*cut = base + 1 + e.m.Rng.Intn(len(out)-1)
		}
		if *cut >= 0 {
			e.m.Note = fmt.Sprintf("%s at %s", e.m.Class, n.Name)
		}
	}
	return out
}

// encode returns the payload bytes with the mutation applied.  applicable=false when the
// class cannot be instantiated at that field (e.g. cutting inside a one-byte field).
func (n *bnode) encode(m *bmut) (payload []byte, applicable bool) {
	e := &benc{m: m, memo: map[*bnode][]byte{}, spans: map[*bnode][2]int{}}
	out := e.enc(n)
	e.layout(n, 0)
	if m == nil {
		return out, true
	}
	if m.Target != nil && isTrunc(m.Class) {
		sp, top := e.spans[m.Target]
		inner := false
		for _, f := range n.fields() {
			if f.N == m.Target {
				inner = f.Inner
			}
		}
		if !inner {
			if !top {
				return out, false
			}
			cut := sp[0]
			if m.Class == "trunc_mid" {
				if sp[1] < 2 {
					return out, false
				}
				cut = sp[0] + 1 + m.Rng.Intn(sp[1]-1)
			}
			m.Note = fmt.Sprintf("%s at %s: payload cut at byte %d of %d", m.Class, m.Target.Name, cut, len(out))
			m.OK = cut < len(out)
			return out[:cut], m.OK
		}
		return out, m.OK
	}
	switch m.Class {
	case "empty":
		m.Note, m.OK = "empty body", len(out) > 0
		return nil, m.OK
	case "extend":
		k := 1 + m.Rng.Intn(64)
		extra := make([]byte, k)
		m.Rng.Read(extra)
		m.Note, m.OK = fmt.Sprintf("%d extra bytes appended", k), true
		return append(out, extra...), true
	case "flipany":
		k := 1 + m.Rng.Intn(8)
		m.Note = fmt.Sprintf("flipped %d random bit(s) of the payload", k)
		o2 := flipBits(out, m.Rng, k)
		m.OK = !bytes.Equal(o2, out)
		return o2, m.OK
	case "garbage":
		o2 := make([]byte, len(out))
		m.Rng.Read(o2)
		// keep a prefix so that the parsers get past their first checks now and then
		keep := m.Rng.Intn(1 + len(out)/2)
		copy(o2, out[:keep])
		m.Note, m.OK = fmt.Sprintf("random bytes after the first %d", keep), true
		return o2, true
	}
	return out, m.OK
}

// ---------------------------------------------------------------------------------
// JSON documents
// ---------------------------------------------------------------------------------

type jnode struct {
	Name string
	Kind string // jint jstr jlist jobj jkey ; "" = not a field (plain literal)
	Num  int64
	Str  string
	Kids []*jnode // list members, or object member values (each with Key)
	Key  string   // member key when inside an object
	KeyF *jnode   // optional: the key itself is a field (kind jkey)
	Raw  string   // literal JSON for non-field values
	Alt  string   // another valid value of the field (a "uuidref": the other parent)
}

func jint(name string, v int64) *jnode    { return &jnode{Name: name, Kind: "jint", Num: v} }
func jstr(name, s string) *jnode           { return &jnode{Name: name, Kind: "jstr", Str: s} }
func jlist(name string, k ...*jnode) *jnode { return &jnode{Name: name, Kind: "jlist", Kids: k} }
func jobj(name string, k ...*jnode) *jnode  { return &jnode{Name: name, Kind: "jobj", Kids: k} }
func (n *jnode) key(k string) *jnode        { n.Key = k; return n }

func (n *jnode) fields() []*jnode {
	var out []*jnode
	var walk func(m *jnode)
	walk = func(m *jnode) {
		if m.KeyF != nil {
			out = append(out, m.KeyF)
		}
		if m.Kind != "" {
			out = append(out, m)
		}
		for _, k := range m.Kids {
			walk(k)
		}
	}
	walk(n)
	return out
}

type jmut struct {
	Target *jnode
	Class  string
	Dom    string // "u64", "i32", "" from the field flags
	Rng    *rand.Rand
	Note   string
	OK     bool
	Flags  strList   // flags of the target field (specification)
	World  *c20World // for values that refer to the world (versions, instances)
	Self   string    // name of the instance the request addresses
}

func jquote(s string) string { b, _ := json.Marshal(s); return string(b) }

func (n *jnode) render(sb *strings.Builder, m *jmut, cut *int, parentObj bool) {
	if parentObj {
		key := n.Key
		if n.KeyF != nil {
			if m != nil && m.Target == n.KeyF {
				switch m.Class {
				case "jkeybad":
					c := []string{"a,b,c", "1,2", "", "1;2;3", "x"}
					key = c[m.Rng.Intn(len(c))]
					m.Note, m.OK = fmt.Sprintf("key %q := %q", n.Key, key), true
				case "jtrunc":
					*cut = sb.Len()
					m.Note, m.OK = "cut before key "+n.Key, true
				case "jtype":
					// a key is always a string in JSON: drop the quotes
					sb.WriteString(strings.Trim(jquote(key), `"`) + ":")
					m.Note, m.OK = "unquoted key", true
					goto value
				}
			}
		}
		sb.WriteString(jquote(key) + ":")
	}
value:
	if m != nil && m.Target == n {
		switch m.Class {
		case "jtrunc":
			*cut = sb.Len()
			m.Note, m.OK = "cut before "+n.Name, true
		case "jtype":
			rep := map[string]string{"jint": `"x7"`, "jstr": `17`, "jlist": `{"a":1}`, "jobj": `[1]`}[n.Kind]
			if m.Flags.has("typed") && m.Rng.Intn(3) == 0 {
				// another wrong type now and then
				rep = map[string]string{"jint": `[1]`, "jstr": `{"a":"b"}`, "jlist": `"abc"`, "jobj": `7`}[n.Kind]
			}
			sb.WriteString(rep)
			m.Note, m.OK = fmt.Sprintf("%s := %s", n.Name, rep), true
			return
		case "jneg":
			v := -n.Num - 1 - int64(m.Rng.Intn(5))
			if v >= 0 {
				v = -1
			}
			fmt.Fprintf(sb, "%d", v)
			m.Note, m.OK = fmt.Sprintf("%s := %d", n.Name, v), true
			return
		case "jhuge":
			c := []string{"2147483648", "1099511627776", "9223372036854775808", "18446744073709551616", "1e30"}
			switch m.Dom {
			case "u64":
				c = []string{"18446744073709551616", "1e30", "99999999999999999999999"}
			case "i32":
				c = []string{"2147483648", "1099511627776", "18446744073709551616"}
			}
			v := c[m.Rng.Intn(len(c))]
			sb.WriteString(v)
			m.Note, m.OK = fmt.Sprintf("%s := %s", n.Name, v), true
			return
		case "jfrac":
			v := fmt.Sprintf("%d.5", n.Num)
			sb.WriteString(v)
			m.Note, m.OK = fmt.Sprintf("%s := %s", n.Name, v), true
			return
		case "jenum":
			c := []string{"NoSuchKind", "", "postsyn ", "labelmapx"}
			v := c[m.Rng.Intn(len(c))]
			sb.WriteString(jquote(v))
			m.Note, m.OK = fmt.Sprintf("%s := %q", n.Name, v), true
			return
		case "jempty":
			if n.Kind == "jlist" {
				sb.WriteString("[]")
			} else {
				sb.WriteString("{}")
			}
			m.Note, m.OK = n.Name+" emptied", true
			return
		case "jshort", "jlong":
			kids := n.Kids
			if m.Class == "jshort" {
				if len(kids) == 0 {
					break
				}
				kids = kids[:len(kids)-1]
			} else {
				if len(kids) == 0 {
					break
				}
				kids = append(append([]*jnode(nil), kids...), kids[len(kids)-1])
			}
			sb.WriteString("[")
			for i, k := range kids {
				if i > 0 {
					sb.WriteString(",")
				}
				k.render(sb, nil, cut, false)
			}
			sb.WriteString("]")
			m.Note, m.OK = fmt.Sprintf("%s: %d members instead of %d", n.Name, len(kids), len(n.Kids)), true
			return
		case "numnonnum", "numzero", "numneg", "numhuge":
			v := map[string][]string{
				"numnonnum": {"abc", "1.5x", "", "0x10", "1e3", " 1"},
				"numzero":   {"0"},
				"numneg":    {"-1", "-128", "-2147483649"},
				"numhuge":   {"255", "256", "65536", "2147483647", "4294967296", "99999999999999999999"},
			}[m.Class]
			s := v[m.Rng.Intn(len(v))]
			sb.WriteString(jquote(s))
			m.Note, m.OK = fmt.Sprintf("%s := %q", n.Name, s), s != n.Str
			return
		case "syncself", "syncmissing", "syncwrongtype", "syncdup", "syncmulti", "syncempty":
			v := map[string][]string{
				"syncself":      {m.Self, n.Str + "," + m.Self},
				"syncmissing":   {"nosuchinstance", n.Str + ",nosuch", "nosuch," + n.Str},
				"syncwrongtype": {"kv", "roi", n.Str + ",kv", "gray"},
				"syncdup":       {n.Str + "," + n.Str},
				"syncmulti":     c20SyncMulti[m.Self],
				"syncempty":     {"", ",", " "},
			}[m.Class]
			if len(v) == 0 {
				break
			}
			s := v[m.Rng.Intn(len(v))]
			sb.WriteString(jquote(s))
			m.Note, m.OK = fmt.Sprintf("%s := %q", n.Name, s), s != n.Str
			return
		case "refunknown", "refopen", "refdup":
			var s string
			switch m.Class {
			case "refunknown":
				s = []string{c20NoVersion, "zz", "", "0"}[m.Rng.Intn(4)]
			case "refopen":
				s = m.World.b
			case "refdup":
				s = n.Alt
			}
			sb.WriteString(jquote(s))
			m.Note, m.OK = fmt.Sprintf("%s := %q", n.Name, s), s != n.Str
			return
		case "cfgnonnum", "cfgzero", "cfgneg", "cfghuge":
			v := map[string][]string{
				"cfgnonnum": {"a,b,c", "32,x,32", "32;32;32", "32,,32"},
				"cfgzero":   {"0,0,0", "32,0,32"},
				"cfgneg":    {"-32,32,32", "-1,-1,-1"},
				"cfghuge":   {"2147483647,2147483647,2147483647", "1073741824,1073741824,1073741824"},
			}[m.Class]
			s := v[m.Rng.Intn(len(v))]
			sb.WriteString(jquote(s))
			m.Note, m.OK = fmt.Sprintf("%s := %q", n.Name, s), true
			return
		}
	}
	switch n.Kind {
	case "jint":
		fmt.Fprintf(sb, "%d", n.Num)
	case "jstr":
		sb.WriteString(jquote(n.Str))
	case "jlist":
		sb.WriteString("[")
		for i, k := range n.Kids {
			if i > 0 {
				sb.WriteString(",")
			}
			k.render(sb, m, cut, false)
		}
		sb.WriteString("]")
	case "jobj":
		sb.WriteString("{")
		for i, k := range n.Kids {
			if i > 0 {
				sb.WriteString(",")
			}
			k.render(sb, m, cut, true)
		}
		sb.WriteString("}")
	default:
		sb.WriteString(n.Raw)
	}
}

func (n *jnode) encode(m *jmut) ([]byte, bool) {
	var sb strings.Builder
	cut := -1
	n.render(&sb, m, &cut, false)
	out := []byte(sb.String())
	if m == nil {
		return out, true
	}
	if cut >= 0 {
		return out[:cut], cut > 0
	}
	switch m.Class {
	case "empty":
		m.Note, m.OK = "empty body", true
		return nil, true
	case "jflip":
		k := 1 + m.Rng.Intn(4)
		o2 := flipBits(out, m.Rng, k)
		m.Note, m.OK = fmt.Sprintf("flipped %d bit(s) of the JSON text", k), !bytes.Equal(o2, out)
		return o2, m.OK
	case "jgarbage":
		c := []string{"not json", "{", "[1,2", "\x00\x01\x02", "{\"a\":}", "[,]", "nul", "{'a':1}"}
		s := c[m.Rng.Intn(len(c))]
		m.Note, m.OK = fmt.Sprintf("body := %q", s), true
		return []byte(s), true
	case "jdeep":
		d := 20000 + m.Rng.Intn(1000)
		open, cl := "[", "]"
		if n.Kind == "jobj" {
			open, cl = `{"a":`, "}"
		}
		s := strings.Repeat(open, d) + "1" + strings.Repeat(cl, d)
		m.Note, m.OK = fmt.Sprintf("%d nested containers", d), true
		return []byte(s), true
	}
	return out, m.OK
}

// ---------------------------------------------------------------------------------
// URL parameters
// ---------------------------------------------------------------------------------

// mutateParam returns the hostile spelling of one URL parameter.
func mutateParam(kind, class, valid string, hugeAll, isFloat bool, rng *rand.Rand, turn int) (string, bool) {
	// the variants of one case walk through the candidate spellings (turn = case offset + variant)
	pick := func(c ...string) (string, bool) { return c[turn%len(c)], true }
	sep := "_"
	if strings.Contains(valid, ",") {
		sep = ","
	}
	n := strings.Count(valid, sep) + 1
	rep := func(s string) string { // same value in every component
		return strings.TrimSuffix(strings.Repeat(s+sep, n), sep)
	}
	one := func(s string) string { // one component replaced
		parts := strings.Split(valid, sep)
		parts[rng.Intn(len(parts))] = s
		return strings.Join(parts, sep)
	}
	if class == "missing" {
		return "", true
	}
	switch kind {
	case "usize", "uoff", "ucoord", "ushape":
		if isFloat {
			switch class {
			case "nonnum":
				return pick(rep("a"), one("x"), one("0x1g"), one("+"), one(""), one("1,5"))
			case "overflow":
				return pick(one("1e999"), one("-1e999"))
			}
		}
		switch class {
		case "nonnum":
			return pick(rep("a"), one("x"), one("1.5"), one("1e3"), one("0x10"), one("+"), one(""))
		case "neg":
			return pick(one("-32"), rep("-1"), one("-2147483648"))
		case "huge":
			if !hugeAll {
				// range queries walk one row of blocks per (y, z): only the x extent is made huge,
				// the cost of answering stays bounded (performance is not what is checked)
				// (and large rather than near 2^31: some handlers size buffers by the block count)
				parts := strings.Split(valid, sep)
				parts[0] = []string{"262144", "1048576", "524256"}[rng.Intn(3)]
				return strings.Join(parts, sep), true
			}
			return pick(rep("2147483647"), one("2147483647"), rep("1073741824"), rep("100000"), one("2147483616"))
		case "overflow":
			return pick(one("2147483648"), one("4294967296"), one("99999999999999999999"), one("-2147483649"))
		case "short":
			parts := strings.Split(valid, sep)
			if len(parts) < 2 {
				return "", false
			}
			return strings.Join(parts[:len(parts)-1], sep), true
		case "zero":
			return pick(rep("0"), one("0"))
		}
	case "ulabel":
		switch class {
		case "nonnum":
			return pick("abc", "1.5", "0x10", "1e3", "12a", "+")
		case "neg":
			return pick("-1", "-9223372036854775808")
		case "overflow":
			return pick("18446744073709551616", "99999999999999999999999")
		case "label0":
			return "0", true
		case "labelmax":
			return "18446744073709551615", true
		}
	case "uint":
		if isFloat {
			switch class {
			case "nonnum":
				return pick("abc", "1,5", "--1", "0x1g")
			case "overflow":
				return pick("1e999", "-1e999")
			case "huge":
				return pick("100000", "1e6")
			}
		}
		switch class {
		case "nonnum":
			return pick("abc", "1.5", "0x10", "1e3")
		case "neg":
			return pick("-1", "-2147483648")
		case "huge":
			if !hugeAll {
				return pick("100000", "65536", "1000000")
			}
			return pick("2147483647", "4294967295", "255", "1000000")
		case "overflow":
			return pick("99999999999999999999", "18446744073709551616")
		case "zero":
			return "0", true
		}
	case "uenum":
		switch class {
		case "unknownval":
			return pick("NoSuchValue", "postsyn", "0", "AllSyn%00")
		case "long":
			return strings.Repeat("v", 3000+rng.Intn(3000)), true
		}
	case "ukey":
		switch class {
		case "long":
			return strings.Repeat("k", 3000+rng.Intn(5000)), true
		case "weird":
			return pick("%00", "..%2F..%2Fetc", "a%20b", "%E2%98%83", "a%2Fb", "%25", "~!$&'()*+,;=:@", "%ff%fe")
		}
	}
	return "", false
}

func sortedKeys(m map[string]bool) []string {
	var ks []string
	for k := range m {
		ks = append(ks, k)
	}
	sort.Strings(ks)
	return ks
}
