package main

import (
	"encoding/json"
	"fmt"
	"math/rand"
	"os"
	"path/filepath"
	"sort"
	"strings"
	"sync"

	"verifharness/internal/ev"
	"verifharness/internal/node"
)

// `./check selftest` is not a property check (it is not in MANIFEST.json and writes no evidence file).
// It demonstrates that the trace specifications are bound to what was recorded, and reports vacuity:
//
//  1. trace corruption: traces recorded from the real server and accepted by DvidKVTrace / IdsTrace are
//     corrupted in one place (a read result, an acknowledgement flag, a dropped or reordered write, a
//     repeated identifier); every corrupted trace must be rejected by TLC;
//  2. vacuity: reads coverage/<check>.json written by checks run with VERIF_COVERAGE=1 (TLC -coverage 1)
//     and lists the actions no configuration ever took.
//
// Exit 0 = every corruption rejected; exit 1 = some corruption accepted (a weak trace spec); 2 = infrastructure.
func init() { checks["selftest"] = checkSelftest }

func cloneEvents(evs []map[string]interface{}) []map[string]interface{} {
	out := make([]map[string]interface{}, len(evs))
	for i, e := range evs {
		m := map[string]interface{}{}
		for k, v := range e {
			m[k] = v
		}
		out[i] = m
	}
	return out
}

type corruption struct {
	kind string
	at   int
	evs  []map[string]interface{}
}

// corruptKV derives corrupted variants of an accepted KV trace, each of which no behaviour of the
// specification can explain.
func corruptKV(evs []map[string]interface{}, rng *rand.Rand) []corruption {
	var out []corruption
	pickIdx := func(pred func(i int, e map[string]interface{}) bool) int {
		var c []int
		for i, e := range evs {
			if pred(i, e) {
				c = append(c, i)
			}
		}
		if len(c) == 0 {
			return -1
		}
		return c[rng.Intn(len(c))]
	}
	isEv := func(e map[string]interface{}, k string) bool { return e["ev"] == k }
	// (a) a read result replaced by another one
	if i := pickIdx(func(_ int, e map[string]interface{}) bool { return isEv(e, "get") && e["res"].(int) > 0 }); i >= 0 {
		c := cloneEvents(evs)
		c[i]["res"] = 0
		out = append(out, corruption{"get-value-to-notfound", i, c})
		c = cloneEvents(evs)
		c[i]["res"] = c[i]["res"].(int) + 1000
		out = append(out, corruption{"get-value-to-unknown-value", i, c})
	}
	if i := pickIdx(func(_ int, e map[string]interface{}) bool { return isEv(e, "get") && e["res"].(int) == 0 }); i >= 0 {
		c := cloneEvents(evs)
		c[i]["res"] = 1
		out = append(out, corruption{"get-notfound-to-value", i, c})
	}
	// (b) an acknowledgement flipped
	for _, k := range []string{"put", "del", "commit"} {
		if i := pickIdx(func(_ int, e map[string]interface{}) bool { return isEv(e, k) }); i >= 0 {
			c := cloneEvents(evs)
			c[i]["ok"] = !c[i]["ok"].(bool)
			out = append(out, corruption{k + "-ack-flipped", i, c})
		}
	}
	// (c) an acknowledged write whose value is read later: dropped, or moved behind that read
	type pair struct{ w, r int }
	var ps []pair
	for i, e := range evs {
		if isEv(e, "put") && e["ok"].(bool) {
			for j := i + 1; j < len(evs); j++ {
				if isEv(evs[j], "get") && evs[j]["res"] == e["val"] {
					ps = append(ps, pair{i, j})
					break
				}
			}
		}
	}
	if len(ps) > 0 {
		p := ps[rng.Intn(len(ps))]
		c := cloneEvents(evs)
		c = append(c[:p.w], c[p.w+1:]...)
		out = append(out, corruption{"acknowledged-put-dropped", p.w, c})
		c = cloneEvents(evs)
		w := c[p.w]
		copy(c[p.w:p.r], c[p.w+1:p.r+1])
		c[p.r] = w
		out = append(out, corruption{"put-moved-behind-its-read", p.w, c})
	}
	// (d) a node-creating request acknowledged with a node number that already exists
	if i := pickIdx(func(_ int, e map[string]interface{}) bool {
		n, ok := e["new"].(int)
		return ok && n > 1 && !isEv(e, "newrepo")
	}); i >= 0 {
		c := cloneEvents(evs)
		c[i]["new"] = c[i]["new"].(int) - 1
		out = append(out, corruption{"child-number-reused", i, c})
	}
	// (e) a refused merge reported as accepted
	if i := pickIdx(func(_ int, e map[string]interface{}) bool { return isEv(e, "merge") && !e["ok"].(bool) }); i >= 0 {
		c := cloneEvents(evs)
		c[i]["ok"] = true
		n := 1
		for _, e := range evs[:i] {
			if v, ok := e["new"].(int); ok && v > n {
				n = v
			}
		}
		c[i]["new"] = n + 1
		// later node numbers shift by one so that only the flipped flag is wrong
		for _, e := range c[i+1:] {
			for _, f := range []string{"node", "new"} {
				if v, ok := e[f].(int); ok && v > n {
					e[f] = v + 1
				}
			}
			if ps, ok := e["parents"].([]int); ok {
				q := append([]int(nil), ps...)
				for k := range q {
					if q[k] > n {
						q[k]++
					}
				}
				e["parents"] = q
			}
		}
		out = append(out, corruption{"refused-merge-acknowledged", i, c})
	}
	return out
}

func corruptIds(evs []idEvent, rng *rand.Rand) []struct {
	kind string
	evs  []idEvent
} {
	var out []struct {
		kind string
		evs  []idEvent
	}
	clone := func() []idEvent {
		c := make([]idEvent, len(evs))
		for i, e := range evs {
			m := idEvent{}
			for k, v := range e {
				m[k] = v
			}
			c[i] = m
		}
		return c
	}
	idx := func(kind string) []int {
		var r []int
		for i, e := range evs {
			if e["ev"] == kind {
				r = append(r, i)
			}
		}
		return r
	}
	add := func(kind string, c []idEvent) {
		out = append(out, struct {
			kind string
			evs  []idEvent
		}{kind, c})
	}
	for _, kind := range []string{"mut", "label", "version", "instance"} {
		is := idx(kind)
		if len(is) < 2 {
			continue
		}
		k := 1 + rng.Intn(len(is)-1)
		c := clone()
		c[is[k]]["id"] = c[is[k-1]]["id"] // the previous identifier issued again
		add(kind+"-issued-twice", c)
	}
	if is := idx("mut"); len(is) >= 3 {
		k := 1 + rng.Intn(len(is)-2)
		c := clone()
		c[is[k]], c[is[k+1]] = c[is[k+1]], c[is[k]]
		if fmt.Sprint(c[is[k]]["repo"]) == fmt.Sprint(c[is[k+1]]["repo"]) {
			add("mutation-ids-out-of-order", c)
		}
	}
	if is := idx("range"); len(is) >= 1 {
		k := rng.Intn(len(is))
		c := clone()
		c[is[k]]["end"] = toInt(c[is[k]]["end"]) + 1
		add("range-end-beyond-count", c)
	}
	return out
}

func toInt(v interface{}) int64 {
	switch x := v.(type) {
	case int:
		return int64(x)
	case int64:
		return x
	case uint64:
		return int64(x)
	case float64:
		return int64(x)
	}
	return 0
}

func checkSelftest(c *Ctx) int {
	bad := 0
	var mu sync.Mutex
	counts := map[string][2]int{} // kind -> rejected, total
	note := func(kind string, rejected bool, detail string) {
		mu.Lock()
		defer mu.Unlock()
		t := counts[kind]
		t[1]++
		if rejected {
			t[0]++
		} else {
			bad++
			fmt.Printf("SELFTEST: corrupted trace ACCEPTED (%s): %s\n", kind, detail)
		}
		counts[kind] = t
	}
	// ---- 1a. KV / DAG traces
	nTraces := c.pick(12, 60)
	traces := make([]kvTrace, nTraces)
	parallel(nTraces, 6, func(_, t int) {
		n := c.StartNode(node.Config{})
		defer c.DropNode(n)
		seed := c.Seed*7919 + int64(t)
		d := &kvTraceDriver{n: n, rng: rand.New(rand.NewSource(seed))}
		d.run(70, 10, false)
		traces[t] = kvTrace{seed: seed, events: d.events, script: d.script}
	})
	type job struct {
		t int
		c corruption
	}
	var jobs []job
	for t, tr := range traces {
		if _, ok, _ := validateKVTrace(c, tr.events, true); !ok {
			infra("selftest: uncorrupted trace %d rejected", t)
		}
		for _, cr := range corruptKV(tr.events, rand.New(rand.NewSource(tr.seed))) {
			jobs = append(jobs, job{t, cr})
		}
	}
	parallel(len(jobs), 12, func(_, i int) {
		j := jobs[i]
		k, ok, _ := validateKVTrace(c, j.c.evs, true)
		note("kv:"+j.c.kind, !ok, fmt.Sprintf("trace seed %d, corrupted event %d %s, %d events explained", traces[j.t].seed, j.c.at, jsonStr(traces[j.t].events[j.c.at]), k))
	})
	// ---- 1b. identifier traces
	nIds := c.pick(3, 10)
	type idjob struct {
		kind string
		evs  []idEvent
	}
	var idjobs []idjob
	var imu sync.Mutex
	parallel(nIds, 3, func(_, t int) {
		d := &idsDriver{c: c}
		d.start(node.Config{})
		for i := 0; i < 120; i++ {
			d.step(i + t*7)
			if i == 60 {
				d.restart(t%2 == 0)
			}
		}
		c.DropNode(d.n)
		if _, ok := validateIdsTrace(c, d.events); !ok {
			infra("selftest: uncorrupted identifier trace %d rejected", t)
		}
		imu.Lock()
		for _, cr := range corruptIds(d.events, rand.New(rand.NewSource(c.Seed+int64(t)))) {
			idjobs = append(idjobs, idjob{cr.kind, cr.evs})
		}
		imu.Unlock()
	})
	parallel(len(idjobs), 12, func(_, i int) {
		_, ok := validateIdsTrace(c, idjobs[i].evs)
		note("ids:"+idjobs[i].kind, !ok, "")
	})
	var kinds []string
	for k := range counts {
		kinds = append(kinds, k)
	}
	sort.Strings(kinds)
	fmt.Println("selftest 1: corrupted traces rejected / presented")
	for _, k := range kinds {
		fmt.Printf("  %-36s %d / %d\n", k, counts[k][0], counts[k][1])
	}
	// ---- 2. vacuity report from recorded coverage
	files, _ := filepath.Glob(filepath.Join(ev.VerifDir, "coverage", "C*.json"))
	sort.Strings(files)
	type cov struct {
		Check   string
		Runs    map[string]int `json:"tlc_runs"`
		Actions map[string]struct{ Distinct, Generated int64 }
	}
	total := map[string]int64{}
	for _, f := range files {
		b, err := os.ReadFile(f)
		if err != nil {
			continue
		}
		var cv cov
		if json.Unmarshal(b, &cv) != nil {
			continue
		}
		for a, n := range cv.Actions {
			total[a] += n.Generated
		}
	}
	if len(files) == 0 {
		fmt.Println("selftest 2: no coverage/*.json (run the checks with VERIF_COVERAGE=1 first)")
	} else {
		var zero []string
		for a, n := range total {
			if n == 0 {
				zero = append(zero, a)
			}
		}
		sort.Strings(zero)
		fmt.Printf("selftest 2: %d actions over %d checks; never taken in any configuration: %d\n", len(total), len(files), len(zero))
		for _, a := range zero {
			fmt.Printf("  never taken: %s\n", a)
		}
	}
	if bad > 0 {
		fmt.Printf("SELFTEST FAILED: %d corrupted traces were accepted\n", bad)
		return 1
	}
	fmt.Println("SELFTEST OK: " + strings.TrimSpace(fmt.Sprintf("%d corrupted traces, all rejected", len(jobs)+len(idjobs))))
	return 0
}
