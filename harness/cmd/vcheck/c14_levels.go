package main

// C14 growth: the stored lower-resolution levels as specification state (LabelmapLevels.tla).
// TLC enumerates every behaviour up to a depth bound (or simulates long ones) of mutating voxel
// writes that post a whole box, supervoxel splits with and without down-sampling, blocks written
// directly at a lower-resolution scale, non-mutating re-POSTs, merges and cleaves, for an instance
// with MaxDownresLevel = 0, 1, 2 or 3; it checks the model-level claims (Inv_C14_UpToDate,
// Inv_C14_Heals) and prints the stored levels of every state.  The behaviours are replayed as a
// tree of versions and the levels the server stores are compared voxel by voxel with TLC's.

import (
	"encoding/base64"
	"encoding/json"
	"fmt"
	"math/rand"
	"os"
	"sort"
	"strings"
	"sync"
	"sync/atomic"
	"time"

	"verifharness/internal/ev"
	"verifharness/internal/lmm"
	"verifharness/internal/node"
	"verifharness/internal/tlc"
)

type lvCfg struct {
	name   string
	g      *lmm.Geom
	initSV []uint64
	nl     int // MaxDownresLevel of the instance
	ops    int // depth bound
	stale, direct, repost, agglo, whole bool
	sim    int // > 0: that many simulated behaviours of depth ops instead of exhaustive enumeration
	keep   int // > 0: of the transitions beyond depth 1 a seeded keep/1000 is replayed
}

type lvNode struct {
	key    lmm.Key
	obs    lmm.Obs
	lv     [][]uint64
	op     lmm.Op
	parent *lvNode
	kids   []*lvNode
	sig    string
	depth  int
}

// lvAbandon ends one worker after it reported a violation that makes its instance useless.
type lvAbandon struct{}

type lvStats struct {
	states, trans, edges, levelReads, refused, behaviours int64
	mu                                                   sync.Mutex
	byOp                                                 map[string]int64
}

func (s *lvStats) count(k string) {
	s.mu.Lock()
	if s.byOp == nil {
		s.byOp = map[string]int64{}
	}
	s.byOp[k]++
	s.mu.Unlock()
}

func (n *lvNode) path() []lmm.Op {
	var rev []lmm.Op
	for x := n; x != nil && x.parent != nil; x = x.parent {
		rev = append(rev, x.op)
	}
	for i, j := 0, len(rev)-1; i < j; i, j = i+1, j-1 {
		rev[i], rev[j] = rev[j], rev[i]
	}
	return rev
}

// lvExplore runs TLC on LabelmapLevels_mc and returns the tree of behaviours.
func lvExplore(c *Ctx, cf lvCfg, tabs []*lmm.LevelTab, st *lvStats) *lvNode {
	g := cf.g
	files := map[string][]byte{"LabelGeom.tla": []byte(g.TLALevelTables(cf.initSV, tabs))}
	cfg := fmt.Sprintf("SPECIFICATION SpecH\nCONSTANTS\n  R = %d\n  NB = %d\n  NVox <- NVoxDef\n  InitSV <- InitSVDef\n  InitMax = %d\n  MaxOps = %d\n  Classes1 <- Classes1Def\n  Classes2 <- Classes2Def\n  WithOverwrite = FALSE\n  WithSplit = FALSE\n"+
		"  WithStale = %s\n  WithDirect = %s\n  WithRepost = %s\n  WithAgglo = %s\n  WithWhole = %s\n"+
		"INVARIANTS Inv_C14_UpToDate Inv_C14_Heals Inv_C14_Shape Inv_C08_Conservation EmitL\nCHECK_DEADLOCK FALSE\n",
		g.R, len(g.Blocks), maxU64(cf.initSV), cf.ops, tlaBool(cf.stale), tlaBool(cf.direct), tlaBool(cf.repost), tlaBool(cf.agglo), tlaBool(cf.whole))
	files["gen_lv.cfg"] = []byte(cfg)
	var r *tlc.Result
	if cf.sim > 0 {
		r = c.RunTLC(tlc.Opts{Module: "LabelmapLevels_mc", Config: "gen_lv.cfg", Files: files, Workers: 1, Simulate: fmt.Sprintf("num=%d", cf.sim), Depth: cf.ops + 1,
			Seed: c.Seed, Timeout: 10 * time.Minute})
		if r.Violation != "" {
			infra("tlc LabelmapLevels_mc (simulation, %s): %s\n%s", cf.name, r.Violation, r.Tail(2000))
		}
	} else {
		r = c.MustModelCheck(tlc.Opts{Module: "LabelmapLevels_mc", Config: "gen_lv.cfg", Files: files, Timeout: 10 * time.Minute})
		atomic.AddInt64(&st.states, r.Distinct)
		atomic.AddInt64(&st.trans, r.Generated)
	}
	nodes := map[string]*lvNode{}
	var order []*lvNode
	parentSig := map[string]string{}
	PrintedJSON(r.Output, func(raw []byte) {
		var p struct {
			K    *lmm.Key   `json:"k"`
			D    int        `json:"d"`
			Obs  lmm.Obs    `json:"obs"`
			Lv   [][]uint64 `json:"lv"`
			Hist []struct {
				L lmm.Op `json:"l"`
				X struct {
					How    string `json:"how"`
					Posted []int  `json:"posted"`
				} `json:"x"`
				T lmm.Key `json:"t"`
			} `json:"hist"`
		}
		if json.Unmarshal(raw, &p) != nil || p.K == nil {
			return
		}
		sig, psig := "", ""
		for i, h := range p.Hist {
			if i == len(p.Hist)-1 {
				psig = sig
			}
			sig += jsonStr(h.L) + jsonStr(h.X) + h.T.Canon() + ";"
		}
		if _, dup := nodes[sig]; dup {
			return
		}
		n := &lvNode{key: *p.K, obs: p.Obs, lv: p.Lv, sig: sig, depth: len(p.Hist)}
		if len(p.Hist) > 0 {
			h := p.Hist[len(p.Hist)-1]
			n.op = h.L
			if h.X.How != "" {
				n.op.How = h.X.How
			}
			if len(h.X.Posted) > 0 {
				n.op.Posted = h.X.Posted
			}
			parentSig[sig] = psig
		}
		nodes[sig] = n
		order = append(order, n)
	})
	root := nodes[""]
	if root == nil || len(order) < 2 {
		infra("LabelmapLevels_mc (%s) emitted nothing: %s", cf.name, r.Tail(2000))
	}
	sort.SliceStable(order, func(i, j int) bool { return order[i].depth < order[j].depth })
	for _, n := range order {
		if n == root {
			continue
		}
		p := nodes[parentSig[n.sig]]
		if p == nil {
			infra("LabelmapLevels_mc (%s): a behaviour without its prefix", cf.name)
		}
		n.parent = p
		n.op.OldSV = p.key.SV
		if n.op.Op == "overwrite" {
			n.op.NewSV = n.key.SV
		}
		p.kids = append(p.kids, n)
	}
	if cf.sim > 0 {
		// TLC prints every generated successor of a simulated trace: keep cf.sim complete behaviours (seeded choice
		// among the deepest states) and drop everything that is not a prefix of one of them
		maxd := order[len(order)-1].depth
		var deep []*lvNode
		for _, n := range order {
			if n.depth == maxd {
				deep = append(deep, n)
			}
		}
		rng := rand.New(rand.NewSource(c.Seed*977 + int64(cf.ops)))
		rng.Shuffle(len(deep), func(i, j int) { deep[i], deep[j] = deep[j], deep[i] })
		if len(deep) > cf.sim {
			deep = deep[:cf.sim]
		}
		keep := map[*lvNode]bool{}
		for _, n := range deep {
			for x := n; x != nil; x = x.parent {
				keep[x] = true
			}
		}
		for _, n := range order {
			kept := n.kids[:0]
			for _, k := range n.kids {
				if keep[k] {
					kept = append(kept, k)
				}
			}
			n.kids = kept
		}
		atomic.AddInt64(&st.states, int64(len(keep)))
		atomic.AddInt64(&st.trans, int64(len(keep)-1))
	}
	return root
}

// lvRun replays one configuration.  ingest(w) selects how worker w ingests the volume.
func lvRun(c *Ctx, run *ev.Run, cf lvCfg, st *lvStats) {
	tabs := cf.g.DownresN(cf.nl)
	t0 := time.Now()
	root := lvExplore(c, cf, tabs, st)
	tTLC := since(t0)
	defer func() {
		if os.Getenv("C14_TIMES") != "" {
			fmt.Printf("C14 %s: tlc %.1fs, total %.1fs\n", cf.name, tTLC, since(t0))
		}
	}()
	nw := len(root.kids)
	if nw > 10 {
		nw = 10
	}
	if cf.sim > 0 && nw > 6 {
		nw = 6
	}
	var restarts int64
	parallel(nw, nw, func(_, wi int) {
		gr := &lmGraph{states: map[string]*lmState{root.key.Canon(): {key: root.key, obs: root.obs, parent: -1}}, init: root.key.Canon()}
		w := &lmWorker{c: c, run: run, run12: ev.NewRun("C12", c.Tier, "model_checking"), gr: gr, g: cf.g, initSV: cf.initSV, gname: cf.name, w: wi, nw: nw,
			cfg: map[string]string{"MaxDownresLevel": fmt.Sprint(cf.nl)}, edges: &st.edges, restarts: &restarts, noExt: true}
		nblk := len(cf.g.Blocks)
		w.ingest = func(w *lmWorker, uuid string, sv []uint64, blocks []int) error {
			// whole box in one POST raw | all blocks in one POST blocks?downres=true | POST blocks in two requests so
			// that the parent block of the cube receives k and then 8 - k octants
			switch wi % 3 {
			case 0:
				st.count("ingest: POST raw of the whole box")
				return w.in.IngestBox(uuid, sv, blocks, false)
			case 1:
				st.count("ingest: POST blocks, all blocks in one request")
				return w.in.IngestBlocks(uuid, sv, blocks)
			}
			k := 1 + (wi/3+int(c.Seed))%(nblk-1)
			if nblk >= 8 {
				// 4..7 octants of the cube's parent block, then the rest (the first such worker always posts 7)
				k = 7
				if wi/3 > 0 {
					k = 4 + (wi/3+int(c.Seed))%3
				}
			}
			// (the smaller part first: the second request then meets a stored parent block whose other octants hold data)
			st.count(fmt.Sprintf("ingest: POST blocks in two requests (%d + %d blocks)", nblk-k, k))
			if err := w.in.IngestBlocks(uuid, sv, blocks[k:]); err != nil {
				return err
			}
			return w.in.IngestBlocks(uuid, sv, blocks[:k])
		}
		ingest0 := w.ingest
		w.ingest = func(w *lmWorker, uuid string, sv []uint64, blocks []int) error {
			if err := ingest0(w, uuid, sv, blocks); err != nil {
				return err
			}
			// a volume that does not become idle after ingestion: look at the levels before giving up
			r, err := w.n.Do(node.Req{Op: "idle", WaitMS: 20000})
			if err == nil && strings.Contains(r.Err, "idle timeout") {
				d, _, cerr := w.in.CompareStored(uuid, root.lv, root.obs, lmm.NewLabels(), tabs)
				if cerr == nil && len(d) > 0 {
					run.Violation("c14", c08Divergence{Kind: "levels-not-brought-up-to-date-and-the-volume-never-reports-idle", Geometry: cf.name, InitSV: cf.initSV, Op: lmm.Op{Op: "ingest"}, Diffs: d, LogTail: w.n.StderrTail(800)})
					panic(lvAbandon{})
				}
			}
			return nil
		}
		compareLevels := func(uuid string, n *lvNode, lab *lmm.Labels) {
			d, nr, err := w.in.CompareStored(uuid, n.lv, n.obs, lab, tabs)
			must(err, "compare stored levels")
			atomic.AddInt64(&st.levelReads, int64(nr))
			if len(d) > 0 {
				time.Sleep(300 * time.Millisecond)
				d2, _, _ := w.in.CompareStored(uuid, n.lv, n.obs, lab, tabs)
				kind := "stored-level-differs-from-specification"
				if len(d2) == 0 {
					kind = "idle-reported-before-levels-were-stored"
				}
				run.Violation("c14", c08Divergence{Kind: kind, Geometry: cf.name, InitSV: cf.initSV, Path: n.path(), Op: n.op, Diffs: d, Labels: lab.ToReal, LogTail: w.n.StderrTail(800)})
			}
			// nothing is ever stored at a scale above the configured maximum
			if n.depth <= 1 && len(n.sig)%3 == 0 || n == root {
				bad, err := w.in.AboveMaxEmpty(uuid, cf.nl+1)
				must(err, "read above the maximum level")
				atomic.AddInt64(&st.refused, 1)
				if bad != "" {
					run.Violation("c14", c08Divergence{Kind: "data-stored-above-the-configured-maximum-level", Geometry: cf.name, InitSV: cf.initSV, Path: n.path(), Op: n.op, Diffs: []string{bad}})
				}
			}
		}
		w.afterEdge = func(w *lmWorker, uuid string, e lmEdge, lab *lmm.Labels) { compareLevels(uuid, root, lab) }
		defer func() {
			if e := recover(); e != nil {
				if _, ok := e.(lvAbandon); !ok {
					panic(e)
				}
				if w.n != nil {
					c.DropNode(w.n)
				}
			}
		}()
		rootUUID, lab := w.start()
		defer c.DropNode(w.n)
		idle := func(n *lvNode, uuid string, lab *lmm.Labels) bool {
			if err := w.in.Idle(); err != nil {
				if strings.Contains(err.Error(), "idle timeout") {
					// not idle within a minute: a verdict only if the levels are in fact not up to date
					d, _, cerr := w.in.CompareStored(uuid, n.lv, n.obs, lab, tabs)
					if cerr == nil && len(d) > 0 {
						run.Violation("c14", c08Divergence{Kind: "levels-not-brought-up-to-date-and-the-volume-never-reports-idle", Geometry: cf.name, InitSV: cf.initSV, Path: n.path(), Op: n.op, Diffs: d})
						panic(lvAbandon{})
					}
				}
				must(err, "idle")
			}
			return true
		}
		var walk func(n *lvNode, uuid string, lab *lmm.Labels)
		walk = func(n *lvNode, uuid string, lab *lmm.Labels) {
			for ki, k := range n.kids {
				if n == root && ki%nw != wi {
					continue
				}
				if cf.keep > 0 && n.depth >= 1 {
					// sampled beyond depth 1; a mutation that follows a stale split or a direct lower-resolution write
					// (the recomputation over levels that do not follow the vote) is kept four times as often
					keep := uint64(cf.keep)
					if (n.op.How == "nodownres" || n.op.Op == "writelevel") && (k.op.Op == "overwrite" || (k.op.Op == "splitsv" && k.op.How == "")) {
						keep *= 4
					}
					if (uint64(len(k.sig))*2654435761+uint64(ki)*97+uint64(c.Seed)*40503)%1000 >= keep {
						continue
					}
				}
				child := w.branch(uuid)
				cl := lab.Clone()
				status, _, err := w.in.Apply(child, k.op, cl)
				must(err, "apply "+k.op.Op)
				atomic.AddInt64(&st.edges, 1)
				opk := k.op.Op
				if k.op.How != "" {
					opk += "/" + k.op.How
				}
				if len(k.op.Posted) > 0 {
					opk += fmt.Sprintf("/%d blocks posted", len(k.op.Posted))
				}
				st.count(opk)
				run.Eval(fmt.Sprintf("%s|%s", cf.name, k.sig))
				if status != 200 {
					run.Violation("c14", c08Divergence{Kind: "valid-operation-refused", Geometry: cf.name, InitSV: cf.initSV, Path: k.path(), Op: k.op, Status: status, Labels: cl.ToReal, LogTail: w.n.StderrTail(800)})
					continue
				}
				if !idle(k, child, cl) {
					continue
				}
				lvl := lmm.Full
				if ki%4 != 0 {
					lvl = lmm.Light // (the full read set after every transition is C08's subject)
				}
				if k.op.How == "nomutate" {
					lvl = lmm.Light // the label indices of a non-mutating re-POST are double counted by design: voxels and levels only
				}
				d, err := w.in.Compare(child, k.obs, cl, lvl)
				must(err, "compare")
				if len(d) > 0 && k.op.Op == "overwrite" {
					deadline := time.Now().Add(10 * time.Second)
					for len(d) > 0 && time.Now().Before(deadline) {
						time.Sleep(5 * time.Millisecond)
						d, err = w.in.Compare(child, k.obs, cl, lvl)
						must(err, "compare")
					}
				}
				if len(d) > 0 {
					if len(d) > 12 {
						d = d[:12]
					}
					run.Violation("c14", c08Divergence{Kind: "state-mismatch-after-operation", Geometry: cf.name, InitSV: cf.initSV, Path: k.path(), Op: k.op, Diffs: d, Labels: cl.ToReal, LogTail: w.n.StderrTail(800)})
					continue
				}
				compareLevels(child, k, cl)
				if ki%3 == 0 {
					// the committed parent version keeps its levels
					dp, nr, err := w.in.CompareStored(uuid, n.lv, n.obs, lab, tabs)
					must(err, "compare parent levels")
					atomic.AddInt64(&st.levelReads, int64(nr))
					if len(dp) > 0 {
						run.Violation("c14", c08Divergence{Kind: "levels-of-the-parent-version-changed", Geometry: cf.name, InitSV: cf.initSV, Path: k.path(), Op: k.op, Diffs: dp, Labels: lab.ToReal})
					}
				}
				if len(k.kids) > 0 {
					w.commit(child)
					if cf.sim > 0 && k.depth%6 == 5 {
						must(w.n.Restart(k.depth%12 == 5), "restart")
						atomic.AddInt64(&restarts, 1)
						compareLevels(child, k, cl)
					}
					walk(k, child, cl)
				} else {
					atomic.AddInt64(&st.behaviours, 1)
				}
			}
		}
		walk(root, rootUUID, lab)
	})
	run.Sample(map[string]interface{}{"configuration": cf.name, "max_downres_level": cf.nl, "initial_supervoxels": cf.initSV, "classes_per_level": func() []int {
		var o []int
		for _, t := range tabs {
			o = append(o, len(t.Classes))
		}
		return o
	}(), "depth": cf.ops, "simulated": cf.sim > 0})
}

// lvIdleProbe: while one mutating request runs, the node samples the instance's own idle
// predicate (Updating, AnyScaleUpdating) between two reads of ScaleUpdating(max): the volume
// must not call itself idle while its own bookkeeping says the coarsest level is being updated.
func lvIdleProbe(c *Ctx, run *ev.Run, g *lmm.Geom, nl int, st *lvStats) {
	w := &lmWorker{c: c, run: run, run12: ev.NewRun("C12", c.Tier, "model_checking"), g: g, gname: fmt.Sprintf("idle-probe/max%d", nl), cfg: map[string]string{"MaxDownresLevel": fmt.Sprint(nl)},
		edges: new(int64), restarts: new(int64), noExt: true}
	sv := make([]uint64, g.R)
	for i := range sv {
		sv[i] = uint64(i + 1)
	}
	w.initSV = sv
	w.gr = nil
	rootUUID, in := w.startBare()
	defer c.DropNode(w.n)
	var blocks []int
	for b := range g.Blocks {
		blocks = append(blocks, b+1)
	}
	must(in.IngestBox(rootUUID, sv, blocks, false), "ingest")
	must(in.Idle(), "idle")
	observed := false
	for try := 0; try < 6 && !observed; try++ {
		for i := range sv {
			sv[i] += 7
		}
		vol, url := in.BoxRequest(rootUUID, sv, blocks[:8]) // the 2x2x2 cube: all eight octants of one parent block
		var res struct {
			Status        int `json:"status"`
			Samples       int `json:"samples"`
			LastBusy      int `json:"last_busy"`
			IdleWhileBusy int `json:"idle_while_busy"`
		}
		err := w.n.Call("lm.idleprobe", map[string]interface{}{"uuid": rootUUID, "name": in.Name, "url": url + "?mutate=true", "body": base64.StdEncoding.EncodeToString(vol), "max": nl}, &res)
		must(err, "idle probe")
		if res.Status != 200 {
			infra("idle probe: POST raw answered %d", res.Status)
		}
		run.Eval(fmt.Sprintf("idleprobe|%d|%d", nl, try))
		atomic.AddInt64(&st.edges, 1)
		if res.LastBusy > 0 {
			observed = true
			st.count(fmt.Sprintf("idle probe MaxDownresLevel=%d: samples while the last level was updating", nl))
		}
		if res.IdleWhileBusy > 0 {
			diff := []string{fmt.Sprintf("MaxDownresLevel=%d: in %d of %d samples taken while ScaleUpdating(%d) held before and after, the volume's idle predicate (not Updating and not AnyScaleUpdating) was true", nl, res.IdleWhileBusy, res.LastBusy, nl)}
			if run.KnownActive(c14LastScaleIdle) {
				run.ReportKnown(c14LastScaleIdle)
			} else {
				run.Violation("c14", c08Divergence{Kind: "idle-reported-while-the-last-level-is-updating", Geometry: w.gname, InitSV: sv, Op: lmm.Op{Op: "overwrite", How: "box", Posted: blocks}, Diffs: diff})
			}
			return
		}
	}
	run.Sample(map[string]interface{}{"idle_probe_max_level": nl, "window_observed": observed})
}

// startBare starts a node with a repo and an empty labelmap instance.
func (w *lmWorker) startBare() (string, *lmm.Inst) {
	w.n = w.c.StartNode(node.Config{AllowSplit: true})
	r, err := w.n.HTTP("POST", "/api/repos", []byte(`{"alias":"lm"}`))
	must(err, "newrepo")
	var o struct{ Root string }
	json.Unmarshal(r.Bytes(), &o)
	w.in = &lmm.Inst{N: w.n, G: w.g, Name: "seg", Root: o.Root, BlocksDownres: true, NoExt: true}
	must(w.in.Create(w.cfg), "create labelmap")
	return o.Root, w.in
}

// c14Levels runs the stored-level configurations.
func c14Levels(c *Ctx, run *ev.Run, st *lvStats) {
	oct := lmm.NewGeomOctants(c.Seed)
	small := lmm.NewGeomKind(c.Seed, true, true)
	cfgs := []lvCfg{
		// C14-1: all eight octants of a parent block in one request, 4..7 octants at ingestion
		{name: "octants/max2", g: oct, initSV: []uint64{1, 2, 3, 4, 2, 5, 6}, nl: 2, ops: c.pick(1, 2), whole: true, keep: 100},
		// C14-4 / C14-6 / C14-8: one level, stale and directly written levels followed by mutations, non-mutating re-POST
		{name: "small7/max1", g: small, initSV: []uint64{1, 1, 2, 2, 3, 0, 4}, nl: 1, ops: 2, stale: true, direct: true, repost: true, keep: c.pick(70, 1000)},
		// three levels
		{name: "small7/max3", g: small, initSV: []uint64{5, 2, 2, 5, 2, 9, 0}, nl: 3, ops: 2, stale: true, direct: true, keep: c.pick(40, 1000)},
		{name: "octants/max3", g: oct, initSV: []uint64{1, 2, 1, 1, 2, 3, 3}, nl: 3, ops: c.pick(1, 2), stale: c.thorough(), direct: true, keep: 100},
		// no level at all
		{name: "small7/max0", g: small, initSV: []uint64{1, 1, 2, 2, 3, 0, 4}, nl: 0, ops: 1},
		// C14-7: long simulated behaviours with restarts
		{name: "small7/max2/simulated", g: small, initSV: []uint64{3, 3, 3, 8, 8, 0, 3}, nl: 2, ops: c.pick(8, 16), stale: true, direct: true, agglo: true, whole: true, sim: c.pick(3, 24)},
	}
	only := os.Getenv("C14_CFGS")
	var sel []lvCfg
	// (the two largest first: three configurations run side by side)
	cfgs[0], cfgs[1], cfgs[2] = cfgs[1], cfgs[2], cfgs[0]
	for _, cf := range cfgs {
		if only == "" || strings.Contains(","+only+",", ","+cf.name+",") {
			sel = append(sel, cf)
		}
	}
	parallel(len(sel), 3, func(_, i int) { lvRun(c, run, sel[i], st) })
	if only == "" || strings.Contains(","+only+",", ",probe,") {
		for _, nl := range []int{1, 2} {
			lvIdleProbe(c, run, oct, nl, st)
		}
	}
}
