package main

import (
	"os"
	"encoding/json"
	"fmt"
	"strings"
	"sync/atomic"
	"time"

	"verifharness/internal/dagm"
	"verifharness/internal/ev"
	"verifharness/internal/node"
	"verifharness/internal/tlc"
)

func init() { checks["C01"] = checkC01 }

// kvShape is one line emitted by KVShapes.Emit.
type kvShape struct {
	Par  [][]int `json:"par"`
	Read [][]int `json:"read"` // [placement][node-1] -> node whose value is read, 0 not found, -1 conflict
	Algo [][]int `json:"algo"` // transcription of findMatch: node, 0, -1 error
}

func shapesCfg(n, maxParents int, lastMergeOnly bool, inv bool) string {
	s := fmt.Sprintf("SPECIFICATION Spec\nCONSTANTS\n  N = %d\n  MaxParents = %d\n  LastMergeOnly = %s\n  LastFoundBug = FALSE\n",
		n, maxParents, map[bool]string{true: "TRUE", false: "FALSE"}[lastMergeOnly])
	if inv {
		s += "INVARIANTS Emit\n"
	}
	s += "CHECK_DEADLOCK FALSE\n"
	return s
}

func emitShapes(c *Ctx, n, maxParents int, lastMergeOnly bool) ([]kvShape, *tlc.Result) {
	r := c.MustModelCheck(tlc.Opts{Module: "KVShapes", Config: "gen_shapes.cfg",
		Files:   map[string][]byte{"gen_shapes.cfg": []byte(shapesCfg(n, maxParents, lastMergeOnly, true))},
		Timeout: 60 * time.Minute, HeapGB: 16})
	var out []kvShape
	PrintedJSON(r.Output, func(raw []byte) {
		var s kvShape
		if err := json.Unmarshal(raw, &s); err == nil && len(s.Par) == n {
			out = append(out, s)
		}
	})
	if len(out) == 0 {
		infra("KVShapes emitted nothing:\n%s", r.Tail(2000))
	}
	return out, r
}

func pow3(k int) int {
	p := 1
	for i := 0; i < k; i++ {
		p *= 3
	}
	return p
}

func digit(p, k int) int { return (p / pow3(k-1)) % 3 }

func placementString(p, n int) string {
	var sb strings.Builder
	for k := 1; k <= n; k++ {
		sb.WriteByte(byte('0' + digit(p, k)))
	}
	return sb.String()
}

type c01Divergence struct {
	Kind      string      `json:"kind"`
	Par       [][]int     `json:"par"`
	Placement string      `json:"placement"` // digit k: entry at node k (0 none, 1 value, 2 tombstone)
	Query     int         `json:"query_node"`
	Expected  int         `json:"expected"` // node whose value must be read; 0 not found; -1 conflict (any failure)
	Algo      int         `json:"transcription"`
	Observed  string      `json:"observed"`
	Script    []dagm.Step `json:"script,omitempty"`
}

const c01InnerMerge = "inner-merge-conflict"

// replayShapeHTTP builds the DAG and replays the given placements through the
// key-value HTTP endpoints (one key per placement).
func replayShapeHTTP(c *Ctx, run *ev.Run, s *dagm.Sess, sh kvShape, placements []int, nreads *int64) {
	n := len(sh.Par)
	err := s.BuildShape(sh.Par, func(k int) error {
		if k == 1 {
			if err := s.NewInstance(1, "keyvalue", "kv", nil); err != nil {
				return err
			}
		}
		u := s.NodeUUID(len(s.UUIDs))
		for _, p := range placements {
			switch digit(p, k) {
			case 1:
				r, err := s.N.HTTP("POST", fmt.Sprintf("/api/node/%s/kv/key/p%d", u, p), []byte(fmt.Sprintf("v%d", k)))
				if err != nil {
					return err
				}
				if r.Status != 200 {
					return fmt.Errorf("POST key at n%d: %d %s", k, r.Status, r.Bytes())
				}
			case 2:
				r, err := s.N.HTTP("DELETE", fmt.Sprintf("/api/node/%s/kv/key/p%d", u, p), nil)
				if err != nil {
					return err
				}
				if r.Status != 200 {
					return fmt.Errorf("DELETE key at n%d: %d %s", k, r.Status, r.Bytes())
				}
			}
		}
		return nil
	})
	must(err, "build shape")
	base := len(s.UUIDs) - n
	for v := 1; v <= n; v++ {
		u := s.UUIDs[base+v-1]
		for _, p := range placements {
			want := sh.Read[p][v-1]
			r, err := s.N.HTTP("GET", fmt.Sprintf("/api/node/%s/kv/key/p%d", u, p), nil)
			must(err, "GET key")
			atomic.AddInt64(nreads, 1)
			obs := fmt.Sprintf("%d", r.Status)
			if r.Status == 200 {
				obs = "200:" + string(r.Bytes())
			}
			ok := false
			switch {
			case want == 0:
				ok = r.Status == 404
			case want == -1:
				ok = r.Status != 200
			default:
				ok = r.Status == 200 && string(r.Bytes()) == fmt.Sprintf("v%d", want)
			}
			// HEAD must agree with GET on existence
			if ok && p%5 == 0 {
				h, err := s.N.HTTP("HEAD", fmt.Sprintf("/api/node/%s/kv/key/p%d", u, p), nil)
				must(err, "HEAD key")
				if want > 0 && h.Status != 200 || want == 0 && h.Status != 404 || want == -1 && h.Status == 200 {
					ok = false
					obs += fmt.Sprintf(" HEAD:%d", h.Status)
				}
			}
			if !ok {
				d := c01Divergence{Kind: "http-read", Par: sh.Par, Placement: placementString(p, n), Query: v,
					Expected: want, Algo: sh.Algo[p][v-1], Observed: obs}
				// known finding: the resolver errs inside an inner merge (GetBestKeyVersion turns the error
				// into "no key", so the GET may answer 404 as well as 400) where the transcription errs too
				if want >= 0 && r.Status != 200 && sh.Algo[p][v-1] == -1 && run.KnownActive(c01InnerMerge) {
					run.ReportKnown(c01InnerMerge)
					continue
				}
				d.Script = s.Script
				run.Violation("c01", d)
			}
		}
	}
}

// replayShapeSynthetic builds the DAG (no data) and presents every placement as a
// synthetic key set to GetBestKeyVersion / VersionedKeyValue.
func replayShapeSynthetic(c *Ctx, run *ev.Run, s *dagm.Sess, sh kvShape, shuffles int, nreads *int64) {
	n := len(sh.Par)
	err := s.BuildShape(sh.Par, func(k int) error {
		if k == 1 {
			return s.NewInstance(1, "keyvalue", "kv", nil)
		}
		return nil
	})
	must(err, "build shape")
	base := len(s.UUIDs) - n
	pls := make([]string, len(sh.Read))
	for p := range sh.Read {
		pls[p] = placementString(p, n)
	}
	var got [][]int
	err = s.N.Call("kv.best", map[string]interface{}{"data": "kv", "uuids": s.UUIDs[base:], "placements": pls,
		"seed": c.Seed, "shuffles": shuffles}, &got)
	must(err, "kv.best")
	for p := range sh.Read {
		for v := 1; v <= n; v++ {
			want := sh.Read[p][v-1]
			g := got[p][v-1]
			atomic.AddInt64(nreads, 1)
			ok := g == want || (want == -1 && g == -1)
			if !ok {
				if want >= 0 && g == -1 && sh.Algo[p][v-1] == -1 && run.KnownActive(c01InnerMerge) {
					// (for want == 0 the caller-visible outcome of the HTTP path, 404, is even right)
					run.ReportKnown(c01InnerMerge)
					continue
				}
				run.Violation("c01", c01Divergence{Kind: "synthetic-key-set", Par: sh.Par, Placement: pls[p], Query: v,
					Expected: want, Algo: sh.Algo[p][v-1], Observed: fmt.Sprint(g), Script: s.Script})
			}
		}
	}
}

// c01Part (environment VERIF_C01_PART = types | traces) runs one part of the check only, for
// development and for the binding self-test; such a run never returns 0 (exit 2 unless it found a
// violation).
var c01Part = os.Getenv("VERIF_C01_PART")

func c01Partial(run *ev.Run) int {
	run.Set("partial_run", c01Part)
	rc := run.Finish()
	if rc == 0 {
		fmt.Printf("C01: PARTIAL RUN (%s only): not a verdict\n", c01Part)
		return 2
	}
	return rc
}

func checkC01(c *Ctx) int {
	run := ev.NewRun("C01", c.Tier, "model_checking")
	t0 := time.Now()
	var nreads int64
	workers := 16
	ws := make([]*dagWorker, workers)
	for i := range ws {
		ws[i] = &dagWorker{c: c, every: 40, cfg: node.Config{}}
	}
	defer func() {
		for _, w := range ws {
			w.close()
		}
	}()
	var states, trans int64
	algoDiffs := 0
	var cfgs []string
	// growth (C01-2): the other datatypes on the same shapes; TLC evaluates them in the background
	byN := map[int][]kvShape{}
	var typesPlan *c01TypesPlan
	doTier := func(n, maxParents int, lastMergeOnly bool, httpAll bool, httpSample int, synthetic bool) {
		shapes, r := emitShapes(c, n, maxParents, lastMergeOnly)
		if maxParents == 3 && !lastMergeOnly {
			byN[n] = shapes
		}
		if n == 5 && typesPlan == nil {
			sh3, _ := emitShapes(c, 3, 3, false)
			byN[3] = sh3
			typesPlan = c01TypesStart(c, byN)
		}
		states += r.Distinct
		trans += r.Generated
		cfgs = append(cfgs, fmt.Sprintf("KVShapes N=%d MaxParents=%d LastMergeOnly=%v: %d shapes x %d placements x %d query nodes", n, maxParents, lastMergeOnly, len(shapes), pow3(n), n))
		for _, sh := range shapes {
			for p := range sh.Read {
				for v := range sh.Read[p] {
					if sh.Read[p][v] != sh.Algo[p][v] {
						algoDiffs++
					}
				}
			}
		}
		if c01Part != "" {
			return
		}
		parallel(len(shapes), workers, func(wi, i int) {
			sh := shapes[i]
			w := ws[wi]
			np := pow3(n)
			if synthetic {
				replayShapeSynthetic(c, run, w.sess(), sh, 2, &nreads)
			}
			var pls []int
			if httpAll {
				for p := 0; p < np; p++ {
					pls = append(pls, p)
				}
			} else {
				// seeded sample, always including a placement where semantics and transcription differ
				seen := map[int]bool{}
				for p := 0; p < np && len(pls) < 2; p++ {
					for v := range sh.Read[p] {
						if sh.Read[p][v] != sh.Algo[p][v] && !seen[p] {
							seen[p] = true
							pls = append(pls, p)
						}
					}
				}
				h := uint64(c.Seed)*1000003 + uint64(i)*7919
				for len(pls) < httpSample {
					h = h*6364136223846793005 + 1442695040888963407
					p := int((h >> 33) % uint64(np))
					if !seen[p] {
						seen[p] = true
						pls = append(pls, p)
					}
				}
			}
			if len(pls) > 0 {
				replayShapeHTTP(c, run, w.sess(), sh, pls, &nreads)
			}
			run.Eval(fmt.Sprintf("N%d|%v", n, sh.Par))
			if i%500 == 0 {
				run.Sample(map[string]interface{}{"par": sh.Par, "placement": placementString(np/2, n), "expected_reads_per_node": sh.Read[np/2]})
			}
		})
	}
	if c.thorough() {
		doTier(4, 3, false, true, 0, true)
		doTier(5, 3, false, true, 0, true)
		doTier(6, 2, false, false, 12, true)
	} else {
		doTier(4, 3, false, true, 0, true)
		doTier(5, 3, false, false, 24, true)
	}
	phase := map[string]float64{"keyvalue_shapes_s": since(t0)}
	tTypes := time.Now()
	var typeStats *c01TypeStats
	if c01Part != "traces" {
		typeStats = c01TypesReplay(c, run, typesPlan, ws)
		states += typesPlan.states
		trans += typesPlan.trans
		nreads += typeStats.reads
		cfgs = append(cfgs, typesPlan.cfgs...)
	}
	phase["other_datatypes_s"] = since(tTypes)
	tTraces := time.Now()
	// trace validation: random interleavings of writes, deletes, reads and repo-level requests
	if c01Part == "types" {
		return c01Partial(run)
	}
	_ = typeStats
	nTr, nEv := runKVTracesOpt(c, run, c.pick(150, 1500), c.pick(60, 90), c.pick(10, 14), c.thorough(), c01InnerMerge, true)
	phase["traces_s"] = since(tTraces)
	run.Set("phase_seconds", phase)
	run.Set("random_traces_validated_by_tlc", nTr)
	run.Set("random_trace_events", nEv)
	run.Set("states", states)
	run.Set("transitions", trans)
	run.Set("traces_validated_against_impl", nreads)
	run.Set("evaluations", nreads)
	run.Set("tlc_model", cfgs)
	run.Set("transcription_vs_semantics_differences", algoDiffs)
	run.Set("rule", "case = (DAG shape, placement of value/tombstone/nothing over the nodes, queried node); TLC (KVShapes.tla) enumerates every shape and evaluates KVRead.Read for every placement; the harness builds each shape through the HTTP API, writes each placement under its own key before the node is committed and GETs/HEADs it at every node; additionally every placement is presented as a synthetic key set to GetBestKeyVersion/VersionedKeyValue in shuffled orders; distinct_nontrivial counts distinct DAG shapes.  Other datatypes (c01_types.go, KVTypes.tla): on every 3- and 4-node shape and a seeded sample of the 5-node shapes with a merge node, a labelmap instance (one block, one label index and one supervoxel mapping per datum), a neuronjson and an annotation instance carry seeded placements (two thirds of them placements in which a merge decides some read; read-modify-write datatypes only placements KVCopy.Built / Strict can build) and every datum is read at every node through the point and the batch / listing endpoints; the oracle is KVRead.ReadNode for every datatype")
	run.Assume = []string{"TLC bounded enumeration of shapes", "Badger store; labelmap blocks are written with POST blocks?noindexing=true, indices with POST indices, mappings with POST mappings (the ingestion endpoints: one store entry per write), so that a datum's entries are exactly the placement"}
	fmt.Printf("C01: %v; %d reads compared in %.1fs; transcription/semantics differences=%d; violations=%d known=%v\n",
		cfgs, nreads, since(t0), algoDiffs, run.Violations(), run.KnownSeen())
	if c01Part != "" {
		return c01Partial(run)
	}
	return run.Finish()
}
