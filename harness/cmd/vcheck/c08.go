package main

import (
	"encoding/json"
	"fmt"
	"math/rand"
	"os"
	"sort"
	"strings"
	"sync"
	"sync/atomic"
	"time"

	"verifharness/internal/ev"
	"verifharness/internal/lmm"
	"verifharness/internal/node"
	"verifharness/internal/snap"
	"verifharness/internal/tlc"
)

func init() { checks["C08"] = checkC08 }

type lmEdge struct {
	S   lmm.Key `json:"s"`
	L   lmm.Op  `json:"l"`
	T   lmm.Key `json:"t"`
	Obs lmm.Obs `json:"obs"`
}

type lmState struct {
	key    lmm.Key
	obs    lmm.Obs
	depth  int
	parent int // edge index of the BFS-tree edge leading here (-1 for init)
	out    []int
	top    int // index of the depth-1 ancestor (sharding)
}

type lmGraph struct {
	states map[string]*lmState
	order  []string
	edges  []lmEdge
	init   string
}

// lmWithSplit is set by checks that include body splits and re-ingest requests in the action set.
var lmWithSplit = false

// lmGrowth selects LabelmapGrowth_mc (multi-pair renumber, renumber onto a formerly used label) instead of Labelmap_mc.
var lmGrowth = false

func lmConfig(g *lmm.Geom, initMax uint64, maxOps int, emit bool, overwrite bool) string {
	s := fmt.Sprintf("CONSTANTS\n  R = %d\n  NB = %d\n  NVox <- NVoxDef\n  InitSV <- InitSVDef\n  InitMax = %d\n  MaxOps = %d\n  Classes1 <- Classes1Def\n  Classes2 <- Classes2Def\n  WithOverwrite = %s\n  WithSplit = %s\n",
		g.R, len(g.Blocks), initMax, maxOps, map[bool]string{true: "TRUE", false: "FALSE"}[overwrite], map[bool]string{true: "TRUE", false: "FALSE"}[lmWithSplit])
	if g.InitMap != nil {
		s += "  InitMap <- InitMapDef\n"
	}
	if lmGrowth {
		if emit {
			return "SPECIFICATION SpecEmitG\n" + s + "VIEW View\nINVARIANTS EmitObs\nCHECK_DEADLOCK FALSE\n"
		}
		return "SPECIFICATION SpecG\n" + s + "VIEW View\nINVARIANTS Inv_C08_Conservation Inv_C12_NewLabelsFresh Inv_Clip Inv_ClipConservation Inv_PairsCommute\nPROPERTIES Act_C08_OnlyMoves Act_C12_Increasing\nCHECK_DEADLOCK FALSE\n"
	}
	if emit {
		return "SPECIFICATION SpecEmit\n" + s + "VIEW View\nINVARIANTS EmitObs\nCHECK_DEADLOCK FALSE\n"
	}
	return "SPECIFICATION Spec\n" + s + "VIEW View\nINVARIANTS Inv_C08_Conservation Inv_C12_NewLabelsFresh Inv_Clip Inv_ClipConservation\nPROPERTIES Act_C08_OnlyMoves Act_C12_Increasing\nCHECK_DEADLOCK FALSE\n"
}

func maxU64(a []uint64) uint64 {
	var m uint64
	for _, x := range a {
		if x > m {
			m = x
		}
	}
	return m
}

// lmExplore model-checks the labelmap specification for one geometry/layout and returns the
// transition graph with the expected observation of every target state.
func lmExplore(c *Ctx, g *lmm.Geom, initSV []uint64, maxOps, mcOps int, l1, l2 *lmm.LevelTab, overwrite bool) (*lmGraph, int64, int64) {
	files := map[string][]byte{"LabelGeom.tla": []byte(g.TLAConstantsDownres(initSV, l1, l2))}
	files["gen_lm_mc.cfg"] = []byte(lmConfig(g, maxU64(initSV), mcOps, false, overwrite))
	module := "Labelmap_mc"
	if lmGrowth {
		module = "LabelmapGrowth_mc"
	}
	mc := c.MustModelCheck(tlc.Opts{Module: module, Config: "gen_lm_mc.cfg", Files: files, Timeout: 20 * time.Minute})
	files["gen_lm_emit.cfg"] = []byte(lmConfig(g, maxU64(initSV), maxOps, true, overwrite))
	r := c.MustModelCheck(tlc.Opts{Module: module, Config: "gen_lm_emit.cfg", Files: files, Workers: 1, Timeout: 20 * time.Minute})
	gr := &lmGraph{states: map[string]*lmState{}}
	obsOf := map[string]lmm.Obs{}
	type rawEdge struct {
		S lmm.Key `json:"s"`
		L lmm.Op  `json:"l"`
		T lmm.Key `json:"t"`
	}
	var raws []rawEdge
	PrintedJSON(r.Output, func(raw []byte) {
		var probe struct {
			K   *lmm.Key   `json:"k"`
			D   int        `json:"d"`
			Obs lmm.Obs    `json:"obs"`
			Rd  *lmm.Reads `json:"rd"`
		}
		if json.Unmarshal(raw, &probe) == nil && probe.K != nil {
			probe.Obs.Rd = probe.Rd
			k := probe.K.Canon()
			obsOf[k] = probe.Obs
			if probe.D == 0 && gr.init == "" {
				gr.states[k] = &lmState{key: *probe.K, obs: probe.Obs, parent: -1, top: -1}
				gr.order = append(gr.order, k)
				gr.init = k
			}
			return
		}
		var e rawEdge
		if json.Unmarshal(raw, &e) == nil && e.L.Op != "" {
			raws = append(raws, e)
		}
	})
	for _, e := range raws {
		sk, tk := e.S.Canon(), e.T.Canon()
		src, ok := gr.states[sk]
		if !ok {
			infra("labelmap edge from an undiscovered state")
		}
		ob, ok := obsOf[tk]
		if !ok {
			continue // target beyond the depth bound was generated but never became a state
		}
		if e.L.Op == "overwrite" {
			e.L.NewSV = e.T.SV
		}
		e.L.OldSV = e.S.SV
		if e.L.Op == "agglo" {
			o := ob
			e.L.NewObs = &o
		}
		gr.edges = append(gr.edges, lmEdge{S: e.S, L: e.L, T: e.T, Obs: ob})
		ei := len(gr.edges) - 1
		src.out = append(src.out, ei)
		if _, ok := gr.states[tk]; !ok {
			st := &lmState{key: e.T, obs: ob, depth: src.depth + 1, parent: ei, top: src.top}
			if src.depth == 0 {
				st.top = len(gr.order)
			}
			gr.states[tk] = st
			gr.order = append(gr.order, tk)
		}
	}
	if gr.init == "" || len(gr.edges) == 0 {
		infra("Labelmap_mc emitted nothing: %s", r.Tail(2000))
	}
	return gr, mc.Distinct, mc.Generated
}

type c08Divergence struct {
	Kind     string      `json:"kind"`
	Geometry string      `json:"geometry"`
	InitSV   []uint64    `json:"initial_supervoxel_of_region"`
	Path     []lmm.Op    `json:"operations_from_initial_state"`
	Op       lmm.Op      `json:"operation"`
	Status   int         `json:"status,omitempty"`
	Diffs    []string    `json:"diffs"`
	Labels   interface{} `json:"spec_to_real_labels,omitempty"`
	LogTail  string      `json:"server_log_tail,omitempty"`
}

func (gr *lmGraph) pathTo(k string) []lmm.Op {
	var rev []lmm.Op
	for st := gr.states[k]; st.parent >= 0; {
		e := gr.edges[st.parent]
		rev = append(rev, e.L)
		st = gr.states[e.S.Canon()]
	}
	for i, j := 0, len(rev)-1; i < j; i, j = i+1, j-1 {
		rev[i], rev[j] = rev[j], rev[i]
	}
	return rev
}

// lmWorker realises its share of the state graph as a tree of versions in its own repo.
type lmWorker struct {
	c      *Ctx
	run    *ev.Run
	run12  *ev.Run
	gr     *lmGraph
	g      *lmm.Geom
	initSV []uint64
	gname  string
	w, nw  int
	in     *lmm.Inst
	n      *node.Node
	cfg    map[string]string
	edges  *int64
	nbr    int
	afterEdge func(w *lmWorker, uuid string, e lmEdge, lab *lmm.Labels) // extra comparisons (C14)
	restartEvery int
	restarts     *int64
	// variants of the instance under test (C08-4, C08-8, C08-12)
	cache     int    // [cache.labelmap] size in MB (0 = off)
	multi     bool   // voxel writes as multi-block POST raw with rotating compression
	labelBase uint64 // added to the labels of the initial layout (large label values)
	preOps    []lmm.Op // operations applied at the root before the initial comparison
	noExt     bool     // basic read set only (C14 reads the levels instead)
	isoEvery int // > 0: full-read-set isolation re-reads (parent and earlier sibling) every isoEvery-th transition of a state
	// ingest, when set, replaces the choice of the ingestion path (C14: whole box / POST blocks in parts)
	ingest func(w *lmWorker, uuid string, realSV []uint64, blocks []int) error
}

type lmSibling struct {
	uuid string
	obs  lmm.Obs
	lab  *lmm.Labels
	op   lmm.Op
}

var lmIsoFull, lmIsoSibling int64

var (
	lmOpMu    sync.Mutex
	lmOpCount = map[string]int64{}
)

func lmCountOp(op lmm.Op) {
	k := op.Op
	if op.How != "" {
		k += "/" + op.How
	}
	if op.Chosen {
		k += "/client-chosen labels"
	}
	if len(op.Pairs) > 0 {
		k += "/two pairs in one request"
	}
	if op.Onto {
		k += "/onto a formerly used label"
	}
	lmOpMu.Lock()
	lmOpCount[k]++
	lmOpMu.Unlock()
}

func (w *lmWorker) branch(parent string) string {
	w.nbr++
	body := fmt.Sprintf(`{"branch":"w%d_%d"}`, w.w, w.nbr)
	r, err := w.n.HTTP("POST", "/api/node/"+parent+"/branch", []byte(body))
	must(err, "branch")
	if r.Status != 200 {
		infra("branch refused: %d %s", r.Status, r.Bytes())
	}
	var o struct{ Child string }
	json.Unmarshal(r.Bytes(), &o)
	return o.Child
}

func (w *lmWorker) commit(u string) {
	r, err := w.n.HTTP("POST", "/api/node/"+u+"/commit", []byte(`{}`))
	must(err, "commit")
	if r.Status != 200 {
		infra("commit refused: %d %s", r.Status, r.Bytes())
	}
}

func (w *lmWorker) report(kind string, sk string, op lmm.Op, status int, diffs []string, lab *lmm.Labels, run *ev.Run) {
	if len(diffs) > 15 {
		diffs = diffs[:15]
	}
	run.Violation("c08", c08Divergence{Kind: kind, Geometry: w.gname, InitSV: w.initSV, Path: w.gr.pathTo(sk), Op: op, Status: status, Diffs: diffs, Labels: lab.ToReal, LogTail: w.n.StderrTail(1200)})
}

func (w *lmWorker) start() (string, *lmm.Labels) {
	w.n = w.c.StartNode(node.Config{AllowSplit: true, LabelmapCache: w.cache})
	r, err := w.n.HTTP("POST", "/api/repos", []byte(`{"alias":"lm"}`))
	must(err, "newrepo")
	var o struct{ Root string }
	json.Unmarshal(r.Bytes(), &o)
	w.in = &lmm.Inst{RotSeed: int(w.c.Seed)*1009 + w.w*131 + len(w.gname), N: w.n, G: w.g, Name: "seg", Root: o.Root, BlocksDownres: w.cfg["MaxDownresLevel"] != "" && w.cfg["MaxDownresLevel"] != "0"}
	must(w.in.Create(w.cfg), "create labelmap")
	var blocks []int
	for b := range w.g.Blocks {
		blocks = append(blocks, b+1)
	}
	lab := lmm.NewLabels()
	realSV := w.initSV
	if w.labelBase != 0 {
		// large label values: the labels of the initial layout are shifted (order preserving)
		realSV = make([]uint64, len(w.initSV))
		for i, l := range w.initSV {
			if l != 0 {
				lab.Bind(l, l+w.labelBase)
				realSV[i] = l + w.labelBase
			}
		}
	}
	w.in.MultiBlock = w.multi
	w.in.NoExt = w.noExt
	w.in.ExtEvery = w.c.pick(1, 3)
	if w.ingest != nil {
		must(w.ingest(w, o.Root, realSV, blocks), "ingest")
	} else if w.multi {
		must(w.in.IngestRows(o.Root, realSV, blocks, false), "ingest (multi-block POST raw)")
	} else if w.w%2 == 1 {
		must(w.in.IngestBlocks(o.Root, realSV, blocks), "ingest (POST blocks)")
	} else {
		must(w.in.Ingest(o.Root, realSV, blocks, false), "ingest (POST raw)")
	}
	for _, op := range w.preOps { // builds an initial agglomeration other than the identity
		st, _, err := w.in.Apply(o.Root, op, lab)
		must(err, "prepare initial state")
		if st != 200 {
			infra("preparing the initial state: %s refused with %d", op.Op, st)
		}
	}
	must(w.in.Idle(), "idle")
	init := w.gr.states[w.gr.init]
	d, err := w.in.Compare(o.Root, init.obs, lab, lmm.Full)
	must(err, "compare initial")
	if len(d) > 0 {
		w.report("initial-ingest-mismatch", w.gr.init, lmm.Op{Op: "ingest"}, 200, d, lab, w.run)
	}
	if w.afterEdge != nil {
		w.afterEdge(w, o.Root, lmEdge{L: lmm.Op{Op: "ingest"}, T: init.key, Obs: init.obs}, lab)
	}
	w.commit(o.Root)
	return o.Root, lab
}

// explore executes every outgoing edge of state sk (held by committed version uuid).
func (w *lmWorker) explore(sk, uuid string, lab *lmm.Labels) {
	st := w.gr.states[sk]
	var prevSib lmSibling
	for oi, ei := range st.out {
		e := w.gr.edges[ei]
		tk := e.T.Canon()
		tgt := w.gr.states[tk]
		tree := tgt.parent == ei
		// sharding: a worker follows the subtrees of "its" depth-1 states
		if st.depth == 0 {
			if tree && tgt.top%w.nw != w.w {
				continue
			}
			if !tree && ei%w.nw != w.w {
				continue
			}
		}
		// quick tier: of the transitions out of depth-2 states (the third operation of a history) a seeded 40 % is
		// replayed (now 36 %); everything shallower completely (the thorough tier and other seeds cover the rest)
		// (36 % since the full-read-set isolation re-reads and the renumber histories were added)
		if !w.c.thorough() && st.depth >= 2 && (uint64(ei)*2654435761+uint64(w.c.Seed)*40503)%100 >= 36 {
			continue
		}
		child := w.branch(uuid)
		cl := lab.Clone()
		status, probs, err := w.in.Apply(child, e.L, cl)
		must(err, "apply "+e.L.Op)
		atomic.AddInt64(w.edges, 1)
		lmCountOp(e.L)
		w.run.Eval(fmt.Sprintf("%s|%s|%d", w.gname, sk, ei))
		if status != 200 {
			w.report("valid-operation-refused", sk, e.L, status, []string{fmt.Sprintf("status %d", status)}, cl, w.run)
			continue
		}
		for _, p := range probs {
			w.run12.Violation("c12", c08Divergence{Kind: "identifier", Geometry: w.gname, InitSV: w.initSV, Path: w.gr.pathTo(sk), Op: e.L, Diffs: []string{p}})
		}
		must(w.in.Idle(), "idle")
		d, err := w.in.Compare(child, e.Obs, cl, lmm.Full)
		must(err, "compare")
		if len(d) > 0 && e.L.Op == "overwrite" {
			// voxel writes update label indices and max labels in goroutines no idle predicate
			// covers (go d.aggregateBlockChanges): compare as "eventually within 10 s"
			deadline := time.Now().Add(10 * time.Second)
			for len(d) > 0 && time.Now().Before(deadline) {
				time.Sleep(5 * time.Millisecond)
				d, err = w.in.Compare(child, e.Obs, cl, lmm.Full)
				must(err, "compare")
			}
		}
		if len(d) > 0 {
			w.report("state-mismatch-after-operation", sk, e.L, 200, d, cl, w.run)
			continue
		}
		// isolation: the parent (committed) version still reads as before
		if oi%3 == 0 {
			d, err := w.in.Compare(uuid, st.obs, lab, lmm.Light)
			must(err, "compare parent")
			if len(d) > 0 {
				w.report("operation-visible-at-ancestor", sk, e.L, 200, d, lab, w.run)
			}
		}
		// ... with the full read set (indices, sizes, sparse volumes, mappings), at the parent and at the sibling
		// version created for the previous transition out of the same state (C08-11)
		if w.isoEvery > 0 {
			if oi%w.isoEvery == 1 {
				d, err := w.in.Compare(uuid, st.obs, lab, lmm.Full)
				must(err, "compare parent (full)")
				atomic.AddInt64(&lmIsoFull, 1)
				if len(d) > 0 {
					w.report("operation-visible-at-ancestor", sk, e.L, 200, d, lab, w.run)
				}
			}
			if oi%w.isoEvery == 1+w.isoEvery/2 && prevSib.uuid != "" {
				d, err := w.in.Compare(prevSib.uuid, prevSib.obs, prevSib.lab, lmm.Full)
				must(err, "compare sibling (full)")
				atomic.AddInt64(&lmIsoSibling, 1)
				if len(d) > 0 {
					w.report("operation-visible-at-sibling", sk, e.L, 200, append([]string{fmt.Sprintf("sibling version %s (reached by %s) changed", prevSib.uuid, prevSib.op.Op)}, d...), prevSib.lab, w.run)
				}
			}
			prevSib = lmSibling{uuid: child, obs: e.Obs, lab: cl, op: e.L}
		}
		if w.afterEdge != nil {
			w.afterEdge(w, child, e, cl)
		}
		if tree {
			w.commit(child)
			if w.restartEvery > 0 && int(atomic.LoadInt64(w.edges))%w.restartEvery == 0 {
				// C03 on label data: mappings, split records and max labels are rebuilt from logs
				extra := func() map[string]string {
					m := map[string]string{}
					for _, ep := range []string{"supervoxel-splits", "maxlabel", "nextlabel", "mappings", "info"} {
						r, err := w.n.HTTP("GET", "/api/node/"+child+"/seg/"+ep, nil)
						must(err, ep)
						b := r.Bytes()
						if ep == "info" {
							b = snap.NormJSON(b)
						}
						if ep == "supervoxel-splits" {
							b = normSplits(b)
						}
						if ep == "mappings" { // unordered listing
							lines := strings.Split(strings.TrimSpace(string(b)), "\n")
							sort.Strings(lines)
							b = []byte(strings.Join(lines, "\n"))
						}
						m[ep] = fmt.Sprintf("%d %s", r.Status, b)
					}
					return m
				}
				before := extra()
				must(w.n.Restart(ei%2 == 0), "restart")
				after := extra()
				var rd []string
				for k, v := range before {
					if after[k] != v {
						rd = append(rd, fmt.Sprintf("%s: before restart %.300s | after %.300s", k, v, after[k]))
					}
				}
				if len(rd) > 0 {
					w.report("state-differs-after-restart", tk, e.L, 200, rd, cl, w.run)
				}
				atomic.AddInt64(w.restarts, 1)
				d, err := w.in.Compare(child, e.Obs, cl, lmm.Full)
				must(err, "compare after restart")
				if len(d) > 0 {
					w.report("state-differs-after-restart", tk, e.L, 200, d, cl, w.run)
				}
			}
			w.explore(tk, child, cl)
		}
	}
}

// lmSimulate lets TLC generate random behaviours (tlc -simulate) of the labelmap specification on a
// larger geometry and replays each behaviour along a chain of versions (commit + new version
// every few operations), comparing the full read set after every step.
// lmSimOpts selects the variant of the instance a simulation runs on.
type lmSimOpts struct {
	name      string
	split     bool // body splits, agglomeration ingest, index / mapping re-ingest, client-chosen split labels
	cache     int
	multi     bool
	labelBase uint64
}

func lmSimulate(c *Ctx, run, run12 *ev.Run, g *lmm.Geom, initSV []uint64, num, depth int, edges *int64, so lmSimOpts) (int, int64) {
	lmWithSplit = so.split
	defer func() { lmWithSplit = false }()
	files := map[string][]byte{"LabelGeom.tla": []byte(g.TLAConstantsDownres(initSV, nil, nil))}
	simCfg := strings.Replace(lmConfig(g, maxU64(initSV), depth, true, true), "SPECIFICATION SpecEmit", "SPECIFICATION SpecSim", 1)
	simCfg = strings.Replace(simCfg, "INVARIANTS EmitObs", "INVARIANTS EmitObs EmitHist", 1)
	simCfg = strings.Replace(simCfg, "VIEW View\n", "", 1)
	files["gen_lm_sim.cfg"] = []byte(simCfg)
	r := c.RunTLC(tlc.Opts{Module: "Labelmap_sim", Config: "gen_lm_sim.cfg", Files: files, Workers: 1, Simulate: fmt.Sprintf("num=%d", num), Depth: depth + 1,
		Seed: c.Seed, Timeout: 20 * time.Minute})
	obsOf := map[string]lmm.Obs{}
	type rawEdge struct {
		S lmm.Key `json:"s"`
		L lmm.Op  `json:"l"`
		T lmm.Key `json:"t"`
	}
	var behaviours [][]rawEdge
	var initKey *lmm.Key
	var initObs lmm.Obs
	seenB := map[string]bool{}
	PrintedJSON(r.Output, func(raw []byte) {
		var probe struct {
			K    *lmm.Key   `json:"k"`
			D    int        `json:"d"`
			Obs  lmm.Obs    `json:"obs"`
			Rd   *lmm.Reads `json:"rd"`
			Hist []struct {
				L lmm.Op  `json:"l"`
				T lmm.Key `json:"t"`
			} `json:"hist"`
		}
		if json.Unmarshal(raw, &probe) != nil {
			return
		}
		if probe.K != nil {
			probe.Obs.Rd = probe.Rd
			obsOf[probe.K.Canon()] = probe.Obs
			if probe.D == 0 && initKey == nil {
				initKey = probe.K
				initObs = probe.Obs
			}
			return
		}
		if len(probe.Hist) > 0 && initKey != nil {
			var b []rawEdge
			prev := *initKey
			sig := ""
			for _, h := range probe.Hist {
				b = append(b, rawEdge{S: prev, L: h.L, T: h.T})
				prev = h.T
				sig += h.T.Canon() + ";"
			}
			if !seenB[sig] {
				seenB[sig] = true
				behaviours = append(behaviours, b)
			}
		}
	})
	// the histories of one simulated trace differ only in their last step: keep a seeded sample
	if len(behaviours) > num*4 {
		rng := rand.New(rand.NewSource(c.Seed))
		rng.Shuffle(len(behaviours), func(i, j int) { behaviours[i], behaviours[j] = behaviours[j], behaviours[i] })
		behaviours = behaviours[:num*4]
	}
	if initKey == nil || len(behaviours) == 0 {
		infra("labelmap simulation emitted nothing: %s", r.Tail(1500))
	}
	var steps int64
	parallel(len(behaviours), 8, func(_, bi int) {
		w := &lmWorker{c: c, run: run, run12: run12, gr: &lmGraph{states: map[string]*lmState{initKey.Canon(): {key: *initKey, obs: initObs, parent: -1}}, init: initKey.Canon()},
			g: g, initSV: initSV, gname: fmt.Sprintf("seeded%d/sim%s", g.R, so.name), cfg: map[string]string{}, edges: edges, restarts: new(int64),
			cache: so.cache, multi: so.multi, labelBase: so.labelBase}
		cur, lab := w.start()
		defer c.DropNode(w.n)
		cur = w.branch(cur)
		var path []lmm.Op
		for i, e := range behaviours[bi] {
			ob, ok := obsOf[e.T.Canon()]
			if !ok {
				break
			}
			if e.L.Op == "overwrite" {
				e.L.NewSV = e.T.SV
			}
			e.L.OldSV = e.S.SV
			if e.L.Op == "agglo" {
				o := ob
				e.L.NewObs = &o
			}
			status, probs, err := w.in.Apply(cur, e.L, lab)
			must(err, "apply")
			lmCountOp(e.L)
			atomic.AddInt64(edges, 1)
			atomic.AddInt64(&steps, 1)
			path = append(path, e.L)
			for _, p := range probs {
				run12.Violation("c12", c08Divergence{Kind: "identifier", Geometry: w.gname, InitSV: initSV, Path: path, Op: e.L, Diffs: []string{p}})
			}
			if status != 200 {
				run.Violation("c08", c08Divergence{Kind: "valid-operation-refused", Geometry: w.gname, InitSV: initSV, Path: path, Op: e.L, Status: status, Labels: lab.ToReal})
				return
			}
			must(w.in.Idle(), "idle")
			d, err := w.in.Compare(cur, ob, lab, lmm.Full)
			must(err, "compare")
			if len(d) > 0 && e.L.Op == "overwrite" {
				deadline := time.Now().Add(10 * time.Second)
				for len(d) > 0 && time.Now().Before(deadline) {
					time.Sleep(5 * time.Millisecond)
					d, err = w.in.Compare(cur, ob, lab, lmm.Full)
					must(err, "compare")
				}
			}
			if len(d) > 0 {
				if len(d) > 12 {
					d = d[:12]
				}
				run.Violation("c08", c08Divergence{Kind: "state-mismatch-in-simulated-behaviour", Geometry: w.gname, InitSV: initSV, Path: path, Op: e.L, Diffs: d, Labels: lab.ToReal})
				return
			}
			run.Eval(fmt.Sprintf("sim|%d|%d", bi, i))
			if i%5 == 4 {
				// continue in a child version: everything must be inherited unchanged
				w.commit(cur)
				if i%10 == 9 {
					must(w.n.Restart(i%20 == 9), "restart")
				}
				cur = w.branch(cur)
				d, err := w.in.Compare(cur, ob, lab, lmm.Light)
				must(err, "compare child")
				if len(d) > 0 {
					run.Violation("c08", c08Divergence{Kind: "child-version-does-not-inherit", Geometry: w.gname, InitSV: initSV, Path: path, Op: e.L, Diffs: d, Labels: lab.ToReal})
					return
				}
			}
		}
	})
	return len(behaviours), steps
}

func checkC08(c *Ctx) int {
	run := ev.NewRun("C08", c.Tier, "model_checking")
	run12 := ev.NewRun("C12", c.Tier, "model_checking")
	t0 := time.Now()
	type layout struct {
		name   string
		g      *lmm.Geom
		initSV []uint64
		ops    int
	}
	small := lmm.NewGeom(c.Seed, true)
	layouts := []layout{
		{"small6/A", small, []uint64{1, 1, 2, 2, 3, 0}, c.pick(3, 4)},
		{"small6/B", small, []uint64{7, 7, 7, 4, 4, 9}, c.pick(1, 2)}, // with mutating voxel writes (fresh / present / zero label)
		{"small6/C", small, []uint64{5, 5, 6, 6, 6, 2}, c.pick(2, 3)},
		{"small6/S", small, []uint64{3, 3, 3, 8, 8, 0}, c.pick(2, 3)}, // with body splits and index / mapping re-ingest
	}
	// the same actions on an instance with the label index cache on, labels near 2^64, and voxel writes
	// sent as multi-block compressed POST raw requests
	kDepth := c.pick(1, 2)
	if os.Getenv("C08_K_DEPTH") == "2" { // debugging aid: the thorough depth of the variant layout inside a quick run
		kDepth = 2
	}
	layouts = append(layouts, layout{"small6/K", small, []uint64{3, 3, 5, 8, 8, 0}, kDepth})
	const bigBase = uint64(0xFFFFFFFFFFF00000)
	var states, trans, edges, restarts int64
	only := os.Getenv("C08_LAYOUTS") // debugging aid: comma-separated layout names (and "sim", "sim2")
	for _, lo := range layouts {
		if only != "" && !strings.Contains(","+only+",", ","+lo.name+",") {
			continue
		}
		variantK := lo.name == "small6/K"
		lmWithSplit = lo.name == "small6/S" || variantK
		lmGrowth = lo.name == "small6/C" // + two renumber pairs in one request, renumber onto a formerly used label (C08-13)
		gr, s, t := lmExplore(c, lo.g, lo.initSV, lo.ops, lo.ops+1, nil, nil, lo.name == "small6/B" || variantK)
		lmWithSplit = false
		lmGrowth = false
		states += s
		trans += t
		nw := 12
		var wg sync.WaitGroup
		var firstErr atomic.Value
		for wi := 0; wi < nw; wi++ {
			wg.Add(1)
			go func(wi int) {
				defer wg.Done()
				defer func() {
					if e := recover(); e != nil {
						if ie, ok := e.(infraErr); ok {
							firstErr.Store(ie.err.Error())
						} else {
							firstErr.Store(fmt.Sprint(e))
						}
					}
				}()
				w := &lmWorker{c: c, run: run, run12: run12, gr: gr, g: lo.g, initSV: lo.initSV, gname: lo.name, w: wi, nw: nw,
					cfg: map[string]string{}, edges: &edges, restartEvery: 40, restarts: &restarts}
				if variantK {
					w.cache, w.multi, w.labelBase = 64, true, bigBase
				}
				w.isoEvery = c.pick(24, 12)
				if lo.name == "small6/C" && wi >= nw-2 {
					// ingestion that leaves the bookkeeping to the client (C08-14)
					bare := wi == nw-1
					w.ingest = func(w *lmWorker, uuid string, sv []uint64, blocks []int) error {
						how := "ingest-supervoxels"
						if bare {
							how = "blocks?noindexing=true"
						}
						if err := w.in.IngestBare(uuid, sv, blocks, how); err != nil {
							return err
						}
						return w.in.PostIndicesOf(uuid, gr.states[gr.init].obs, lmm.NewLabels(), !bare, !bare)
					}
				}
				root, lab := w.start()
				defer c.DropNode(w.n)
				w.explore(gr.init, root, lab)
			}(wi)
		}
		wg.Wait()
		if e := firstErr.Load(); e != nil {
			infra("labelmap worker: %v", e)
		}
		sample := map[string]interface{}{"layout": lo.name, "initial_supervoxels": lo.initSV, "states": len(gr.states), "transitions": len(gr.edges),
			"example_transition": gr.edges[len(gr.edges)/2].L}
		if ob := gr.edges[len(gr.edges)/2].Obs; ob.Rd != nil && len(ob.Rd.Bodies) > 0 {
			// what TLC computed for one bounded read of the state that transition leads to
			sample["example_bounded_read"] = map[string]interface{}{"body": ob.Rd.Bodies[0].Label, "query_box": lo.g.QBoxes[0].String(), "expected_clip": ob.Rd.Bodies[0].Clip[0]}
		}
		run.Sample(sample)
	}
	// reads at a version that merges two sibling versions (C08-6)
	if only == "" || strings.Contains(","+only+",", ",vmerge,") {
		np, nr, s, t := lmVersionMerges(c, run, run12, small, &edges)
		states += s
		trans += t
		restarts += nr
		run.Set("version_merges_compared", np)
	}
	// renumber onto a formerly used label: directed replay of the histories that lead to such a transition (C08-13)
	if only == "" || strings.Contains(","+only+",", ",onto,") {
		no, s, t := lmOntoPaths(c, run, run12, small, &edges)
		states += s
		trans += t
		run.Set("renumber_onto_former_label_histories", no)
	}
	// simulated long behaviours on the larger seeded geometry
	big := lmm.NewGeom(c.Seed, false)
	bsv := make([]uint64, big.R)
	for i := range bsv {
		bsv[i] = uint64(1 + (i*7+int(c.Seed))%5)
	}
	bsv[big.R-1] = 0
	var nb, nb2 int
	var nsteps, nsteps2 int64
	if only == "" || strings.Contains(","+only+",", ",sim,") {
		nb, nsteps = lmSimulate(c, run, run12, big, bsv, c.pick(8, 120), c.pick(12, 25), &edges, lmSimOpts{})
	}
	// chains of operations inside one version on the variant instance (index cache on: a stale cached
	// index only shows when two operations touch the same label at one version)
	if only == "" || strings.Contains(","+only+",", ",sim2,") {
		nb2, nsteps2 = lmSimulate(c, run, run12, big, bsv, c.pick(2, 30), c.pick(10, 25), &edges,
			lmSimOpts{name: "/cache+split+multiblock+large", split: true, cache: 64, multi: true, labelBase: bigBase})
	}
	run.Set("simulated_behaviours", nb+nb2)
	run.Set("simulated_steps_replayed", nsteps+nsteps2)
	run.Set("simulated_steps_on_variant_instance", nsteps2)
	run.Set("operations_replayed_by_kind", lmOpCount)
	run.Set("reads_compared_by_option_combination", lmm.TakeStats())
	run.Set("states", states)
	run.Set("transitions", trans)
	run.Set("traces_validated_against_impl", edges)
	run.Set("restarts_with_full_compare", restarts)
	run.Set("isolation_rereads_with_the_full_read_set_at_the_parent", atomic.LoadInt64(&lmIsoFull))
	run.Set("isolation_rereads_with_the_full_read_set_at_an_earlier_sibling", atomic.LoadInt64(&lmIsoSibling))
	run.Set("rule", "case = one transition (merge / cleave / split-supervoxel with server- or client-chosen labels / renumber / mutating voxel write of a region / body split / index and mapping re-ingest / state-changing ingest of an agglomeration through POST mappings + POST index or POST indices, with every argument choice) of the TLC state graph of Labelmap.tla from an initial layout, executed on a real labelmap instance in a fresh child branch of the version holding the source state; after it every read endpoint (raw and mapped volume decoded to regions and checked voxel-exact within regions, size, supervoxels, sparsevol rles/srles, sparsevol-size, sparsevol-coarse, index, supervoxel-sizes, label, labels, mapping, sizes, listlabels) is compared with the specification's observation (Obs), and a rotating sample of the read options with the refinement LabelmapReads.tla computes for the state (Reads: per body and per supervoxel the clip of 8 query boxes): GET blocks / specificblocks (mapped and supervoxels; lz4, gzip, blocks, uncompressed), GET raw with lz4 / gzip / neuroglancer compression, unaligned boxes, single blocks and 2-d slices, sparsevol with minx..maxz x exact=true|false x format=rles|srles|blocks x compression x supervoxels=true, HEAD sparsevol, sparsevol-coarse and sparsevols-coarse with bounds, sparsevol-by-point, size / sizes / sparsevol-size with supervoxels=true including supervoxels that were split away, existing-labels, listlabels?start&number&sizes, GET indices / indices-compressed, labels with >= 100 points; the parent version is re-read (isolation), periodically the process is restarted and everything re-read; one layout runs with the label index cache on, labels near 2^64 and multi-block compressed POST raw; pairs of commuting transitions on sibling versions are merged with POST repo/merge and the merge node compared with the state TLC reaches by applying both (also after a restart); growth: two renumber pairs in one request and renumber onto a label of the initial layout that is free again (LabelmapGrowth.tla; the histories of depth 3 that lead to such a transition are replayed as chains, also across a restart); the committed parent and the sibling version of the previous transition are re-read with the FULL read set every few transitions (isolation of indices, sizes, sparse volumes and mappings, not only voxels); two workers of one layout ingest through POST ingest-supervoxels + POST indices + POST maxlabel resp. POST blocks?noindexing=true + POST index/<label> and must then read and behave like the POST raw instances; distinct = (layout, source state, transition)")
	run.Assume = []string{"voxel layouts are unions of <=12 box-shaped regions of a 4-block volume (incl. negative coordinates, a single voxel, one 8^3 sub-block)", "label ids are compared modulo the bijection bound from the server's responses",
		"read options are sampled (rotating, seeded) per transition, not all combinations on every transition (thorough tier: on every third comparison); the counts per combination are in reads_compared_by_option_combination",
		"bounded reads use 8 query boxes per geometry (crossing x=0 into the negative block, inside one block unaligned to sub-blocks, one whole block, partial bounds, beyond the volume, one seeded box); exact=false and format=blocks answers are accepted anywhere between the exact clip and the clip expanded to whole blocks"}
	// C12 (label part) evidence is written by this run as well
	run12.Set("states", states)
	run12.Set("transitions", trans)
	run12.Set("traces_validated_against_impl", edges)
	run12.Set("rule", "every CleavedLabel / SplitSupervoxel / RemainSupervoxel / MutationID returned while replaying the Labelmap.tla state graph is checked: never issued twice, greater than every label present or allocated before in the instance, mutation ids strictly increasing in issue order (sibling branches share the counters)")
	run12.Sample(map[string]interface{}{"allocations_checked": edges})
	fmt.Printf("C08: tlc %d states; %d transitions replayed, %d restarts in %.1fs; violations=%d (C12 label violations=%d)\n",
		states, edges, restarts, since(t0), run.Violations(), run12.Violations())
	return run.Finish()
}

// normSplits orders the records of one mutation (a body split touching several supervoxels
// logs them in map order) inside GET supervoxel-splits; the order of mutations is kept.
func normSplits(b []byte) []byte {
	var top []json.RawMessage
	if json.Unmarshal(b, &top) != nil {
		return b
	}
	for i, el := range top {
		var recs [][]uint64
		if json.Unmarshal(el, &recs) != nil {
			continue
		}
		sort.SliceStable(recs, func(a, c int) bool {
			if recs[a][0] != recs[c][0] {
				return recs[a][0] < recs[c][0]
			}
			return recs[a][1] < recs[c][1]
		})
		top[i], _ = json.Marshal(recs)
	}
	out, _ := json.Marshal(top)
	return out
}
