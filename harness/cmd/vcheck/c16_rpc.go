package main

import (
	"encoding/json"
	"fmt"
	"math/rand"
	"sort"
	"strings"
	"sync/atomic"
	"time"

	"verifharness/internal/ev"
	"verifharness/internal/node"
	"verifharness/internal/tlc"
)

// C16 over the RPC command path: "node <uuid> <neuronjson> import-kv <keyvalue>" is the
// one command that writes neuron annotations into the store and the in-memory head
// database side by side, by a code path of its own (loadFromKV).  specs/NJImport.tla
// enumerates every case (annotation of each id before the import x value of each id in
// the source) and prints what every read must answer afterwards; here each case runs on
// its own pair of instances: the in-memory head must answer as the table says, and the
// complete C16 read set of the head must be the same after a restart (state rebuilt from
// the store).  (`put`, the other command, is refused for every input: a command carries
// no user.)

type njImpAnn struct {
	Present bool            `json:"present"`
	Fields  json.RawMessage `json:"fields"`
}

func (a njImpAnn) fields() map[string]int {
	m := map[string]int{}
	if len(a.Fields) > 0 && a.Fields[0] == '{' {
		json.Unmarshal(a.Fields, &m)
	}
	return m
}

type njImpCase struct {
	Before []njImpAnn     `json:"before"`
	Src    []njImpAnn     `json:"src"`
	After  []njImpAnn     `json:"after"`
	Keys   []int          `json:"keys"`
	Counts map[string]int `json:"counts"`
}

func njImportCases(c *Ctx) ([]njImpCase, *tlc.Result) {
	cfg := "SPECIFICATION Spec\nINVARIANT Emit\nCHECK_DEADLOCK FALSE\n"
	r := c.MustModelCheck(tlc.Opts{Module: "NJImport", Config: "gen_njimport.cfg", Workers: 1,
		Files: map[string][]byte{"gen_njimport.cfg": []byte(cfg)}, Timeout: 5 * time.Minute})
	var cases []njImpCase
	PrintedJSON(r.Output, func(raw []byte) {
		var t struct {
			Cases []njImpCase `json:"cases"`
		}
		if json.Unmarshal(raw, &t) == nil && len(t.Cases) > 0 {
			cases = t.Cases
		}
	})
	if len(cases) == 0 {
		infra("NJImport.tla printed no cases: %s", r.Tail(1500))
	}
	return cases, r
}

type c16ImportDivergence struct {
	Kind     string      `json:"kind"`
	Case     njImpCase   `json:"case_from_tlc"`
	Round    int         `json:"import_round"`
	Read     string      `json:"read,omitempty"`
	Expected interface{} `json:"expected,omitempty"`
	Observed interface{} `json:"observed,omitempty"`
	Script   []string    `json:"script"`
}

// njRPCImport replays the cases of NJImport.tla.  It returns the number of cases replayed
// and of comparisons made.
func njRPCImport(c *Ctx, run *ev.Run) (int64, int64) {
	cases, _ := njImportCases(c)
	rng := rand.New(rand.NewSource(c.Seed*977 + 5))
	rng.Shuffle(len(cases), func(i, j int) { cases[i], cases[j] = cases[j], cases[i] })
	if n := c.pick(64, len(cases)); len(cases) > n {
		cases = cases[:n]
	}
	const base = 4100 // body ids of a case: base+1, base+2 (same number of digits)
	valOf := func(v int) string { return map[int]string{1: `"written before"`, 2: `"from the source"`}[v] }
	annJSON := func(id int, a njImpAnn) []byte {
		parts := []string{fmt.Sprintf(`"bodyid":%d`, id)}
		fs := a.fields()
		var names []string
		for f := range fs {
			names = append(names, f)
		}
		sort.Strings(names)
		for _, f := range names {
			parts = append(parts, fmt.Sprintf("%q:%s", f, valOf(fs[f])))
		}
		return []byte("{" + strings.Join(parts, ",") + "}")
	}
	workers := 8
	nodes := make([]*node.Node, workers)
	roots := make([]string, workers)
	defer func() {
		for _, n := range nodes {
			if n != nil {
				c.DropNode(n)
			}
		}
	}()
	var nreq, ncmp, ndone int64
	parallel(len(cases), workers, func(wi, ci int) {
		cs := cases[ci]
		if nodes[wi] == nil {
			nodes[wi] = c.StartNode(node.Config{})
			root, err := newNJRepo(nodes[wi], "nj0")
			must(err, "new repo")
			roots[wi] = root
		}
		n, root := nodes[wi], roots[wi]
		nj, kv := fmt.Sprintf("nj%d", ci+1), fmt.Sprintf("kv%d", ci+1)
		s := &njSess{n: n, inst: nj, head: root, fields: []string{"a", "b"}, nreq: &nreq, keep: true}
		post := func(url string, body []byte) {
			if r := s.http("POST", url, body); r.Status != 200 {
				infra("setup request %s answered %d %s", url, r.Status, r.Bytes())
			}
		}
		for _, in := range [][2]string{{"neuronjson", nj}, {"keyvalue", kv}} {
			b, _ := json.Marshal(map[string]string{"typename": in[0], "dataname": in[1]})
			post("/api/repo/"+root+"/instance", b)
		}
		for i, a := range cs.Before {
			if a.Present {
				post(s.url(root, fmt.Sprintf("key/%d?u=setup", base+1+i)), annJSON(base+1+i, a))
			}
		}
		for i, a := range cs.Src {
			if a.Present {
				post(fmt.Sprintf("/api/node/%s/%s/key/%d", root, kv, base+1+i), annJSON(base+1+i, a))
			}
		}
		fail := func(kind string, round int, read string, exp, obs interface{}) {
			run.Violation("c16import", c16ImportDivergence{Kind: kind, Case: cs, Round: round, Read: read, Expected: exp, Observed: obs, Script: s.script})
		}
		cids := []int{base + 1, base + 2}
		rs := njReadSet(cids, s.fields, []string{valOf(1), valOf(2)}, nil, true)
		for round := 1; round <= 2; round++ {
			res, err := rpcCall(n, []string{"node", root, nj, "import-kv", kv}, nil, nil)
			must(err, "import-kv")
			s.script = append(s.script, fmt.Sprintf("RPC node %s %s import-kv %s -> %s%s", root, nj, kv, res.Err, strings.TrimSpace(res.reply())))
			if res.Err != "" {
				infra("import-kv on an open head was refused: %s", res.Err)
			}
			// the command answers before the import has run
			var st struct {
				Settled bool `json:"settled"`
			}
			must(n.Call("c20.settle", map[string]int{"wait_ms": 5000}, &st), "settle")
			must(n.Idle(), "idle")
			// (1) the in-memory head answers what the specification says
			for i, a := range cs.After {
				id := base + 1 + i
				r := s.http("GET", s.url(root, fmt.Sprintf("key/%d", id)), nil)
				atomic.AddInt64(&ncmp, 1)
				if !a.Present {
					if r.Status == 200 {
						fail("annotation-appeared", round, fmt.Sprintf("GET key/%d", id), "not found", string(r.Bytes()))
					}
					continue
				}
				want, _ := canonJSON(annJSON(id, a))
				got, _ := canonJSON(r.Bytes())
				if r.Status != 200 || got != want {
					fail("head-annotation-differs", round, fmt.Sprintf("GET key/%d (head, in-memory path)", id), want, fmt.Sprintf("%d %s", r.Status, got))
				}
			}
			var wantKeys []string
			for _, k := range cs.Keys {
				wantKeys = append(wantKeys, fmt.Sprint(base+k))
			}
			sort.Strings(wantKeys)
			r := s.http("GET", s.url(root, "keys"), nil)
			var gotKeys []string
			json.Unmarshal(r.Bytes(), &gotKeys)
			atomic.AddInt64(&ncmp, 1)
			if fmt.Sprint(gotKeys) != fmt.Sprint(wantKeys) {
				fail("head-keys-differ", round, "GET keys (head, in-memory path)", wantKeys, string(r.Bytes()))
			}
			r = s.http("GET", s.url(root, "fields?counts=true"), nil)
			var gotCounts map[string]int
			json.Unmarshal(r.Bytes(), &gotCounts)
			atomic.AddInt64(&ncmp, 1)
			for f, want := range cs.Counts {
				if gotCounts[f] != want {
					fail("head-field-count-differs", round, "GET fields?counts=true (head, in-memory path)", cs.Counts, string(r.Bytes()))
					break
				}
			}
		}
		// (2) the head answers the complete read set like the state a restart rebuilds from the store
		mem := s.doReads(root, rs)
		if ci%4 == 0 {
			must(n.Restart(ci%8 == 0), "restart")
			after := s.doReads(root, rs)
			for i := range rs {
				atomic.AddInt64(&ncmp, 1)
				if mem[i] != after[i] {
					fail("head-differs-from-restart", 2, rs[i].name, "after the restart (rebuilt from the store): "+trunc(after[i], 300), "before (in-memory database written by import-kv): "+trunc(mem[i], 300))
					break
				}
			}
		}
		run.Eval(fmt.Sprintf("import|%s", jsonStr(cs.Before)+jsonStr(cs.Src)))
		if atomic.AddInt64(&ndone, 1)%40 == 1 {
			run.Sample(map[string]interface{}{"import_kv_case_from_tlc": cs, "script": s.script})
		}
	})
	return ndone, ncmp
}

// `./check C16rpc` runs the import-kv replay alone (development and binding self-test aid;
// the registered check calls njRPCImport from checkC16).
func init() {
	checks["C16rpc"] = func(c *Ctx) int {
		run := ev.NewRun("C16rpc", c.Tier, "exploration")
		n, cmp := njRPCImport(c, run)
		run.Set("evaluations", cmp)
		run.Set("rule", "cases enumerated by TLC (NJImport.tla), replayed through the import-kv command")
		fmt.Printf("C16rpc: %d import-kv cases, %d comparisons; violations=%d\n", n, cmp, run.Violations())
		return run.Finish()
	}
}
