package main

import (
	"encoding/json"
	"fmt"
	"math/rand"
	"sort"
	"strings"

	"verifharness/internal/node"
)

// world is a seeded multi-datatype workload generator with just enough bookkeeping to
// issue valid requests (which nodes are open, which instances exist).  It is not an
// oracle: checks that use it compare snapshots of the real server with each other
// (restart = stutter, refused request = stutter, crash = all-or-nothing).
type world struct {
	n     *node.Node
	rng   *rand.Rand
	repos []*wRepo
	log   []wOp
	seq   int
	// feature switches
	Types []string // instance types to create
}

type wNode struct {
	uuid   string
	locked bool
	branch string
	kids   int
}

type wInst struct {
	name, typ string
	keys      []string
	tags      map[string]string
}

type wRepo struct {
	root  string
	nodes []*wNode
	insts []*wInst
	nbr   int
}

// wOp is one executed request.
type wOp struct {
	Seq    int    `json:"seq"`
	Kind   string `json:"kind"`
	Method string `json:"method"`
	URL    string `json:"url"`
	Body   string `json:"body,omitempty"`
	Status int    `json:"status"`
	Resp   string `json:"resp,omitempty"`
}

func newWorld(n *node.Node, seed int64) *world {
	return &world{n: n, rng: rand.New(rand.NewSource(seed)), Types: []string{"keyvalue", "roi", "annotation", "neuronjson", "uint8blk"}}
}

func (w *world) do(kind, method, url string, body []byte) (node.Resp, error) {
	r, err := w.n.HTTP(method, url, body)
	w.seq++
	op := wOp{Seq: w.seq, Kind: kind, Method: method, URL: url, Status: r.Status}
	if len(body) <= 400 {
		op.Body = string(body)
	} else {
		op.Body = fmt.Sprintf("<%d bytes>", len(body))
	}
	if rb := r.Bytes(); len(rb) <= 300 {
		op.Resp = string(rb)
	}
	w.log = append(w.log, op)
	return r, err
}

func (w *world) pickRepo() *wRepo { return w.repos[w.rng.Intn(len(w.repos))] }

func (r *wRepo) open() []*wNode {
	var o []*wNode
	for _, n := range r.nodes {
		if !n.locked {
			o = append(o, n)
		}
	}
	return o
}

func (r *wRepo) committed() []*wNode {
	var o []*wNode
	for _, n := range r.nodes {
		if n.locked {
			o = append(o, n)
		}
	}
	return o
}

func (r *wRepo) inst(typ string) *wInst {
	var c []*wInst
	for _, i := range r.insts {
		if i.typ == typ {
			c = append(c, i)
		}
	}
	if len(c) == 0 {
		return nil
	}
	return c[0]
}

// step executes one random operation; returns its kind ("" when nothing applicable was drawn).
func (w *world) step() (string, error) {
	if len(w.repos) == 0 {
		return w.newRepo()
	}
	for tries := 0; tries < 50; tries++ {
		r := w.pickRepo()
		switch k := w.rng.Intn(20); {
		case k == 0 && len(w.repos) < 2:
			return w.newRepo()
		case k == 1 && len(r.insts) < len(w.Types):
			typ := w.Types[len(r.insts)]
			name := fmt.Sprintf("%s%d", typ[:2], len(r.insts))
			cfg := map[string]string{"typename": typ, "dataname": name}
			if w.rng.Intn(2) == 0 {
				cfg["Tags"] = "type=meshes,owner=a"
			}
			b, _ := json.Marshal(cfg)
			resp, err := w.do("newinstance", "POST", "/api/repo/"+r.root+"/instance", b)
			if err != nil {
				return "", err
			}
			if resp.Status == 200 {
				in := &wInst{name: name, typ: typ, tags: map[string]string{}}
				if cfg["Tags"] != "" {
					in.tags["type"], in.tags["owner"] = "meshes", "a"
				}
				r.insts = append(r.insts, in)
			}
			return "newinstance", nil
		case k >= 2 && k <= 6: // data write on an open node
			o := r.open()
			if len(o) == 0 || len(r.insts) == 0 {
				continue
			}
			nd := o[w.rng.Intn(len(o))]
			in := r.insts[w.rng.Intn(len(r.insts))]
			return w.dataWrite(r, nd, in)
		case k == 7 || k == 8: // commit
			o := r.open()
			if len(o) == 0 {
				continue
			}
			nd := o[w.rng.Intn(len(o))]
			body := []byte(`{}`)
			if w.rng.Intn(2) == 0 {
				body = []byte(fmt.Sprintf(`{"note":"commit %d","log":["l%d"]}`, w.seq, w.seq))
			}
			resp, err := w.do("commit", "POST", "/api/node/"+nd.uuid+"/commit", body)
			if err != nil {
				return "", err
			}
			if resp.Status == 200 {
				nd.locked = true
			}
			return "commit", nil
		case k == 9 || k == 10: // newversion / branch
			c := r.committed()
			if len(c) == 0 || len(r.nodes) >= 7 {
				continue
			}
			p := c[w.rng.Intn(len(c))]
			var resp node.Resp
			var err error
			br := p.branch
			kind := "newversion"
			if p.kids > 0 || w.rng.Intn(2) == 0 {
				r.nbr++
				br = fmt.Sprintf("br%d", r.nbr)
				kind = "branch"
				resp, err = w.do(kind, "POST", "/api/node/"+p.uuid+"/branch", []byte(fmt.Sprintf(`{"branch":%q,"note":"b%d"}`, br, w.seq)))
			} else {
				resp, err = w.do(kind, "POST", "/api/node/"+p.uuid+"/newversion", []byte(fmt.Sprintf(`{"note":"v%d"}`, w.seq)))
			}
			if err != nil {
				return "", err
			}
			if resp.Status == 200 {
				var out struct{ Child string }
				json.Unmarshal(resp.Bytes(), &out)
				r.nodes = append(r.nodes, &wNode{uuid: out.Child, branch: br})
				p.kids++
			}
			return kind, nil
		case k == 11: // merge
			c := r.committed()
			if len(c) < 2 || len(r.nodes) >= 7 {
				continue
			}
			a, b := w.rng.Intn(len(c)), w.rng.Intn(len(c))
			if a == b {
				continue
			}
			body, _ := json.Marshal(map[string]interface{}{"mergeType": "conflict-free", "parents": []string{c[a].uuid, c[b].uuid}, "note": fmt.Sprintf("m%d", w.seq)})
			resp, err := w.do("merge", "POST", "/api/repo/"+r.root+"/merge", body)
			if err != nil {
				return "", err
			}
			if resp.Status == 200 {
				var out struct{ Child string }
				json.Unmarshal(resp.Bytes(), &out)
				r.nodes = append(r.nodes, &wNode{uuid: out.Child})
				c[a].kids++
				c[b].kids++
			}
			return "merge", nil
		case k == 12: // note / log on an open node
			o := r.open()
			if len(o) == 0 {
				continue
			}
			nd := o[w.rng.Intn(len(o))]
			if w.rng.Intn(2) == 0 {
				_, err := w.do("nodenote", "POST", "/api/node/"+nd.uuid+"/note", []byte(fmt.Sprintf(`{"note":"note %d"}`, w.seq)))
				return "nodenote", err
			}
			_, err := w.do("nodelog", "POST", "/api/node/"+nd.uuid+"/log", []byte(fmt.Sprintf(`{"log":["entry %d"]}`, w.seq)))
			return "nodelog", err
		case k == 13:
			_, err := w.do("repolog", "POST", "/api/repo/"+r.root+"/log", []byte(fmt.Sprintf(`{"log":["repo entry %d"]}`, w.seq)))
			return "repolog", err
		case k == 14 || k == 15: // instance tags
			if len(r.insts) == 0 {
				continue
			}
			in := r.insts[w.rng.Intn(len(r.insts))]
			// prefer changing the value of an existing tag; sometimes add a key or replace all
			newTags := map[string]string{}
			q := ""
			var existing []string
			for k := range in.tags {
				existing = append(existing, k)
			}
			sort.Strings(existing)
			switch c := w.rng.Intn(4); {
			case c <= 1 && len(existing) > 0:
				k := existing[w.rng.Intn(len(existing))]
				newTags[k] = fmt.Sprintf("%s-%d", k, w.seq)
			case c == 2:
				newTags[fmt.Sprintf("k%d", w.rng.Intn(3))] = "v"
			default:
				q = "?replace=true"
				for _, k := range existing {
					if w.rng.Intn(3) > 0 {
						newTags[k] = fmt.Sprintf("r%d", w.seq)
					}
				}
				if len(newTags) == 0 {
					newTags["type"] = "x"
				}
			}
			bb, _ := json.Marshal(newTags)
			body := string(bb)
			at := r.root
			if o := r.open(); len(o) > 0 {
				at = o[w.rng.Intn(len(o))].uuid // instance-level setting, but the request must name an open node
			}
			resp, err := w.do("tags", "POST", "/api/node/"+at+"/"+in.name+"/tags"+q, []byte(body))
			if err == nil && resp.Status == 200 {
				if q != "" {
					in.tags = map[string]string{}
				}
				for k, v := range newTags {
					in.tags[k] = v
				}
			}
			return "tags", err
		case k == 16: // repo info post (alias/description)
			_, err := w.do("repoinfo", "POST", "/api/repo/"+r.root+"/info", []byte(fmt.Sprintf(`{"alias":"alias%d","description":"d%d"}`, w.seq, w.seq)))
			return "repoinfo", err
		}
	}
	return "", nil
}

func (w *world) newRepo() (string, error) {
	resp, err := w.do("newrepo", "POST", "/api/repos", []byte(fmt.Sprintf(`{"alias":"r%d","description":"d"}`, len(w.repos))))
	if err != nil {
		return "", err
	}
	if resp.Status != 200 {
		return "", fmt.Errorf("newrepo: %d %s", resp.Status, resp.Bytes())
	}
	var out struct{ Root string }
	json.Unmarshal(resp.Bytes(), &out)
	w.repos = append(w.repos, &wRepo{root: out.Root, nodes: []*wNode{{uuid: out.Root}}})
	return "newrepo", nil
}

func (w *world) dataWrite(r *wRepo, nd *wNode, in *wInst) (string, error) {
	base := "/api/node/" + nd.uuid + "/" + in.name
	switch in.typ {
	case "keyvalue":
		k := fmt.Sprintf("k%d", w.rng.Intn(5))
		if w.rng.Intn(4) == 0 {
			_, err := w.do("kvdelete", "DELETE", base+"/key/"+k, nil)
			return "kvdelete", err
		}
		_, err := w.do("kvput", "POST", base+"/key/"+k, []byte(fmt.Sprintf("\"value %d\"", w.seq)))
		return "kvput", err
	case "roi":
		var spans [][4]int
		for i := 0; i < 1+w.rng.Intn(3); i++ {
			x0 := w.rng.Intn(6) - 3
			spans = append(spans, [4]int{w.rng.Intn(4) - 2, w.rng.Intn(4) - 2, x0, x0 + w.rng.Intn(3)})
		}
		b, _ := json.Marshal(spans)
		_, err := w.do("roipost", "POST", base+"/roi", b)
		return "roipost", err
	case "annotation":
		kinds := []string{"PostSyn", "PreSyn", "Note"}
		var els []map[string]interface{}
		for i := 0; i < 1+w.rng.Intn(2); i++ {
			els = append(els, map[string]interface{}{
				"Pos":  []int{w.rng.Intn(100) - 50, w.rng.Intn(100) - 50, w.rng.Intn(100) - 50},
				"Kind": kinds[w.rng.Intn(3)], "Tags": []string{fmt.Sprintf("t%d", w.rng.Intn(3))},
				"Prop": map[string]string{"p": fmt.Sprint(w.seq)}})
		}
		b, _ := json.Marshal(els)
		_, err := w.do("annpost", "POST", base+"/elements", b)
		return "annpost", err
	case "neuronjson":
		id := 1000 + w.rng.Intn(4)
		if w.rng.Intn(5) == 0 {
			_, err := w.do("njdelete", "DELETE", fmt.Sprintf("%s/key/%d", base, id), nil)
			return "njdelete", err
		}
		fields := []string{"a", "b", "c"}
		m := map[string]interface{}{"bodyid": id}
		m[fields[w.rng.Intn(3)]] = w.rng.Intn(3)
		if w.rng.Intn(3) == 0 {
			m[fields[w.rng.Intn(3)]] = nil
		}
		b, _ := json.Marshal(m)
		_, err := w.do("njpost", "POST", fmt.Sprintf("%s/key/%d?u=user%d", base, id, w.rng.Intn(2)), b)
		return "njpost", err
	case "uint8blk":
		buf := make([]byte, 32*32*32)
		v := byte(1 + w.rng.Intn(250))
		for i := range buf {
			buf[i] = v + byte(i%7)
		}
		off := fmt.Sprintf("%d_%d_0", 32*(w.rng.Intn(3)-1), 32*(w.rng.Intn(2)))
		_, err := w.do("imgpost", "POST", base+"/raw/0_1_2/32_32_32/"+off, buf)
		return "imgpost", err
	}
	return "", nil
}

func (w *world) describe(op wOp) string {
	return strings.TrimSpace(fmt.Sprintf("#%d %s %s %s -> %d", op.Seq, op.Kind, op.Method, op.URL, op.Status))
}
