package main

import (
	"encoding/json"
	"fmt"
	"math/rand"
	"sort"
	"strings"

	"verifharness/internal/lmm"
	"verifharness/internal/node"
	"verifharness/internal/snap"
)

// world is a seeded multi-datatype workload generator with just enough bookkeeping to
// issue valid requests (which nodes are open, which instances exist).  It is not an
// oracle: checks that use it compare snapshots of the real server with each other
// (restart = stutter, refused request = stutter, crash = all-or-nothing).
type world struct {
	n     *node.Node
	rng   *rand.Rand
	repos []*wRepo
	log   []wOp
	seq   int
	// feature switches
	Types []string  // instance types to create
	X     *worldExt // request kinds added for the growth of C03 (nil: the original workload, same draws as before)
}

type wNode struct {
	uuid   string
	locked bool
	branch string
	kids   int
	anc    map[string]bool // uuids of this node and all its ancestors
}

type wInst struct {
	name, typ string
	keys      []string
	tags      map[string]string
	ingestAt  string   // labelmap: version where the voxels were ingested
	labels    []uint64 // labelmap: labels seen so far (for snapshots)
}

type wRepo struct {
	root     string
	nodes    []*wNode
	insts    []*wInst
	nbr      int
	ncreated int // instances created so far (index of the next type; deleted ones count)
}

// wOp is one executed request.
type wOp struct {
	Seq    int    `json:"seq"`
	Kind   string `json:"kind"`
	Method string `json:"method"`
	URL    string `json:"url"`
	Body   string `json:"body,omitempty"`
	Status int    `json:"status"`
	Resp   string `json:"resp,omitempty"`
}

var worldGeom = lmm.NewGeom(1, true)

// snapOptions returns the snapshot options matching the instances of this world.
func (w *world) snapOptions() snap.Options {
	o := snap.Options{Volume: map[string][2]string{}, Bodies: map[string][]uint64{}, LabelPoints: map[string][]string{}}
	g := worldGeom
	for _, r := range w.repos {
		for _, in := range r.insts {
			switch in.typ {
			case "uint8blk":
				o.Volume[in.name] = [2]string{"96_64_32", "-32_0_0"}
			case "labelmap":
				o.Volume[in.name] = [2]string{fmt.Sprintf("%d_%d_%d", g.Size[0], g.Size[1], g.Size[2]), fmt.Sprintf("%d_%d_%d", g.Min[0], g.Min[1], g.Min[2])}
				o.Bodies[in.name] = in.labels
				for _, p := range g.Point {
					o.LabelPoints[in.name] = append(o.LabelPoints[in.name], fmt.Sprintf("%d_%d_%d", p[0], p[1], p[2]))
				}
			}
		}
	}
	if w.X != nil {
		w.extSnapOptions(&o)
	}
	return o
}

func newWorld(n *node.Node, seed int64) *world {
	return &world{n: n, rng: rand.New(rand.NewSource(seed)), Types: []string{"labelmap", "keyvalue", "roi", "annotation", "neuronjson", "uint8blk"}}
}

func (w *world) do(kind, method, url string, body []byte) (node.Resp, error) {
	r, err := w.n.HTTP(method, url, body)
	w.seq++
	op := wOp{Seq: w.seq, Kind: kind, Method: method, URL: url, Status: r.Status}
	if len(body) <= 400 {
		op.Body = string(body)
	} else {
		op.Body = fmt.Sprintf("<%d bytes>", len(body))
	}
	if rb := r.Bytes(); len(rb) <= 300 {
		op.Resp = string(rb)
	}
	w.log = append(w.log, op)
	return r, err
}

// maxNodes is the cap on the versions of one repo.
func (w *world) maxNodes() int {
	if w.X != nil {
		return w.X.maxNodes()
	}
	return 7
}

func (w *world) pickRepo() *wRepo { return w.repos[w.rng.Intn(len(w.repos))] }

func (r *wRepo) open() []*wNode {
	var o []*wNode
	for _, n := range r.nodes {
		if !n.locked {
			o = append(o, n)
		}
	}
	return o
}

func (r *wRepo) committed() []*wNode {
	var o []*wNode
	for _, n := range r.nodes {
		if n.locked {
			o = append(o, n)
		}
	}
	return o
}

func (r *wRepo) inst(typ string) *wInst {
	var c []*wInst
	for _, i := range r.insts {
		if i.typ == typ {
			c = append(c, i)
		}
	}
	if len(c) == 0 {
		return nil
	}
	return c[0]
}

// step executes one random operation; returns its kind ("" when nothing applicable was drawn).
func (w *world) step() (string, error) {
	if len(w.repos) == 0 {
		return w.newRepo()
	}
	for tries := 0; tries < 50; tries++ {
		r := w.pickRepo()
		if w.X != nil {
			if kind, handled, err := w.extStep(r); handled {
				if kind == "" && err == nil {
					continue
				}
				return kind, err
			}
		}
		switch k := w.rng.Intn(20); {
		case k == 0 && len(w.repos) < 2:
			return w.newRepo()
		case (k == 1 || k >= 17) && r.ncreated < len(w.Types):
			if w.X != nil && w.X.Synced && !w.extCanCreate(r, w.Types[r.ncreated]) {
				continue
			}
			if err := w.createNext(r); err != nil {
				return "", err
			}
			return "newinstance", nil
		case k >= 2 && k <= 6: // data write on an open node
			o := r.open()
			if len(o) == 0 || len(r.insts) == 0 {
				continue
			}
			nd := o[w.rng.Intn(len(o))]
			in := r.insts[w.rng.Intn(len(r.insts))]
			if lm := r.inst("labelmap"); lm != nil && (lm.ingestAt == "" || w.rng.Intn(3) == 0) {
				in = lm // proofreading sequences need several label operations per history
				if lm.ingestAt != "" {
					for _, cand := range o {
						if cand.anc[lm.ingestAt] {
							nd = cand
						}
					}
				}
			}
			return w.dataWrite(r, nd, in)
		case k == 7 || k == 8: // commit
			o := r.open()
			if len(o) == 0 {
				continue
			}
			nd := o[w.rng.Intn(len(o))]
			body := []byte(`{}`)
			if w.rng.Intn(2) == 0 {
				body = []byte(fmt.Sprintf(`{"note":"commit %d","log":["l%d"]}`, w.seq, w.seq))
			}
			resp, err := w.do("commit", "POST", "/api/node/"+nd.uuid+"/commit", body)
			if err != nil {
				return "", err
			}
			if resp.Status == 200 {
				nd.locked = true
			}
			return "commit", nil
		case k == 9 || k == 10: // newversion / branch
			c := r.committed()
			if len(c) == 0 || len(r.nodes) >= w.maxNodes() {
				continue
			}
			p := c[w.rng.Intn(len(c))]
			var resp node.Resp
			var err error
			br := p.branch
			kind := "newversion"
			if p.kids > 0 || w.rng.Intn(2) == 0 {
				r.nbr++
				br = fmt.Sprintf("br%d", r.nbr)
				kind = "branch"
				resp, err = w.do(kind, "POST", "/api/node/"+p.uuid+"/branch", []byte(fmt.Sprintf(`{"branch":%q,"note":"b%d"}`, br, w.seq)))
			} else {
				resp, err = w.do(kind, "POST", "/api/node/"+p.uuid+"/newversion", []byte(fmt.Sprintf(`{"note":"v%d"}`, w.seq)))
			}
			if err != nil {
				return "", err
			}
			if resp.Status == 200 {
				var out struct{ Child string }
				json.Unmarshal(resp.Bytes(), &out)
				anc := map[string]bool{out.Child: true}
				for a := range p.anc {
					anc[a] = true
				}
				r.nodes = append(r.nodes, &wNode{uuid: out.Child, branch: br, anc: anc})
				p.kids++
			}
			return kind, nil
		case k == 11: // merge
			c := r.committed()
			if len(c) < 2 || len(r.nodes) >= w.maxNodes() {
				continue
			}
			a, b := w.rng.Intn(len(c)), w.rng.Intn(len(c))
			if a == b {
				continue
			}
			body, _ := json.Marshal(map[string]interface{}{"mergeType": "conflict-free", "parents": []string{c[a].uuid, c[b].uuid}, "note": fmt.Sprintf("m%d", w.seq)})
			resp, err := w.do("merge", "POST", "/api/repo/"+r.root+"/merge", body)
			if err != nil {
				return "", err
			}
			if resp.Status == 200 {
				var out struct{ Child string }
				json.Unmarshal(resp.Bytes(), &out)
				anc := map[string]bool{out.Child: true}
				for x := range c[a].anc { // label data follows the first parent
					anc[x] = true
				}
				r.nodes = append(r.nodes, &wNode{uuid: out.Child, anc: anc})
				c[a].kids++
				c[b].kids++
			}
			return "merge", nil
		case k == 12: // note / log on an open node
			o := r.open()
			if len(o) == 0 {
				continue
			}
			nd := o[w.rng.Intn(len(o))]
			if w.rng.Intn(2) == 0 {
				_, err := w.do("nodenote", "POST", "/api/node/"+nd.uuid+"/note", []byte(fmt.Sprintf(`{"note":"note %d"}`, w.seq)))
				return "nodenote", err
			}
			_, err := w.do("nodelog", "POST", "/api/node/"+nd.uuid+"/log", []byte(fmt.Sprintf(`{"log":["entry %d"]}`, w.seq)))
			return "nodelog", err
		case k == 13:
			_, err := w.do("repolog", "POST", "/api/repo/"+r.root+"/log", []byte(fmt.Sprintf(`{"log":["repo entry %d"]}`, w.seq)))
			return "repolog", err
		case k == 14 || k == 15: // instance tags
			if len(r.insts) == 0 {
				continue
			}
			in := r.insts[w.rng.Intn(len(r.insts))]
			// prefer changing the value of an existing tag; sometimes add a key or replace all
			newTags := map[string]string{}
			q := ""
			var existing []string
			for k := range in.tags {
				existing = append(existing, k)
			}
			sort.Strings(existing)
			switch c := w.rng.Intn(4); {
			case c <= 1 && len(existing) > 0:
				k := existing[w.rng.Intn(len(existing))]
				newTags[k] = fmt.Sprintf("%s-%d", k, w.seq)
			case c == 2:
				newTags[fmt.Sprintf("k%d", w.rng.Intn(3))] = "v"
			default:
				q = "?replace=true"
				for _, k := range existing {
					if w.rng.Intn(3) > 0 {
						newTags[k] = fmt.Sprintf("r%d", w.seq)
					}
				}
				if len(newTags) == 0 {
					newTags["type"] = "x"
				}
			}
			bb, _ := json.Marshal(newTags)
			body := string(bb)
			at := r.root
			if o := r.open(); len(o) > 0 {
				at = o[w.rng.Intn(len(o))].uuid // instance-level setting, but the request must name an open node
			}
			resp, err := w.do("tags", "POST", "/api/node/"+at+"/"+in.name+"/tags"+q, []byte(body))
			if err == nil && resp.Status == 200 {
				if q != "" {
					in.tags = map[string]string{}
				}
				for k, v := range newTags {
					in.tags[k] = v
				}
			}
			return "tags", err
		case k == 16: // repo info post (alias/description)
			_, err := w.do("repoinfo", "POST", "/api/repo/"+r.root+"/info", []byte(fmt.Sprintf(`{"alias":"alias%d","description":"d%d"}`, w.seq, w.seq)))
			return "repoinfo", err
		}
	}
	return "", nil
}

// createNext creates the next instance of the repo's type list.
func (w *world) createNext(r *wRepo) error {
	typ := w.Types[r.ncreated]
	name := fmt.Sprintf("%s%d", typ[:2], r.ncreated)
	if typ == "labelsz" {
		name = fmt.Sprintf("sz%d", r.ncreated)
	}
	cfg := map[string]string{"typename": typ, "dataname": name}
	if typ == "labelmap" {
		cfg["BlockSize"] = "32,32,32"
	}
	if w.rng.Intn(2) == 0 {
		cfg["Tags"] = "type=meshes,owner=a"
	}
	b, _ := json.Marshal(cfg)
	at := r.root
	if w.X != nil {
		at = r.openOrRoot(w) // a locked root refuses new instances
	}
	resp, err := w.do("newinstance", "POST", "/api/repo/"+at+"/instance", b)
	if err != nil {
		return err
	}
	if resp.Status == 200 {
		in := &wInst{name: name, typ: typ, tags: map[string]string{}}
		if cfg["Tags"] != "" {
			in.tags["type"], in.tags["owner"] = "meshes", "a"
		}
		r.insts = append(r.insts, in)
		r.ncreated++
		if w.X != nil && w.X.Synced {
			if err := w.extAfterCreate(r, in); err != nil {
				return err
			}
		}
	}
	return nil
}

func (w *world) newRepo() (string, error) {
	if w.X != nil && w.X.Admin {
		return w.extNewRepo()
	}
	resp, err := w.do("newrepo", "POST", "/api/repos", []byte(fmt.Sprintf(`{"alias":"r%d","description":"d"}`, len(w.repos))))
	if err != nil {
		return "", err
	}
	if resp.Status != 200 {
		return "", fmt.Errorf("newrepo: %d %s", resp.Status, resp.Bytes())
	}
	var out struct{ Root string }
	json.Unmarshal(resp.Bytes(), &out)
	w.repos = append(w.repos, &wRepo{root: out.Root, nodes: []*wNode{{uuid: out.Root, anc: map[string]bool{out.Root: true}}}})
	return "newrepo", nil
}

func (w *world) dataWrite(r *wRepo, nd *wNode, in *wInst) (string, error) {
	base := "/api/node/" + nd.uuid + "/" + in.name
	switch in.typ {
	case "keyvalue":
		k := fmt.Sprintf("k%d", w.rng.Intn(5))
		if w.rng.Intn(4) == 0 {
			_, err := w.do("kvdelete", "DELETE", base+"/key/"+k, nil)
			return "kvdelete", err
		}
		_, err := w.do("kvput", "POST", base+"/key/"+k, []byte(fmt.Sprintf("\"value %d\"", w.seq)))
		return "kvput", err
	case "roi":
		var spans [][4]int
		for i := 0; i < 1+w.rng.Intn(3); i++ {
			x0 := w.rng.Intn(6) - 3
			spans = append(spans, [4]int{w.rng.Intn(4) - 2, w.rng.Intn(4) - 2, x0, x0 + w.rng.Intn(3)})
		}
		b, _ := json.Marshal(spans)
		_, err := w.do("roipost", "POST", base+"/roi", b)
		return "roipost", err
	case "annotation":
		if w.X != nil && w.X.Synced {
			return w.extAnnWrite(r, nd, in)
		}
		kinds := []string{"PostSyn", "PreSyn", "Note"}
		var els []map[string]interface{}
		for i := 0; i < 1+w.rng.Intn(2); i++ {
			els = append(els, map[string]interface{}{
				"Pos":  []int{w.rng.Intn(100) - 50, w.rng.Intn(100) - 50, w.rng.Intn(100) - 50},
				"Kind": kinds[w.rng.Intn(3)], "Tags": []string{fmt.Sprintf("t%d", w.rng.Intn(3))},
				"Prop": map[string]string{"p": fmt.Sprint(w.seq)}})
		}
		b, _ := json.Marshal(els)
		_, err := w.do("annpost", "POST", base+"/elements", b)
		return "annpost", err
	case "neuronjson":
		id := 1000 + w.rng.Intn(4)
		if w.rng.Intn(5) == 0 {
			_, err := w.do("njdelete", "DELETE", fmt.Sprintf("%s/key/%d", base, id), nil)
			return "njdelete", err
		}
		fields := []string{"a", "b", "c"}
		m := map[string]interface{}{"bodyid": id}
		m[fields[w.rng.Intn(3)]] = w.rng.Intn(3)
		if w.rng.Intn(3) == 0 {
			m[fields[w.rng.Intn(3)]] = nil
		}
		b, _ := json.Marshal(m)
		_, err := w.do("njpost", "POST", fmt.Sprintf("%s/key/%d?u=user%d", base, id, w.rng.Intn(2)), b)
		return "njpost", err
	case "labelmap":
		g := worldGeom
		if in.ingestAt == "" {
			sv := []uint64{1, 1, 2, 2, 3, 0}
			for b := 1; b <= len(g.Blocks); b++ {
				vol := g.BlockVolume(b, func(r int) uint64 {
					if r == 0 {
						return 0
					}
					return sv[r-1]
				})
				bc := g.Blocks[b-1]
				if _, err := w.do("lmingest", "POST", fmt.Sprintf("%s/raw/0_1_2/32_32_32/%d_%d_%d", base, bc[0]*32, bc[1]*32, bc[2]*32), vol); err != nil {
					return "", err
				}
			}
			in.ingestAt = nd.uuid
			in.labels = []uint64{1, 2, 3}
			return "lmingest", nil
		}
		if !nd.anc[in.ingestAt] {
			return "", nil // the voxels are not visible on this branch
		}
		pick := func() uint64 { return in.labels[w.rng.Intn(len(in.labels))] }
		var resp node.Resp
		var err error
		kind := ""
		switch w.rng.Intn(3) {
		case 0:
			kind = "lmmerge"
			a, b := pick(), pick()
			if a == b {
				b = in.labels[(w.rng.Intn(len(in.labels)-1)+1+indexOf(in.labels, a))%len(in.labels)]
			}
			resp, err = w.do(kind, "POST", base+"/merge", []byte(fmt.Sprintf("[%d,%d]", a, b)))
		case 1:
			kind = "lmcleave"
			resp, err = w.do(kind, "POST", fmt.Sprintf("%s/cleave/%d", base, pick()), []byte(fmt.Sprintf("[%d]", pick())))
		default:
			kind = "lmsplitsv"
			// split region 3 (or 4) off supervoxel 2; refused when that supervoxel no longer exists here
			reg := map[int]bool{3 + w.rng.Intn(2): true}
			resp, err = w.do(kind, "POST", base+"/split-supervoxel/2", lmm.EncodeRLEs(g.RegionRLEs(reg)))
		}
		if err != nil {
			return "", err
		}
		var o struct{ CleavedLabel, SplitSupervoxel, RemainSupervoxel uint64 }
		json.Unmarshal(resp.Bytes(), &o)
		for _, l := range []uint64{o.CleavedLabel, o.SplitSupervoxel, o.RemainSupervoxel} {
			if l != 0 {
				in.labels = append(in.labels, l)
			}
		}
		return kind, nil
	case "uint8blk":
		buf := make([]byte, 32*32*32)
		v := byte(1 + w.rng.Intn(250))
		for i := range buf {
			buf[i] = v + byte(i%7)
		}
		off := fmt.Sprintf("%d_%d_0", 32*(w.rng.Intn(3)-1), 32*(w.rng.Intn(2)))
		_, err := w.do("imgpost", "POST", base+"/raw/0_1_2/32_32_32/"+off, buf)
		return "imgpost", err
	}
	return "", nil
}

func (w *world) describe(op wOp) string {
	return strings.TrimSpace(fmt.Sprintf("#%d %s %s %s -> %d", op.Seq, op.Kind, op.Method, op.URL, op.Status))
}

func indexOf(a []uint64, x uint64) int {
	for i, v := range a {
		if v == x {
			return i
		}
	}
	return 0
}
