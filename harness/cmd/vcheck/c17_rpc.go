package main

import (
	"bytes"
	"encoding/json"
	"fmt"
	"image"
	"image/png"
	"math/rand"
	"strings"
	"sync/atomic"
	"time"

	"verifharness/internal/ev"
	"verifharness/internal/node"
	"verifharness/internal/tlc"
)

// C17 over the RPC command path: "node <uuid> <instance> load <x,y,z> <files...>" stores a
// stack of XY images plane by plane - the one write path of imageblk that is not block
// aligned, so planes land inside blocks that hold other voxels.  specs/ImageSlices.tla is
// voxel exact on a small volume; seeded request sequences (aligned POST raw writes for the
// old content, loads of unaligned stacks spanning up to three block layers, new versions)
// are generated here, TLC evaluates the expected volume of every version and checks the
// model-level claims, and the sequences are replayed on a uint8blk instance with the same
// block size: every voxel of every version is compared.

type islOp struct {
	K  string `json:"k"`
	V  int    `json:"v"`
	Lo [3]int `json:"lo"`
	Sz [3]int `json:"sz"`
}

func (o islOp) tla() string {
	if o.K == "newver" {
		return fmt.Sprintf(`[k |-> "newver", v |-> %d]`, o.V)
	}
	return fmt.Sprintf(`[k |-> %q, v |-> %d, lo |-> <<%d,%d,%d>>, sz |-> <<%d,%d,%d>>]`, o.K, o.V, o.Lo[0], o.Lo[1], o.Lo[2], o.Sz[0], o.Sz[1], o.Sz[2])
}

type islExpect struct {
	Case int     `json:"case"`
	NVer int     `json:"nver"`
	Par  []int   `json:"par"`
	Vols [][]int `json:"vols"`
}

var (
	islB = [3]int{4, 4, 4}
	islN = [3]int{2, 2, 3}
)

func islDim(a int) int { return islB[a] * islN[a] }

// islGenCases generates request sequences: an optional aligned raw write, then loads of
// stacks with seeded offsets and sizes (aligned ones, single planes, stacks that stay inside
// one block layer, stacks that cross two and three layers), with new versions in between.
func islGenCases(rng *rand.Rand, n int) [][]islOp {
	var out [][]islOp
	for len(out) < n {
		var ops []islOp
		nver, head := 1, 1
		if rng.Intn(4) > 0 {
			// old content: the whole volume or an aligned part of it
			op := islOp{K: "raw", V: 1}
			for a := 0; a < 3; a++ {
				if rng.Intn(3) == 0 {
					nb := 1 + rng.Intn(islN[a])
					lb := rng.Intn(islN[a] - nb + 1)
					op.Lo[a], op.Sz[a] = lb*islB[a], nb*islB[a]
				} else {
					op.Sz[a] = islDim(a)
				}
			}
			ops = append(ops, op)
		}
		nl := 1 + rng.Intn(3)
		for l := 0; l < nl; l++ {
			if l > 0 && rng.Intn(2) == 0 && nver < 3 {
				ops = append(ops, islOp{K: "newver", V: head})
				nver++
				head = nver
			}
			op := islOp{K: "load", V: head}
			for a := 0; a < 3; a++ {
				d := islDim(a)
				switch rng.Intn(5) {
				case 0: // aligned
					nb := 1 + rng.Intn(islN[a])
					lb := rng.Intn(islN[a] - nb + 1)
					op.Lo[a], op.Sz[a] = lb*islB[a], nb*islB[a]
				case 1: // thin
					op.Sz[a] = 1
					op.Lo[a] = rng.Intn(d)
				case 2: // whole axis
					op.Sz[a] = d
				default:
					op.Sz[a] = 1 + rng.Intn(d)
					op.Lo[a] = rng.Intn(d - op.Sz[a] + 1)
				}
			}
			ops = append(ops, op)
		}
		out = append(out, ops)
	}
	return out
}

func islEval(c *Ctx, cases [][]islOp) ([]islExpect, *tlc.Result) {
	var sb strings.Builder
	sb.WriteString("---- MODULE ImageSlices_gen ----\nEXTENDS ImageSlices\n")
	fmt.Fprintf(&sb, "GenB == <<%d,%d,%d>>\nGenN == <<%d,%d,%d>>\nGenCases == <<\n", islB[0], islB[1], islB[2], islN[0], islN[1], islN[2])
	for i, ops := range cases {
		var ss []string
		for _, o := range ops {
			ss = append(ss, o.tla())
		}
		sb.WriteString("  << " + strings.Join(ss, ", ") + " >>")
		if i < len(cases)-1 {
			sb.WriteString(",")
		}
		sb.WriteString("\n")
	}
	sb.WriteString(">>\n====\n")
	cfg := "SPECIFICATION Spec\nCONSTANTS\n B <- GenB\n N <- GenN\n Cases <- GenCases\nINVARIANT Emit\nCHECK_DEADLOCK FALSE\n"
	r := c.MustModelCheck(tlc.Opts{Module: "ImageSlices_gen", Config: "gen_isl.cfg", Workers: 1,
		Files: map[string][]byte{"ImageSlices_gen.tla": []byte(sb.String()), "gen_isl.cfg": []byte(cfg)}, Timeout: 10 * time.Minute})
	exp := make([]islExpect, len(cases))
	got := 0
	PrintedJSON(r.Output, func(raw []byte) {
		var e islExpect
		if json.Unmarshal(raw, &e) == nil && e.Case >= 1 && e.Case <= len(cases) && len(e.Vols) > 0 {
			if exp[e.Case-1].Case == 0 {
				got++
			}
			exp[e.Case-1] = e
		}
	})
	if got != len(cases) {
		infra("ImageSlices.tla evaluated %d of %d sequences: %s", got, len(cases), r.Tail(1500))
	}
	return exp, r
}

type c17SliceDivergence struct {
	Kind     string   `json:"kind"`
	Ops      []islOp  `json:"requests"`
	Block    [3]int   `json:"block_size"`
	Origin   [3]int   `json:"origin_voxel"`
	Version  int      `json:"version"`
	Voxel    [3]int   `json:"first_differing_voxel_model_coordinates"`
	Expected string   `json:"expected"`
	Observed string   `json:"observed"`
	NDiffer  int      `json:"voxels_differing"`
	PerPlane []int    `json:"voxels_differing_per_z_plane,omitempty"`
	Like     []string `json:"what_the_differing_voxels_hold,omitempty"`
	Script   []string `json:"script"`
}

// islVoxel is the refinement of write id w at model voxel (x,y,z): never the background 0.
func islVoxel(seed uint64, w, x, y, z int) byte {
	h := ivMix(seed + uint64(w)*0x100000001B3)
	h = ivMix(h ^ uint64(x) ^ uint64(y)<<8 ^ uint64(z)<<16)
	b := byte(h)
	if b == 0 {
		b = 0x5A
	}
	return b
}

// imgSliceReplay generates, evaluates and replays the sequences; it returns the number of
// sequences replayed and of voxels compared.
func imgSliceReplay(c *Ctx, run *ev.Run) (int64, int64, *tlc.Result) {
	rng := rand.New(rand.NewSource(c.Seed*6151 + 17))
	cases := islGenCases(rng, c.pick(60, 600))
	exp, r := islEval(c, cases)
	workers := 8
	nodes := make([]*node.Node, workers)
	defer func() {
		for _, n := range nodes {
			if n != nil {
				c.DropNode(n)
			}
		}
	}()
	var ndone, nvox int64
	parallel(len(cases), workers, func(wi, ci int) {
		if nodes[wi] == nil {
			nodes[wi] = c.StartNode(node.Config{})
		}
		n := nodes[wi]
		ops := cases[ci]
		crng := rand.New(rand.NewSource(c.Seed*7 + int64(ci)))
		seed := crng.Uint64()
		// the model volume sits at a seeded block origin (negative coordinates are ordinary)
		var org [3]int
		for a := 0; a < 3; a++ {
			org[a] = []int{0, 0, -islB[a], -islDim(a), 3 * islB[a], -2 * islDim(a)}[crng.Intn(6)]
		}
		var script []string
		do := func(method, url string, body []byte) node.Resp {
			r, err := n.HTTP(method, url, body)
			must(err, method+" "+url)
			script = append(script, fmt.Sprintf("%s %s (%d bytes) -> %d", method, url, len(body), r.Status))
			return r
		}
		okDo := func(method, url string, body []byte) node.Resp {
			r := do(method, url, body)
			if r.Status != 200 {
				infra("setup request %s %s answered %d %s", method, url, r.Status, r.Bytes())
			}
			return r
		}
		r0 := okDo("POST", "/api/repos", []byte(`{"alias":"c17slices","description":"c17"}`))
		var rr struct{ Root string }
		json.Unmarshal(r0.Bytes(), &rr)
		cfg, _ := json.Marshal(map[string]string{"typename": "uint8blk", "dataname": "img", "BlockSize": fmt.Sprintf("%d,%d,%d", islB[0], islB[1], islB[2])})
		okDo("POST", "/api/repo/"+rr.Root+"/instance", cfg)
		uuids := []string{rr.Root}
		nw := 0
		for _, op := range ops {
			u := uuids[op.V-1]
			switch op.K {
			case "newver":
				okDo("POST", "/api/node/"+u+"/commit", []byte(`{}`))
				r := okDo("POST", "/api/node/"+u+"/newversion", []byte(`{}`))
				var o struct{ Child string }
				json.Unmarshal(r.Bytes(), &o)
				uuids = append(uuids, o.Child)
			case "raw":
				nw++
				buf := make([]byte, op.Sz[0]*op.Sz[1]*op.Sz[2])
				i := 0
				for z := 0; z < op.Sz[2]; z++ {
					for y := 0; y < op.Sz[1]; y++ {
						for x := 0; x < op.Sz[0]; x++ {
							buf[i] = islVoxel(seed, nw, op.Lo[0]+x, op.Lo[1]+y, op.Lo[2]+z)
							i++
						}
					}
				}
				okDo("POST", fmt.Sprintf("/api/node/%s/img/raw/0_1_2/%d_%d_%d/%d_%d_%d", u, op.Sz[0], op.Sz[1], op.Sz[2], org[0]+op.Lo[0], org[1]+op.Lo[1], org[2]+op.Lo[2]), buf)
			case "load":
				nw++
				files := map[string][]byte{}
				words := []string{"node", u, "img", "load", fmt.Sprintf("%d,%d,%d", org[0]+op.Lo[0], org[1]+op.Lo[1], org[2]+op.Lo[2])}
				for k := 0; k < op.Sz[2]; k++ {
					m := image.NewGray(image.Rect(0, 0, op.Sz[0], op.Sz[1]))
					for y := 0; y < op.Sz[1]; y++ {
						for x := 0; x < op.Sz[0]; x++ {
							m.Pix[y*m.Stride+x] = islVoxel(seed, nw, op.Lo[0]+x, op.Lo[1]+y, op.Lo[2]+k)
						}
					}
					var pb bytes.Buffer
					must(png.Encode(&pb, m), "png")
					name := fmt.Sprintf("c%dw%dz%03d.png", ci, nw, k)
					files[name] = pb.Bytes()
					words = append(words, "{file:"+name+"}")
				}
				res, err := rpcCall(n, words, nil, files)
				must(err, "load command")
				script = append(script, fmt.Sprintf("RPC %s -> %s%s", strings.Join(words[:6], " ")+fmt.Sprintf(" ... (%d files of %dx%d)", op.Sz[2], op.Sz[0], op.Sz[1]), res.Err, strings.TrimSpace(res.reply())))
				if res.Err != "" {
					run.Violation("c17slices", c17SliceDivergence{Kind: "load-refused", Ops: ops, Block: islB, Origin: org, Version: op.V, Expected: "accepted (open version, 3d offset, readable files)", Observed: res.Err, Script: script})
					return
				}
				// the command answers before the planes are stored
				var st struct {
					Settled bool `json:"settled"`
				}
				must(n.Call("c20.settle", map[string]int{"wait_ms": 10000}, &st), "settle")
				must(n.Idle(), "idle")
				if !st.Settled {
					run.Violation("c17slices", c17SliceDivergence{Kind: "load-never-finished", Ops: ops, Block: islB, Origin: org, Version: op.V, Expected: "the background load ends", Observed: "its goroutines were still there after 10 s", Script: script})
					return
				}
			}
		}
		e := exp[ci]
		if e.NVer != len(uuids) {
			infra("sequence %d: the specification has %d versions, the replay %d", ci, e.NVer, len(uuids))
		}
		for v := 1; v <= e.NVer; v++ {
			r := do("GET", fmt.Sprintf("/api/node/%s/img/raw/0_1_2/%d_%d_%d/%d_%d_%d", uuids[v-1], islDim(0), islDim(1), islDim(2), org[0], org[1], org[2]), nil)
			got := r.Bytes()
			want := e.Vols[v-1]
			if r.Status != 200 || len(got) != len(want) {
				run.Violation("c17slices", c17SliceDivergence{Kind: "read-failed", Ops: ops, Block: islB, Origin: org, Version: v, Expected: fmt.Sprintf("%d voxels", len(want)), Observed: fmt.Sprintf("%d, %d bytes", r.Status, len(got)), Script: script})
				return
			}
			nd := 0
			perPlane := make([]int, islDim(2))
			like := map[string]int{}
			var first [3]int
			var fe, fo string
			for i, w := range want {
				x, y, z := i%islDim(0), (i/islDim(0))%islDim(1), i/(islDim(0)*islDim(1))
				var b byte
				if w != 0 {
					b = islVoxel(seed, w, x, y, z)
				}
				if got[i] != b {
					if nd == 0 {
						first = [3]int{x, y, z}
						fe = fmt.Sprintf("write %d = 0x%02x", w, b)
						fo = fmt.Sprintf("0x%02x", got[i])
					}
					nd++
					perPlane[z]++
					// whose value is it?
					who := "other"
					if got[i] == 0 {
						who = "background"
					} else {
						for w2 := 1; w2 <= nw; w2++ {
							if got[i] == islVoxel(seed, w2, x, y, z) {
								who = fmt.Sprintf("write %d at the same voxel", w2)
							}
						}
					}
					like[fmt.Sprintf("expected write %d, holds %s", w, who)]++
				}
			}
			atomic.AddInt64(&nvox, int64(len(want)))
			if nd > 0 {
				run.Violation("c17slices", c17SliceDivergence{Kind: "voxels-differ", Ops: ops, Block: islB, Origin: org, Version: v, Voxel: first, Expected: fe, Observed: fo, NDiffer: nd, PerPlane: perPlane, Like: islLikeList(like), Script: script})
				return
			}
		}
		run.Eval("slices|" + jsonStr(ops))
		if atomic.AddInt64(&ndone, 1)%50 == 1 {
			run.Sample(map[string]interface{}{"slice_sequence": ops, "origin_voxel": org, "versions": e.NVer, "script": script})
		}
	})
	return ndone, nvox, r
}

// `./check C17rpc` runs the slice replay alone (development and binding self-test aid; the
// registered check calls imgSliceReplay from checkC17).
func init() {
	checks["C17rpc"] = func(c *Ctx) int {
		run := ev.NewRun("C17rpc", c.Tier, "exploration")
		n, vox, _ := imgSliceReplay(c, run)
		run.Set("evaluations", n)
		run.Set("voxels_compared", vox)
		run.Set("rule", "seeded request sequences evaluated by TLC (ImageSlices.tla), replayed through POST raw and the load command, every voxel compared")
		fmt.Printf("C17rpc: %d slice sequences, %d voxels compared; violations=%d\n", n, vox, run.Violations())
		return run.Finish()
	}
}

func islLikeList(m map[string]int) []string {
	var out []string
	for k, n := range m {
		out = append(out, fmt.Sprintf("%s: %d voxels", k, n))
	}
	return out
}
