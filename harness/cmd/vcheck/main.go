// vcheck is the checker: it runs TLC on the specifications, replays specification
// behaviours into the real server, validates recorded traces, and writes evidence.
package main

import (
	"encoding/json"
	"flag"
	"fmt"
	"os"
	"path/filepath"
	"sort"

	"verifharness/internal/ev"
	"verifharness/internal/tlc"
)

// writeCoverage records the TLC per-action counts of this run (VERIF_COVERAGE=1) in coverage/<check>.json;
// `./check selftest` reads them back to report actions no configuration ever takes.
func writeCoverage(name string) {
	tot, runs := tlc.CoverageTotals()
	if len(tot) == 0 {
		return
	}
	type act struct{ Distinct, Generated int64 }
	out := struct {
		Check   string         `json:"check"`
		Runs    map[string]int `json:"tlc_runs"`
		Actions map[string]act `json:"actions"`
	}{name, runs, map[string]act{}}
	for k, v := range tot {
		out.Actions[k] = act{v[0], v[1]}
	}
	b, _ := json.MarshalIndent(out, "", " ")
	dir := filepath.Join(ev.VerifDir, "coverage")
	os.MkdirAll(dir, 0755)
	os.WriteFile(filepath.Join(dir, name+".json"), append(b, '\n'), 0644)
}

type checkFn func(c *Ctx) int

var checks = map[string]checkFn{}

func main() {
	tier := flag.String("tier", "quick", "quick|thorough")
	replay := flag.String("replay", "", "replay file to re-execute")
	flag.Parse()
	if flag.NArg() < 1 {
		var ks []string
		for k := range checks {
			ks = append(ks, k)
		}
		sort.Strings(ks)
		fmt.Fprintf(os.Stderr, "usage: vcheck [--tier quick|thorough] <check>; checks: %v\n", ks)
		os.Exit(2)
	}
	if t := os.Getenv("VERIF_TIER"); t != "" && *tier == "quick" {
		*tier = t
	}
	name := flag.Arg(0)
	f, ok := checks[name]
	if !ok {
		fmt.Fprintf(os.Stderr, "unknown check %q\n", name)
		os.Exit(2)
	}
	c, err := newCtx(name, *tier, *replay)
	if err != nil {
		fmt.Fprintf(os.Stderr, "setup failed: %v\n", err)
		os.Exit(2)
	}
	code := 2
	func() {
		defer c.cleanup()
		defer func() {
			if e := recover(); e != nil {
				if ie, ok := e.(infraErr); ok {
					fmt.Fprintf(os.Stderr, "INFRASTRUCTURE ERROR (exit 2, not a verdict): %v\n", ie.err)
					code = 2
					return
				}
				panic(e)
			}
		}()
		code = f(c)
		writeCoverage(name)
	}()
	os.Exit(code)
}
