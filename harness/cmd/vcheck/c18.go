package main

import (
	"bytes"
	"encoding/json"
	"fmt"
	"math/rand"
	"sort"
	"strconv"
	"strings"
	"sync"
	"sync/atomic"
	"time"

	"verifharness/internal/ev"
	"verifharness/internal/node"
	"verifharness/internal/tlc"
)

func init() { checks["C18"] = checkC18 }

const geoNone = 1000000 // "open" bound in specs/Geometry.tla

// geoCfg is one constant assignment of specs/Geometry.tla.
type geoCfg struct {
	Name       string   `json:"name"`
	XMin       int      `json:"xmin"`
	XMax       int      `json:"xmax"`
	Rows       [][2]int `json:"rows"` // (y, z), ascending in (z, y)
	BlockSizes [][3]int `json:"block_sizes"`
	Bounds     [][6]int `json:"bounds"`
	NMasks     int      `json:"nmasks"`
	RoiBlock   [3]int   `json:"roi_block"`
	Query      [6]int   `json:"query"`
	EmitRoi    bool     `json:"roi"`
}

func (g *geoCfg) W() int { return g.XMax - g.XMin + 1 }

type geoRun [4]int // x, y, z, n

// geoState is what Geometry.tla prints for one state.
type geoState struct {
	Runs  []geoRun `json:"runs"`
	VM    uint32   `json:"vm"`
	Canon []geoRun `json:"canon"`
	Part  [][]struct {
		B [3]int `json:"b"`
		M uint32 `json:"m"`
	} `json:"part"`
	Split []struct {
		S []geoRun `json:"s"`
		M uint32   `json:"m"`
	} `json:"split"`
	Fit    []uint32 `json:"fit"`
	Add    []uint32 `json:"add"`
	AddN   []int    `json:"addn"` // the count RLEs.Add must return (growth, c18_sets.go)
	SplitX []struct {
		Sub bool   `json:"sub"`
		M   uint32 `json:"m"`
	} `json:"splitx"`
	Spans   [][4]int `json:"spans"`
	OSpans  [][4]int `json:"ospans"` // the same region with overlapping spans
	Blocks  [][3]int `json:"blocks"` // blocks of the region
	ZR      []int    `json:"zr"`     // Z extent of the region in blocks (empty: no block)
	Members [][3]int `json:"members"`
}

func tlaTuple(a []int) string {
	s := make([]string, len(a))
	for i, x := range a {
		if x == geoNone {
			s[i] = "None"
		} else {
			s[i] = strconv.Itoa(x)
		}
	}
	return "<<" + strings.Join(s, ", ") + ">>"
}

func (g *geoCfg) module() (mod, cfg string) {
	var sb strings.Builder
	sb.WriteString("---- MODULE GeometryMC ----\nEXTENDS Geometry\n")
	fmt.Fprintf(&sb, "XMinDef == %d\nXMaxDef == %d\n", g.XMin, g.XMax)
	seq := func(name string, rows [][]int) {
		parts := make([]string, len(rows))
		for i, r := range rows {
			parts[i] = tlaTuple(r)
		}
		fmt.Fprintf(&sb, "%s == << %s >>\n", name, strings.Join(parts, ", "))
	}
	var rows, bss, bds [][]int
	for _, r := range g.Rows {
		rows = append(rows, r[:])
	}
	for _, r := range g.BlockSizes {
		bss = append(bss, r[:])
	}
	for _, r := range g.Bounds {
		bds = append(bds, r[:])
	}
	seq("RowsDef", rows)
	seq("BlockSizesDef", bss)
	seq("BoundsDef", bds)
	fmt.Fprintf(&sb, "RoiBlockDef == %s\nQueryDef == %s\n====\n", tlaTuple(g.RoiBlock[:]), tlaTuple(g.Query[:]))
	roi := "FALSE"
	if g.EmitRoi {
		roi = "TRUE"
	}
	cfg = fmt.Sprintf("SPECIFICATION Spec\nCONSTANTS\n XMin <- XMinDef\n XMax <- XMaxDef\n Rows <- RowsDef\n BlockSizes <- BlockSizesDef\n Bounds <- BoundsDef\n NMasks = %d\n RoiBlock <- RoiBlockDef\n Query <- QueryDef\n EmitRoi = %s\nINVARIANTS TypeOK Inv_C18_Normalize Inv_C18_Partition Inv_C18_Split Inv_C18_Fit Inv_C18_Add Inv_C18_Roi Inv_C18_RoiOverlap Inv_C18_PartitionDesign Emit EmitOperands\nCHECK_DEADLOCK FALSE\n", g.NMasks, roi)
	return sb.String(), cfg
}

// voxels of a mask (trivial refinement: bit i = cell (XMin + i mod W, row i div W))
func (g *geoCfg) maskVoxels(m uint32) map[[3]int]int {
	out := map[[3]int]int{}
	for i := 0; i < g.W()*len(g.Rows); i++ {
		if m&(1<<uint(i)) != 0 {
			r := g.Rows[i/g.W()]
			out[[3]int{g.XMin + i%g.W(), r[0], r[1]}] = 1
		}
	}
	return out
}

func runVoxels(rs []geoRun) (map[[3]int]int, bool) {
	out := map[[3]int]int{}
	ok := true
	for _, r := range rs {
		if r[3] <= 0 {
			ok = false
		}
		for k := 0; k < r[3]; k++ {
			out[[3]int{r[0] + k, r[1], r[2]}]++
		}
	}
	return out, ok
}

// sameSet: same voxels; if noDup, additionally no voxel covered twice.
func sameSet(got, want map[[3]int]int, noDup bool) bool {
	if len(got) != len(want) {
		return false
	}
	for v, n := range got {
		if want[v] == 0 || (noDup && n != 1) {
			return false
		}
	}
	return true
}

func runsEqual(a, b []geoRun) bool {
	if len(a) != len(b) {
		return false
	}
	for i := range a {
		if a[i] != b[i] {
			return false
		}
	}
	return true
}

type c18Divergence struct {
	Part     string      `json:"part"`
	Config   *geoCfg     `json:"config,omitempty"`
	Op       string      `json:"op"`
	Input    interface{} `json:"input,omitempty"`
	Operand  interface{} `json:"operand,omitempty"`
	Expected interface{} `json:"expected"`
	Observed interface{} `json:"observed"`
}

func sortedVoxels(m map[[3]int]int) [][3]int {
	out := make([][3]int, 0, len(m))
	for v := range m {
		out = append(out, v)
	}
	sort.Slice(out, func(i, j int) bool {
		a, b := out[i], out[j]
		if a[2] != b[2] {
			return a[2] < b[2]
		}
		if a[1] != b[1] {
			return a[1] < b[1]
		}
		return a[0] < b[0]
	})
	return out
}

func shuffledRuns(rng *rand.Rand, rs []geoRun, breakOne bool) []geoRun {
	out := append([]geoRun(nil), rs...)
	if breakOne {
		// split one multi-voxel run into two adjacent runs (same voxel set)
		for i, r := range out {
			if r[3] >= 2 {
				k := 1 + rng.Intn(r[3]-1)
				out[i] = geoRun{r[0], r[1], r[2], k}
				out = append(out, geoRun{r[0] + k, r[1], r[2], r[3] - k})
				break
			}
		}
	}
	rng.Shuffle(len(out), func(i, j int) { out[i], out[j] = out[j], out[i] })
	return out
}

// ---------------------------------------------------------------------------
// run-length algebra
// ---------------------------------------------------------------------------

type geoNodeCase struct {
	Runs       []geoRun   `json:"runs"`
	BlockSizes [][3]int   `json:"block_sizes"`
	Splits     [][]geoRun `json:"splits"`
	Bounds     [][6]*int  `json:"bounds"`
	Adds       [][]geoRun `json:"adds"`
}

type geoNodeResult struct {
	Panic string   `json:"panic"`
	Norm  []geoRun `json:"norm"`
	Part  [][]struct {
		Block [3]int   `json:"block"`
		Runs  []geoRun `json:"runs"`
	} `json:"part"`
	PartErr   []string   `json:"part_err"`
	Split     [][]geoRun `json:"split"`
	SplitErr  []string   `json:"split_err"`
	Fit       [][]geoRun `json:"fit"`
	Add       [][]geoRun `json:"add"`
	Added     []int64    `json:"added"`
	Marshal   []geoRun   `json:"marshal"`
	MarshalEr string     `json:"marshal_err"`
	Read      []geoRun   `json:"read"`
	ReadErr   string     `json:"read_err"`
	Single    []geoRun   `json:"single"`
	NumVoxels uint64     `json:"num_voxels"`
	NumRuns   int32      `json:"num_runs"`
}

func popcount(m uint32) int {
	n := 0
	for ; m != 0; m &= m - 1 {
		n++
	}
	return n
}

// replayRuns pushes a batch of states through the real dvid.RLEs functions.
func replayRuns(run *ev.Run, n *node.Node, g *geoCfg, states []*geoState, operands [][]geoRun, rng *rand.Rand, nOps *int64) {
	cases := make([]geoNodeCase, len(states))
	var bounds [][6]*int
	for _, b := range g.Bounds {
		var nb [6]*int
		for i := range b {
			if b[i] != geoNone {
				v := b[i]
				nb[i] = &v
			}
		}
		bounds = append(bounds, nb)
	}
	for i, st := range states {
		c := geoNodeCase{Runs: shuffledRuns(rng, st.Runs, false), BlockSizes: g.BlockSizes, Bounds: bounds}
		if i%3 == 0 {
			c.Runs = append([]geoRun(nil), st.Runs...) // also the sorted presentation
		}
		for k, sp := range st.Split {
			c.Splits = append(c.Splits, shuffledRuns(rng, sp.S, (i+k)%2 == 0))
		}
		for k := range st.Add {
			c.Adds = append(c.Adds, shuffledRuns(rng, operands[k], (i+k)%2 == 1))
		}
		cases[i] = c
	}
	var res []geoNodeResult
	must(n.Call("geom.rles", map[string]interface{}{"cases": cases}, &res), "geom.rles")
	if len(res) != len(cases) {
		infra("geom.rles: %d results for %d cases", len(res), len(cases))
	}
	for i, st := range states {
		r, c := res[i], cases[i]
		report := func(op string, operand, want, got interface{}) {
			if run.Violations() >= 60 {
				return // enough replay files; the verdict is already a violation
			}
			run.Violation("c18", c18Divergence{Part: "runs", Config: g, Op: op, Input: c.Runs, Operand: operand, Expected: want, Observed: got})
		}
		nonTrivial := len(st.Runs) > 0
		key := func(op string) string {
			if !nonTrivial {
				return ""
			}
			return fmt.Sprintf("%s|%s|%v", g.Name, op, st.Runs)
		}
		if r.Panic != "" {
			report("panic", nil, "no panic", r.Panic)
			continue
		}
		want := g.maskVoxels(st.VM)
		// Normalize: exactly the canonical runs
		run.Eval(key("normalize"))
		atomic.AddInt64(nOps, 1)
		if !runsEqual(r.Norm, st.Canon) {
			report("Normalize", nil, st.Canon, r.Norm)
		}
		// Partition
		for j := range g.BlockSizes {
			run.Eval(key(fmt.Sprintf("partition%v", g.BlockSizes[j])))
			atomic.AddInt64(nOps, 1)
			ok := r.PartErr[j] == "" && len(r.Part[j]) == len(st.Part[j])
			if ok {
				exp := map[[3]int]uint32{}
				for _, pb := range st.Part[j] {
					exp[pb.B] = pb.M
				}
				for _, rb := range r.Part[j] {
					m, found := exp[rb.Block]
					got, wf := runVoxels(rb.Runs)
					if !found || !wf || !sameSet(got, g.maskVoxels(m), true) {
						ok = false
					}
				}
			}
			if !ok {
				report(fmt.Sprintf("Partition%v", g.BlockSizes[j]), nil, st.Part[j], map[string]interface{}{"blocks": r.Part[j], "err": r.PartErr[j]})
			}
		}
		// Split
		for k, sp := range st.Split {
			run.Eval(key(fmt.Sprintf("split%d", k+1)))
			atomic.AddInt64(nOps, 1)
			got, wf := runVoxels(r.Split[k])
			if r.SplitErr[k] != "" || !wf || !sameSet(got, g.maskVoxels(sp.M), true) {
				report("Split", c.Splits[k], sortedVoxels(g.maskVoxels(sp.M)), map[string]interface{}{"runs": r.Split[k], "err": r.SplitErr[k]})
			}
		}
		// FitToBounds
		for j, m := range st.Fit {
			run.Eval(key(fmt.Sprintf("fit%d", j+1)))
			atomic.AddInt64(nOps, 1)
			got, wf := runVoxels(r.Fit[j])
			if !wf || !sameSet(got, g.maskVoxels(m), true) {
				report("FitToBounds", g.Bounds[j], sortedVoxels(g.maskVoxels(m)), r.Fit[j])
			}
		}
		// Add: the union (runs of the result may overlap; only the voxel set is claimed)
		for k, m := range st.Add {
			run.Eval(key(fmt.Sprintf("add%d", k+1)))
			atomic.AddInt64(nOps, 1)
			got, wf := runVoxels(r.Add[k])
			if !wf || !sameSet(got, g.maskVoxels(m), false) {
				report("Add", c.Adds[k], sortedVoxels(g.maskVoxels(m)), r.Add[k])
			}
		}
		// binary forms: identical run sequences
		run.Eval(key("binary"))
		atomic.AddInt64(nOps, 1)
		if r.MarshalEr != "" || r.ReadErr != "" || !runsEqual(r.Marshal, c.Runs) || !runsEqual(r.Read, c.Runs) || !runsEqual(r.Single, c.Runs) {
			report("MarshalBinary/UnmarshalBinary/ReadRLEs", nil, c.Runs, map[string]interface{}{"unmarshal": r.Marshal, "read": r.Read, "single": r.Single, "err": r.MarshalEr + r.ReadErr})
		}
		if int(r.NumVoxels) != len(want) || int(r.NumRuns) != len(c.Runs) {
			report("Stats", nil, []int{len(want), len(c.Runs)}, []int{int(r.NumVoxels), int(r.NumRuns)})
		}
	}
}

// ---------------------------------------------------------------------------
// ROI
// ---------------------------------------------------------------------------

type roiSess struct {
	n    *node.Node
	uuid string
	inst map[string]bool
}

// roiSubvol is one subvolume of a GET partition answer.
type roiSubvol struct {
	MinPoint, MaxPoint [3]int
	MinChunk, MaxChunk [3]int
	TotalBlocks        int64
	ActiveBlocks       int64
}

// roiPartCase is one partition answer of the real code, to be judged by TLC
// (specs/GeometryPartition_cases.tla).
type roiPartCase struct {
	Config    string      `json:"config"`
	BS        [3]int      `json:"roi_block_size"`
	Spans     [][4]int    `json:"posted_spans_zyx0x1"`
	Blocks    [][3]int    `json:"region_blocks"`
	Batch     int         `json:"batchsize"`
	Optimized bool        `json:"optimized"`
	Overlap   bool        `json:"overlapping_spans"`
	URL       string      `json:"request"`
	Subvols   []roiSubvol `json:"subvolumes"`
	NActive   int64       `json:"NumActiveBlocks"`
	NTotal    int64       `json:"NumTotalBlocks"`
	NSub      int         `json:"NumSubvolumes"`
}

type roiPartSink struct {
	mu     sync.Mutex
	all    bool // both partition modes for every batch size (thorough), else alternating
	cases  []*roiPartCase
	failed int // partition requests that did not return a partition
}

func (k *roiPartSink) add(c *roiPartCase) {
	k.mu.Lock()
	k.cases = append(k.cases, c)
	k.mu.Unlock()
}

func newRoiSess(c *Ctx) *roiSess {
	n := c.StartNode(node.Config{})
	r, err := n.HTTP("POST", "/api/repos", []byte(`{"alias":"c18","description":"roi"}`))
	must(err, "POST repos")
	var root struct {
		Root string `json:"root"`
	}
	if r.Status != 200 || json.Unmarshal(r.Bytes(), &root) != nil || root.Root == "" {
		infra("POST repos: %d %s", r.Status, r.Bytes())
	}
	return &roiSess{n: n, uuid: root.Root, inst: map[string]bool{}}
}

func (s *roiSess) instance(g *geoCfg) string {
	name := "roi_" + g.Name
	if !s.inst[name] {
		body, _ := json.Marshal(map[string]string{"typename": "roi", "dataname": name,
			"BlockSize": fmt.Sprintf("%d,%d,%d", g.RoiBlock[0], g.RoiBlock[1], g.RoiBlock[2])})
		r, err := s.n.HTTP("POST", "/api/repo/"+s.uuid+"/instance", body)
		must(err, "new roi instance")
		if r.Status != 200 {
			infra("new roi instance: %d %s", r.Status, r.Bytes())
		}
		s.inst[name] = true
	}
	return name
}

// replayRoi stores the spans of one state in an roi instance and compares every query.
func replayRoi(run *ev.Run, s *roiSess, g *geoCfg, st *geoState, empty *geoState, idx int, sink *roiPartSink, rng *rand.Rand, nOps *int64) {
	name := s.instance(g)
	base := "/api/node/" + s.uuid + "/" + name
	report := func(op string, operand, want, got interface{}) {
		if run.Violations() >= 60 {
			return // enough replay files; the verdict is already a violation
		}
		run.Violation("c18", c18Divergence{Part: "roi", Config: g, Op: op, Input: st.Spans, Operand: operand, Expected: want, Observed: got})
	}
	key := func(op string) string {
		if len(st.Spans) == 0 {
			return ""
		}
		return fmt.Sprintf("%s|roi-%s|%v", g.Name, op, st.Spans)
	}
	spans := append([][4]int(nil), st.Spans...)
	rng.Shuffle(len(spans), func(i, j int) { spans[i], spans[j] = spans[j], spans[i] })
	if spans == nil {
		spans = [][4]int{}
	}
	body, _ := json.Marshal(spans)
	r, err := s.n.HTTP("POST", base+"/roi", body)
	must(err, "POST roi")
	if r.Status != 200 {
		report("POST roi", nil, 200, fmt.Sprintf("%d %s", r.Status, r.Bytes()))
		return
	}
	// GET roi: the stored spans in (z, y, x0) order
	r, err = s.n.HTTP("GET", base+"/roi", nil)
	must(err, "GET roi")
	run.Eval(key("get"))
	atomic.AddInt64(nOps, 1)
	var got [][4]int
	if r.Status != 200 || json.Unmarshal(r.Bytes(), &got) != nil || len(got) != len(st.Spans) {
		report("GET roi", nil, st.Spans, fmt.Sprintf("%d %s", r.Status, r.Bytes()))
	} else {
		for i := range got {
			if got[i] != st.Spans[i] {
				report("GET roi", nil, st.Spans, got)
				break
			}
		}
	}
	member := map[[3]int]bool{}
	for _, m := range st.Members {
		member[m] = true
	}
	// ptquery over the whole query box, in seeded order
	q := g.Query
	var pts [][3]int
	for z := q[4]; z <= q[5]; z++ {
		for y := q[2]; y <= q[3]; y++ {
			for x := q[0]; x <= q[1]; x++ {
				pts = append(pts, [3]int{x, y, z})
			}
		}
	}
	rng.Shuffle(len(pts), func(i, j int) { pts[i], pts[j] = pts[j], pts[i] })
	body, _ = json.Marshal(pts)
	r, err = s.n.HTTP("POST", base+"/ptquery", body)
	must(err, "POST ptquery")
	run.Eval(key("ptquery"))
	atomic.AddInt64(nOps, 1)
	var in []bool
	if r.Status != 200 || json.Unmarshal(r.Bytes(), &in) != nil || len(in) != len(pts) {
		report("POST ptquery", pts, "one answer per point", fmt.Sprintf("%d %s", r.Status, r.Bytes()))
	} else {
		var wrong [][3]int
		for i, p := range pts {
			if in[i] != member[p] {
				wrong = append(wrong, p)
			}
		}
		if len(wrong) > 0 {
			report("POST ptquery", nil, map[string]interface{}{"members": st.Members}, map[string]interface{}{"points_answered_wrongly": wrong})
		}
	}
	// masks: the whole query box and seeded sub-boxes; VoxelBoundsInside on the same boxes
	boxes := [][6]int{q}
	for k := 0; k < 3; k++ {
		var b [6]int
		for d := 0; d < 3; d++ {
			lo, hi := q[2*d], q[2*d+1]
			a := lo + rng.Intn(hi-lo+1)
			e := lo + rng.Intn(hi-lo+1)
			if a > e {
				a, e = e, a
			}
			b[2*d], b[2*d+1] = a, e
		}
		boxes = append(boxes, b)
	}
	for _, b := range boxes {
		sx, sy, sz := b[1]-b[0]+1, b[3]-b[2]+1, b[5]-b[4]+1
		url := fmt.Sprintf("%s/mask/0_1_2/%d_%d_%d/%d_%d_%d", base, sx, sy, sz, b[0], b[2], b[4])
		r, err = s.n.HTTP("GET", url, nil)
		must(err, "GET mask")
		run.Eval(key(fmt.Sprintf("mask%v", b)))
		atomic.AddInt64(nOps, 1)
		data := r.Bytes()
		if r.Status != 200 || len(data) != sx*sy*sz {
			report("GET mask", b, fmt.Sprintf("%d bytes", sx*sy*sz), fmt.Sprintf("%d, %d bytes: %.200s", r.Status, len(data), data))
			continue
		}
		var wrong [][3]int
		i := 0
		for z := b[4]; z <= b[5]; z++ {
			for y := b[2]; y <= b[3]; y++ {
				for x := b[0]; x <= b[1]; x++ {
					if (data[i] != 0) != member[[3]int{x, y, z}] {
						wrong = append(wrong, [3]int{x, y, z})
					}
					i++
				}
			}
		}
		if len(wrong) > 0 {
			report("GET mask", map[string]interface{}{"box_x0x1y0y1z0z1": b, "url": url}, map[string]interface{}{"members": st.Members}, map[string]interface{}{"voxels_answered_wrongly": wrong})
		}
	}
	var inside []int
	must(s.n.Call("geom.roiinside", map[string]interface{}{"spans": st.Spans, "block_size": g.RoiBlock, "boxes": boxes}, &inside), "geom.roiinside")
	for k, b := range boxes {
		want := 0
		for m := range member {
			if m[0] >= b[0] && m[0] <= b[1] && m[1] >= b[2] && m[1] <= b[3] && m[2] >= b[4] && m[2] <= b[5] {
				want = 1
				break
			}
		}
		run.Eval(key(fmt.Sprintf("inside%v", b)))
		atomic.AddInt64(nOps, 1)
		if inside[k] != want {
			report("roi.VoxelBoundsInside", b, want, inside[k])
		}
	}
	// --- the Z extent the instance advertises (info: MinZ, MaxZ) is that of the posted spans
	if len(st.ZR) == 2 {
		r, err = s.n.HTTP("GET", base+"/info", nil)
		must(err, "GET roi info")
		var info struct{ Extended struct{ MinZ, MaxZ int } }
		run.Eval(key("zrange"))
		atomic.AddInt64(nOps, 1)
		if r.Status != 200 || json.Unmarshal(r.Bytes(), &info) != nil || info.Extended.MinZ != st.ZR[0] || info.Extended.MaxZ != st.ZR[1] {
			report("GET info MinZ/MaxZ", nil, st.ZR, fmt.Sprintf("%d %.300s", r.Status, r.Bytes()))
		}
	}
	// --- partition: the answers are collected and judged by TLC (GeometryPartition_cases)
	partition := func(overlap bool, batch int, optimized bool) {
		url := fmt.Sprintf("%s/partition?batchsize=%d", base, batch)
		if optimized {
			url += "&optimized=true"
		}
		r, err := s.n.HTTP("GET", url, nil)
		must(err, "GET partition")
		atomic.AddInt64(nOps, 1)
		var ans struct {
			NumTotalBlocks, NumActiveBlocks int64
			NumSubvolumes                   int
			Subvolumes                      []roiSubvol
		}
		if r.Status != 200 || json.Unmarshal(r.Bytes(), &ans) != nil {
			op := "GET partition"
			if optimized {
				op += " optimized"
			}
			sink.mu.Lock()
			sink.failed++
			nf := sink.failed
			sink.mu.Unlock()
			if id := "roi-partition-request-fails"; run.KnownActive(id) {
				run.ReportKnown(id)
			} else if nf <= 6 { // a few replay files are enough, the verdict is a violation already
				report(op, map[string]interface{}{"url": url, "overlapping_spans": overlap}, "200 with a JSON partition", fmt.Sprintf("%d %.400s", r.Status, r.Bytes()))
			}
			return
		}
		pc := &roiPartCase{Config: g.Name, BS: g.RoiBlock, Spans: st.Spans, Blocks: st.Blocks, Batch: batch, Optimized: optimized, Overlap: overlap, URL: url,
			Subvols: ans.Subvolumes, NActive: ans.NumActiveBlocks, NTotal: ans.NumTotalBlocks, NSub: ans.NumSubvolumes}
		if overlap {
			pc.Spans = st.OSpans
		}
		sink.add(pc)
	}
	if len(st.Spans) > 0 {
		for batch := 1; batch <= 3; batch++ {
			run.Eval(key(fmt.Sprintf("partition%d", batch)))
			if sink.all || (idx+batch)%2 == 0 {
				partition(false, batch, false)
			}
			if sink.all || (idx+batch)%2 == 1 {
				partition(false, batch, true)
			}
		}
	}
	// --- the same region posted with overlapping spans answers every query the same way
	if len(st.OSpans) > len(st.Spans) {
		ospans := append([][4]int(nil), st.OSpans...)
		rng.Shuffle(len(ospans), func(i, j int) { ospans[i], ospans[j] = ospans[j], ospans[i] })
		body, _ = json.Marshal(ospans)
		r, err = s.n.HTTP("POST", base+"/roi", body)
		must(err, "POST roi")
		if r.Status != 200 {
			report("POST roi (overlapping spans)", ospans, 200, fmt.Sprintf("%d %s", r.Status, r.Bytes()))
			return
		}
		body, _ = json.Marshal(pts)
		r, err = s.n.HTTP("POST", base+"/ptquery", body)
		must(err, "POST ptquery")
		run.Eval(key("ptquery-overlap"))
		atomic.AddInt64(nOps, 1)
		var in []bool
		if r.Status != 200 || json.Unmarshal(r.Bytes(), &in) != nil || len(in) != len(pts) {
			report("POST ptquery (overlapping spans)", ospans, "one answer per point", fmt.Sprintf("%d %s", r.Status, r.Bytes()))
		} else {
			var wrong [][3]int
			for i, p := range pts {
				if in[i] != member[p] {
					wrong = append(wrong, p)
				}
			}
			if len(wrong) > 0 {
				report("POST ptquery (overlapping spans)", ospans, map[string]interface{}{"members": st.Members}, map[string]interface{}{"points_answered_wrongly": wrong})
			}
		}
		for _, b := range boxes[:2] {
			sx, sy, sz := b[1]-b[0]+1, b[3]-b[2]+1, b[5]-b[4]+1
			url := fmt.Sprintf("%s/mask/0_1_2/%d_%d_%d/%d_%d_%d", base, sx, sy, sz, b[0], b[2], b[4])
			r, err = s.n.HTTP("GET", url, nil)
			must(err, "GET mask")
			run.Eval(key(fmt.Sprintf("mask-overlap%v", b)))
			atomic.AddInt64(nOps, 1)
			data := r.Bytes()
			if r.Status != 200 || len(data) != sx*sy*sz {
				report("GET mask (overlapping spans)", b, fmt.Sprintf("%d bytes", sx*sy*sz), fmt.Sprintf("%d, %d bytes: %.200s", r.Status, len(data), data))
				continue
			}
			var wrong [][3]int
			i := 0
			for z := b[4]; z <= b[5]; z++ {
				for y := b[2]; y <= b[3]; y++ {
					for x := b[0]; x <= b[1]; x++ {
						if (data[i] != 0) != member[[3]int{x, y, z}] {
							wrong = append(wrong, [3]int{x, y, z})
						}
						i++
					}
				}
			}
			if len(wrong) > 0 {
				report("GET mask (overlapping spans)", map[string]interface{}{"box_x0x1y0y1z0z1": b, "url": url, "spans": ospans}, map[string]interface{}{"members": st.Members}, map[string]interface{}{"voxels_answered_wrongly": wrong})
			}
		}
		var oin []int
		must(s.n.Call("geom.roiinside", map[string]interface{}{"spans": st.OSpans, "block_size": g.RoiBlock, "boxes": boxes}, &oin), "geom.roiinside")
		for k := range boxes {
			atomic.AddInt64(nOps, 1)
			if oin[k] != inside[k] {
				report("roi.VoxelBoundsInside (overlapping spans)", boxes[k], inside[k], oin[k])
			}
		}
		run.Eval(key("partition-overlap"))
		partition(true, 1+idx%3, idx%2 == 0)
	}
	// --- DELETE roi: the region is empty afterwards (the expectations of the empty state)
	if idx%4 == 0 && empty != nil && len(st.Spans) > 0 {
		r, err = s.n.HTTP("DELETE", base+"/roi", nil)
		must(err, "DELETE roi")
		run.Eval(key("delete"))
		atomic.AddInt64(nOps, 1)
		if r.Status != 200 {
			report("DELETE roi", nil, 200, fmt.Sprintf("%d %s", r.Status, r.Bytes()))
			return
		}
		r, err = s.n.HTTP("GET", base+"/roi", nil)
		must(err, "GET roi")
		var got [][4]int
		if r.Status != 200 || json.Unmarshal(r.Bytes(), &got) != nil || len(got) != len(empty.Spans) {
			report("GET roi after DELETE roi", nil, empty.Spans, fmt.Sprintf("%d %.300s", r.Status, r.Bytes()))
		}
		body, _ = json.Marshal(pts)
		r, err = s.n.HTTP("POST", base+"/ptquery", body)
		must(err, "POST ptquery")
		atomic.AddInt64(nOps, 1)
		var in []bool
		emptyMember := map[[3]int]bool{}
		for _, m := range empty.Members {
			emptyMember[m] = true
		}
		if r.Status != 200 || json.Unmarshal(r.Bytes(), &in) != nil || len(in) != len(pts) {
			report("POST ptquery after DELETE roi", nil, "one answer per point", fmt.Sprintf("%d %s", r.Status, r.Bytes()))
		} else {
			for i, p := range pts {
				if in[i] != emptyMember[p] {
					report("POST ptquery after DELETE roi", nil, map[string]interface{}{"members": empty.Members}, map[string]interface{}{"point": p, "answer": in[i]})
					break
				}
			}
		}
		b := boxes[0]
		sx, sy, sz := b[1]-b[0]+1, b[3]-b[2]+1, b[5]-b[4]+1
		url := fmt.Sprintf("%s/mask/0_1_2/%d_%d_%d/%d_%d_%d", base, sx, sy, sz, b[0], b[2], b[4])
		r, err = s.n.HTTP("GET", url, nil)
		must(err, "GET mask")
		atomic.AddInt64(nOps, 1)
		if r.Status != 200 || len(r.Bytes()) != sx*sy*sz || bytes.IndexFunc(r.Bytes(), func(c rune) bool { return c != 0 }) >= 0 && len(empty.Members) == 0 {
			report("GET mask after DELETE roi", url, "all zero", fmt.Sprintf("%d, %d bytes", r.Status, len(r.Bytes())))
		}
	}
}

// judgePartitions lets TLC evaluate the partition claims of specs/GeometryPartition.tla on the
// answers of the real code and reports every answer that breaks one.
func judgePartitions(c *Ctx, run *ev.Run, cfgByName map[string]*geoCfg, cases []*roiPartCase) (states, trans int64, bad map[string]int) {
	bad = map[string]int{}
	if len(cases) == 0 {
		return
	}
	sort.Slice(cases, func(i, j int) bool {
		a, b := cases[i], cases[j]
		ka := fmt.Sprint(a.Config, a.Spans, a.Batch, a.Optimized, a.Overlap)
		kb := fmt.Sprint(b.Config, b.Spans, b.Batch, b.Optimized, b.Overlap)
		return ka < kb
	})
	t3 := func(a [3]int) string { return fmt.Sprintf("<<%d, %d, %d>>", a[0], a[1], a[2]) }
	const chunk = 2500
	nchunks := (len(cases) + chunk - 1) / chunk
	verdicts := make([][]map[string]bool, nchunks)
	var smu sync.Mutex
	// TLC judges the chunks, three at a time
	parallel(nchunks, 3, func(_, ci int) {
		lo := ci * chunk
		hi := lo + chunk
		if hi > len(cases) {
			hi = len(cases)
		}
		var sb strings.Builder
		sb.WriteString("---- MODULE GeometryPartCases ----\nEXTENDS Integers\nCases == <<\n")
		for i, pc := range cases[lo:hi] {
			if i > 0 {
				sb.WriteString(",\n")
			}
			var bl, sv []string
			for _, b := range pc.Blocks {
				bl = append(bl, t3(b))
			}
			for _, v := range pc.Subvols {
				sv = append(sv, fmt.Sprintf("[lo |-> %s, hi |-> %s, active |-> %d, total |-> %d, vlo |-> %s, vhi |-> %s]", t3(v.MinChunk), t3(v.MaxChunk), v.ActiveBlocks, v.TotalBlocks, t3(v.MinPoint), t3(v.MaxPoint)))
			}
			fmt.Fprintf(&sb, "[blocks |-> {%s}, bs |-> %s, subvols |-> << %s >>, nactive |-> %d, ntotal |-> %d]", strings.Join(bl, ", "), t3(pc.BS), strings.Join(sv, ", "), pc.NActive, pc.NTotal)
		}
		sb.WriteString("\n>>\n====\n")
		cfg := "SPECIFICATION Spec\nINVARIANTS EmitVerdicts\nCHECK_DEADLOCK FALSE\n"
		r := c.MustModelCheck(tlc.Opts{Module: "GeometryPartition_cases", Config: "part.cfg", Workers: 1, Xss: "256m", HeapGB: 3, Timeout: 15 * time.Minute,
			Files: map[string][]byte{"GeometryPartCases.tla": []byte(sb.String()), "part.cfg": []byte(cfg)}})
		var out struct {
			Verdicts []map[string]bool `json:"verdicts"`
		}
		got := false
		PrintedJSON(r.Output, func(raw []byte) {
			if json.Unmarshal(raw, &out) == nil && len(out.Verdicts) == hi-lo {
				got = true
			}
		})
		if !got {
			infra("GeometryPartition_cases printed nothing usable: %s", r.Tail(1500))
		}
		smu.Lock()
		states += r.Distinct
		trans += r.Generated
		verdicts[ci] = out.Verdicts
		smu.Unlock()
	})
	for ci := range verdicts {
		lo := ci * chunk
		for i, v := range verdicts[ci] {
			pc := cases[lo+i]
			var failed []string
			for claim, ok := range v {
				if !ok {
					failed = append(failed, claim)
				}
			}
			if pc.NSub != len(pc.Subvols) {
				failed = append(failed, "NumSubvolumes")
			}
			if len(failed) == 0 {
				continue
			}
			sort.Strings(failed)
			kind := "default"
			if pc.Optimized {
				kind = "optimized"
			}
			if pc.Overlap {
				kind += "+overlapping-spans"
			}
			bad[kind+": "+strings.Join(failed, ",")]++
			id := "roi-partition-skips-empty-layers"
			if pc.Overlap {
				id = "roi-partition-overlapping-spans"
			} else if pc.Optimized {
				id = "roi-partition-request-fails"
			}
			if run.KnownActive(id) {
				run.ReportKnown(id)
				continue
			}
			if bad[kind+": "+strings.Join(failed, ",")] > 3 || run.Violations() >= 60 {
				continue // enough replay files of this kind
			}
			run.Violation("c18", c18Divergence{Part: "roi-partition", Config: cfgByName[pc.Config], Op: "GET " + pc.URL, Input: pc.Spans,
				Expected: map[string]interface{}{"claims_of_GeometryPartition_that_do_not_hold": failed, "region_blocks": pc.Blocks},
				Observed: pc})
		}
	}
	return
}

// ---------------------------------------------------------------------------
// keys and packed block index
// ---------------------------------------------------------------------------

func pairOf(c int64) string {
	lo := ((c % 65536) + 65536) % 65536
	return fmt.Sprintf("<<%d, %d>>", (c-lo)/65536, lo)
}

func checkKeys(c *Ctx, run *ev.Run, n *node.Node, rng *rand.Rand) (states, trans int64, nCmp int64) {
	bnd := []int64{-1 << 31, -1 << 20, -1, 0, 1, 1<<20 - 1, 1<<31 - 1}
	var pts [][3]int64
	for _, z := range bnd {
		for _, y := range bnd {
			for _, x := range bnd {
				pts = append(pts, [3]int64{x, y, z})
			}
		}
	}
	extra := []int64{-65537, -65536, -65535, -257, -256, -255, 255, 256, 65535, 65536, 1 << 24, -(1 << 24), 1<<31 - 2, -1<<31 + 1}
	for i := 0; i < c.pick(150, 600); i++ {
		var p [3]int64
		for d := range p {
			switch rng.Intn(4) {
			case 0:
				p[d] = bnd[rng.Intn(len(bnd))]
			case 1:
				p[d] = extra[rng.Intn(len(extra))]
			case 2:
				p[d] = int64(rng.Intn(512) - 256)
			default:
				p[d] = int64(int32(rng.Uint32()))
			}
		}
		pts = append(pts, p)
	}
	const lim = 1 << 20
	sb := []int64{1 - lim, -(1 << 19), -257, -1, 0, 1, 255, lim - 1}
	var small [][3]int64
	for i := 0; i < c.pick(300, 1500); i++ {
		var p [3]int64
		for d := range p {
			if rng.Intn(2) == 0 {
				p[d] = sb[rng.Intn(len(sb))]
			} else {
				p[d] = int64(rng.Intn(2*lim-1)) - (lim - 1)
			}
		}
		small = append(small, p)
	}
	var mod strings.Builder
	mod.WriteString("---- MODULE GeometryKeysCases ----\nEXTENDS GeometryKeys\nPointsDef == <<\n")
	for i, p := range pts {
		if i > 0 {
			mod.WriteString(",\n")
		}
		fmt.Fprintf(&mod, "<<%s, %s, %s>>", pairOf(p[0]), pairOf(p[1]), pairOf(p[2]))
	}
	mod.WriteString("\n>>\nSmallDef == <<\n")
	for i, p := range small {
		if i > 0 {
			mod.WriteString(",\n")
		}
		fmt.Fprintf(&mod, "<<%d, %d, %d>>", p[0], p[1], p[2])
	}
	mod.WriteString("\n>>\n====\n")
	full := "TRUE" // the packed field codec is checked by TLC on every |c| < 2^20
	cfg := "SPECIFICATION Spec\nCONSTANTS\n Points <- PointsDef\n Small <- SmallDef\n FullPackedRange = " + full +
		"\nINVARIANTS Inv_C18_KeyOrder Inv_C18_KeyDecode Inv_C18_KeyInjective Inv_C18_Packed Emit\nCHECK_DEADLOCK FALSE\n"
	r := c.MustModelCheck(tlc.Opts{Module: "GeometryKeysCases", Config: "keys.cfg", Workers: 1, Xss: "256m", Timeout: 15 * time.Minute,
		Files: map[string][]byte{"GeometryKeysCases.tla": []byte(mod.String()), "keys.cfg": []byte(cfg)}})
	var exp struct {
		Keys   [][]int  `json:"keys"`
		Rank   []int    `json:"rank"`
		Packed [][3]int `json:"packed"`
		PKeys  [][]int  `json:"pkeys"`
	}
	got := false
	PrintedJSON(r.Output, func(raw []byte) {
		if json.Unmarshal(raw, &exp) == nil && len(exp.Keys) == len(pts) && len(exp.Packed) == len(small) {
			got = true
		}
	})
	if !got {
		infra("GeometryKeys printed nothing usable: %s", r.Tail(1500))
	}
	// --- keys on the real code
	var kres struct {
		Keys []struct {
			Key     []int    `json:"key"`
			Same    bool     `json:"same"`
			Decoded [][3]int `json:"decoded"`
			DecErr  string   `json:"dec_err"`
			Pretty  string   `json:"pretty"`
		} `json:"keys"`
		Order []int `json:"order"`
	}
	must(n.Call("geom.keys", map[string]interface{}{"points": pts}, &kres), "geom.keys")
	if len(kres.Keys) != len(pts) || len(kres.Order) != len(pts) {
		infra("geom.keys returned %d keys", len(kres.Keys))
	}
	intsEq := func(a, b []int) bool {
		if len(a) != len(b) {
			return false
		}
		for i := range a {
			if a[i] != b[i] {
				return false
			}
		}
		return true
	}
	realKeys := make([][]byte, len(pts))
	for i, k := range kres.Keys {
		p := [3]int{int(pts[i][0]), int(pts[i][1]), int(pts[i][2])}
		run.Eval(fmt.Sprintf("key|%v", p))
		nCmp++
		ok := intsEq(k.Key, exp.Keys[i]) && k.Same && k.DecErr == "" && len(k.Decoded) == 5
		for _, d := range k.Decoded {
			if d != p {
				ok = false
			}
		}
		if !ok {
			run.Violation("c18", c18Divergence{Part: "keys", Op: "IndexZYX.Bytes / ToIZYXString / ToZYXBytes and decoders", Input: p,
				Expected: map[string]interface{}{"key": exp.Keys[i], "decoded": p}, Observed: k})
		}
		b := make([]byte, len(k.Key))
		for j, x := range k.Key {
			b[j] = byte(x)
		}
		realKeys[i] = b
	}
	// order: byte order of the real keys vs. the rank of the point in (z, y, x) order, all pairs
	bad := 0
	for i := range pts {
		for j := range pts {
			cmp := bytes.Compare(realKeys[i], realKeys[j])
			want := 0
			if exp.Rank[i] < exp.Rank[j] {
				want = -1
			} else if exp.Rank[i] > exp.Rank[j] {
				want = 1
			}
			nCmp++
			if cmp != want && bad < 3 {
				bad++
				run.Violation("c18", c18Divergence{Part: "keys", Op: "key order", Input: [][3]int64{pts[i], pts[j]},
					Expected: fmt.Sprintf("compare = %d (ranks %d, %d)", want, exp.Rank[i], exp.Rank[j]), Observed: fmt.Sprintf("bytes.Compare = %d", cmp)})
			}
		}
	}
	run.EvalN(len(pts) * len(pts))
	// DVID's own sort of block keys
	for k := 1; k < len(kres.Order); k++ {
		if exp.Rank[kres.Order[k-1]] > exp.Rank[kres.Order[k]] {
			run.Violation("c18", c18Divergence{Part: "keys", Op: "sort.Sort(IZYXSlice)", Input: [][3]int64{pts[kres.Order[k-1]], pts[kres.Order[k]]},
				Expected: "ascending (z, y, x)", Observed: "descending neighbours"})
			break
		}
	}
	// --- packed block index
	var pres []struct {
		Packed    string `json:"packed"`
		Decoded   [3]int `json:"decoded"`
		Key       []int  `json:"key"`
		FromKey   string `json:"from_key"`
		FromKeyEr string `json:"from_key_err"`
	}
	must(n.Call("geom.packed", map[string]interface{}{"points": small}, &pres), "geom.packed")
	for i, o := range pres {
		p := [3]int{int(small[i][0]), int(small[i][1]), int(small[i][2])}
		f := exp.Packed[i]
		// the uint64 is the three 21-bit fields of the specification, z most significant
		want := strconv.FormatUint(uint64(f[0])<<42|uint64(f[1])<<21|uint64(f[2]), 10)
		run.Eval(fmt.Sprintf("packed|%v", p))
		nCmp++
		if o.Packed != want || o.Decoded != p || !intsEq(o.Key, exp.PKeys[i]) || o.FromKey != want || o.FromKeyEr != "" {
			run.Violation("c18", c18Divergence{Part: "packed", Op: "EncodeBlockIndex / DecodeBlockIndex / BlockIndexToIZYXString / IZYXStringToBlockIndex", Input: p,
				Expected: map[string]interface{}{"packed": want, "fields_zyx": f, "key": exp.PKeys[i]}, Observed: o})
		}
	}
	// every coordinate of the documented range, on the real code
	var sweep struct {
		Evaluated  int64     `json:"evaluated"`
		Mismatches [][]int32 `json:"mismatches"`
	}
	others := [][2]int{{0, 0}, {-1, 1}, {lim - 1, 1 - lim}}
	if c.thorough() {
		others = append(others, [2]int{1 - lim, lim - 1}, [2]int{rng.Intn(lim), -rng.Intn(lim)})
	}
	must(n.Call("geom.packedsweep", map[string]interface{}{"others": others}, &sweep), "geom.packedsweep")
	run.EvalN(int(sweep.Evaluated))
	nCmp += sweep.Evaluated
	if len(sweep.Mismatches) > 0 {
		run.Violation("c18", c18Divergence{Part: "packed", Op: "DecodeBlockIndex(EncodeBlockIndex(p)) over every |c| < 2^20", Expected: "p", Observed: sweep.Mismatches})
	}
	run.Sample(map[string]interface{}{"point": pts[len(pts)-1], "expected_key": exp.Keys[len(pts)-1], "real_key": kres.Keys[len(pts)-1].Key, "rank": exp.Rank[len(pts)-1]})
	run.Sample(map[string]interface{}{"block": small[0], "expected_fields_zyx": exp.Packed[0], "real_packed": pres[0].Packed})
	return r.Distinct, r.Generated, nCmp
}

// ---------------------------------------------------------------------------

func geoBounds(xmin, xmax int, rows [][2]int) [][6]int {
	N := geoNone
	y0, z0 := rows[0][0], rows[0][1]
	yl, zl := rows[len(rows)-1][0], rows[len(rows)-1][1]
	return [][6]int{
		{N, N, N, N, N, N},
		{xmin + 1, N, N, N, N, N},
		{N, xmax - 1, N, N, N, N},
		{-1, 1, N, N, N, N},
		{0, 0, N, N, N, N},
		{N, N, yl, N, N, N},
		{N, N, N, y0, N, N},
		{N, N, N, N, zl, N},
		{N, N, N, N, N, z0},
		{1, -1, N, N, N, N}, // empty in x
		{xmin - 3, xmax + 3, y0 - 1, yl + 1, z0 - 1, zl + 1},
		{xmin, xmin, y0, y0, z0, z0},
	}
}

func c18Configs(c *Ctx) []*geoCfg {
	mk := func(name string, xmin, xmax int, rows [][2]int, roi bool, rb [3]int) *geoCfg {
		g := &geoCfg{Name: name, XMin: xmin, XMax: xmax, Rows: rows, NMasks: 8, EmitRoi: roi, RoiBlock: rb,
			BlockSizes: [][3]int{{2, 2, 2}, {3, 3, 3}, {4, 2, 1}, {5, 1, 3}}, Bounds: geoBounds(xmin, xmax, rows)}
		// voxel query box: the blocks of the lattice plus a margin of one voxel in x
		ymin, ymax, zmin, zmax := rows[0][0], rows[0][0], rows[0][1], rows[0][1]
		for _, r := range rows {
			if r[0] < ymin {
				ymin = r[0]
			}
			if r[0] > ymax {
				ymax = r[0]
			}
			if r[1] < zmin {
				zmin = r[1]
			}
			if r[1] > zmax {
				zmax = r[1]
			}
		}
		g.Query = [6]int{xmin*rb[0] - 1, (xmax + 1) * rb[0], ymin * rb[1], (ymax+1)*rb[1] - 1, zmin * rb[2], (zmax+1)*rb[2] - 1}
		if len(rows) == 1 { // room for a margin in y and z as well
			g.Query[2]--
			g.Query[3]++
			g.Query[4]--
			g.Query[5]++
		}
		return g
	}
	cfgs := []*geoCfg{
		mk("row8", -3, 4, [][2]int{{-1, 0}}, false, [3]int{2, 2, 2}),
		mk("rows2x4", -2, 1, [][2]int{{-1, 0}, {0, 0}}, false, [3]int{2, 2, 2}),
		mk("roi2x4", -2, 1, [][2]int{{-1, -1}, {0, 0}}, true, [3]int{2, 2, 2}),
		mk("roirow5", -3, 1, [][2]int{{-1, -1}}, true, [3]int{3, 2, 2}),
		// three rows in three Z layers with a gap in Z (partition into layers)
		mk("roi3z", -1, 0, [][2]int{{0, -2}, {0, 0}, {1, 1}}, true, [3]int{2, 3, 2}),
	}
	if c.thorough() {
		cfgs = append(cfgs,
			mk("rows2x5", -2, 2, [][2]int{{-1, 0}, {0, 0}}, false, [3]int{2, 2, 2}),
			mk("rows2x6", -3, 2, [][2]int{{-1, 0}, {0, 0}}, false, [3]int{2, 2, 2}),
			mk("rows4x3", -1, 1, [][2]int{{-1, -1}, {0, -1}, {-1, 0}, {0, 0}}, false, [3]int{2, 2, 2}),
			mk("row10", -5, 4, [][2]int{{0, -1}}, false, [3]int{2, 2, 2}),
			mk("roi2x5", -2, 2, [][2]int{{-1, 0}, {0, 0}}, true, [3]int{2, 3, 2}),
			mk("roi3x3", -1, 1, [][2]int{{-1, -1}, {0, -1}, {0, 0}}, true, [3]int{3, 2, 2}),
			mk("roi3z3", -1, 1, [][2]int{{0, -2}, {1, 0}, {0, 1}}, true, [3]int{2, 2, 3}),
		)
	}
	return cfgs
}

func checkC18(c *Ctx) int {
	run := ev.NewRun("C18", c.Tier, "model_checking")
	t0 := time.Now()
	var states, trans int64
	keyNode := c.StartNode(node.Config{})
	s1, t1, nKey := checkKeys(c, run, keyNode, rand.New(rand.NewSource(c.Seed)))
	states += s1
	trans += t1
	tKeys := since(t0)

	cfgs := append(c18Configs(c), c18LimitConfigs(c)...) // growth: lattices next to the int32 limits (c18_sets.go)
	workers := 8
	nodes := make([]*node.Node, workers)
	rois := make([]*roiSess, workers)
	for i := range nodes {
		rois[i] = newRoiSess(c)
		nodes[i] = rois[i].n
	}
	var nOps, nStates int64
	var mu sync.Mutex
	perCfg := map[string]interface{}{}
	sink := &roiPartSink{all: c.thorough()}
	cfgByName := map[string]*geoCfg{}
	// TLC explores the configurations side by side (quick: all at once; thorough: 3 at a time)
	type tlcOut struct {
		r   *tlc.Result
		err interface{}
		s   float64
	}
	results := make([]chan tlcOut, len(cfgs))
	sem := make(chan bool, c.pick(len(cfgs), 3))
	for ci, g := range cfgs {
		cfgByName[g.Name] = g
		results[ci] = make(chan tlcOut, 1)
		go func(ci int, g *geoCfg) {
			sem <- true
			defer func() { <-sem }()
			tt := time.Now()
			var o tlcOut
			defer func() {
				o.err = recover()
				o.s = since(tt)
				results[ci] <- o
			}()
			mod, cfg := g.module()
			o.r = c.MustModelCheck(tlc.Opts{Module: "GeometryMC", Config: "geo.cfg", Workers: c.pick(4, 8), Timeout: 20 * time.Minute, HeapGB: 4,
				Files: map[string][]byte{"GeometryMC.tla": []byte(mod), "geo.cfg": []byte(cfg)}})
		}(ci, g)
	}
	for ci, g := range cfgs {
		tt := time.Now()
		o := <-results[ci]
		if o.err != nil {
			panic(o.err)
		}
		r := o.r
		states += r.Distinct
		trans += r.Generated
		var sts []*geoState
		var operands [][]geoRun
		PrintedJSON(r.Output, func(raw []byte) {
			if bytes.HasPrefix(raw, []byte(`{"operands"`)) {
				var o struct {
					Operands [][]geoRun `json:"operands"`
				}
				if json.Unmarshal(raw, &o) == nil {
					operands = o.Operands
				}
				return
			}
			var st geoState
			if err := json.Unmarshal(raw, &st); err == nil && len(st.Fit) == len(g.Bounds) {
				sts = append(sts, &st)
			}
		})
		if int64(len(sts)) != r.Distinct || len(operands) != g.NMasks {
			infra("Geometry/%s: %d printed states for %d distinct states, %d operands: %s", g.Name, len(sts), r.Distinct, len(operands), r.Tail(1500))
		}
		tTLC := o.s
		// deterministic order of the states regardless of TLC's worker scheduling
		sort.Slice(sts, func(i, j int) bool { return fmt.Sprint(sts[i].Runs) < fmt.Sprint(sts[j].Runs) })
		var empty *geoState
		for _, st := range sts {
			if len(st.Runs) == 0 {
				empty = st
			}
		}
		const batch = 250
		nb := (len(sts) + batch - 1) / batch
		parallel(nb, workers, func(w, b int) {
			lo, hi := b*batch, (b+1)*batch
			if hi > len(sts) {
				hi = len(sts)
			}
			rng := rand.New(rand.NewSource(c.Seed*7919 + int64(ci)*1000003 + int64(b)))
			replayRuns(run, nodes[w], g, sts[lo:hi], operands, rng, &nOps)
			replayRunsX(run, nodes[w], g, sts[lo:hi], operands, rng, &nOps) // growth: Add's count, Split by a non-subset, FitToBounds(nil)
			if g.EmitRoi {
				for k, st := range sts[lo:hi] {
					replayRoi(run, rois[w], g, st, empty, lo+k, sink, rng, &nOps)
				}
			}
			atomic.AddInt64(&nStates, int64(hi-lo))
		})
		mu.Lock()
		perCfg[g.Name] = map[string]interface{}{"states": r.Distinct, "transitions": r.Generated, "tlc_s": tTLC, "total_s": since(tt), "roi": g.EmitRoi}
		mu.Unlock()
		if len(sts) > 10 {
			st := sts[len(sts)/2]
			run.Sample(map[string]interface{}{"config": g.Name, "runs_xyzn": st.Runs, "canonical": st.Canon, "partition_expected": st.Part[0], "split_operand": st.Split[0].S, "split_expected_mask": st.Split[0].M, "roi_spans_zyx0x1": st.Spans})
		}
	}
	// the partition answers of the real code, judged by TLC against the claims of GeometryPartition
	tp := time.Now()
	ps, pt, badParts := judgePartitions(c, run, cfgByName, sink.cases)
	states += ps
	trans += pt
	run.Set("partition_answers_judged_by_tlc", len(sink.cases))
	run.Set("partition_answers_breaking_a_claim", badParts)
	run.Set("partition_requests_failed", sink.failed)
	run.Set("partition_judging_s", since(tp))
	if len(sink.cases) > 0 {
		run.Sample(map[string]interface{}{"partition_answer_judged": sink.cases[len(sink.cases)/2]})
	}
	// growth: optional bounds, sets of block coordinates, label-index clipping (c18_sets.go)
	gs, gt, gn, gextra := c18Growth(c, run, nodes, rand.New(rand.NewSource(c.Seed+18)))
	states += gs
	trans += gt
	nOps += gn
	run.Set("growth", gextra)
	run.Set("split_by_non_subset_refused_equal_other", c18SplitNonSubset)
	run.Set("states", states)
	run.Set("transitions", trans)
	run.Set("traces_validated_against_impl", nOps)
	run.Set("states_replayed", nStates)
	run.Set("key_comparisons", nKey)
	run.Set("configs", perCfg)
	run.Set("exhaustive", true)
	run.Set("rule", "run algebra / ROI: TLC enumerates EVERY presentation of every voxel set as non-overlapping runs on small lattices (incl. negative coordinates, adjacent and single-voxel runs, several rows in y and z) with specs/Geometry.tla, checks the set-level claims and prints per state the expected result of Normalize (exact runs), Partition (4 block sizes), Split (8 subsets), FitToBounds (12 boxes), Add (8 operands) as voxel sets, and for the ROI reading the stored spans and the members of a voxel query box; every state is pushed (runs in seeded order, operands additionally broken into adjacent runs) through the real dvid.RLEs functions, MarshalBinary/UnmarshalBinary/ReadRLEs/RLE.WriteTo, and through an roi instance (POST roi, GET roi, POST ptquery over the whole box, GET mask over the box and 3 seeded sub-boxes, roi.VoxelBoundsInside, GET info MinZ/MaxZ = Z extent of the spans; the same region re-posted with OVERLAPPING spans (Overlay: repeated last / inner blocks of every multi-block span; Inv_C18_RoiOverlap) must answer ptquery, mask and VoxelBoundsInside identically; DELETE roi on every 4th state must leave the empty region); ROI partition: the claims of specs/GeometryPartition.tla (subvolumes well formed, pairwise disjoint, covering every block of the region, ActiveBlocks = blocks of the region inside, sum = block count, TotalBlocks = box volume, voxel corners = block corners) are model-checked on the intended grid partition for every state and batch size 1..3 (Inv_C18_PartitionDesign), and every answer of GET partition?batchsize=1|2|3 (default and optimized=true, quick: alternating, thorough: both) is written as a constant and judged by TLC against the same claims (GeometryPartition_cases); traces_validated_against_impl = operations compared. keys / packed index: seeded int32 points + the boundary lattice {-2^31,-2^20,-1,0,1,2^20-1,2^31-1}^3 are written as constants, TLC (specs/GeometryKeys.tla) checks order isomorphism on all pairs and decoding and prints expected key bytes, ranks and packed fields, the real codecs are compared byte for byte and pairwise; decode(encode(c)) is evaluated on the real code for every |c| < 2^20 per axis. Growth: (a) optional bounds - GeometryBoundsAxis.tla checks exhaustively per axis that block-level screen (Divide + Outside) followed by the voxel cut (Adjust) is the intersection with the box; seeded boxes / block sizes / points / query-string token classes are evaluated by GeometryBoundsEval.tla and replayed on OptionalBounds.Adjust, Outside, OutsideX/Y/Z, BeyondZ, Divide, IsSet and OptionalBoundsFromQueryString; (b) sets of block coordinates - GeometrySets.tla enumerates EVERY subset of small block lattices (negative coordinates, coordinates next to +-2^20) and prints the expected IZYXSlice Merge / MergeCopy / Delete / Split (8 operands), FitToBounds (8 boxes), Downres, GetBounds, binary form, labels.Index.FitToBounds and Index.GetProcessedBlockIndices (scale x box x supervoxel, incl. zero-count and absent entries), per cell IZYXString.Halfres / Downres / VoxelOffset and IndexZYX.MarshalBinary; (c) run algebra additions - the count returned by RLEs.Add, Split by non-subsets, FitToBounds(nil), two lattices next to the int32 limits. distinct_nontrivial = distinct (configuration, operation, non-empty state) + distinct points + distinct bounds cases")
	run.Assume = []string{
		"Add is compared as a voxel set (its result may contain overlapping runs) and its returned count with the number of voxels not there before; Split by an operand that is not a subset is only required not to panic (outcomes counted in split_by_non_subset_refused_equal_other)",
		"lattices next to the int32 limits keep 9 voxels of distance from MaxInt32 / 16 from MinInt32 (TLC integers are 32-bit: the expected results must not overflow)",
		"sets of block coordinates: every subset of lattices of 8-12 cells (3-4 rows), 8 operands, 8 boxes, scales 1-4; IZYXSlice.FitToBounds is given sorted input (its documented requirement)",
		"GET roi is compared for non-overlapping span sets only (adjacent spans allowed); overlapping spans are judged by the queries",
		"partition answers are judged by the claims only, not by equality with the intended grid partition",
		"int32 key coordinates beyond the boundary lattice and the packed-index pairs are seeded samples, not exhaustive",
	}
	fmt.Printf("C18: keys %.1fs (%d comparisons); %d configurations, %d states replayed, %d operations compared; violations=%d; %.1fs\n",
		tKeys, nKey, len(cfgs), nStates, nOps, run.Violations(), since(t0))
	return run.Finish()
}
