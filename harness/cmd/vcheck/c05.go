package main

import (
	"archive/tar"
	"bytes"
	"encoding/json"
	"fmt"
	"io"
	"math/rand"
	"sort"
	"strings"
	"sync/atomic"
	"time"

	pb "google.golang.org/protobuf/proto"

	"github.com/janelia-flyem/dvid/datatype/common/proto"

	"verifharness/internal/dagm"
	"verifharness/internal/ev"
	"verifharness/internal/node"
	"verifharness/internal/tlc"
)

func init() { checks["C05"] = checkC05 }

// Interval endpoints (ascending) and the positions of the three prefix-related keys.
var c05Endpoints = []string{"0", "a", "aa", "ab", "b", "c"}
var c05KeyPos = []int{2, 4, 5} // "a", "ab", "b"

type rangeCase struct {
	Par [][]int `json:"par"`
	Fam []int   `json:"fam"` // placement number per key
	D   int     `json:"d"`   // node of DeleteRange (0 = none)
	Lo  int     `json:"lo"`
	Hi  int     `json:"hi"`
	W   []int   `json:"w"`   // keys (1..3) written again at d after the DeleteRange
	// filled from TLC
	Reads  [][]int `json:"reads"`  // [node-1][key-1] -> node whose value is read / 0 / -1
	UReads []int   `json:"ureads"` // [key-1]: the same requests on an unversioned instance (every node reads the same)
	// DRFails: a key of the DeleteRange interval is in merge conflict at d; the outcome of such a
	// DeleteRange is outside the property (the store deletes the keys scanned before the conflict
	// and reports success), so the case is not replayed
	DRFails bool `json:"drfails"`
}

func tlaSeqInts(a []int) string {
	s := make([]string, len(a))
	for i, x := range a {
		s[i] = fmt.Sprint(x)
	}
	return "<<" + strings.Join(s, ", ") + ">>"
}

func tlaPar(par [][]int) string {
	s := make([]string, len(par))
	for i, p := range par {
		s[i] = tlaSeqInts(p)
	}
	return "<<" + strings.Join(s, ", ") + ">>"
}

// evalRangeCases lets TLC evaluate the expected point reads of every case (after the
// case's DeleteRange) and check the DeleteRange claims of the property.
func evalRangeCases(c *Ctx, cases []*rangeCase) (states, trans int64) {
	const batch = 2500
	for off := 0; off < len(cases); off += batch {
		end := off + batch
		if end > len(cases) {
			end = len(cases)
		}
		var sb strings.Builder
		fmt.Fprintf(&sb, "---- MODULE KVRangeCases ----\nKeyPosDef == %s\nCases == <<\n", tlaSeqInts(c05KeyPos))
		for i, rc := range cases[off:end] {
			if i > 0 {
				sb.WriteString(",\n")
			}
			fmt.Fprintf(&sb, "[par |-> %s, fam |-> %s, d |-> %d, lo |-> %d, hi |-> %d, w |-> %s]", tlaPar(rc.Par), tlaSeqInts(rc.Fam), rc.D, rc.Lo, rc.Hi, tlaSeqInts(rc.W))
		}
		sb.WriteString("\n>>\n====\n")
		cfg := fmt.Sprintf("SPECIFICATION Spec\nCONSTANTS\n  KeyPos <- KeyPosDef\n  NumEndpoints = %d\n  LastFoundBug = FALSE\nINVARIANTS AllClaims Emit\nCHECK_DEADLOCK FALSE\n",
			len(c05Endpoints))
		r := c.MustModelCheck(tlc.Opts{Module: "KVRange_mc", Config: "gen_range.cfg", Workers: 1,
			Files:   map[string][]byte{"KVRangeCases.tla": []byte(sb.String()), "gen_range.cfg": []byte(cfg)},
			Timeout: 20 * time.Minute, Xss: "256m"})
		states += r.Distinct
		trans += r.Generated
		got := false
		PrintedJSON(r.Output, func(raw []byte) {
			var out []struct {
				Reads   [][]int `json:"reads"`
				UReads  []int   `json:"ureads"`
				DRFails bool    `json:"drfails"`
			}
			if err := json.Unmarshal(raw, &out); err != nil || len(out) != end-off {
				return
			}
			for i := range out {
				cases[off+i].Reads = out[i].Reads
				cases[off+i].UReads = out[i].UReads
				cases[off+i].DRFails = out[i].DRFails
			}
			got = true
		})
		if !got {
			infra("KVRange emitted nothing: %s", r.Tail(1500))
		}
	}
	return
}

type c05Divergence struct {
	Kind     string      `json:"kind"`
	Case     *rangeCase  `json:"case"`
	Node     int         `json:"query_node"`
	Interval [2]string   `json:"interval"`
	Endpoint string      `json:"endpoint"`
	Expected interface{} `json:"expected"`
	Observed interface{} `json:"observed"`
	Script   []dagm.Step `json:"script,omitempty"`
}

func famKey(f int, name string) string { return fmt.Sprintf("f%03d:%s", f, name) }

type kvp struct{ K, V string }

func c05Value(k int) string { return fmt.Sprintf("\"v%d\"", k) } // valid JSON so that json=true output parses

// parse helpers for the response formats
func parseJSONKeys(b []byte) ([]string, error) {
	var ks []string
	if len(bytes.TrimSpace(b)) == 0 || string(bytes.TrimSpace(b)) == "null" {
		return nil, nil
	}
	err := json.Unmarshal(b, &ks)
	return ks, err
}

func parseJSONObjOrdered(b []byte) ([]kvp, error) {
	dec := json.NewDecoder(bytes.NewReader(b))
	tok, err := dec.Token()
	if err != nil {
		return nil, err
	}
	if d, ok := tok.(json.Delim); !ok || d != '{' {
		return nil, fmt.Errorf("not an object")
	}
	var out []kvp
	for dec.More() {
		kt, err := dec.Token()
		if err != nil {
			return nil, err
		}
		var raw json.RawMessage
		if err := dec.Decode(&raw); err != nil {
			return nil, err
		}
		out = append(out, kvp{kt.(string), string(raw)})
	}
	return out, nil
}

func parseTar(b []byte) ([]kvp, error) {
	tr := tar.NewReader(bytes.NewReader(b))
	var out []kvp
	for {
		h, err := tr.Next()
		if err == io.EOF {
			return out, nil
		}
		if err != nil {
			return out, err
		}
		v, err := io.ReadAll(tr)
		if err != nil {
			return out, err
		}
		out = append(out, kvp{h.Name, string(v)})
	}
}

func parseProtoKVs(b []byte) ([]kvp, error) {
	var kvs proto.KeyValues
	if err := pb.Unmarshal(b, &kvs); err != nil {
		return nil, err
	}
	var out []kvp
	for _, kv := range kvs.Kvs {
		out = append(out, kvp{kv.Key, string(kv.Value)})
	}
	return out, nil
}

func kvpEqual(a, b []kvp) bool {
	if len(a) != len(b) {
		return false
	}
	for i := range a {
		if a[i] != b[i] {
			return false
		}
	}
	return true
}

func strsEqual(a, b []string) bool {
	if len(a) != len(b) {
		return false
	}
	for i := range a {
		if a[i] != b[i] {
			return false
		}
	}
	return true
}

// Growth (gaps C05-1 .. C05-5, C01-4, C01-5): what a family's index selects.
//   f%4 == 2   the writes of a node are sent as one POST keyvalues (protobuf batch)
//   f%8 == 3   values written at even nodes are empty
//   f%4 == 1   the same requests are also sent to the unversioned instance kvu (DeleteRange included)
//   f%4 == 3   after the DeleteRange at d the keys rc.W are written again at d: through the store's
//              PutRange (f%8 == 7: a put over the version's own tombstone) or POST key
func c05Batch(f int) bool     { return f%4 == 2 }
func c05Unv(f int) bool       { return f%4 == 1 }
func c05PutRange(f int) bool  { return f%8 == 7 }
func c05ValueOf(f, k int) string {
	if f%8 == 3 && k%2 == 0 {
		return ""
	}
	return c05Value(k)
}

// c05JSONOf is how the JSON formats show a value (an empty value is shown as {}).
func c05JSONOf(f, k int) string {
	if v := c05ValueOf(f, k); v != "" {
		return v
	}
	return "{}"
}

// known finding: a key whose value is empty is an entry of the store (keys, keyrange, HEAD and the
// store's scans list it) but GET key answers 404 and the value formats of keyrangevalues leave it out
const c05EmptyValue = "keyvalue-empty-value-listed-not-read"

// c05Shape replays all cases that share one DAG shape.
func c05Shape(c *Ctx, run *ev.Run, s *dagm.Sess, par [][]int, cases []*rangeCase, nq *int64, shapeIdx int) {
	names := []string{"a", "ab", "b"}
	n := len(par)
	post := func(u, inst, key, val string) error {
		if inst == "kvr" {
			return s.N.Call("kv.rawput", map[string]string{"data": inst, "uuid": u, "key": key, "value": val}, nil)
		}
		if val == "" {
			// the node's plain http op hands a body-less request a nil Body, which no HTTP server does:
			// an empty value goes through the call that delivers http.NoBody
			var res struct {
				Status int    `json:"status"`
				Body   string `json:"body"`
			}
			if err := s.N.Call("c20.http", map[string]string{"method": "POST", "url": "/api/node/" + u + "/" + inst + "/key/" + key}, &res); err != nil {
				return err
			}
			if res.Status != 200 {
				return fmt.Errorf("POST key (empty value): %d %s", res.Status, res.Body)
			}
			return nil
		}
		r, err := s.N.HTTP("POST", "/api/node/"+u+"/"+inst+"/key/"+key, []byte(val))
		return okStatus(r, err, "POST key")
	}
	err := s.BuildShape(par, func(k int) error {
		if k == 1 {
			if err := s.NewInstance(1, "keyvalue", "kv", nil); err != nil {
				return err
			}
			if err := s.NewInstance(1, "keyvalue", "kvu", map[string]string{"versioned": "false"}); err != nil {
				return err
			}
			// kvr is written and read only through the store API with a storage.DataContext
			if err := s.NewInstance(1, "keyvalue", "kvr", map[string]string{"versioned": "false"}); err != nil {
				return err
			}
		}
		u := s.NodeUUID(len(s.UUIDs))
		for f, rc := range cases {
			insts := []string{"kv"}
			if c05Unv(f) {
				insts = append(insts, "kvu", "kvr")
			}
			var batch proto.KeyValues
			for j, name := range names {
				switch digit(rc.Fam[j], k) {
				case 1:
					if c05Batch(f) {
						batch.Kvs = append(batch.Kvs, &proto.KeyValue{Key: famKey(f, name), Value: []byte(c05ValueOf(f, k))})
						continue
					}
					for _, inst := range insts {
						if err := post(u, inst, famKey(f, name), c05ValueOf(f, k)); err != nil {
							return err
						}
					}
				case 2:
					for _, inst := range insts {
						if inst == "kvr" {
							if err := s.N.Call("kv.rawdel", map[string]string{"data": inst, "uuid": u, "key": famKey(f, name)}, nil); err != nil {
								return err
							}
							continue
						}
						r, err := s.N.HTTP("DELETE", "/api/node/"+u+"/"+inst+"/key/"+famKey(f, name), nil)
						if err := okStatus(r, err, "DELETE key"); err != nil {
							return err
						}
					}
				}
			}
			if len(batch.Kvs) > 0 {
				run.Add("writes_through_post_keyvalues_batches", int64(len(batch.Kvs)))
				body, _ := pb.Marshal(&batch)
				r, err := s.N.HTTP("POST", "/api/node/"+u+"/kv/keyvalues", body)
				if err := okStatus(r, err, "POST keyvalues"); err != nil {
					return err
				}
			}
			if rc.D == k {
				for _, inst := range insts {
					if inst == "kvu" {
						run.Add("deleteranges_on_unversioned_instance", 1)
					}
					drArgs := map[string]string{"data": inst, "uuid": u, "lo": famKey(f, c05Endpoints[rc.Lo-1]), "hi": famKey(f, c05Endpoints[rc.Hi-1])}
					if inst == "kvr" {
						drArgs["raw_ctx"] = "true" // the store's unversioned scan and plain deletes
					}
					err := s.N.Call("kv.deleterange", drArgs, nil)
					if err != nil {
						if _, isCall := err.(*node.CallError); !isCall {
							return err
						}
						// a DeleteRange may fail only if a key of the case is in conflict at d (cases whose
						// interval holds such a key are not replayed at all: see DRFails)
						conflict := false
						for j := range names {
							if inst == "kv" && rc.Reads[k-1][j] == -1 {
								conflict = true
							}
						}
						if !conflict {
							run.Violation("c05", c05Divergence{Kind: "deleterange-failed", Case: rc, Node: k, Endpoint: inst, Observed: err.Error()})
						}
					}
				}
				// writes at d after the DeleteRange
				if len(rc.W) > 0 {
					var ks, vs []string
					for _, j := range rc.W {
						ks = append(ks, famKey(f, names[j-1]))
						vs = append(vs, c05ValueOf(f, k))
					}
					for _, inst := range insts {
						if c05PutRange(f) || inst == "kvr" {
							run.Add("putrange_after_deleterange_at_same_version", 1)
							prArgs := map[string]interface{}{"data": inst, "uuid": u, "keys": ks, "values": vs}
							if inst == "kvr" {
								prArgs["raw_ctx"] = "true"
							}
							if err := s.N.Call("kv.putrange", prArgs, nil); err != nil {
								if _, isCall := err.(*node.CallError); !isCall {
									return err
								}
								run.Violation("c05", c05Divergence{Kind: "putrange-failed", Case: rc, Node: k, Endpoint: inst, Observed: err.Error()})
							}
							continue
						}
						for i := range ks {
							if err := post(u, inst, ks[i], vs[i]); err != nil {
								return err
							}
						}
					}
				}
			}
		}
		return nil
	})
	must(err, "build shape")
	base := len(s.UUIDs) - n
	report := func(d c05Divergence) {
		d.Script = nil
		run.Violation("c05", d)
	}
	type instView struct {
		inst     string
		allKeys  [][]string // for GET keys (whole space) per node
		conflict []bool
	}
	views := []*instView{{inst: "kv", allKeys: make([][]string, n), conflict: make([]bool, n)}, {inst: "kvu", allKeys: make([][]string, n), conflict: make([]bool, n)},
		{inst: "kvr", allKeys: make([][]string, n), conflict: make([]bool, n)}}
	for f, rc := range cases {
		for vi, view := range views {
			if vi >= 1 && !c05Unv(f) {
				continue
			}
			rawOnly := vi == 2
			inst := view.inst
			for v := 1; v <= n; v++ {
				u := s.UUIDs[base+v-1]
				reads := rc.Reads[v-1]
				if vi >= 1 {
					reads = rc.UReads // one entry per key, the same at every version
				}
				// point reads first: the range oracle is defined from them
				for j, name := range names {
					if rawOnly {
						var g struct {
							Found bool   `json:"found"`
							Value string `json:"value"`
						}
						must(s.N.Call("kv.rawget", map[string]string{"data": inst, "uuid": u, "key": famKey(f, name)}, &g), "kv.rawget")
						atomic.AddInt64(nq, 1)
						// (the raw entry holds the bytes as given: the serialization is the datatype's business)
						if g.Found != (reads[j] > 0) || (g.Found && g.Value != c05ValueOf(f, reads[j]) && c05ValueOf(f, reads[j]) != "") {
							report(c05Divergence{Kind: "point-read", Case: rc, Node: v, Endpoint: inst + " store Get(DataContext) " + name, Expected: reads[j], Observed: g})
						}
						if reads[j] > 0 {
							view.allKeys[v-1] = append(view.allKeys[v-1], famKey(f, name))
						}
						continue
					}
					r, err := s.N.HTTP("GET", "/api/node/"+u+"/"+inst+"/key/"+famKey(f, name), nil)
					must(err, "GET key")
					atomic.AddInt64(nq, 1)
					ok := (reads[j] == 0 && r.Status == 404) || (reads[j] == -1 && r.Status != 200) ||
						(reads[j] > 0 && r.Status == 200 && string(r.Bytes()) == c05ValueOf(f, reads[j]))
					if !ok && reads[j] > 0 && c05ValueOf(f, reads[j]) == "" && r.Status == 404 && run.KnownActive(c05EmptyValue) {
						run.ReportKnown(c05EmptyValue)
						ok = true
					}
					if !ok {
						report(c05Divergence{Kind: "point-read", Case: rc, Node: v, Endpoint: inst + "/key/" + name, Expected: reads[j], Observed: fmt.Sprintf("%d:%s", r.Status, r.Bytes())})
					}
					if reads[j] > 0 {
						view.allKeys[v-1] = append(view.allKeys[v-1], famKey(f, name))
					}
					if reads[j] == -1 {
						view.conflict[v-1] = true
					}
				}
				// every interval, plus the inverted ones (lo > hi holds no key)
				for lo := 1; lo <= len(c05Endpoints); lo++ {
					for hi := 1; hi <= len(c05Endpoints); hi++ {
						if hi < lo && (f+v+lo+hi)%5 != 0 {
							continue // a share of the inverted intervals
						}
						var wantK []string
						var wantKV, wantJSON []kvp
						var devKV, devJSON []kvp // the value formats under the known finding: without the empty values
						conflict := false
						for j, name := range names {
							if c05KeyPos[j] < lo || c05KeyPos[j] > hi {
								continue
							}
							if reads[j] == -1 {
								conflict = true
							}
							if reads[j] > 0 {
								wantK = append(wantK, famKey(f, name))
								wantKV = append(wantKV, kvp{famKey(f, name), c05ValueOf(f, reads[j])})
								wantJSON = append(wantJSON, kvp{famKey(f, name), c05JSONOf(f, reads[j])})
								if c05ValueOf(f, reads[j]) != "" {
									devKV = append(devKV, kvp{famKey(f, name), c05ValueOf(f, reads[j])})
									devJSON = append(devJSON, kvp{famKey(f, name), c05JSONOf(f, reads[j])})
								}
							}
						}
						if conflict {
							continue // a conflicted key in the interval may make the range fail
						}
						klo, khi := famKey(f, c05Endpoints[lo-1]), famKey(f, c05Endpoints[hi-1])
						iv := [2]string{klo, khi}
						inverted := hi < lo
						type variant struct {
							name string
							run  func() (interface{}, bool, error)
						}
						httpKV := func(q string, parse func([]byte) ([]kvp, error), want []kvp) func() (interface{}, bool, error) {
							return func() (interface{}, bool, error) {
								r, err := s.N.HTTP("GET", "/api/node/"+u+"/"+inst+"/keyrangevalues/"+klo+"/"+khi+q, nil)
								if err != nil {
									return nil, false, err
								}
								if r.Status != 200 {
									// an inverted interval may be refused; it must not answer with keys
									return fmt.Sprintf("status %d %s", r.Status, r.Bytes()), inverted && r.Status >= 400 && r.Status < 500, nil
								}
								got, perr := parse(r.Bytes())
								if perr != nil {
									return fmt.Sprintf("unparsable: %v", perr), false, nil
								}
								if !kvpEqual(got, want) && len(want) > 0 && run.KnownActive(c05EmptyValue) &&
									((&want[0] == &wantKV[0] && kvpEqual(got, devKV)) || (len(wantJSON) > 0 && &want[0] == &wantJSON[0] && kvpEqual(got, devJSON))) {
									run.ReportKnown(c05EmptyValue)
									return got, true, nil
								}
								return got, kvpEqual(got, want), nil
							}
						}
						variants := []variant{
							{"keyrange", func() (interface{}, bool, error) {
								r, err := s.N.HTTP("GET", "/api/node/"+u+"/"+inst+"/keyrange/"+klo+"/"+khi, nil)
								if err != nil {
									return nil, false, err
								}
								if r.Status != 200 {
									return fmt.Sprintf("status %d", r.Status), inverted && r.Status >= 400 && r.Status < 500, nil
								}
								got, perr := parseJSONKeys(r.Bytes())
								if perr != nil {
									return string(r.Bytes()), false, nil
								}
								return got, strsEqual(got, wantK), nil
							}},
							{"keyrangevalues(protobuf)", httpKV("", parseProtoKVs, wantKV)},
							{"keyrangevalues?json=true", httpKV("?json=true", parseJSONObjOrdered, wantJSON)},
							{"keyrangevalues?tar=true", httpKV("?tar=true", parseTar, wantKV)},
							{"store-range-methods", func() (interface{}, bool, error) {
								var res struct {
									GetRange []struct{ K, V string } `json:"getrange"`
									Keys     []string               `json:"keys"`
									Sent     []string               `json:"sent"`
									Proc     []struct{ K, V string } `json:"proc"`
									E1       string                 `json:"getrange_err"`
									E2       string                 `json:"keys_err"`
									E3       string                 `json:"sent_err"`
									E4       string                 `json:"proc_err"`
								}
								rArgs := map[string]string{"data": inst, "uuid": u, "lo": klo, "hi": khi}
								if rawOnly {
									rArgs["raw_ctx"] = "true"
									run.Add("store_range_methods_with_unversioned_context", 1)
								}
								err := s.N.Call("kv.range", rArgs, &res)
								if err != nil {
									return nil, false, err
								}
								ok := res.E1 == "" && res.E2 == "" && res.E3 == "" && res.E4 == "" &&
									strsEqual(res.Keys, wantK) && strsEqual(res.Sent, wantK) && len(res.GetRange) == len(wantKV) && len(res.Proc) == len(wantKV)
								if ok {
									for i := range wantKV {
										if res.GetRange[i].K != wantKV[i].K || res.GetRange[i].V != wantKV[i].V || res.Proc[i].K != wantKV[i].K || res.Proc[i].V != wantKV[i].V {
											ok = false
										}
									}
								}
								return res, ok, nil
							}},
							{"keyrangevalues?jsontar=true", httpKV("?jsontar=true", parseTar, wantKV)},
							{"keyrangevalues?json=true&check=true", httpKV("?json=true&check=true", parseJSONObjOrdered, wantJSON)},
						}
						// rotate the endpoint variants so that each (case, node, interval) runs two of them
						picks := []int{(f + v + lo*7 + hi) % 3, 3 + (f+v+lo+hi)%4}
						if lo == 1 && hi == len(c05Endpoints) {
							picks = []int{0, 1, 2, 3, 4, 5, 6}
						}
						if rawOnly {
							picks = []int{4}
						}
						for _, pi := range picks {
							vr := variants[pi]
							got, ok, err := vr.run()
							must(err, vr.name)
							atomic.AddInt64(nq, 1)
							if inverted {
								run.Add("inverted_interval_queries", 1)
							}
							if vi == 1 {
								run.Add("range_queries_on_unversioned_instance", 1)
							}
							if !ok {
								report(c05Divergence{Kind: "range", Case: rc, Node: v, Interval: iv, Endpoint: inst + " " + vr.name, Expected: wantKV, Observed: got})
							}
						}
					}
				}
				// GET keyvalues on the three keys in its four formats: a found key carries its value, a key
				// that is not found is listed empty
				if !rawOnly && (f+v)%2 == 0 && reads[0] != -1 && reads[1] != -1 && reads[2] != -1 {
					ks := []string{famKey(f, "a"), famKey(f, "ab"), famKey(f, "b")}
					jbody, _ := json.Marshal(ks)
					pbody, _ := pb.Marshal(&proto.Keys{Keys: ks})
					var want, wantJ []kvp
					for j := range names {
						if reads[j] > 0 {
							want = append(want, kvp{ks[j], c05ValueOf(f, reads[j])})
							wantJ = append(wantJ, kvp{ks[j], c05JSONOf(f, reads[j])})
						} else {
							want = append(want, kvp{ks[j], ""})
							wantJ = append(wantJ, kvp{ks[j], "{}"})
						}
					}
					type kvsVariant struct {
						q     string
						body  []byte
						parse func([]byte) ([]kvp, error)
						want  []kvp
					}
					kvsVariants := []kvsVariant{{"?json=true", jbody, parseJSONObjOrdered, wantJ}, {"?tar=true", jbody, parseTar, want},
						{"?jsontar=true", jbody, parseTar, want}, {"", pbody, parseProtoKVs, want}, {"?json=true&check=true", jbody, parseJSONObjOrdered, wantJ}}
					kv := kvsVariants[((f+v)/2)%len(kvsVariants)]
					r, err := s.N.HTTP("GET", "/api/node/"+u+"/"+inst+"/keyvalues"+kv.q, kv.body)
					must(err, "keyvalues")
					atomic.AddInt64(nq, 1)
					got, perr := kv.parse(r.Bytes())
					if r.Status != 200 || perr != nil || !kvpEqual(got, kv.want) {
						report(c05Divergence{Kind: "keyvalues", Case: rc, Node: v, Endpoint: inst + "/keyvalues" + kv.q, Expected: kv.want, Observed: fmt.Sprintf("%d %v %q", r.Status, perr, r.Bytes())})
					}
				}
			}
		}
	}
	// whole-space listings: GET keys, and the store's range methods over the whole key class
	for _, view := range views {
		for v := 1; v <= n; v++ {
			if view.conflict[v-1] {
				continue
			}
			u := s.UUIDs[base+v-1]
			want := append([]string(nil), view.allKeys[v-1]...)
			sort.Strings(want)
			if view.inst != "kvr" {
				r, err := s.N.HTTP("GET", "/api/node/"+u+"/"+view.inst+"/keys", nil)
				must(err, "GET keys")
				atomic.AddInt64(nq, 1)
				got, perr := parseJSONKeys(r.Bytes())
				if r.Status != 200 || perr != nil || !strsEqual(got, want) {
					report(c05Divergence{Kind: "keys", Node: v, Endpoint: view.inst + "/keys", Expected: want, Observed: got, Case: &rangeCase{Par: par}})
				}
			}
			var res struct {
				GetRange []struct{ K, V string } `json:"getrange"`
				Keys     []string               `json:"keys"`
				Sent     []string               `json:"sent"`
				Proc     []struct{ K, V string } `json:"proc"`
				E1       string                 `json:"getrange_err"`
				E2       string                 `json:"keys_err"`
				E3       string                 `json:"sent_err"`
				E4       string                 `json:"proc_err"`
			}
			wArgs := map[string]string{"data": view.inst, "uuid": u, "whole": "true"}
			if view.inst == "kvr" {
				wArgs["raw_ctx"] = "true"
			}
			must(s.N.Call("kv.range", wArgs, &res), "kv.range whole")
			atomic.AddInt64(nq, 1)
			gr := make([]string, len(res.GetRange))
			for i, x := range res.GetRange {
				gr[i] = x.K
			}
			pr := make([]string, len(res.Proc))
			for i, x := range res.Proc {
				pr[i] = x.K
			}
			if res.E1 != "" || res.E2 != "" || res.E3 != "" || res.E4 != "" || !strsEqual(res.Keys, want) || !strsEqual(res.Sent, want) || !strsEqual(gr, want) || !strsEqual(pr, want) {
				report(c05Divergence{Kind: "whole-space", Node: v, Endpoint: view.inst + " store range methods over the whole key class", Expected: want, Observed: res, Case: &rangeCase{Par: par}})
			}
			if view.inst != "kvr" {
				// keyvalue.StreamKV: the same pairs as a stream
				var st []struct{ K, V string }
				must(s.N.Call("kv.stream", map[string]string{"data": view.inst, "uuid": u}, &st), "kv.stream")
				atomic.AddInt64(nq, 1)
				ok := len(st) == len(res.GetRange)
				for i := 0; ok && i < len(st); i++ {
					ok = st[i].K == res.GetRange[i].K && st[i].V == res.GetRange[i].V
				}
				// (under the known finding a key with an empty value is left out of the stream: kv.V == nil)
				if !ok && run.KnownActive(c05EmptyValue) {
					var nonEmpty []struct{ K, V string }
					for _, x := range res.GetRange {
						if x.V != "" {
							nonEmpty = append(nonEmpty, x)
						}
					}
					ok = len(st) == len(nonEmpty)
					for i := 0; ok && i < len(st); i++ {
						ok = st[i] == nonEmpty[i]
					}
					if ok {
						run.ReportKnown(c05EmptyValue)
					}
				}
				if !ok {
					report(c05Divergence{Kind: "whole-space", Node: v, Endpoint: view.inst + " StreamKV", Expected: res.GetRange, Observed: st, Case: &rangeCase{Par: par}})
				}
			}
		}
	}
	run.Eval(fmt.Sprintf("shape%d|%v", shapeIdx, par))
}

// c05Scale is the one sub-case the 3-key families cannot hold: a DeleteRange that spans several
// of the store's write batches (it commits every 1000 keys), a DeleteRange over the whole key
// space, a write over the version's own tombstone afterwards, and the same on an unversioned
// instance.  The claim is KVRange.DeleteRangeClaims with the interval expanded to concrete keys:
// exactly the keys of the interval are absent at d and its descendants, everything else and every
// other version is unchanged.
func c05Scale(c *Ctx, run *ev.Run, nq *int64) {
	n := c.StartNode(node.Config{NoLog: true})
	defer c.DropNode(n)
	const total, lo, hi = 2600, 100, 2599
	key := func(i int) string { return fmt.Sprintf("s%05d", i) }
	var script []string
	do := func(method, url string, body []byte) node.Resp {
		r, err := n.HTTP(method, url, body)
		must(err, method+" "+url)
		script = append(script, fmt.Sprintf("%s %s (%d bytes) -> %d", method, url, len(body), r.Status))
		atomic.AddInt64(nq, 1)
		return r
	}
	okOrInfra := func(r node.Resp, what string) {
		if r.Status != 200 {
			infra("%s: %d %s", what, r.Status, r.Bytes())
		}
	}
	r := do("POST", "/api/repos", []byte(`{"alias":"c05scale"}`))
	var o struct{ Root, Child string }
	if r.Status != 200 || json.Unmarshal(r.Bytes(), &o) != nil {
		infra("new repo: %d %s", r.Status, r.Bytes())
	}
	root := o.Root
	okOrInfra(do("POST", "/api/repo/"+root+"/instance", []byte(`{"typename":"keyvalue","dataname":"kv"}`)), "instance kv")
	okOrInfra(do("POST", "/api/repo/"+root+"/instance", []byte(`{"typename":"keyvalue","dataname":"kvu","versioned":"false"}`)), "instance kvu")
	var batch proto.KeyValues
	for i := 0; i < total; i++ {
		batch.Kvs = append(batch.Kvs, &proto.KeyValue{Key: key(i), Value: []byte(fmt.Sprintf("\"x%d\"", i))})
	}
	body, _ := pb.Marshal(&batch)
	okOrInfra(do("POST", "/api/node/"+root+"/kv/keyvalues", body), "POST keyvalues")
	okOrInfra(do("POST", "/api/node/"+root+"/kvu/keyvalues", body), "POST keyvalues (unversioned)")
	child := func(parent, br string) string {
		okOrInfra(do("POST", "/api/node/"+parent+"/commit", []byte(`{}`)), "commit")
		r := do("POST", "/api/node/"+parent+"/branch", []byte(fmt.Sprintf(`{"branch":%q}`, br)))
		if r.Status != 200 || json.Unmarshal(r.Bytes(), &o) != nil {
			infra("branch: %d %s", r.Status, r.Bytes())
		}
		return o.Child
	}
	report := func(kind, at string, exp, obs interface{}) {
		run.Violation("c05", map[string]interface{}{"part": "scale", "kind": kind, "at": at, "expected": exp, "observed": obs, "script": script})
	}
	// expected key sets, by the claim
	rangeKeys := func(from, to int, except func(int) bool) []string {
		var ks []string
		for i := from; i <= to; i++ {
			if except == nil || !except(i) {
				ks = append(ks, key(i))
			}
		}
		return ks
	}
	checkKeys := func(at, inst, u string, want []string) {
		r := do("GET", "/api/node/"+u+"/"+inst+"/keys", nil)
		got, err := parseJSONKeys(r.Bytes())
		if r.Status != 200 || err != nil || !strsEqual(got, want) {
			report("keys", at, fmt.Sprintf("%d keys", len(want)), fmt.Sprintf("%d: %d keys (first difference near %s)", r.Status, len(got), firstStrDiff(got, want)))
		}
		r = do("GET", "/api/node/"+u+"/"+inst+"/keyrange/"+key(0)+"/"+key(99999), nil)
		got, err = parseJSONKeys(r.Bytes())
		if r.Status != 200 || err != nil || !strsEqual(got, want) {
			report("keyrange", at, fmt.Sprintf("%d keys", len(want)), fmt.Sprintf("%d: %d keys (first difference near %s)", r.Status, len(got), firstStrDiff(got, want)))
		}
		in := map[string]bool{}
		for _, k := range want {
			in[k] = true
		}
		for _, i := range []int{0, lo - 1, lo, lo + 999, lo + 1000, lo + 1999, lo + 2000, hi, total - 1} {
			if i >= total {
				continue
			}
			r := do("GET", "/api/node/"+u+"/"+inst+"/key/"+key(i), nil)
			if in[key(i)] != (r.Status == 200) || (!in[key(i)] && r.Status != 404) {
				report("point-read", at+" "+inst+"/key/"+key(i), map[bool]int{true: 200, false: 404}[in[key(i)]], r.Status)
			}
		}
	}
	all := rangeKeys(0, total-1, nil)
	c1 := child(root, "c1")
	must(n.Call("kv.deleterange", map[string]string{"data": "kv", "uuid": c1, "lo": key(lo), "hi": key(hi)}, nil), "DeleteRange over 2500 keys")
	outside := rangeKeys(0, total-1, func(i int) bool { return i >= lo && i <= hi })
	checkKeys("child after DeleteRange of 2500 keys", "kv", c1, outside)
	checkKeys("root (committed) after DeleteRange at the child", "kv", root, all)
	// a write over the version's own tombstone
	okOrInfra(do("POST", "/api/node/"+c1+"/kv/key/"+key(1000), []byte(`"again"`)), "POST key over own tombstone")
	must(n.Call("kv.putrange", map[string]interface{}{"data": "kv", "uuid": c1, "keys": []string{key(1100), key(1101)}, "values": []string{`"pr"`, `"pr"`}}, nil), "PutRange over own tombstones")
	again := rangeKeys(0, total-1, func(i int) bool { return i >= lo && i <= hi && i != 1000 && i != 1100 && i != 1101 })
	checkKeys("child after writes over its own tombstones", "kv", c1, again)
	if r := do("GET", "/api/node/"+c1+"/kv/key/"+key(1100), nil); r.Status != 200 || string(r.Bytes()) != `"pr"` {
		report("point-read", "child, key written by PutRange over its tombstone", `200:"pr"`, fmt.Sprintf("%d:%s", r.Status, r.Bytes()))
	}
	// whole key space at a grandchild
	c2 := child(c1, "c2")
	must(n.Call("kv.deleterange", map[string]string{"data": "kv", "uuid": c2, "whole": "true"}, nil), "DeleteRange over the whole key space")
	checkKeys("grandchild after DeleteRange of the whole key space", "kv", c2, nil)
	checkKeys("child (committed) after the grandchild's DeleteRange", "kv", c1, again)
	checkKeys("root after the grandchild's DeleteRange", "kv", root, all)
	// unversioned: the keys are removed outright, every version reads the same
	must(n.Call("kv.deleterange", map[string]string{"data": "kvu", "uuid": c2, "lo": key(lo), "hi": key(hi)}, nil), "DeleteRange (unversioned)")
	checkKeys("unversioned instance after DeleteRange, at the grandchild", "kvu", c2, outside)
	checkKeys("unversioned instance after DeleteRange, at the root", "kvu", root, outside)
	run.Eval("scale|deleterange-2500|whole-space|own-tombstone|unversioned")
	run.Set("scale_case", fmt.Sprintf("%d keys, DeleteRange over %d keys (3 store batches), whole-space DeleteRange, POST key and PutRange over own tombstones, unversioned DeleteRange", total, hi-lo+1))
}

func firstStrDiff(a, b []string) string {
	for i := 0; i < len(a) && i < len(b); i++ {
		if a[i] != b[i] {
			return a[i] + " / " + b[i]
		}
	}
	if len(a) > len(b) {
		return a[len(b)]
	}
	if len(b) > len(a) {
		return b[len(a)]
	}
	return "-"
}

func checkC05(c *Ctx) int {
	run := ev.NewRun("C05", c.Tier, "model_checking")
	t0 := time.Now()
	rng := rand.New(rand.NewSource(c.Seed))
	// shapes from the KVShapes specification
	var shapes [][][]int
	var states, trans int64
	for _, n := range []int{3, 4} {
		shs, r := emitShapes(c, n, 3, false)
		states += r.Distinct
		trans += r.Generated
		for _, sh := range shs {
			shapes = append(shapes, sh.Par)
		}
	}
	if c.thorough() {
		shs, r := emitShapes(c, 5, 3, false)
		states += r.Distinct
		trans += r.Generated
		perm := rng.Perm(len(shs))
		for _, i := range perm[:300] {
			shapes = append(shapes, shs[i].Par)
		}
	}
	fams := c.pick(16, 40)
	var all []*rangeCase
	byShape := make([][]*rangeCase, len(shapes))
	for si, par := range shapes {
		n := len(par)
		for f := 0; f < fams; f++ {
			rc := &rangeCase{Par: par, Fam: []int{rng.Intn(pow3(n)), rng.Intn(pow3(n)), rng.Intn(pow3(n))}}
			if f%2 == 1 {
				rc.D = 1 + rng.Intn(n)
				rc.Lo = 1 + rng.Intn(len(c05Endpoints))
				rc.Hi = rc.Lo + rng.Intn(len(c05Endpoints)-rc.Lo+1)
				if f%4 == 3 {
					for j := 1; j <= 3; j++ {
						if rng.Intn(2) == 0 {
							rc.W = append(rc.W, j)
						}
					}
				}
			}
			all = append(all, rc)
			byShape[si] = append(byShape[si], rc)
		}
	}
	s2, t2 := evalRangeCases(c, all)
	states += s2
	trans += t2
	skipped := 0
	for si := range byShape {
		var keep []*rangeCase
		for _, rc := range byShape[si] {
			if rc.DRFails {
				skipped++
				continue
			}
			keep = append(keep, rc)
		}
		byShape[si] = keep
	}
	run.Set("cases_skipped_conflict_inside_deleterange_interval", skipped)
	var nq int64
	workers := 16
	ws := make([]*dagWorker, workers)
	for i := range ws {
		ws[i] = &dagWorker{c: c, every: 30, cfg: node.Config{}}
	}
	defer func() {
		for _, w := range ws {
			w.close()
		}
	}()
	parallel(len(shapes), workers, func(wi, si int) {
		c05Shape(c, run, ws[wi].sess(), shapes[si], byShape[si], &nq, si)
	})
	c05Scale(c, run, &nq)
	if len(all) > 0 {
		run.Sample(all[1])
		run.Sample(all[3])
	}
	run.Set("states", states)
	run.Set("transitions", trans)
	run.Set("traces_validated_against_impl", nq)
	run.Set("evaluations", nq)
	run.Set("cases", len(all))
	run.Set("rule", fmt.Sprintf("case = DAG shape (all with 3 and 4 nodes; thorough: +300 seeded 5-node shapes) x seeded joint placement of 3 prefix-related keys (a, ab, b) x optional DeleteRange at a node; TLC (KVRange.tla) evaluates the point reads after the DeleteRange and checks the DeleteRange claims; the harness replays each case under its own key family and compares GET key, every interval over endpoints %v through keyrange / keyrangevalues (protobuf, json, tar) / store GetRange, KeysInRange, SendKeysInRange, ProcessRange, plus keys and keyvalues (json, tar, jsontar, protobuf, check=true) and the store methods over the whole key class; inverted intervals must return nothing; per family: writes through POST keyvalues batches, empty values, the same requests on an unversioned instance (oracle KVRange.UReads), writes at d after the DeleteRange through POST key or the store's PutRange (a put over the version's own tombstone; KVRange.RewriteClaims); one scale sub-case (c05Scale) expands the DeleteRange claim to 2500 concrete keys; distinct_nontrivial = distinct shapes", c05Endpoints))
	run.Assume = []string{"range result is defined from the point reads (KVRange.Range)", "intervals containing a key in merge conflict are skipped (the range may fail there)"}
	fmt.Printf("C05: %d shapes x %d families, %d queries compared in %.1fs; violations=%d\n", len(shapes), fams, nq, since(t0), run.Violations())
	return run.Finish()
}
