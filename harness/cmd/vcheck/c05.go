package main

import (
	"archive/tar"
	"bytes"
	"encoding/json"
	"fmt"
	"io"
	"math/rand"
	"sort"
	"strings"
	"sync/atomic"
	"time"

	pb "google.golang.org/protobuf/proto"

	"github.com/janelia-flyem/dvid/datatype/common/proto"

	"verifharness/internal/dagm"
	"verifharness/internal/ev"
	"verifharness/internal/node"
	"verifharness/internal/tlc"
)

func init() { checks["C05"] = checkC05 }

// Interval endpoints (ascending) and the positions of the three prefix-related keys.
var c05Endpoints = []string{"0", "a", "aa", "ab", "b", "c"}
var c05KeyPos = []int{2, 4, 5} // "a", "ab", "b"

type rangeCase struct {
	Par [][]int `json:"par"`
	Fam []int   `json:"fam"` // placement number per key
	D   int     `json:"d"`   // node of DeleteRange (0 = none)
	Lo  int     `json:"lo"`
	Hi  int     `json:"hi"`
	// filled from TLC
	Reads [][]int `json:"reads"` // [node-1][key-1] -> node whose value is read / 0 / -1
	// DRFails: a key of the DeleteRange interval is in merge conflict at d; the outcome of such a
	// DeleteRange is outside the property (the store deletes the keys scanned before the conflict
	// and reports success), so the case is not replayed
	DRFails bool `json:"drfails"`
}

func tlaSeqInts(a []int) string {
	s := make([]string, len(a))
	for i, x := range a {
		s[i] = fmt.Sprint(x)
	}
	return "<<" + strings.Join(s, ", ") + ">>"
}

func tlaPar(par [][]int) string {
	s := make([]string, len(par))
	for i, p := range par {
		s[i] = tlaSeqInts(p)
	}
	return "<<" + strings.Join(s, ", ") + ">>"
}

// evalRangeCases lets TLC evaluate the expected point reads of every case (after the
// case's DeleteRange) and check the DeleteRange claims of the property.
func evalRangeCases(c *Ctx, cases []*rangeCase) (states, trans int64) {
	const batch = 2500
	for off := 0; off < len(cases); off += batch {
		end := off + batch
		if end > len(cases) {
			end = len(cases)
		}
		var sb strings.Builder
		fmt.Fprintf(&sb, "---- MODULE KVRangeCases ----\nKeyPosDef == %s\nCases == <<\n", tlaSeqInts(c05KeyPos))
		for i, rc := range cases[off:end] {
			if i > 0 {
				sb.WriteString(",\n")
			}
			fmt.Fprintf(&sb, "[par |-> %s, fam |-> %s, d |-> %d, lo |-> %d, hi |-> %d]", tlaPar(rc.Par), tlaSeqInts(rc.Fam), rc.D, rc.Lo, rc.Hi)
		}
		sb.WriteString("\n>>\n====\n")
		cfg := fmt.Sprintf("SPECIFICATION Spec\nCONSTANTS\n  KeyPos <- KeyPosDef\n  NumEndpoints = %d\n  LastFoundBug = FALSE\nINVARIANTS AllClaims Emit\nCHECK_DEADLOCK FALSE\n",
			len(c05Endpoints))
		r := c.MustModelCheck(tlc.Opts{Module: "KVRange_mc", Config: "gen_range.cfg", Workers: 1,
			Files:   map[string][]byte{"KVRangeCases.tla": []byte(sb.String()), "gen_range.cfg": []byte(cfg)},
			Timeout: 20 * time.Minute, Xss: "256m"})
		states += r.Distinct
		trans += r.Generated
		got := false
		PrintedJSON(r.Output, func(raw []byte) {
			var out []struct {
				Reads   [][]int `json:"reads"`
				DRFails bool    `json:"drfails"`
			}
			if err := json.Unmarshal(raw, &out); err != nil || len(out) != end-off {
				return
			}
			for i := range out {
				cases[off+i].Reads = out[i].Reads
				cases[off+i].DRFails = out[i].DRFails
			}
			got = true
		})
		if !got {
			infra("KVRange emitted nothing: %s", r.Tail(1500))
		}
	}
	return
}

type c05Divergence struct {
	Kind     string      `json:"kind"`
	Case     *rangeCase  `json:"case"`
	Node     int         `json:"query_node"`
	Interval [2]string   `json:"interval"`
	Endpoint string      `json:"endpoint"`
	Expected interface{} `json:"expected"`
	Observed interface{} `json:"observed"`
	Script   []dagm.Step `json:"script,omitempty"`
}

func famKey(f int, name string) string { return fmt.Sprintf("f%03d:%s", f, name) }

type kvp struct{ K, V string }

func c05Value(k int) string { return fmt.Sprintf("\"v%d\"", k) } // valid JSON so that json=true output parses

// parse helpers for the response formats
func parseJSONKeys(b []byte) ([]string, error) {
	var ks []string
	if len(bytes.TrimSpace(b)) == 0 || string(bytes.TrimSpace(b)) == "null" {
		return nil, nil
	}
	err := json.Unmarshal(b, &ks)
	return ks, err
}

func parseJSONObjOrdered(b []byte) ([]kvp, error) {
	dec := json.NewDecoder(bytes.NewReader(b))
	tok, err := dec.Token()
	if err != nil {
		return nil, err
	}
	if d, ok := tok.(json.Delim); !ok || d != '{' {
		return nil, fmt.Errorf("not an object")
	}
	var out []kvp
	for dec.More() {
		kt, err := dec.Token()
		if err != nil {
			return nil, err
		}
		var raw json.RawMessage
		if err := dec.Decode(&raw); err != nil {
			return nil, err
		}
		out = append(out, kvp{kt.(string), string(raw)})
	}
	return out, nil
}

func parseTar(b []byte) ([]kvp, error) {
	tr := tar.NewReader(bytes.NewReader(b))
	var out []kvp
	for {
		h, err := tr.Next()
		if err == io.EOF {
			return out, nil
		}
		if err != nil {
			return out, err
		}
		v, err := io.ReadAll(tr)
		if err != nil {
			return out, err
		}
		out = append(out, kvp{h.Name, string(v)})
	}
}

func parseProtoKVs(b []byte) ([]kvp, error) {
	var kvs proto.KeyValues
	if err := pb.Unmarshal(b, &kvs); err != nil {
		return nil, err
	}
	var out []kvp
	for _, kv := range kvs.Kvs {
		out = append(out, kvp{kv.Key, string(kv.Value)})
	}
	return out, nil
}

func kvpEqual(a, b []kvp) bool {
	if len(a) != len(b) {
		return false
	}
	for i := range a {
		if a[i] != b[i] {
			return false
		}
	}
	return true
}

func strsEqual(a, b []string) bool {
	if len(a) != len(b) {
		return false
	}
	for i := range a {
		if a[i] != b[i] {
			return false
		}
	}
	return true
}

// c05Shape replays all cases that share one DAG shape.
func c05Shape(c *Ctx, run *ev.Run, s *dagm.Sess, par [][]int, cases []*rangeCase, nq *int64, shapeIdx int) {
	names := []string{"a", "ab", "b"}
	n := len(par)
	err := s.BuildShape(par, func(k int) error {
		if k == 1 {
			if err := s.NewInstance(1, "keyvalue", "kv", nil); err != nil {
				return err
			}
		}
		u := s.NodeUUID(len(s.UUIDs))
		for f, rc := range cases {
			for j, name := range names {
				switch digit(rc.Fam[j], k) {
				case 1:
					r, err := s.N.HTTP("POST", "/api/node/"+u+"/kv/key/"+famKey(f, name), []byte(c05Value(k)))
					if err != nil {
						return err
					}
					if r.Status != 200 {
						return fmt.Errorf("POST key: %d %s", r.Status, r.Bytes())
					}
				case 2:
					r, err := s.N.HTTP("DELETE", "/api/node/"+u+"/kv/key/"+famKey(f, name), nil)
					if err != nil {
						return err
					}
					if r.Status != 200 {
						return fmt.Errorf("DELETE key: %d %s", r.Status, r.Bytes())
					}
				}
			}
			if rc.D == k {
				err := s.N.Call("kv.deleterange", map[string]string{"data": "kv", "uuid": u,
					"lo": famKey(f, c05Endpoints[rc.Lo-1]), "hi": famKey(f, c05Endpoints[rc.Hi-1])}, nil)
				if err != nil {
					if _, isCall := err.(*node.CallError); !isCall {
						return err
					}
					// a DeleteRange may fail only if a key of the interval is in conflict at d
					conflict := false
					for j := range names {
						if rc.Reads[k-1][j] == -1 {
							conflict = true
						}
					}
					if !conflict {
						run.Violation("c05", c05Divergence{Kind: "deleterange-failed", Case: rc, Node: k, Observed: err.Error()})
					}
				}
			}
		}
		return nil
	})
	must(err, "build shape")
	base := len(s.UUIDs) - n
	report := func(d c05Divergence) {
		d.Script = nil
		run.Violation("c05", d)
	}
	allKeysWant := make([][]string, n) // for GET keys (whole space) per node
	conflictAny := make([]bool, n)
	for f, rc := range cases {
		for v := 1; v <= n; v++ {
			u := s.UUIDs[base+v-1]
			reads := rc.Reads[v-1]
			// point reads first: the range oracle is defined from them
			for j, name := range names {
				r, err := s.N.HTTP("GET", "/api/node/"+u+"/kv/key/"+famKey(f, name), nil)
				must(err, "GET key")
				atomic.AddInt64(nq, 1)
				ok := (reads[j] == 0 && r.Status == 404) || (reads[j] == -1 && r.Status != 200) ||
					(reads[j] > 0 && r.Status == 200 && string(r.Bytes()) == c05Value(reads[j]))
				if !ok {
					report(c05Divergence{Kind: "point-read", Case: rc, Node: v, Endpoint: "key/" + name, Expected: reads[j], Observed: fmt.Sprintf("%d:%s", r.Status, r.Bytes())})
				}
				if reads[j] > 0 {
					allKeysWant[v-1] = append(allKeysWant[v-1], famKey(f, name))
				}
				if reads[j] == -1 {
					conflictAny[v-1] = true
				}
			}
			// every interval
			for lo := 1; lo <= len(c05Endpoints); lo++ {
				for hi := lo; hi <= len(c05Endpoints); hi++ {
					var wantK []string
					var wantKV []kvp
					conflict := false
					for j, name := range names {
						if c05KeyPos[j] < lo || c05KeyPos[j] > hi {
							continue
						}
						if reads[j] == -1 {
							conflict = true
						}
						if reads[j] > 0 {
							wantK = append(wantK, famKey(f, name))
							wantKV = append(wantKV, kvp{famKey(f, name), c05Value(reads[j])})
						}
					}
					if conflict {
						continue // a conflicted key in the interval may make the range fail
					}
					klo, khi := famKey(f, c05Endpoints[lo-1]), famKey(f, c05Endpoints[hi-1])
					iv := [2]string{klo, khi}
					// rotate the endpoint variants so that each (case, node, interval) runs two of them
					sel := (f + v + lo*7 + hi) % 3
					type variant struct {
						name string
						run  func() (interface{}, bool, error)
					}
					httpKV := func(q string, parse func([]byte) ([]kvp, error)) func() (interface{}, bool, error) {
						return func() (interface{}, bool, error) {
							r, err := s.N.HTTP("GET", "/api/node/"+u+"/kv/keyrangevalues/"+klo+"/"+khi+q, nil)
							if err != nil {
								return nil, false, err
							}
							if r.Status != 200 {
								return fmt.Sprintf("status %d %s", r.Status, r.Bytes()), false, nil
							}
							got, perr := parse(r.Bytes())
							if perr != nil {
								return fmt.Sprintf("unparsable: %v", perr), false, nil
							}
							return got, kvpEqual(got, wantKV), nil
						}
					}
					variants := []variant{
						{"keyrange", func() (interface{}, bool, error) {
							r, err := s.N.HTTP("GET", "/api/node/"+u+"/kv/keyrange/"+klo+"/"+khi, nil)
							if err != nil {
								return nil, false, err
							}
							if r.Status != 200 {
								return fmt.Sprintf("status %d", r.Status), false, nil
							}
							got, perr := parseJSONKeys(r.Bytes())
							if perr != nil {
								return string(r.Bytes()), false, nil
							}
							return got, strsEqual(got, wantK), nil
						}},
						{"keyrangevalues(protobuf)", httpKV("", parseProtoKVs)},
						{"keyrangevalues?json=true", httpKV("?json=true", parseJSONObjOrdered)},
						{"keyrangevalues?tar=true", httpKV("?tar=true", parseTar)},
						{"store-range-methods", func() (interface{}, bool, error) {
							var res struct {
								GetRange []struct{ K, V string } `json:"getrange"`
								Keys     []string               `json:"keys"`
								Sent     []string               `json:"sent"`
								Proc     []struct{ K, V string } `json:"proc"`
								E1       string                 `json:"getrange_err"`
								E2       string                 `json:"keys_err"`
								E3       string                 `json:"sent_err"`
								E4       string                 `json:"proc_err"`
							}
							err := s.N.Call("kv.range", map[string]string{"data": "kv", "uuid": u, "lo": klo, "hi": khi}, &res)
							if err != nil {
								return nil, false, err
							}
							ok := res.E1 == "" && res.E2 == "" && res.E3 == "" && res.E4 == "" &&
								strsEqual(res.Keys, wantK) && strsEqual(res.Sent, wantK) && len(res.GetRange) == len(wantKV) && len(res.Proc) == len(wantKV)
							if ok {
								for i := range wantKV {
									if res.GetRange[i].K != wantKV[i].K || res.GetRange[i].V != wantKV[i].V || res.Proc[i].K != wantKV[i].K || res.Proc[i].V != wantKV[i].V {
										ok = false
									}
								}
							}
							return res, ok, nil
						}},
					}
					picks := []int{sel, 3 + (f+v+lo+hi)%2}
					if lo == 1 && hi == len(c05Endpoints) {
						picks = []int{0, 1, 2, 3, 4}
					}
					for _, pi := range picks {
						vr := variants[pi]
						got, ok, err := vr.run()
						must(err, vr.name)
						atomic.AddInt64(nq, 1)
						if !ok {
							report(c05Divergence{Kind: "range", Case: rc, Node: v, Interval: iv, Endpoint: vr.name, Expected: wantKV, Observed: got})
						}
					}
				}
			}
			// GET keyvalues on the three keys (json): found keys must carry their value
			if (f+v)%4 == 0 {
				body, _ := json.Marshal([]string{famKey(f, "a"), famKey(f, "ab"), famKey(f, "b")})
				r, err := s.N.HTTP("GET", "/api/node/"+u+"/kv/keyvalues?json=true", body)
				must(err, "keyvalues")
				atomic.AddInt64(nq, 1)
				conflict := reads[0] == -1 || reads[1] == -1 || reads[2] == -1
				if !conflict {
					got, perr := parseJSONObjOrdered(r.Bytes())
					ok := r.Status == 200 && perr == nil && len(got) == 3
					if ok {
						for j := range names {
							want := "{}"
							if reads[j] > 0 {
								want = c05Value(reads[j])
							}
							if got[j].V != want {
								ok = false
							}
						}
					}
					if !ok {
						report(c05Divergence{Kind: "keyvalues", Case: rc, Node: v, Endpoint: "keyvalues?json=true", Expected: reads, Observed: string(r.Bytes())})
					}
				}
			}
		}
	}
	// whole-space listing: GET keys
	for v := 1; v <= n; v++ {
		if conflictAny[v-1] {
			continue
		}
		u := s.UUIDs[base+v-1]
		r, err := s.N.HTTP("GET", "/api/node/"+u+"/kv/keys", nil)
		must(err, "GET keys")
		atomic.AddInt64(nq, 1)
		got, perr := parseJSONKeys(r.Bytes())
		want := append([]string(nil), allKeysWant[v-1]...)
		sort.Strings(want)
		if r.Status != 200 || perr != nil || !strsEqual(got, want) {
			report(c05Divergence{Kind: "keys", Node: v, Endpoint: "keys", Expected: want, Observed: got, Case: &rangeCase{Par: par}})
		}
	}
	run.Eval(fmt.Sprintf("shape%d|%v", shapeIdx, par))
}

func checkC05(c *Ctx) int {
	run := ev.NewRun("C05", c.Tier, "model_checking")
	t0 := time.Now()
	rng := rand.New(rand.NewSource(c.Seed))
	// shapes from the KVShapes specification
	var shapes [][][]int
	var states, trans int64
	for _, n := range []int{3, 4} {
		shs, r := emitShapes(c, n, 3, false)
		states += r.Distinct
		trans += r.Generated
		for _, sh := range shs {
			shapes = append(shapes, sh.Par)
		}
	}
	if c.thorough() {
		shs, r := emitShapes(c, 5, 3, false)
		states += r.Distinct
		trans += r.Generated
		perm := rng.Perm(len(shs))
		for _, i := range perm[:300] {
			shapes = append(shapes, shs[i].Par)
		}
	}
	fams := c.pick(16, 40)
	var all []*rangeCase
	byShape := make([][]*rangeCase, len(shapes))
	for si, par := range shapes {
		n := len(par)
		for f := 0; f < fams; f++ {
			rc := &rangeCase{Par: par, Fam: []int{rng.Intn(pow3(n)), rng.Intn(pow3(n)), rng.Intn(pow3(n))}}
			if f%2 == 1 {
				rc.D = 1 + rng.Intn(n)
				rc.Lo = 1 + rng.Intn(len(c05Endpoints))
				rc.Hi = rc.Lo + rng.Intn(len(c05Endpoints)-rc.Lo+1)
			}
			all = append(all, rc)
			byShape[si] = append(byShape[si], rc)
		}
	}
	s2, t2 := evalRangeCases(c, all)
	states += s2
	trans += t2
	skipped := 0
	for si := range byShape {
		var keep []*rangeCase
		for _, rc := range byShape[si] {
			if rc.DRFails {
				skipped++
				continue
			}
			keep = append(keep, rc)
		}
		byShape[si] = keep
	}
	run.Set("cases_skipped_conflict_inside_deleterange_interval", skipped)
	var nq int64
	workers := 16
	ws := make([]*dagWorker, workers)
	for i := range ws {
		ws[i] = &dagWorker{c: c, every: 30, cfg: node.Config{}}
	}
	defer func() {
		for _, w := range ws {
			w.close()
		}
	}()
	parallel(len(shapes), workers, func(wi, si int) {
		c05Shape(c, run, ws[wi].sess(), shapes[si], byShape[si], &nq, si)
	})
	if len(all) > 0 {
		run.Sample(all[1])
	}
	run.Set("states", states)
	run.Set("transitions", trans)
	run.Set("traces_validated_against_impl", nq)
	run.Set("evaluations", nq)
	run.Set("cases", len(all))
	run.Set("rule", fmt.Sprintf("case = DAG shape (all with 3 and 4 nodes; thorough: +300 seeded 5-node shapes) x seeded joint placement of 3 prefix-related keys (a, ab, b) x optional DeleteRange at a node; TLC (KVRange.tla) evaluates the point reads after the DeleteRange and checks the DeleteRange claims; the harness replays each case under its own key family and compares GET key, every interval over endpoints %v through keyrange / keyrangevalues (protobuf, json, tar) / store GetRange, KeysInRange, SendKeysInRange, ProcessRange, plus keys and keyvalues; distinct_nontrivial = distinct shapes", c05Endpoints))
	run.Assume = []string{"range result is defined from the point reads (KVRange.Range)", "intervals containing a key in merge conflict are skipped (the range may fail there)"}
	fmt.Printf("C05: %d shapes x %d families, %d queries compared in %.1fs; violations=%d\n", len(shapes), fams, nq, since(t0), run.Violations())
	return run.Finish()
}
