package main

import (
	"encoding/binary"
	"encoding/json"
	"fmt"
	"strings"
	"time"

	pb "google.golang.org/protobuf/proto"

	"github.com/janelia-flyem/dvid/datatype/common/proto"

	"verifharness/internal/node"
)

// Growth of C12: identifier traces with
//   - client-chosen body labels through POST mappings (they are present afterwards: "present" events
//     observed in the mapped volume), then allocations,
//   - an administrator repositioning the label counter (POST set-nextlabel, "reposition" events),
//     allocations, restarts and crashes in that mode,
//   - a second repo on the same server (its own mutation ids, server-wide version / instance ids),
//   - restarts placed from the store-write trace so that they straddle the writes of the
//     mutation-id stride (just before the allocation that writes, just after the write),
//   - merge versions, random instance ids.

// second opens a second repo with its own labelmap instance on the node of d; its events go
// into d's trace.
func (d *idsDriver) second() *idsDriver {
	e := &idsDriver{c: d.c, n: d.n, name: "seg2", rk: "r2", sink: d}
	e.open()
	return e
}

// observeMapped reads the volume with the body labels applied and records the largest label a
// client can see there.
func (d *idsDriver) observeMapped(by string) uint64 {
	g := d.in.G
	url := fmt.Sprintf("/api/node/%s/%s/raw/0_1_2/%d_%d_%d/%d_%d_%d", d.cur, d.name, g.Size[0], g.Size[1], g.Size[2], g.Min[0], g.Min[1], g.Min[2])
	r, err := d.n.HTTP("GET", url, nil)
	must(err, "read mapped volume")
	if r.Status != 200 {
		infra("GET raw (mapped): %d %.200s", r.Status, r.Bytes())
	}
	vol := r.Bytes()
	var mx uint64
	for i := 0; i+8 <= len(vol); i += 8 {
		if l := binary.LittleEndian.Uint64(vol[i:]); l > mx {
			mx = l
		}
	}
	d.ev(idEvent{"ev": "present", "inst": d.name, "max": mx, "by": by})
	d.noteLabel(mx)
	return mx
}

// postMappings maps supervoxels to a body label the client chose.
func (d *idsDriver) postMappings(body uint64, svs []uint64) bool {
	ops := &proto.MappingOps{Mappings: []*proto.MappingOp{{Mapped: body, Original: svs}}}
	b, err := pb.Marshal(ops)
	must(err, "marshal mappings")
	r, err := d.n.HTTP("POST", "/api/node/"+d.cur+"/"+d.name+"/mappings", b)
	if err == node.ErrDead {
		d.dead = true
		return false
	}
	must(err, "POST mappings")
	return r.Status == 200
}

// reposition = POST set-nextlabel/<to>: the next label handed out is to+1.
func (d *idsDriver) reposition(to uint64) bool {
	r, err := d.n.HTTP("POST", fmt.Sprintf("/api/node/%s/%s/set-nextlabel/%d", d.cur, d.name, to), nil)
	if err == node.ErrDead {
		d.dead = true
		return false
	}
	must(err, "set-nextlabel")
	if r.Status != 200 {
		infra("set-nextlabel/%d refused: %d %s", to, r.Status, r.Bytes())
	}
	d.ev(idEvent{"ev": "reposition", "inst": d.name, "to": to})
	return true
}

// gap returns how many mutation ids the repo can still hand out before the next stride write
// (SavedMutationID - MutationID of the repo info).
func (d *idsDriver) gap() int {
	r, err := d.n.HTTP("GET", "/api/repo/"+d.root+"/info", nil)
	must(err, "repo info")
	var ri struct{ MutationID, SavedMutationID uint64 }
	must(json.Unmarshal(r.Bytes(), &ri), "repo info JSON")
	if ri.SavedMutationID < ri.MutationID {
		return -1
	}
	return int(ri.SavedMutationID - ri.MutationID)
}

// burn hands out n mutation ids of the repo at once (datastore.NewMutationID through the data
// instance, as every mutating request does) and records the first and the last.
func (d *idsDriver) burn(n int) {
	if n <= 0 {
		return
	}
	var o struct{ First, Last uint64 }
	must(d.n.Call("mgr.mutids", map[string]interface{}{"UUID": d.cur, "Name": d.name, "N": n}, &o), "mgr.mutids")
	d.ev(idEvent{"ev": "mut", "repo": d.rk, "id": o.First, "by": "NewMutationID"})
	if o.Last != o.First {
		d.ev(idEvent{"ev": "mut", "repo": d.rk, "id": o.Last, "by": "NewMutationID"})
	}
}

// mutWrites takes the store-write trace of the node and counts the writes of the mutation-id key.
func mutWrites(n *node.Node) int {
	raw, err := n.WTrace(false)
	must(err, "wtrace")
	var ws []struct {
		Class string `json:"class"`
	}
	json.Unmarshal(raw, &ws)
	k := 0
	for _, w := range ws {
		if w.Class == "MUT" {
			k++
		}
	}
	return k
}

// allocStep: one allocating request that always succeeds on a fresh driver state.
func (d *idsDriver) allocStep(i int) {
	switch i % 3 {
	case 0:
		if !d.post("cleave", "/cleave/10", []byte(fmt.Sprintf("[%d]", 11+uint64(i/3)%4))) && !d.dead {
			d.post("cleave", "/cleave/10", []byte("[14]"))
		}
	case 1:
		if len(d.cleaved) > 0 {
			b := d.cleaved[len(d.cleaved)-1]
			d.cleaved = d.cleaved[:len(d.cleaved)-1]
			d.post("merge", "/merge", []byte(fmt.Sprintf("[10,%d]", b)))
		} else {
			d.post("nextlabel", "/nextlabel/1", nil)
		}
	case 2:
		d.post("nextlabel", fmt.Sprintf("/nextlabel/%d", 1+i%3), nil)
	}
}

func c12Growth(c *Ctx, add func(name string, evs []idEvent), violation func(v map[string]interface{})) map[string]interface{} {
	stats := map[string]interface{}{}

	// (g1) client-chosen body labels: POST mappings, observe, allocate; again across a restart
	{
		d := &idsDriver{c: c}
		d.start(node.Config{})
		for round := 0; round < c.pick(2, 5); round++ {
			body := d.maxPresent + 3 + uint64(round)*7
			sv := uint64(11 + round%4)
			if !d.postMappings(body, []uint64{sv}) {
				infra("POST mappings refused")
			}
			if seen := d.observeMapped("mappings"); seen < body {
				infra("body label %d chosen through POST mappings is not visible in the mapped volume (max %d)", body, seen)
			}
			if round%2 == 1 {
				d.restart(round%4 == 1)
			}
			d.post("nextlabel", "/nextlabel/2", nil)
			// give the supervoxel back to body 10 so that later cleaves find it there
			d.postMappings(10, []uint64{sv})
			d.post("cleave", "/cleave/10", []byte(fmt.Sprintf("[%d]", 11+(round+1)%4)))
		}
		add("client-chosen-body-labels", d.events)
		c.DropNode(d.n)
	}

	// (g2) the label counter repositioned by an administrator: above everything present and below
	// it; allocations, an ingest of higher labels, restarts (clean / killed) and a crash at the
	// write of the next-label key
	for variant := 0; variant < 2; variant++ {
		d := &idsDriver{c: c}
		d.start(node.Config{})
		for i := 0; i < 4; i++ {
			d.allocStep(i)
		}
		to := d.maxPresent + 1000
		if variant == 1 {
			to = 5 // below the labels present: later labels collide by the administrator's choice, still increasing
		}
		d.reposition(to)
		for i := 0; i < 5; i++ {
			d.allocStep(i)
		}
		d.ingestHigher(true)
		// the last allocation before the restart is a single label (cleave), before the next one a range
		if !d.post("cleave", "/cleave/10", []byte("[12]")) && !d.dead {
			d.post("cleave", "/cleave/10", []byte("[14]"))
		}
		d.restart(true)
		for i := 2; i < 6; i++ {
			d.allocStep(i)
		}
		d.post("nextlabel", "/nextlabel/2", nil)
		d.restart(false)
		d.allocStep(2)
		// crash before / after the next write of the next-label key (class 239)
		d.n.WTrace(true)
		d.allocStep(5)
		raw, _ := d.n.WTrace(false)
		var ws []struct {
			N   uint64 `json:"n"`
			TKC int    `json:"tkc"`
		}
		json.Unmarshal(raw, &ws)
		nNext := 0
		for _, w := range ws {
			if w.TKC == 239 {
				nNext++
			}
		}
		if nNext == 0 {
			infra("an allocation in next-label mode did not write the next-label key")
		}
		stats["nextlabel_key_writes_per_allocation"] = nNext
		// the same request again with the process exiting at its first store write (after it for variant 1)
		d.n.Arm(1, variant == 1)
		d.allocStep(5)
		if d.dead || !d.n.Alive() {
			d.n.WaitExit(10 * time.Second)
			d.ev(idEvent{"ev": "crash", "at": "first write of an allocation in next-label mode", "after": variant == 1})
			if err := d.n.Restart(false); err != nil {
				violation(map[string]interface{}{"kind": "startup-failed-after-crash", "error": err.Error()})
				add(fmt.Sprintf("nextlabel-mode-%d", variant), d.events)
				continue
			}
			d.dead = false
			d.cleaved = nil
		}
		for i := 0; i < 6; i++ {
			d.allocStep(i)
		}
		add(fmt.Sprintf("nextlabel-mode-%d", variant), d.events)
		c.DropNode(d.n)
	}

	// (g3) two repos on one server; restarts that straddle the stride writes of the mutation id.
	// The store-write trace tells when the mutation-id key was written (class MUT); the repo info
	// tells how many ids are left before the next write.
	{
		d := &idsDriver{c: c}
		d.start(node.Config{Env: []string{"VERIF_WTRACE=1"}})
		e := d.second()
		mutWrites(d.n)
		type placement struct {
			gap   int  // restart when this many ids are left before the write (0: right after a write was seen)
			clean bool // clean stop or SIGKILL
		}
		var pls []placement
		for _, g := range []int{2, 1, 0, -1} { // -1: one allocation after the write
			pls = append(pls, placement{g, true}, placement{g, false})
		}
		if !c.thorough() {
			pls = []placement{{1, false}, {0, true}, {0, false}, {-1, true}, {2, true}}
		}
		straddled := 0
		var placed []string
		for pi, pl := range pls {
			for _, x := range []*idsDriver{d, e} {
				// fast-forward both repos to 3 ids before their next stride write
				if g := x.gap(); g > 3 {
					x.burn(g - 3)
				}
			}
			mutWrites(d.n)
			// the repo whose stride write is straddled: the first and the second repo take turns
			tgt, oth := d, e
			if pi%2 == 1 {
				tgt, oth = e, d
			}
			sawWrite, after := false, 0
			gPrev := tgt.gap()
			for i := 0; i < 40; i++ {
				x := tgt
				if i%2 == 1 {
					x = oth // both repos keep allocating
				}
				x.allocStep(i/2 + pi)
				w := mutWrites(d.n)
				g := tgt.gap()
				if x == tgt {
					if g > gPrev { // the saved id moved ahead: this step wrote the mutation-id key
						if w == 0 {
							infra("SavedMutationID moved ahead without a write of the mutation-id key in the store-write trace")
						}
						sawWrite = true
					} else if sawWrite {
						after++
					}
				}
				gPrev = g
				stop := false
				switch {
				case pl.gap > 0:
					stop = !sawWrite && g <= pl.gap
				case pl.gap == 0:
					stop = sawWrite
				default:
					stop = sawWrite && after >= 1
				}
				if stop {
					break
				}
			}
			if pl.gap <= 0 && !sawWrite {
				infra("no mutation-id write seen in 40 steps from 3 ids before the stride boundary")
			}
			straddled++
			placed = append(placed, fmt.Sprintf("repo %s, ids left before its stride write: wanted %d (0 = just written, -1 = one allocation later), r %d, r2 %d, clean=%v", tgt.rk, pl.gap, d.gap(), e.gap(), pl.clean))
			d.restart(pl.clean)
			for i := 0; i < 4; i++ {
				d.allocStep(i)
				e.allocStep(i + 1)
			}
		}
		// version ids of a tag, of branches and of a merge version in both repos, after all these restarts
		tags := 0
		for _, x := range []*idsDriver{d, e} {
			r, err := x.n.HTTP("POST", "/api/node/"+x.cur+"/commit", []byte(`{}`))
			must(err, "commit")
			if r.Status != 200 {
				continue
			}
			// a tag = a committed child version whose UUID is the tag string
			if r, err = x.n.HTTP("POST", "/api/node/"+x.cur+"/tag", []byte(fmt.Sprintf(`{"tag":"tagof%s","note":"tagged"}`, x.rk))); err == nil && r.Status == 200 {
				tags++
			}
			var kids []string
			for _, b := range []string{"ma", "mb"} {
				r, err = x.n.HTTP("POST", "/api/node/"+x.cur+"/branch", []byte(fmt.Sprintf(`{"branch":"%s%s"}`, b, x.rk)))
				must(err, "branch")
				var o struct{ Child string }
				json.Unmarshal(r.Bytes(), &o)
				if o.Child != "" {
					kids = append(kids, o.Child)
					x.n.HTTP("POST", "/api/node/"+o.Child+"/commit", []byte(`{}`))
				}
			}
			x.recordVersions()
			if len(kids) == 2 {
				body := fmt.Sprintf(`{"mergeType":"conflict-free","parents":["%s","%s"],"note":"merged"}`, kids[0], kids[1])
				r, err = x.n.HTTP("POST", "/api/repo/"+x.root+"/merge", []byte(body))
				must(err, "merge versions")
				if r.Status == 200 {
					stats["merge_versions"] = 1
				}
				d.restart(x == d)
				x.recordVersions()
			}
		}
		stats["tag_versions"] = tags
		stats["stride_straddling_restarts"] = straddled
		stats["stride_restart_placements"] = placed
		add("two-repos-stride-straddle", d.events)
		c.DropNode(d.n)
	}

	// (g4) instance ids drawn at random (instance_id_gen = "random"), across deletions and restarts
	{
		d := &idsDriver{c: c}
		d.start(node.Config{IIDGen: "random"})
		for k := 0; k < c.pick(4, 10); k++ {
			name := fmt.Sprintf("rnd%d", k)
			r, err := d.n.HTTP("POST", "/api/repo/"+d.root+"/instance", []byte(fmt.Sprintf(`{"typename":"keyvalue","dataname":%q}`, name)))
			must(err, "new instance")
			if r.Status != 200 {
				infra("new instance refused: %d %s", r.Status, r.Bytes())
			}
			d.recordInstance(name)
			if k%2 == 1 {
				d.restart(k%4 == 1)
			}
		}
		var ids []string
		for _, ev := range d.events {
			if ev["ev"] == "instance" {
				ids = append(ids, fmt.Sprint(ev["id"]))
			}
		}
		stats["random_instance_ids"] = strings.Join(ids, " ")
		add("random-instance-ids", d.events)
		c.DropNode(d.n)
	}
	return stats
}
