package main

import (
	"bytes"
	"encoding/base64"
	"encoding/binary"
	"encoding/json"
	"fmt"
	"hash/crc32"
	"image"
	"image/color"
	"image/jpeg"
	"math/rand"
	"sort"
	"strings"
	"sync"
	"time"

	"github.com/janelia-flyem/dvid/dvid"

	"verifharness/internal/ev"
	"verifharness/internal/node"
	"verifharness/internal/tlc"
)

func init() { checks["C15"] = checkC15 }

// envRow is one row of the table printed by specs/Envelope.tla.
type envRow struct {
	Kind   string   `json:"kind"`            // "row" | "arb"
	Api    string   `json:"api,omitempty"`   // "data": SerializeData / DeserializeData, "obj": Serialize / Deserialize
	Users  []string `json:"users,omitempty"` // users of the envelope whose stored values this row is the oracle for
	PC     string   `json:"pc,omitempty"`
	Comp   string `json:"comp,omitempty"`
	Lvl    int    `json:"lvl,omitempty"`
	Cks    string `json:"cks,omitempty"`
	Layout []struct {
		Name string `json:"name"`
		Size int    `json:"size"`
	} `json:"layout,omitempty"`
	Dmg struct {
		Kind   string `json:"kind"`
		Region string `json:"region"`
		Index  int    `json:"index"`
	} `json:"dmg"`
	Unc      bool   `json:"unc"`
	Expect   string `json:"expect"`
	CompBits int    `json:"compbits"`
	CksBits  int    `json:"cksbits"`
	Tail     string `json:"tail,omitempty"`
}

// names of the specification -> constants of the dvid API
var c15Comp = map[string]uint8{"none": uint8(dvid.Uncompressed), "snappy": uint8(dvid.Snappy), "lz4": uint8(dvid.LZ4), "gzip": uint8(dvid.Gzip), "jpeg": uint8(dvid.JPEG)}
var c15Cks = map[string]uint8{"none": uint8(dvid.NoChecksum), "crc32": uint8(dvid.CRC32)}

type c15Payload struct {
	Name string `json:"name"`
	B64  string `json:"b64,omitempty"`
	Gen  string `json:"gen,omitempty"`
	Seed int64  `json:"seed,omitempty"`
	Len  int    `json:"len,omitempty"`
}

type c15Damage struct {
	Kind string `json:"kind"`
	Pos  int    `json:"pos"`
	Val  uint8  `json:"val"`
	Unc  bool   `json:"unc"`
}

type c15Obs struct {
	Panic     string `json:"panic,omitempty"`
	Err       string `json:"err,omitempty"`
	Len       int    `json:"len"`
	Fmt       uint8  `json:"fmt"`
	IsPayload bool   `json:"is_payload"`
	IsBody    bool   `json:"is_body"`
	// (object rows) the envelope handed on altered bytes without an error; they were not offered to encoding/gob
	GobSkipped bool `json:"gob_skipped,omitempty"`
}

type c15Divergence struct {
	Kind     string      `json:"kind"`
	Row      *envRow     `json:"table_row"`
	Payload  *c15Payload `json:"payload,omitempty"`
	Envelope string      `json:"serialized_b64,omitempty"`
	Damage   *c15Damage  `json:"damage,omitempty"`
	Input    string      `json:"input_b64,omitempty"`
	Expected string      `json:"expected_outcome_class"`
	Observed interface{} `json:"observed"`
	Note     string      `json:"note,omitempty"`
}

func c15Conforms(expect string, o c15Obs, compCode uint8, plLen int) bool {
	if o.Panic != "" {
		return false
	}
	switch expect {
	case "payload":
		return o.Err == "" && o.IsPayload
	case "body":
		return o.Err == "" && o.IsBody && o.Fmt == compCode
	case "empty":
		return o.Err == "" && o.Len == 0
	case "error":
		return o.Err != ""
	case "error_or_payload":
		return o.Err != "" || o.IsPayload
	case "nocrash":
		return true
	case "samesize":
		return o.Err == "" && o.Len == plLen
	}
	return false
}

func c15Lit(name string, b []byte) c15Payload {
	return c15Payload{Name: name, B64: base64.StdEncoding.EncodeToString(b), Len: len(b)}
}

// c15Payloads expands a payload class of the specification into seeded concrete payloads.
func c15Payloads(c *Ctx, rng *rand.Rand, class string) []c15Payload {
	rnd := func(n int) []byte { b := make([]byte, n); rng.Read(b); return b }
	pat := func(n int) []byte {
		p := rnd(1 + rng.Intn(7))
		b := make([]byte, n)
		for i := range b {
			b[i] = p[i%len(p)]
		}
		return b
	}
	var out []c15Payload
	switch class {
	case "empty":
		out = append(out, c15Lit("empty", nil))
	case "one":
		out = append(out, c15Lit("one:00", []byte{0}), c15Lit("one:rnd", rnd(1)))
		if c.thorough() {
			out = append(out, c15Lit("one:ff", []byte{0xff}))
		}
	case "incompressible":
		for _, n := range []int{2, 17, 64} {
			out = append(out, c15Lit(fmt.Sprintf("rnd:%d", n), rnd(n)))
		}
		if c.thorough() {
			for _, n := range []int{5, 255, 256, 1000} {
				out = append(out, c15Lit(fmt.Sprintf("rnd:%d", n), rnd(n)))
			}
			out = append(out, c15Payload{Name: "rnd:70001", Gen: "random", Seed: rng.Int63(), Len: 70001})
		}
	case "compressible":
		out = append(out, c15Lit("zeros:64", make([]byte, 64)), c15Lit("pattern:48", pat(48)), c15Lit("pattern:1000", pat(1000)))
		if c.thorough() {
			out = append(out, c15Lit("zeros:2", make([]byte, 2)), c15Lit("pattern:300", pat(300)),
				c15Payload{Name: "zeros:70000", Gen: "zeros", Len: 70000},
				c15Payload{Name: "pattern:300000", Gen: "pattern", Seed: rng.Int63(), Len: 300000})
		}
	case "flat", "nested", "bytes": // object classes: the node builds the object from the seed
		for i := 0; i < c.pick(2, 6); i++ {
			out = append(out, c15Payload{Name: fmt.Sprintf("%s:%d", class, i), Gen: "obj", Seed: rng.Int63()})
		}
	case "large":
		out = append(out, c15Payload{Name: "mixed:1.5MB", Gen: "mixed", Seed: rng.Int63(), Len: 1500000 + rng.Intn(1000)})
		if c.thorough() {
			out = append(out,
				c15Payload{Name: "mixed:5MB", Gen: "mixed", Seed: rng.Int63(), Len: 5<<20 + rng.Intn(1000)},
				c15Payload{Name: "random:3MB", Gen: "random", Seed: rng.Int63(), Len: 3<<20 + 1},
				c15Payload{Name: "zeros:8MB", Gen: "zeros", Len: 8 << 20})
		}
	}
	return out
}

// c15Positions returns the byte positions [lo, hi) of one region to be damaged:
// all of them for small serialized values, the edges plus seeded ones otherwise.
func c15Positions(rng *rand.Rand, lo, hi, envLen, sampled, allLimit int) []int {
	if hi <= lo {
		return nil
	}
	if envLen <= allLimit || hi-lo <= sampled+3 {
		out := make([]int, 0, hi-lo)
		for p := lo; p < hi; p++ {
			out = append(out, p)
		}
		return out
	}
	set := map[int]bool{lo: true, lo + 1: true, hi - 1: true}
	for len(set) < sampled+3 {
		set[lo+rng.Intn(hi-lo)] = true
	}
	var out []int
	for p := range set {
		out = append(out, p)
	}
	sort.Ints(out)
	return out
}

func posClass(p, lo, hi int) string {
	switch {
	case p == lo:
		return "first"
	case p == hi-1:
		return "last"
	}
	return "inner"
}

type c15Group struct {
	api           string
	pc, comp, cks string
	lvl           int
	rows          []*envRow
}

// c15Task = one payload with one format: all damage rows of the table for it.
func c15RunTask(c *Ctx, run *ev.Run, n *node.Node, rng *rand.Rand, g *c15Group, pl c15Payload, sampled, allLimit int) {
	compCode, cksCode := c15Comp[g.comp], c15Cks[g.cks]
	type serRes struct {
		SerPanic  string   `json:"ser_panic"`
		SerErr    string   `json:"ser_err"`
		EnvLen    int      `json:"env_len"`
		Env       string   `json:"env"`
		FmtByte   int      `json:"fmt_byte"`
		Rewrapped bool     `json:"rewrapped"`
		Obs       []c15Obs `json:"obs"`
	}
	level := g.lvl
	if g.comp == "jpeg" && g.pc != "empty" {
		// the level of the JPEG format is the row width of the gray image: the largest divisor of the
		// payload length that fits the int8 level; payloads from generators are trimmed to a multiple of 100
		if pl.Gen != "" {
			pl.Len -= pl.Len % 100
			pl.Name += "/trimmed"
		}
		level = 0
		for w := 127; w >= 1; w-- {
			if pl.Len%w == 0 {
				level = w
				break
			}
		}
		if (level == 1 && pl.Len > 1) || pl.Len/level > 65000 || pl.Len > 2<<20 {
			return // no admissible image shape for this length (and multi-MB images cost seconds per decode)
		}
		if sampled > 60 {
			sampled = 60
		}
	}
	call := func(dm []c15Damage, wantEnv bool) serRes {
		var res serRes
		if g.api == "obj" {
			if err := n.Call("ser.obj", map[string]interface{}{"class": g.pc, "seed": pl.Seed, "comp": compCode, "level": level,
				"checksum": cksCode, "damages": dm, "want_env": wantEnv}, &res); err != nil {
				infra("ser.obj (%s %s %s/%s seed %d, %d damages): %v; stderr tail: %s", g.pc, pl.Name, g.comp, g.cks, pl.Seed, len(dm), err, n.StderrTail(2500))
			}
			return res
		}
		err := n.Call("ser.damage", map[string]interface{}{"payload": pl, "comp": compCode, "level": level,
			"checksum": cksCode, "damages": dm, "want_env": wantEnv}, &res)
		must(err, "ser.damage")
		return res
	}
	// first call: serialize only, to learn the length of the serialized value
	probe := call(nil, true)
	if probe.SerPanic != "" || probe.SerErr != "" {
		c15Report(run, c15Divergence{Kind: "serialize-failed", Row: g.rows[0], Payload: &pl, Expected: "serialized value",
			Observed: probe.SerPanic + probe.SerErr})
		return
	}
	if g.pc != "empty" && g.comp != "jpeg" && !probe.Rewrapped {
		c15Report(run, c15Divergence{Kind: "precompressed-roundtrip", Row: g.rows[0], Payload: &pl, Envelope: probe.Env,
			Expected: "payload", Observed: "DeserializeData(SerializePrecompressedData(stored body)) is not the payload"})
	}
	L := probe.EnvLen
	// region byte ranges from the layout of the specification
	layout := g.rows[0].Layout
	type rg struct{ lo, hi int }
	ranges := make([]rg, len(layout))
	off := 0
	for i, r := range layout {
		sz := r.Size
		if sz == 0 {
			sz = L - off
		}
		ranges[i] = rg{off, off + sz}
		off += sz
	}
	if len(layout) > 0 && (off != L || ranges[len(layout)-1].hi <= ranges[len(layout)-1].lo) {
		c15Report(run, c15Divergence{Kind: "layout", Row: g.rows[0], Payload: &pl, Envelope: probe.Env,
			Expected: fmt.Sprintf("regions %v with a non-empty rest", layout), Observed: fmt.Sprintf("%d bytes", L)})
		return
	}
	if len(layout) == 0 && L != 0 {
		c15Report(run, c15Divergence{Kind: "layout", Row: g.rows[0], Payload: &pl, Envelope: probe.Env, Expected: "0 bytes", Observed: L})
		return
	}
	var dms []c15Damage
	var rowOf []*envRow
	var keys []string
	add := func(r *envRow, d c15Damage, key string) {
		d.Unc = r.Unc
		dms = append(dms, d)
		rowOf = append(rowOf, r)
		keys = append(keys, key)
	}
	small := L <= allLimit
	for _, r := range g.rows {
		base := fmt.Sprintf("%s|%s|%s|%d|%s|%s|%s|%v|%s", r.Api, r.PC, r.Comp, r.Lvl, r.Cks, r.Dmg.Kind, r.Dmg.Region, r.Unc, pl.Name)
		switch r.Dmg.Kind {
		case "none":
			add(r, c15Damage{Kind: "none"}, base)
		case "bitflip", "bytesub":
			q := ranges[r.Dmg.Index-1]
			for _, p := range c15Positions(rng, q.lo, q.hi, L, sampled, allLimit) {
				k := base + "|" + posClass(p, q.lo, q.hi)
				if r.Dmg.Kind == "bitflip" {
					if small {
						for b := 0; b < 8; b++ {
							add(r, c15Damage{Kind: "xor", Pos: p, Val: 1 << uint(b)}, k)
						}
					} else {
						add(r, c15Damage{Kind: "xor", Pos: p, Val: 1 << uint(rng.Intn(8))}, k)
					}
				} else {
					v := uint8(1 + rng.Intn(255))
					for v&(v-1) == 0 { // at least two bits: not one of the bit flips
						v = uint8(1 + rng.Intn(255))
					}
					add(r, c15Damage{Kind: "xor", Pos: p, Val: v}, k)
					if small {
						add(r, c15Damage{Kind: "xor", Pos: p, Val: 0xff}, k)
					}
				}
			}
		case "cutinside":
			q := ranges[r.Dmg.Index-1]
			for _, p := range c15Positions(rng, q.lo+1, q.hi, L, sampled, allLimit) { // keep p bytes: lo < p < hi
				add(r, c15Damage{Kind: "cut", Pos: p}, base+"|"+posClass(p, q.lo+1, q.hi))
			}
		case "cutbefore":
			add(r, c15Damage{Kind: "cut", Pos: ranges[r.Dmg.Index-1].lo}, base)
		case "trailing": // extra bytes behind the value: one, a few, many; zeros and seeded bytes
			for _, k := range []int{1, 2 + rng.Intn(8), 10 + rng.Intn(40), 64 + rng.Intn(1000)} {
				add(r, c15Damage{Kind: "append", Pos: k, Val: 0}, base+"|zeros")
				add(r, c15Damage{Kind: "append", Pos: k, Val: uint8(1 + rng.Intn(255))}, base+"|seeded")
			}
		}
	}
	res := call(dms, L <= 160)
	if len(res.Obs) != len(dms) {
		infra("ser.damage returned %d observations for %d damages", len(res.Obs), len(dms))
	}
	for i, o := range res.Obs {
		run.Eval(keys[i])
		if !c15Conforms(rowOf[i].Expect, o, compCode, pl.Len) {
			d := dms[i]
			c15Report(run, c15Divergence{Kind: "outcome", Row: rowOf[i], Payload: &pl, Envelope: res.Env, Damage: &d,
				Expected: rowOf[i].Expect, Observed: o})
		}
	}
	if len(dms) > 0 && g.pc != "empty" {
		run.Sample(map[string]interface{}{"table_row": rowOf[len(dms)/2], "payload": pl.Name, "serialized_len": L, "damage": dms[len(dms)/2], "observed": res.Obs[len(dms)/2]})
	}
}

// ---- arbitrary byte strings ----

func c15JPEG(rng *rand.Rand, colour bool) []byte {
	var buf bytes.Buffer
	if colour {
		img := image.NewRGBA(image.Rect(0, 0, 8, 8))
		for y := 0; y < 8; y++ {
			for x := 0; x < 8; x++ {
				img.Set(x, y, color.RGBA{uint8(rng.Intn(256)), uint8(rng.Intn(256)), uint8(rng.Intn(256)), 255})
			}
		}
		jpeg.Encode(&buf, img, nil)
	} else {
		img := image.NewGray(image.Rect(0, 0, 8, 8))
		rng.Read(img.Pix)
		jpeg.Encode(&buf, img, nil)
	}
	return buf.Bytes()
}

// c15Tail expands a tail class into bytes.  bodies holds well-formed streams of the
// real codecs (obtained from the real SerializeData).
func c15Tail(rng *rand.Rand, class string, compBits int, bodies map[string][][]byte, maxLen int) []byte {
	rnd := func(n int) []byte { b := make([]byte, n); rng.Read(b); return b }
	spoil := func(b []byte) []byte { // half of the well-formed streams are damaged again
		b = append([]byte(nil), b...)
		switch rng.Intn(4) {
		case 0:
			if len(b) > 1 {
				b = b[:1+rng.Intn(len(b)-1)]
			}
		case 1:
			b[rng.Intn(len(b))] ^= byte(1 + rng.Intn(255))
		}
		return b
	}
	switch class {
	case "none":
		return nil
	case "short":
		return rnd(1 + rng.Intn(3))
	case "four":
		return rnd(4)
	case "random":
		b := rnd(5 + rng.Intn(maxLen))
		// keep the embedded decoded size below 16 MB here; the giant ones are class "hugesize"
		if compBits == int(dvid.LZ4) {
			binary.LittleEndian.PutUint32(b[0:4], uint32(rng.Intn(1<<24)))
		}
		if compBits == int(dvid.Snappy) {
			var v [binary.MaxVarintLen64]byte
			n := binary.PutUvarint(v[:], uint64(rng.Intn(1<<24)))
			b = append(v[:n:n], b[n:]...)
		}
		return b
	case "snappy", "lz4", "gzip":
		bs := bodies[class]
		return spoil(bs[rng.Intn(len(bs))])
	case "jpeggray":
		return spoil(c15JPEG(rng, false))
	case "jpegcolor":
		return spoil(c15JPEG(rng, true))
	case "hugesize":
		b := rnd(4 + rng.Intn(24))
		sizes := []uint32{0xffffffff, 0x7fffffff, 0x80000000, 0x40000000, 0xfffffff0}
		binary.LittleEndian.PutUint32(b[0:4], sizes[rng.Intn(len(sizes))])
		return b
	}
	return nil
}

// c15Report writes a violation unless plenty have been written already (the verdict is
// a violation either way).
func c15Report(run *ev.Run, d c15Divergence) {
	if run.Violations() < 60 {
		run.Violation("c15", d)
	}
}

func checkC15(c *Ctx) int {
	run := ev.NewRun("C15", c.Tier, "exploration")
	t0 := time.Now()
	r := c.MustModelCheck(tlc.Opts{Module: "Envelope", Config: "Envelope.cfg", Workers: 1, Timeout: 5 * time.Minute})
	var rows, arbs []*envRow
	PrintedJSON(r.Output, func(raw []byte) {
		var row envRow
		if json.Unmarshal(raw, &row) != nil {
			return
		}
		switch row.Kind {
		case "row":
			rows = append(rows, &row)
		case "arb":
			arbs = append(arbs, &row)
		}
	})
	if len(rows) < 1500 || len(arbs) < 100 {
		infra("Envelope printed %d rows and %d arbitrary-string classes: %s", len(rows), len(arbs), r.Tail(1500))
	}
	// group the rows by what is serialized
	groups := map[string]*c15Group{}
	var gkeys []string
	for _, row := range rows {
		if _, ok := c15Comp[row.Comp]; !ok {
			infra("unknown compression %q in table", row.Comp)
		}
		k := fmt.Sprintf("%s|%s|%s|%d|%s", row.Api, row.PC, row.Comp, row.Lvl, row.Cks)
		g := groups[k]
		if g == nil {
			g = &c15Group{api: row.Api, pc: row.PC, comp: row.Comp, cks: row.Cks, lvl: row.Lvl}
			groups[k] = g
			gkeys = append(gkeys, k)
		}
		g.rows = append(g.rows, row)
	}
	sort.Strings(gkeys)
	type task struct {
		g    *c15Group
		pl   c15Payload
		seed int64
	}
	rng := rand.New(rand.NewSource(c.Seed))
	var tasks []task
	for _, k := range gkeys {
		g := groups[k]
		for _, pl := range c15Payloads(c, rng, g.pc) {
			tasks = append(tasks, task{g, pl, rng.Int63()})
		}
	}
	// large payloads first (they dominate the wall time)
	sort.SliceStable(tasks, func(i, j int) bool { return tasks[i].pl.Len > tasks[j].pl.Len })
	workers := 12
	nodes := make([]*node.Node, workers)
	for i := range nodes {
		nodes[i] = c.StartNode(node.Config{NoLog: true})
	}
	sampled := c.pick(40, 400)
	allLimit := c.pick(300, 2200)
	parallel(len(tasks), workers, func(w, i int) {
		t := tasks[i]
		c15RunTask(c, run, nodes[w], rand.New(rand.NewSource(t.seed)), t.g, t.pl, sampled, allLimit)
	})
	nDamage := run.Violations()

	// arbitrary byte strings: well-formed codec streams come from the real serializer
	bodies := map[string][][]byte{}
	for _, name := range []string{"snappy", "lz4", "gzip"} {
		for _, pl := range []c15Payload{c15Lit("a", []byte("the quick brown fox jumps over the lazy dog")), c15Lit("b", make([]byte, 300)), c15Lit("c", []byte{7})} {
			var res struct {
				Body string `json:"body"`
			}
			must(nodes[0].Call("ser.damage", map[string]interface{}{"payload": pl, "comp": c15Comp[name], "level": -1, "checksum": 0, "want_env": true}, &res), "ser.damage body")
			b, _ := base64.StdEncoding.DecodeString(res.Body)
			if len(b) == 0 {
				infra("no %s body from the serializer", name)
			}
			bodies[name] = append(bodies[name], b)
		}
	}
	perRow := c.pick(40, 400)
	maxLen := c.pick(300, 3000)
	var mu sync.Mutex
	var arbSample interface{}
	parallel(len(arbs), workers, func(w, i int) {
		row := arbs[i]
		lr := rand.New(rand.NewSource(c.Seed*1000003 + int64(i)))
		nr := perRow
		if row.Tail == "none" {
			nr = 8
		}
		if row.Tail == "hugesize" {
			nr = 2
		}
		var inputs []string
		var raws [][]byte
		var uncs []bool
		for k := 0; k < nr; k++ {
			first := byte(row.CompBits<<5 | row.CksBits<<3 | lr.Intn(8))
			if row.Tail == "none" {
				first = byte(row.CompBits<<5 | row.CksBits<<3 | k)
			}
			tail := c15Tail(lr, row.Tail, row.CompBits, bodies, maxLen)
			s := []byte{first}
			if row.CksBits == int(dvid.CRC32) && k%2 == 0 {
				// half of the strings carry a matching checksum so that they get past it
				var crc [4]byte
				binary.LittleEndian.PutUint32(crc[:], crc32.ChecksumIEEE(tail))
				s = append(s, crc[:]...)
			}
			s = append(s, tail...)
			raws = append(raws, s)
			inputs = append(inputs, base64.StdEncoding.EncodeToString(s))
			uncs = append(uncs, row.Unc)
		}
		var obs []c15Obs
		err := nodes[w].Call("ser.raw", map[string]interface{}{"inputs": inputs, "unc": uncs}, &obs)
		if err != nil {
			if _, isCall := err.(*node.CallError); !isCall && strings.Contains(nodes[w].StderrTail(4000), "fatal error") {
				c15Report(run, c15Divergence{Kind: "process-died", Row: row, Expected: "nocrash", Observed: nodes[w].StderrTail(2000), Note: "inputs of the batch: " + strings.Join(inputs, " ")})
				nodes[w] = c.StartNode(node.Config{NoLog: true})
				return
			}
			must(err, "ser.raw")
		}
		for k, o := range obs {
			run.Eval(fmt.Sprintf("arb|%d|%d|%s|%v|%d", row.CompBits, row.CksBits, row.Tail, row.Unc, k))
			if !c15Conforms(row.Expect, o, 0, 0) {
				c15Report(run, c15Divergence{Kind: "arbitrary-bytes", Row: row, Input: inputs[k], Expected: row.Expect, Observed: o})
			}
		}
		if row.Tail == "jpegcolor" && row.CompBits == 5 && row.CksBits == 0 && row.Unc && len(obs) > 0 {
			mu.Lock()
			arbSample = map[string]interface{}{"table_row": row, "input_b64": inputs[0], "input_len": len(raws[0]), "observed": obs[0]}
			mu.Unlock()
		}
	})
	if arbSample != nil {
		run.Sample(arbSample)
	}
	run.Set("tla_states", r.Distinct)
	run.Set("tla_transitions", r.Generated)
	run.Set("table_rows", len(rows))
	run.Set("arbitrary_string_classes", len(arbs))
	run.Set("format_payload_combinations", len(tasks))
	c15History(c, run, nodes[0])
	c15Stored(c, run, rows)
	run.Set("rule", "TLC model-checks specs/Envelope.tla (behaviours Serialize -> at most one Damage (bit flip, byte substitution, cut inside / before a region, trailing extra bytes) -> Deserialize over api {data: SerializeData/DeserializeData, obj: the gob object pair Serialize/Deserialize} x payload class (obj: flat / nested / bytes objects) x {none,snappy,lz4,gzip:-1/1/6/9,jpeg (lossy: same size only)} x {none,crc32} x uncompress?, and arbitrary strings over compression bits x checksum bits x tail class), checks the C15 claims on the intended decoder and prints one table row (region layout, damaged region, outcome class) per behaviour; the byte-level for-all is beyond TLC, so the harness expands each row into seeded concrete payloads and into EVERY byte position of the damaged region (all 8 bit flips, two substitutions, every truncation length) when the serialized value has <= "+fmt.Sprint(allLimit)+" bytes, region edges + seeded positions otherwise, and requires the outcome of the real dvid.SerializeData / SerializePrecompressedData / DeserializeData to lie in the row's class. evaluations = concrete DeserializeData calls; In addition every call sequence of specs/EnvelopeHistory.tla (all sequences of 3 (thorough 4) calls over {serialize, deserialize, deserialize raw} x 4 compressions) is executed holding the returned slices themselves, and after every call each held result must still equal what was returned. STORED VALUES: every row read with decompression names the users of the envelope whose stored values it is the oracle for (UserFormats: repo metadata = obj/lz4/crc32, keyvalue / imageblk / labelmap blocks = the instance's Compression x Checksum settings, labelmap label index = lz4 without checksum, where the spec records that detection cannot be claimed); for each user and format an instance is created with these settings, a value is written and read back through HTTP, the stored bytes are fetched from the store and their format byte and region layout compared with the row, then damaged as the row says at the region edges + seeded positions, written back under the same key and read through the user's GET requests (repo metadata: the server is restarted on the damaged blob; outcome = start-up error / original metadata / other metadata / crash). distinct_nontrivial = distinct (table row, payload variant, position class first/inner/last of the region) resp. (arbitrary class, sample)")
	run.Assume = []string{
		"checksum modelled as ideal (matches iff stored field and covered bytes intact); for CRC-32 this is exact for single-bit and single-byte changes and fails with probability 2^-32 for truncations",
		"gzip values read without decompression are outside the corruption claim (the envelope checksum is dropped by design and gzip's own CRC is only verified on decompression)",
		"changes of the format byte or of the stored checksum field leave the payload bytes intact: only crash-freedom is required there",
		"truncation to zero bytes yields the legitimate serialization of the empty payload",
		"random tails offered to the lz4 / snappy decoders keep the embedded decoded size below 16 MB except in class hugesize (2 strings per class); memory exhaustion is not counted as a crash",
		"dvid.Deserialize = the envelope followed by encoding/gob, which is documented as not hardened against adversarial input: an altered element count makes it allocate without bound (observed: reflect.MakeMapWithSize -> 'fatal error: runtime: out of memory', which kills the process). Where the envelope returns bytes other than the original gob bytes without an error (only possible in rows without a checksum in force, whose class is 'nocrash') the bytes are not offered to gob; the only user, the repo metadata, writes with CRC32",
		"JPEG is lossy: undamaged values must come back with the same number of bytes, nothing is claimed about their content; the JPEG level is the row width, chosen by the harness as the largest divisor <= 127 of the payload length",
		"trailing extra bytes behind a checksummed value are detected with the probability of a CRC-32 mismatch (ideal checksum in the model)",
		"stored values: HTTP status >= 400 counts as the error report; for answers that are streamed as JSON the status line precedes the read, so an answer that is not well-formed JSON (error text appended) also counts; requests that hand the stored compressed bytes on unread (labelmap specificblocks) are only required not to take the server down",
		"stored values: an answer with a recovered panic (5xx) is accepted as an error; only the death of the server process or different data under a checksum is a violation",
		"labelmap instances with Compression=snappy are not read through GET blocks / specificblocks (these requests refuse snappy-stored blocks by design)",
	}
	fmt.Printf("C15: %d table rows + %d arbitrary-string classes; %d format x payload combinations; violations: %d damage/round-trip, %d total; %.1fs\n",
		len(rows), len(arbs), len(tasks), nDamage, run.Violations(), since(t0))
	return run.Finish()
}
