package main

import (
	"encoding/json"
	"fmt"
	"time"

	"verifharness/internal/ev"
	"verifharness/internal/node"
	"verifharness/internal/tlc"
)

// c15History replays every call sequence enumerated by specs/EnvelopeHistory.tla: what
// SerializeData / DeserializeData returned must stay what it was whatever is called afterwards.
func c15History(c *Ctx, run *ev.Run, n *node.Node) {
	cfg := fmt.Sprintf("SPECIFICATION Spec\nCONSTANTS\n  Comps = {\"none\", \"snappy\", \"lz4\", \"gzip\"}\n  MaxCalls = %d\nINVARIANTS Inv_C15_ResultsStable Inv_C15_AllHeld Emit\nCHECK_DEADLOCK FALSE\n", c.pick(3, 4))
	r := c.MustModelCheck(tlc.Opts{Module: "EnvelopeHistory", Config: "gen_envhist.cfg", Workers: 4, Timeout: 10 * time.Minute,
		Files: map[string][]byte{"gen_envhist.cfg": []byte(cfg)}})
	type call struct {
		Op   string `json:"op"`
		Comp string `json:"comp"`
	}
	var seqs [][]call
	PrintedJSON(r.Output, func(raw []byte) {
		var o struct{ Calls []call }
		if json.Unmarshal(raw, &o) == nil && len(o.Calls) > 0 {
			seqs = append(seqs, o.Calls)
		}
	})
	if len(seqs) < 1000 {
		infra("EnvelopeHistory printed %d call sequences: %s", len(seqs), r.Tail(1200))
	}
	var res struct {
		Calls int `json:"calls"`
		Bad   []struct {
			Seq    int    `json:"seq"`
			After  int    `json:"after_call"`
			Held   int    `json:"held_call"`
			What   string `json:"what"`
			Detail string `json:"detail"`
		} `json:"bad"`
	}
	must(n.Call("ser.history", map[string]interface{}{"seqs": seqs, "seed": c.Seed}, &res), "ser.history")
	for _, b := range res.Bad {
		run.Violation("c15", map[string]interface{}{"kind": "returned-value-changed-by-a-later-call", "call_sequence": seqs[b.Seq],
			"after_call": b.After, "held_result_of_call": b.Held, "what": b.What, "detail": b.Detail})
	}
	for i, s := range seqs {
		run.Eval(fmt.Sprintf("hist|%v", s))
		if i == len(seqs)/2 {
			run.Sample(map[string]interface{}{"call_sequence": s, "claim": "every held result still equals what was returned"})
		}
	}
	run.Set("history_call_sequences", len(seqs))
	run.Set("history_calls", res.Calls)
}
