package main

import (
	"fmt"
	"os"

	"verifharness/internal/node"
)

// development aid (VCHECK_DEV): status of the documented payloads of chosen keywords in full-write mode
func init() {
	if os.Getenv("VCHECK_DEV") == "" {
		return
	}
	checks["C02P"] = func(c *Ctx) int {
		rp := c2Prepare(c, node.Config{}, 0, nil)
		defer c.DropNode(rp.w.n)
		must(rp.w.n.RestartWith(true, func(c *node.Config) { c.RWMode = "fullwrite" }), "restart")
		w := rp.w
		for _, x := range [][2]string{{"lm", "blocks"}, {"lm", "ingest-supervoxels"}, {"la", "blocks"}, {"la", "split"}, {"la", "split-coarse"}, {"lb", "blocks"},
			{"lv", "split"}, {"lv", "split-coarse"}, {"lv", "resync"}, {"nj", "keyvalues"}, {"ann", "labels"}} {
			in := w.byName[x[0]]
			if in == nil {
				for _, i := range w.insts {
					fmt.Println("have", i.Name, i.Type)
				}
				continue
			}
			for _, p := range w.payloads(in, x[1], "POST", 0, rp.open) {
				if !p.Known {
					continue
				}
				url := "/api/node/" + rp.committed[0] + "/" + in.Name + "/" + x[1] + p.Suffix + joinQuery("", p.Query)
				r := w.http("POST", url, p.Body)
				fmt.Printf("%s %s -> %d %s (body %d bytes)\n", in.Type, url, r.Status, trunc(string(r.Bytes()), 200), len(p.Body))
			}
		}
		return 0
	}
}
