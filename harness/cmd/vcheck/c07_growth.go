package main

// C07 growth (second round): repo-level operations that the first-round state graph does not
// contain.  Part G (this file): make-master / hide-branch (RPC commands), graph-neutral sync
// requests, and what <uuid>:<branch>~<N> and UUID prefixes name, as actions / observations of
// specs/DvidDAG.tla (NextG); TLC explores the bounded graph, checks Inv_C07G and the action
// properties, and prints every state-changing transition plus, per state, the growth requests
// that must be refused, the ones whose outcome is unspecified, and the address observations.
// Every growth transition is replayed on the real server (with a restart afterwards on a
// sample), followed by one ordinary request of the successor state.
// Part R (c07_resolve.go): POST /api/repo/<uuid>/resolve on DvidKV.
// Part S (c07_sync.go): the sync settings state machine.

import (
	"encoding/json"
	"fmt"
	"math/rand"
	"os"
	"sort"
	"strings"
	"sync/atomic"
	"time"

	"verifharness/internal/dagm"
	"verifharness/internal/ev"
	"verifharness/internal/node"
	"verifharness/internal/snap"
	"verifharness/internal/tlc"
)

// only for development: run the growth parts alone (evidence goes to evidence/C07G.json, not registered)
func init() {
	if os.Getenv("VCHECK_DEV") != "" {
		checks["C07G"] = func(c *Ctx) int {
			run := ev.NewRun("C07G", c.Tier, "model_checking")
			c07Growth(c, run)
			return run.Finish()
		}
	}
}

type addrLine struct {
	Root   int    `json:"root"`
	Branch string `json:"branch"`
	Line   []int  `json:"line"`
}

type prefixEach struct {
	UUID string `json:"uuid"`
	Node int    `json:"node"`
}

type growthObs struct {
	Addr      []addrLine `json:"addr"`
	BadSuffix []string   `json:"badsuffix"`
	Master    []addrLine `json:"master"`
	Prefix    struct {
		Count int          `json:"count"`
		Node  int          `json:"node"`
		Each  []prefixEach `json:"each"`
	} `json:"prefix"`
}

type growthStateLine struct {
	S     dagm.State `json:"s"`
	Obs   *growthObs `json:"obs"`
	Rej   []dagm.Op  `json:"rej"`
	Probe []dagm.Op  `json:"probe"`
	Noop  []dagm.Op  `json:"noop"`
}

type growthGraph struct {
	*dagGraph
	info map[string]*growthStateLine
	desc string
}

type growthCfg struct {
	nodes, repos, parents int
	branches              []string
	pool                  []string
}

func (g growthCfg) constants(rejects bool) string {
	q := func(xs []string) string {
		var o []string
		for _, x := range xs {
			o = append(o, fmt.Sprintf("%q", x))
		}
		return "{" + strings.Join(o, ", ") + "}"
	}
	return fmt.Sprintf("CONSTANTS\n  MaxNodes = %d\n  MaxRepos = %d\n  MaxParents = %d\n  Branches = %s\n  UUIDPool = %s\n  WithRejects = %s\n",
		g.nodes, g.repos, g.parents, q(g.branches), q(g.pool), map[bool]string{true: "TRUE", false: "FALSE"}[rejects])
}

func (g growthCfg) String() string {
	return fmt.Sprintf("MaxNodes=%d MaxRepos=%d MaxParents=%d Branches=%v UUIDPool=%v", g.nodes, g.repos, g.parents, g.branches, g.pool)
}

// emitGrowthGraph runs TLC on DvidDAG's NextG: invariants Inv_C07G, properties, all state-changing
// transitions, and per state the observations and refused / unspecified growth requests.
func emitGrowthGraph(c *Ctx, gc growthCfg) (*growthGraph, *tlc.Result) {
	cfg := "SPECIFICATION SpecEmitG\n" + gc.constants(false) +
		"VIEW View\nINVARIANTS Inv_C07G EmitObs\nPROPERTIES Act_C07_RejectIsStutter Act_MonotoneG\nCHECK_DEADLOCK FALSE\n"
	r := c.MustModelCheck(tlc.Opts{Module: "DvidDAGG_mc", Config: "gen_growth.cfg", Workers: 4,
		Files: map[string][]byte{"gen_growth.cfg": []byte(cfg)}, Timeout: 30 * time.Minute, HeapGB: 8})
	g := &growthGraph{dagGraph: &dagGraph{states: map[string]*dagStateInfo{}}, info: map[string]*growthStateLine{}, desc: gc.String()}
	seenEdge := map[string]bool{}
	var pendingEdges []dagEdge
	PrintedJSON(r.Output, func(raw []byte) {
		if strings.Contains(string(raw[:min(len(raw), 400)]), `"obs"`) || strings.Contains(string(raw), `"obs":`) {
			var l growthStateLine
			if err := json.Unmarshal(raw, &l); err == nil && l.Obs != nil {
				g.info[l.S.Key()] = &l
				return
			}
		}
		var e dagEdge
		if err := json.Unmarshal(raw, &e); err != nil || e.L.Op == "" {
			return
		}
		pendingEdges = append(pendingEdges, e)
	})
	// TLC runs with several workers, so the printed order is not a BFS order: build the BFS tree
	// (shortest request path to every state) here.
	bySrc := map[string][]int{}
	var uniq []dagEdge
	for _, e := range pendingEdges {
		sk := e.S.Key()
		ek := sk + "#" + e.L.Key()
		if seenEdge[ek] {
			continue
		}
		seenEdge[ek] = true
		uniq = append(uniq, e)
		bySrc[sk] = append(bySrc[sk], len(uniq)-1)
	}
	for k := range bySrc {
		// deterministic order whatever the workers printed first
		idx := bySrc[k]
		sort.Slice(idx, func(i, j int) bool { return uniq[idx[i]].L.Key() < uniq[idx[j]].L.Key() })
	}
	var initKey string
	for _, e := range uniq {
		if e.S.NN == 0 {
			initKey = e.S.Key()
			g.states[initKey] = &dagStateInfo{st: e.S}
			break
		}
	}
	if initKey == "" {
		infra("growth: no transition from the initial state in TLC's output:\n%s", r.Tail(1500))
	}
	g.order = append(g.order, initKey)
	for qi := 0; qi < len(g.order); qi++ {
		sk := g.order[qi]
		for _, ui := range bySrc[sk] {
			e := uniq[ui]
			tk := e.T.Key()
			if _, ok := g.states[tk]; !ok {
				g.states[tk] = &dagStateInfo{st: e.T, parent: sk, via: e.L, depth: g.states[sk].depth + 1}
				g.order = append(g.order, tk)
			}
			g.edges = append(g.edges, e)
			g.states[sk].out = append(g.states[sk].out, len(g.edges)-1)
		}
	}
	if len(g.edges) == 0 || len(g.info) == 0 {
		infra("growth: TLC emitted %d transitions and %d state lines:\n%s", len(g.edges), len(g.info), r.Tail(2000))
	}
	return g, r
}

func max(a, b int) int {
	if a > b {
		return a
	}
	return b
}

func min(a, b int) int {
	if a < b {
		return a
	}
	return b
}

type c07gDivergence struct {
	Kind     string      `json:"kind"`
	Model    string      `json:"model"`
	Path     []dagm.Op   `json:"path"`
	Op       *dagm.Op    `json:"op,omitempty"`
	Then     *dagm.Op    `json:"then,omitempty"`
	Expected interface{} `json:"expected,omitempty"`
	Diffs    []string    `json:"diffs"`
	Script   []dagm.Step `json:"script"`
}

func isGrowthOp(op string) bool { return op == "makemaster" || op == "hidebranch" }

// growthSess starts a session whose caller-assigned UUIDs share a 30-digit prefix.
func growthSess(w *dagWorker, pool []string) (*dagm.Sess, string) {
	s := w.sess()
	prefix := "ab" + dagm.RandHex()[:28]
	for i, name := range pool {
		s.Pool[name] = fmt.Sprintf("%s%02x", prefix, i+1)
	}
	return s, prefix
}

// matchUUID resolves an address through datastore.MatchingUUID; returns the abstract node,
// 0 when refused, -1 when it resolves to something the session does not know, and whether the
// call panicked.
func matchUUID(s *dagm.Sess, addr string) (int, bool, error) {
	var out struct {
		UUID    string
		Version int
	}
	err := s.N.Call("ds.matchuuid", map[string]string{"Str": addr}, &out)
	if err != nil {
		if ce, ok := err.(*node.CallError); ok {
			return 0, ce.Panic, nil
		}
		return 0, false, err
	}
	for k := len(s.UUIDs) - 1; k >= 0; k-- {
		if s.UUIDs[k] == out.UUID {
			return k + 1, false, nil
		}
	}
	return -1, false, nil
}

// addrDiffs compares what the addresses of the state name with the specification's observations.
func addrDiffs(s *dagm.Sess, obs *growthObs, prefix string, nchecked *int64) ([]string, error) {
	var d []string
	chk := func(addr string, want int) error {
		got, panicked, err := matchUUID(s, addr)
		if err != nil {
			return err
		}
		atomic.AddInt64(nchecked, 1)
		if panicked {
			d = append(d, fmt.Sprintf("address %q: the resolver panicked", addr))
		} else if got != want {
			d = append(d, fmt.Sprintf("address %q: spec n%d, server n%d (0 = refused)", addr, want, got))
		}
		return nil
	}
	lines := func(ls []addrLine, master bool) error {
		for _, a := range ls {
			if len(a.Line) == 0 {
				continue
			}
			b := s.ConcreteBranch(a.Branch)
			if master {
				b = "master"
			}
			base := s.NodeUUID(a.Root) + ":" + b
			if !master {
				if err := chk(base, a.Line[0]); err != nil {
					return err
				}
			}
			for k := 0; k <= len(a.Line); k++ {
				want := 0
				if k < len(a.Line) {
					want = a.Line[k]
				}
				if err := chk(fmt.Sprintf("%s~%d", base, k), want); err != nil {
					return err
				}
			}
			for _, sfx := range obs.BadSuffix {
				if err := chk(base+sfx, 0); err != nil {
					return err
				}
			}
		}
		return nil
	}
	if err := lines(obs.Addr, false); err != nil {
		return nil, err
	}
	if err := lines(obs.Master, true); err != nil {
		return nil, err
	}
	if len(obs.Prefix.Each) > 0 {
		if err := chk(prefix, obs.Prefix.Node); err != nil {
			return nil, err
		}
		if err := chk(prefix[:12], obs.Prefix.Node); err != nil {
			return nil, err
		}
		for _, e := range obs.Prefix.Each {
			if err := chk(s.Pool[e.UUID], e.Node); err != nil {
				return nil, err
			}
			// all but the last digit is a prefix of the other assigned UUIDs as well
			if err := chk(s.Pool[e.UUID][:31], obs.Prefix.Node); err != nil {
				return nil, err
			}
		}
	}
	return d, nil
}

// compareGrowthState = DAG projection + heads + addresses.
func compareGrowthState(s *dagm.Sess, g *growthGraph, want dagm.State, prefix string, nAddr *int64) ([]string, error) {
	d, err := compareState(s, want, true)
	if err != nil {
		return nil, err
	}
	if gi := g.info[want.Key()]; gi != nil && gi.Obs != nil {
		ad, err := addrDiffs(s, gi.Obs, prefix, nAddr)
		if err != nil {
			return nil, err
		}
		d = append(d, ad...)
	}
	return d, nil
}

// sessionMetadata reads everything the metadata API shows about the session's repos (repo info
// with DAG, instances, their settings and syncs; repo log; note, log and commit flag of every
// version; what <root>:<branch> names and branch-versions for every named branch), normalised as
// internal/snap does (wall-clock fields and mutation ids dropped).
func sessionMetadata(s *dagm.Sess) (map[string]string, error) {
	out := map[string]string{}
	get := func(key, url string) error {
		r, err := s.N.HTTP("GET", url, nil)
		if err != nil {
			return err
		}
		if r.Status != 200 {
			out[key] = fmt.Sprintf("status %d", r.Status)
			return nil
		}
		out[key] = string(snap.NormJSON(r.Bytes()))
		return nil
	}
	for i, root := range s.Roots {
		if s.Dead[i] {
			continue
		}
		r, err := s.N.HTTP("GET", "/api/repo/"+root+"/info", nil)
		if err != nil {
			return nil, err
		}
		if r.Status != 200 {
			out["repo/"+root+"/info"] = fmt.Sprintf("status %d", r.Status)
			continue
		}
		out["repo/"+root+"/info"] = string(snap.NormJSON(r.Bytes()))
		var ri dagm.RepoInfo
		json.Unmarshal(r.Bytes(), &ri)
		if err := get("repo/"+root+"/log", "/api/repo/"+root+"/log"); err != nil {
			return nil, err
		}
		branches := map[string]bool{"master": true}
		for u, nd := range ri.DAG.Nodes {
			for _, what := range []string{"note", "log", "commit"} {
				if err := get("node/"+u+"/"+what, "/api/node/"+u+"/"+what); err != nil {
					return nil, err
				}
			}
			if nd.Branch != "" {
				branches[nd.Branch] = true
			}
		}
		for b := range branches {
			if err := get("head/"+root+":"+b, "/api/node/"+root+":"+b+"/note"); err != nil {
				return nil, err
			}
			if b != "master" { // master's listing is ill-defined once merge versions carry the master name
				if err := get("branch-versions/"+root+"/"+b, "/api/repo/"+root+"/branch-versions/"+b); err != nil {
					return nil, err
				}
			}
		}
	}
	return out, nil
}

// sortSyncs orders every "Syncs" list (the server keeps a set and lists it in map order).
func sortSyncs(v interface{}) {
	switch t := v.(type) {
	case map[string]interface{}:
		for k, x := range t {
			if arr, ok := x.([]interface{}); ok && k == "Syncs" {
				sort.Slice(arr, func(i, j int) bool { return fmt.Sprint(arr[i]) < fmt.Sprint(arr[j]) })
			}
			sortSyncs(x)
		}
	case []interface{}:
		for _, x := range t {
			sortSyncs(x)
		}
	}
}

// jsonDiff lists the paths at which two JSON documents differ.
func jsonDiff(path string, a, b interface{}, out *[]string) {
	switch x := a.(type) {
	case map[string]interface{}:
		y, ok := b.(map[string]interface{})
		if !ok {
			break
		}
		keys := map[string]bool{}
		for k := range x {
			keys[k] = true
		}
		for k := range y {
			keys[k] = true
		}
		var ks []string
		for k := range keys {
			ks = append(ks, k)
		}
		sort.Strings(ks)
		for _, k := range ks {
			xv, xok := x[k]
			yv, yok := y[k]
			if !xok || !yok {
				*out = append(*out, fmt.Sprintf("%s.%s: before %s, after %s", path, k, jsonStr(xv), jsonStr(yv)))
				continue
			}
			jsonDiff(path+"."+k, xv, yv, out)
		}
		return
	case []interface{}:
		y, ok := b.([]interface{})
		if ok && len(x) == len(y) && a != nil && b != nil {
			for i := range x {
				jsonDiff(fmt.Sprintf("%s[%d]", path, i), x[i], y[i], out)
			}
			return
		}
	}
	if ja, jb := jsonStr(a), jsonStr(b); ja != jb {
		if len(ja) > 200 {
			ja = ja[:200] + "..."
		}
		if len(jb) > 200 {
			jb = jb[:200] + "..."
		}
		*out = append(*out, fmt.Sprintf("%s: before %s, after %s", path, ja, jb))
	}
}

// restartAndCompareMetadata restarts an idle node (clean stop or SIGKILL) and compares the
// metadata of the session's repos before and after: what a repo-level request persisted must be
// all it changed in memory (C03 for the growth requests).
func restartAndCompareMetadata(n *node.Node, clean bool, sess *dagm.Sess) (string, error) {
	if err := n.Idle(); err != nil {
		return "", err
	}
	before, err := sessionMetadata(sess)
	if err != nil {
		return "", err
	}
	if err := n.Restart(clean); err != nil {
		return restartFailure(n, clean, err), nil
	}
	after, err := sessionMetadata(sess)
	if err != nil {
		return "", err
	}
	var d []string
	keys := map[string]bool{}
	for k := range before {
		keys[k] = true
	}
	for k := range after {
		keys[k] = true
	}
	var ks []string
	for k := range keys {
		ks = append(ks, k)
	}
	sort.Strings(ks)
	for _, k := range ks {
		if before[k] == after[k] {
			continue
		}
		var ja, jb interface{}
		if json.Unmarshal([]byte(before[k]), &ja) == nil && json.Unmarshal([]byte(after[k]), &jb) == nil {
			sortSyncs(ja)
			sortSyncs(jb)
			jsonDiff(k, ja, jb, &d)
		} else {
			d = append(d, fmt.Sprintf("%s: before %.200s, after %.200s", k, before[k], after[k]))
		}
	}
	if len(d) > 0 {
		if len(d) > 12 {
			d = d[:12]
		}
		return fmt.Sprintf("the metadata differs after a restart (clean stop=%v): %s", clean, strings.Join(d, "; ")), nil
	}
	return "", nil
}

// restartFailure describes a server that does not come up again.  If it is the storage engine
// that cannot open its files (Badger's memtable / value log after a kill, on a machine under
// memory or file pressure) the assumption "the store survives a process kill" is broken, not
// DVID: that is an infrastructure error (exit 2), as in C03, never a verdict.
func restartFailure(n *node.Node, clean bool, err error) string {
	msg := fmt.Sprintf("the server does not start again (clean stop=%v): %v; log tail: %s", clean, err, n.StderrTail(1500))
	if strings.Contains(msg, "storage.Initialize") {
		infra("the storage engine cannot reopen the store after a restart: %s", msg)
	}
	return msg
}

// rawGraph is the server's own view of the session's repos, normalised for comparison across a restart.
func rawGraph(s *dagm.Sess) (string, []string, error) {
	ob, err := s.Project()
	if err != nil {
		return "", nil, err
	}
	type nd struct {
		U, B    string
		V       int
		L       bool
		P, C    []int
	}
	var all []nd
	for _, ri := range ob.Raw {
		for u, n := range ri.DAG.Nodes {
			all = append(all, nd{u, n.Branch, n.VersionID, n.Locked, n.Parents, n.Children})
		}
	}
	sort.Slice(all, func(i, j int) bool { return all[i].U < all[j].U })
	b, _ := json.Marshal(all)
	return string(b), ob.WFErrs, nil
}

type growthCounts struct {
	accepted, refused, probes, noops, neutral, followups, restarts, addr, states int64
}

// replayGrowthGraph replays the growth requests of every state of the graph.
func replayGrowthGraph(c *Ctx, run *ev.Run, g *growthGraph, gc growthCfg, cnt *growthCounts, restartEvery, rejPerState, stateSample int, obsOnAllStates bool) {
	workers := 16
	ws := make([]*dagWorker, workers)
	for i := range ws {
		ws[i] = &dagWorker{c: c, every: 60, cfg: node.Config{}}
	}
	defer func() {
		for _, w := range ws {
			w.close()
		}
	}()
	report := func(d c07gDivergence) {
		d.Model = g.desc
		run.Violation("c07-growth", d)
	}
	var restartSeq int64
	keys := g.order
	parallel(len(keys), workers, func(wi, ki int) {
		w := ws[wi]
		key := keys[ki]
		si := g.states[key]
		gi := g.info[key]
		if gi == nil {
			return
		}
		path := g.path(key)
		rng := rand.New(rand.NewSource(c.Seed*7919 + int64(ki)))
		var growthOut []int
		for _, ei := range si.out {
			if isGrowthOp(g.edges[ei].L.Op) {
				growthOut = append(growthOut, ei)
			}
		}
		build := func() (*dagm.Sess, string, bool) {
			s, prefix := growthSess(w, gc.pool)
			if msg, err := buildState(s, path); err != nil {
				must(err, "growth: build state")
			} else if msg != "" {
				report(c07gDivergence{Kind: "accepted-request-refused", Path: path, Diffs: []string{msg}, Script: s.Script})
				return nil, "", false
			}
			return s, prefix, true
		}
		// restart returns a description of the failure if the server does not come up again
		restart := func(s *dagm.Sess) string {
			clean := atomic.AddInt64(&restartSeq, 1)%2 == 0
			msg, err := restartAndCompareMetadata(s.N, clean, s)
			must(err, "growth: restart")
			if msg != "" {
				w.close()
				return msg
			}
			atomic.AddInt64(&cnt.restarts, 1)
			return ""
		}
		// quick tier: states without growth transitions are visited on a seeded sample only
		if si.st.NN < 1 {
			return
		}
		if len(growthOut) == 0 && len(gi.Probe) == 0 {
			if !obsOnAllStates && stateSample > 0 && (ki+int(c.Seed))%(4*stateSample) != 0 {
				return
			}
		} else if stateSample > 1 && si.depth > 4 && (ki+int(c.Seed))%stateSample != 0 {
			return
		}
		// (a) the state itself: projection, heads, addresses; then the refused growth requests,
		// the no-op ones and the graph-neutral sync requests
		s, prefix, ok := build()
		if !ok {
			return
		}
		d, err := compareGrowthState(s, g, si.st, prefix, &cnt.addr)
		must(err, "growth: project")
		if len(d) > 0 {
			report(c07gDivergence{Kind: "state-mismatch-after-path", Path: path, Expected: si.st, Diffs: d, Script: s.Script})
			return
		}
		atomic.AddInt64(&cnt.states, 1)
		stutter := func(op dagm.Op, wantAccepted bool, kind string) bool {
			accepted, status, err := s.Apply(op)
			if err != nil {
				fmt.Fprintf(os.Stderr, "growth: apply %s failed: %v\nscript tail: %s\nnode log tail:\n%s\n", op.Key(), err, jsonStr(s.Script[max(0, len(s.Script)-6):]), s.N.StderrTail(3000))
			}
			must(err, "growth: apply "+op.Op)
			// DAG and heads after every request; the addresses again after the last one (below)
			d, err := compareState(s, si.st, true)
			must(err, "growth: project")
			run.Eval(fmt.Sprintf("g|%s|%d|%s|%s", g.desc, ki, kind, op.Key()))
			if status >= 500 {
				d = append([]string{fmt.Sprintf("request %s answered %d (panic or server error)", op.Key(), status)}, d...)
			} else if accepted != wantAccepted {
				d = append([]string{fmt.Sprintf("request %s: accepted=%v, the specification says accepted=%v", op.Key(), accepted, wantAccepted)}, d...)
			}
			if len(d) > 0 {
				o := op
				report(c07gDivergence{Kind: kind + "-changed-state-or-wrong-answer", Path: path, Op: &o, Expected: si.st, Diffs: d, Script: s.Script})
				return false
			}
			return true
		}
		rej := append([]dagm.Op(nil), gi.Rej...)
		if rejPerState > 0 && len(rej) > rejPerState {
			rng.Shuffle(len(rej), func(i, j int) { rej[i], rej[j] = rej[j], rej[i] })
			rej = rej[:rejPerState]
		}
		alive := true
		for _, op := range rej {
			if si.st.NN == 0 {
				break
			}
			if alive = stutter(op, false, "refused-growth-request"); !alive {
				break
			}
			atomic.AddInt64(&cnt.refused, 1)
		}
		if alive {
			for _, op := range gi.Noop {
				if alive = stutter(op, true, "no-op-growth-request"); !alive {
					break
				}
				atomic.AddInt64(&cnt.noops, 1)
			}
		}
		if alive && len(si.st.Kind) > 0 && (len(growthOut) > 0 || ki%5 == int(c.Seed%5)) {
			// graph-neutral sync requests at a live root (TLC: Neutral(k, n) for k in NeutralKindsG)
			dead := map[int]bool{}
			for _, r := range si.st.Dead {
				dead[r] = true
			}
			// instances can only be created at (and sync requests sent to) an uncommitted version
			for i, k := range si.st.Kind {
				if k == "hidden" || dead[si.st.Rp[i]] || si.st.Lk[i] {
					continue
				}
				for _, kind := range []string{"setsync", "replacesync", "clearsync", "setsync", "deletesynced"} {
					if alive = stutter(dagm.Op{Op: kind, Node: i + 1}, true, "graph-neutral-sync-request"); !alive {
						break
					}
					atomic.AddInt64(&cnt.neutral, 1)
				}
				break
			}
		}
		if alive {
			d, err := compareGrowthState(s, g, si.st, prefix, &cnt.addr)
			must(err, "growth: project")
			if len(d) > 0 {
				report(c07gDivergence{Kind: "state-mismatch-after-refused-and-neutral-requests", Path: path, Expected: si.st, Diffs: d, Script: s.Script})
			}
		}
		// (b) requests whose outcome is unspecified: whatever the answer, the server's own graph must
		// stay well formed, a refusal must change nothing, and a restart must change nothing
		for pi, op := range gi.Probe {
			if rejPerState > 0 && pi >= 2 && !c.thorough() {
				break
			}
			s, prefix, ok := build()
			if !ok {
				return
			}
			accepted, status, err := s.Apply(op)
			must(err, "growth: apply probe")
			run.Eval(fmt.Sprintf("g|%s|%d|probe|%s", g.desc, ki, op.Key()))
			raw1, wf, err := rawGraph(s)
			must(err, "growth: project")
			var d []string
			if status >= 500 {
				d = append(d, fmt.Sprintf("request %s answered %d (panic or server error)", op.Key(), status))
			}
			d = append(d, wf...)
			if !accepted {
				dd, err := compareGrowthState(s, g, si.st, prefix, &cnt.addr)
				must(err, "growth: project")
				d = append(d, dd...)
			}
			if len(d) == 0 {
				// (a plain restart: with merge versions renamed by an accepted-but-unspecified request the
				// branch-versions listing is ill-defined even without a restart, so no full snapshot here)
				must(s.N.Idle(), "idle")
				if err := s.N.Restart(pi%2 == 0); err != nil {
					d = append(d, restartFailure(s.N, pi%2 == 0, err))
					w.close()
				} else {
					atomic.AddInt64(&cnt.restarts, 1)
					raw2, wf2, err := rawGraph(s)
					must(err, "growth: project after restart")
					d = append(d, wf2...)
					if raw1 != raw2 {
						d = append(d, "the version graph differs after a restart: before "+raw1+" after "+raw2)
					}
				}
			}
			if len(d) > 0 {
				o := op
				report(c07gDivergence{Kind: "unspecified-request-left-ill-formed-graph", Path: path, Op: &o, Diffs: d, Script: s.Script})
			}
			atomic.AddInt64(&cnt.probes, 1)
		}
		// (c) accepted growth transitions, each followed by one ordinary request of the successor
		// state and (on a sample) a restart in between
		for _, ei := range growthOut {
			e := g.edges[ei]
			s, prefix, ok := build()
			if !ok {
				return
			}
			accepted, status, err := s.Apply(e.L)
			must(err, "growth: apply")
			run.Eval(fmt.Sprintf("g|%s|%d|acc|%s", g.desc, ki, e.L.Key()))
			o := e.L
			if !accepted {
				report(c07gDivergence{Kind: "accepted-request-refused", Path: path, Op: &o, Diffs: []string{fmt.Sprintf("status %d", status)}, Script: s.Script})
				continue
			}
			d, err := compareGrowthState(s, g, e.T, prefix, &cnt.addr)
			must(err, "growth: project")
			if len(d) > 0 {
				report(c07gDivergence{Kind: "state-mismatch-after-accepted-request", Path: path, Op: &o, Expected: e.T, Diffs: d, Script: s.Script})
				continue
			}
			n := atomic.AddInt64(&cnt.accepted, 1)
			if n%400 == 1 {
				run.Sample(map[string]interface{}{"model": g.desc, "path": path, "request": e.L, "expected_state": e.T})
			}
			if restartEvery > 0 && (int(n)+int(c.Seed))%restartEvery == 0 {
				if msg := restart(s); msg != "" {
					report(c07gDivergence{Kind: "no-start-after-accepted-request", Path: path, Op: &o, Expected: e.T, Diffs: []string{msg}, Script: s.Script})
					continue
				}
				d, err := compareGrowthState(s, g, e.T, prefix, &cnt.addr)
				must(err, "growth: project after restart")
				if len(d) > 0 {
					report(c07gDivergence{Kind: "state-mismatch-after-restart", Path: path, Op: &o, Expected: e.T, Diffs: d, Script: s.Script})
					continue
				}
			}
			// follow-up: an ordinary accepted request of the successor state
			ti := g.states[e.T.Key()]
			if ti == nil || len(ti.out) == 0 {
				continue
			}
			var cand []int
			for _, fi := range ti.out {
				if !isGrowthOp(g.edges[fi].L.Op) {
					cand = append(cand, fi)
				}
			}
			if len(cand) == 0 {
				continue
			}
			nf := 1
			if c.thorough() {
				nf = 2
			}
			for k := 0; k < nf && k < len(cand); k++ {
				if k > 0 {
					// a second follow-up needs the state again
					s, prefix, ok = build()
					if !ok {
						return
					}
					if acc, _, err := s.Apply(e.L); err != nil || !acc {
						break
					}
				}
				f := g.edges[cand[rng.Intn(len(cand))]]
				acc, status, err := s.Apply(f.L)
				must(err, "growth: apply follow-up")
				run.Eval(fmt.Sprintf("g|%s|%d|then|%s|%s", g.desc, ki, e.L.Key(), f.L.Key()))
				fo := f.L
				if !acc {
					report(c07gDivergence{Kind: "accepted-request-refused-after-growth-request", Path: path, Op: &o, Then: &fo,
						Diffs: []string{fmt.Sprintf("status %d", status)}, Script: s.Script})
					continue
				}
				d, err := compareGrowthState(s, g, f.T, prefix, &cnt.addr)
				must(err, "growth: project")
				if len(d) > 0 {
					report(c07gDivergence{Kind: "state-mismatch-after-growth-then-ordinary-request", Path: path, Op: &o, Then: &fo, Expected: f.T, Diffs: d, Script: s.Script})
				} else if f.L.Op == "deleterepo" && (c.thorough() || (ki+int(c.Seed))%3 == 0) {
					// the other request that makes UUIDs unknown: it must stay so across a restart
					if msg := restart(s); msg != "" {
						report(c07gDivergence{Kind: "no-start-after-accepted-request", Path: path, Op: &o, Then: &fo, Diffs: []string{msg}, Script: s.Script})
					} else {
						d, err := compareGrowthState(s, g, f.T, prefix, &cnt.addr)
						must(err, "growth: project after restart")
						if len(d) > 0 {
							report(c07gDivergence{Kind: "state-mismatch-after-restart", Path: path, Op: &o, Then: &fo, Expected: f.T, Diffs: d, Script: s.Script})
						}
					}
				}
				atomic.AddInt64(&cnt.followups, 1)
			}
		}
	})
}

// c07Growth runs the growth parts and records their coverage under growth_* keys; it returns the
// number of cases replayed on the real server.
func c07Growth(c *Ctx, run *ev.Run) int64 {
	t0 := time.Now()
	var total int64
	// Part G: two bounded models: depth (one repo, named branches a / b) and identifiers
	// (two repos, caller-assigned UUIDs with a common prefix, inexpressible branch names)
	cfgs := []struct {
		gc           growthCfg
		restartEvery int
		rejPerState  int
		stateSample  int
		obsAll       bool
	}{
		// thorough: 5 versions give 53349 states / 28968 growth transitions: all states up to depth 4,
		// a seeded twelfth of the deeper ones
		{growthCfg{c.pick(4, 5), 1, 2, []string{"a"}, nil}, c.pick(12, 4), c.pick(3, 6), c.pick(8, 12), false},
		{growthCfg{c.pick(3, 3), 2, 2, []string{"a:b", "a~1"}, []string{"ua", "ub"}}, c.pick(12, 3), c.pick(2, 6), c.pick(20, 1), false},
	}
	var descr []string
	var cnt growthCounts
	var states, trans int64
	if part := os.Getenv("VCHECK_DEV_PART"); part != "" && !strings.Contains(part, "G") {
		cfgs = nil // development: skip part G
	}
	for _, x := range cfgs {
		g, r := emitGrowthGraph(c, x.gc)
		states += r.Distinct
		trans += r.Generated
		before := cnt
		replayGrowthGraph(c, run, g, x.gc, &cnt, x.restartEvery, x.rejPerState, x.stateSample, x.obsAll)
		ng := 0
		for _, e := range g.edges {
			if isGrowthOp(e.L.Op) {
				ng++
			}
		}
		descr = append(descr, fmt.Sprintf("%s -> %d states, %d state-changing transitions (%d by make-master / hide-branch); replayed: %d accepted growth transitions, %d follow-up requests, %d refused, %d no-op, %d unspecified, %d graph-neutral sync requests, %d restarts, %d addresses resolved",
			x.gc, len(g.states), len(g.edges), ng, cnt.accepted-before.accepted, cnt.followups-before.followups, cnt.refused-before.refused,
			cnt.noops-before.noops, cnt.probes-before.probes, cnt.neutral-before.neutral, cnt.restarts-before.restarts, cnt.addr-before.addr))
	}
	if c.thorough() {
		// refused requests as stuttering transitions: Act_C07_RejectIsStutter over the growth actions
		gc := growthCfg{4, 2, 2, []string{"a", "a~1"}, []string{"ua"}}
		cfg := "SPECIFICATION SpecG\n" + gc.constants(true) + "VIEW View\nINVARIANTS Inv_C07G\nPROPERTIES Act_C07_RejectIsStutter Act_MonotoneG\nCHECK_DEADLOCK FALSE\n"
		r := c.MustModelCheck(tlc.Opts{Module: "DvidDAGG_mc", Config: "gen_growth_mc.cfg",
			Files: map[string][]byte{"gen_growth_mc.cfg": []byte(cfg)}, Timeout: 30 * time.Minute, HeapGB: 8})
		states += r.Distinct
		trans += r.Generated
		descr = append(descr, fmt.Sprintf("model check with refused requests as transitions: %s -> %d states", gc, r.Distinct))
	}
	run.Set("growth_dag_models", descr)
	run.Set("growth_dag_states", states)
	run.Set("growth_dag_transitions", trans)
	total += cnt.accepted + cnt.followups + cnt.refused + cnt.noops + cnt.probes + cnt.neutral
	tG := since(t0)
	// Part R: resolve
	t1 := time.Now()
	nR := c07Resolve(c, run)
	total += nR
	tR := since(t1)
	// Part S: sync settings
	t2 := time.Now()
	nS := c07Sync(c, run)
	total += nS
	run.Set("growth_cases_replayed", total)
	run.Set("growth_rule", "growth cases: (G) one transition of DvidDAG.NextG by make-master / hide-branch (accepted, refused, no-op or unspecified) at a reachable state, replayed through the RPC entry points with DAG, heads, <uuid>:<branch>~<N> and UUID-prefix addresses compared before and after, then one ordinary request of the successor state, a restart on a sample; (R) one resolve request of DvidResolve (DAG shape x per-key placements x parent tuple) replayed through POST /api/repo/<uuid>/resolve with extension nodes, tombstones and the reads at every version compared; (S) one transition of DvidSync replayed through POST <instance>/sync and instance deletion with a restart after it")
	fmt.Printf("C07 growth: DAG %d states, %d growth transitions + %d follow-ups + %d refused + %d unspecified + %d neutral in %.1fs; resolve %d cases in %.1fs; sync %d cases in %.1fs\n",
		states, cnt.accepted, cnt.followups, cnt.refused, cnt.probes, cnt.neutral, tG, nR, tR, nS, since(t2))
	return total
}
