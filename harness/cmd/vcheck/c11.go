package main

// C11 — concurrent acknowledged mutations are never lost or half applied (plus the
// concurrent-allocation part of C12).
//
// specs/Concurrency.tla holds one process template per request kind at the grain of the
// code (gate = dvid.VerifPoint site, acquire/release, one shared read or write per step),
// each in two versions: the INTENDED locking and the locking the CODE has today, together
// with the atomic (sequential) meaning of every request.
//
//  1. TLC checks Inv_C11_Serializable / Inv_C12_Unique / lock release / deadlock freedom on
//     the intended locking over ALL interleavings of 2 (thorough: 3) requests of every
//     template.
//  2. TLC enumerates, on the model of today's locking and at the grain the gate scheduler
//     can force (GateGrain), every schedule of every request tuple and prints for each
//     tuple the set of serial outcomes (computed from the atomic semantics).
//  3. Every schedule is replayed on the real server: the requests run concurrently under
//     the node's gate scheduler (op par, Gated/Sched), parked at the VerifPoint sites and
//     released in the order of the schedule.  The final state is read through the API,
//     abstracted (a renaming, no semantics) and must be one of the serial outcomes TLC
//     computed whenever all requests were acknowledged.  A request that cannot reach its
//     gate because a peer is parked inside a lock is reported by the scheduler as blocked
//     (bounded wait) — never a verdict.
//  4. Ungated bursts (2..8 simultaneous requests on one key / block / tag / body / parent /
//     counter): responses and final state are recorded, TLC computes the serial outcomes
//     for the candidate orders, Go compares.  Conflicting annotation bursts (several writers of one
//     position, whole-block replacement) are judged against ALL permutations; merge bursts also run
//     on two open sibling versions at once.
//  5. Templates added by the growth round (c11_grow.go): mcli (body mutation || ChangeLabelIndex),
//     vox (voxel writes / split-supervoxel / merge / cleave / renumber over a region geometry; the
//     matched serial outcome is also read through every labelmap endpoint, lmm.Compare), annsync
//     (element edits || label sync handlers of a synced annotation), wc (write || commit || reader,
//     property C02).  Work a request leaves to goroutines (block writers, the index goroutine of a
//     voxel write, the sync handler of a subscriber) is scheduled like the request itself: the gate
//     scheduler attributes goroutines to requests by creation or by site (gate.go).
//  6. c11_annsync.go: behaviours of Annotation.tla replayed without idling between the operations.
//  7. c11_race.go (thorough): data race reports of a race-detector build, as diagnostics only.

import (
	"encoding/base64"
	"encoding/binary"
	"encoding/json"
	"fmt"
	"math/rand"
	"os"
	"regexp"
	"sort"
	"strconv"
	"strings"
	"sync"
	"sync/atomic"
	"time"

	pb "google.golang.org/protobuf/proto"

	"github.com/janelia-flyem/dvid/datatype/common/labels"
	"github.com/janelia-flyem/dvid/datatype/common/proto"

	"verifharness/internal/ev"
	"verifharness/internal/node"
	"verifharness/internal/tlc"
)

func init() { checks["C11"] = checkC11 }

// ---------------------------------------------------------------------------
// canonical JSON: every array in an observation is a set

func c11Norm(v interface{}) interface{} {
	switch x := v.(type) {
	case map[string]interface{}:
		out := map[string]interface{}{}
		for k, e := range x {
			out[k] = c11Norm(e)
		}
		return out
	case []interface{}:
		type el struct {
			s string
			v interface{}
		}
		els := make([]el, len(x))
		for i, e := range x {
			n := c11Norm(e)
			b, _ := json.Marshal(n)
			els[i] = el{string(b), n}
		}
		sort.Slice(els, func(i, j int) bool { return els[i].s < els[j].s })
		out := make([]interface{}, len(els))
		for i := range els {
			out[i] = els[i].v
		}
		return out
	case float64:
		return int64(x)
	case int:
		return int64(x)
	case uint64:
		return int64(x)
	case json.Number:
		n, _ := x.Int64()
		return n
	}
	return v
}

func c11Canon(v interface{}) string {
	b, _ := json.Marshal(c11Norm(v))
	return string(b)
}

// round-trips a Go value through JSON so that c11Canon sees generic maps/slices
func c11Generic(v interface{}) interface{} {
	b, _ := json.Marshal(v)
	var out interface{}
	json.Unmarshal(b, &out)
	return out
}

// ---------------------------------------------------------------------------
// model output

type c11Rq map[string]interface{}

func (r c11Rq) str(k string) string { s, _ := r[k].(string); return s }
func (r c11Rq) num(k string) int {
	f, _ := r[k].(float64)
	return int(f)
}
func (r c11Rq) ints(k string) []int {
	a, _ := r[k].([]interface{})
	var out []int
	for _, e := range a {
		f, _ := e.(float64)
		out = append(out, int(f))
	}
	sort.Ints(out)
	return out
}

type c11Key struct {
	Tpl string          `json:"tpl"`
	Rq  []c11Rq         `json:"rq"`
	Pre json.RawMessage `json:"pre"`
}

type c11End struct {
	Sched        []int  `json:"sched"`
	Accepted     []int  `json:"accepted"`
	Final        string `json:"final"`
	Serializable bool   `json:"serializable"`
	Explained    bool   `json:"explained"`
}

type c11Case struct {
	ID     string
	Key    c11Key
	Progs  [][]string
	Serial map[string]map[string]bool // subset "1,2" -> canonical finals
	LM     map[string]json.RawMessage // canonical final -> full read set (templates with one, see LmObsOf)
	Tuple  []int                      // catalog indices of the requests
	Ends   []*c11End
	// does the model of today's locking predict a non-serial outcome with all requests acknowledged?
	ModelUnserial bool
}

func subsetKey(a []int) string {
	b := append([]int(nil), a...)
	sort.Ints(b)
	var s []string
	for _, x := range b {
		s = append(s, strconv.Itoa(x))
	}
	return strings.Join(s, ",")
}

func (cs *c11Case) sites() []string {
	seen := map[string]bool{}
	var out []string
	for _, p := range cs.Progs {
		for _, s := range p {
			if s == "acq" || s == "rel" || s == "do" || seen[s] {
				continue
			}
			seen[s] = true
			out = append(out, s)
		}
	}
	sort.Strings(out)
	return out
}

func c11ParseModel(out string) (map[string]*c11Case, []*c11Case) {
	byKey := map[string]*c11Case{}
	var order []*c11Case
	PrintedJSON(out, func(raw []byte) {
		var l struct {
			Type   string          `json:"type"`
			Key    json.RawMessage `json:"key"`
			Progs  [][]string      `json:"progs"`
			Tuple  []int           `json:"tuple"`
			Serial []struct {
				T      []int         `json:"t"`
				Finals []interface{} `json:"finals"`
			} `json:"serial"`
			LM []struct {
				F  interface{}     `json:"f"`
				LM json.RawMessage `json:"lm"`
			} `json:"lm"`
			Sched        []int       `json:"sched"`
			Accepted     []int       `json:"accepted"`
			Final        interface{} `json:"final"`
			Serializable bool        `json:"serializable"`
			Explained    bool        `json:"explained"`
		}
		if json.Unmarshal(raw, &l) != nil || (l.Type != "case" && l.Type != "end") {
			return
		}
		var kg interface{}
		json.Unmarshal(l.Key, &kg)
		// the request list is positional: canonicalise requests one by one
		id := func() string {
			m, _ := kg.(map[string]interface{})
			rqs, _ := m["rq"].([]interface{})
			var parts []string
			for _, r := range rqs {
				parts = append(parts, c11Canon(r))
			}
			return fmt.Sprint(m["tpl"]) + "|" + strings.Join(parts, ";") + "|" + c11Canon(m["pre"])
		}()
		cs := byKey[id]
		if cs == nil {
			cs = &c11Case{ID: id, Serial: map[string]map[string]bool{}}
			if err := json.Unmarshal(l.Key, &cs.Key); err != nil {
				infra("bad case key: %v", err)
			}
			byKey[id] = cs
			order = append(order, cs)
		}
		if l.Type == "case" {
			cs.Progs = l.Progs
			cs.Tuple = l.Tuple
			for _, s := range l.Serial {
				m := map[string]bool{}
				for _, f := range s.Finals {
					m[c11Canon(f)] = true
				}
				cs.Serial[subsetKey(s.T)] = m
			}
			for _, x := range l.LM {
				if cs.LM == nil {
					cs.LM = map[string]json.RawMessage{}
				}
				cs.LM[c11Canon(x.F)] = x.LM
			}
			return
		}
		e := &c11End{Sched: l.Sched, Accepted: l.Accepted, Final: c11Canon(l.Final), Serializable: l.Serializable, Explained: l.Explained}
		cs.Ends = append(cs.Ends, e)
		if !e.Serializable && len(e.Accepted) == len(cs.Key.Rq) {
			cs.ModelUnserial = true
		}
	})
	return byKey, order
}

func c11Cfg(nproc int, locking string, gateGrain, emit bool, invs string) string {
	return fmt.Sprintf("INIT Init\nNEXT Next\nCONSTANTS\n  NProc = %d\n  Locking = %q\n  GateGrain = %s\n  Emit = %s\n  Tpls <- GenTpls\n  Only <- GenOnly\n  Bursts <- GenBursts\nINVARIANTS %s\n",
		nproc, locking, tlaBool(gateGrain), tlaBool(emit), invs)
}

func c11Gen(tpls []string, only string, bursts string) []byte {
	var q []string
	for _, t := range tpls {
		q = append(q, strconv.Quote(t))
	}
	if only == "" {
		only = "{}"
	}
	if bursts == "" {
		bursts = "<<>>"
	}
	return []byte(fmt.Sprintf("---- MODULE ConcurrencyGen ----\nEXTENDS Concurrency\nGenTpls == {%s}\nGenOnly == %s\nGenBursts == %s\n====\n", strings.Join(q, ", "), only, bursts))
}

var c11Templates = []string{"kv", "ann", "lm", "ver", "nj", "nl", "mut", "cli", "mcli", "vox", "annsync", "verx"}

// template wc (write || commit || reader, 3 requests) is explored by its own TLC runs
var c11WcOn = true

// the templates of the first round: 3-request exploration and ungated bursts are generated for these
var c11BaseTemplates = []string{"kv", "ann", "lm", "ver", "nj", "nl", "mut", "cli"}

func init() {
	// development aid: VERIF_C11_TPLS=a,b restricts the templates (never set by a registered command)
	if v := os.Getenv("VERIF_C11_TPLS"); v != "" {
		c11Templates = nil
		c11WcOn = false
		for _, t := range strings.Split(v, ",") {
			if t == "wc" {
				c11WcOn = true
			} else {
				c11Templates = append(c11Templates, t)
			}
		}
		var base []string
		for _, t := range c11Templates {
			for _, b := range c11BaseTemplates {
				if t == b {
					base = append(base, t)
				}
			}
		}
		c11BaseTemplates = base
	}
}

// known findings per template (id in known_findings.json)
var c11Known = map[string]string{
	"ann": "annotation-edits-not-serialized",
	"lm":  "merge-index-read-modify-write-unlocked",
	"ver": "newversion-sibling-check-under-shared-lock",
	"nj":  "neuronjson-update-read-modify-write-unlocked",
}

// ---------------------------------------------------------------------------
// concretisation (a renaming of abstract identifiers; no semantics)

type c11Env struct {
	n     *node.Node
	root  string
	inst  string
	nsv   int
	nlab  int
	base  uint64 // mutation id base (mut)
	resps []node.Resp
	cs    *c11Key
	grow  *c11GrowEnv // templates of c11_grow.go
	vxP   string      // template verx (c11_verx.go): the version the requests address
	vxQ   string      // ... and its committed sibling (second parent of the version merge)
}

func c11Do(n *node.Node, method, url string, body []byte, what string) node.Resp {
	r, err := n.HTTP(method, url, body)
	must(err, what)
	if r.Status != 200 {
		infra("%s: status %d %s", what, r.Status, trunc(string(r.Bytes()), 300))
	}
	return r
}

func c11NewRepo(n *node.Node) string {
	r := c11Do(n, "POST", "/api/repos", []byte(`{"alias":"c11"}`), "new repo")
	var o struct{ Root string }
	json.Unmarshal(r.Bytes(), &o)
	if o.Root == "" {
		infra("new repo: no root in %s", r.Bytes())
	}
	return o.Root
}

func c11NewInstance(n *node.Node, root, typ, name string, extra map[string]string) {
	m := map[string]string{"typename": typ, "dataname": name}
	for k, v := range extra {
		m[k] = v
	}
	b, _ := json.Marshal(m)
	c11Do(n, "POST", "/api/repo/"+root+"/instance", b, "new "+typ+" instance")
}

const c11LmBS = 16

func c11Ingest(n *node.Node, root, inst string, nsv int) {
	for sv := 1; sv <= nsv; sv++ {
		vol := make([]byte, c11LmBS*c11LmBS*c11LmBS*8)
		for i := 0; i < len(vol); i += 8 {
			binary.LittleEndian.PutUint64(vol[i:], uint64(sv))
		}
		c11Do(n, "POST", fmt.Sprintf("/api/node/%s/%s/raw/0_1_2/%d_%d_%d/%d_0_0", root, inst, c11LmBS, c11LmBS, c11LmBS, (sv-1)*c11LmBS), vol, "ingest supervoxel")
	}
	must(n.Idle(), "idle after ingest")
	// the body indices of ingested blocks are written by goroutines no idle predicate covers
	for sv := 1; sv <= nsv; sv++ {
		c11WaitIndex(n, root, inst, sv)
	}
}

// abstract position -> voxel (annotation blocks are 64^3)
func c11Point(pos int) [3]int { return [3]int{(pos/100)*64 + pos%100, 10, 10} }
func c11PosOf(p []int) int {
	if len(p) != 3 {
		return -1
	}
	return (p[0]/64)*100 + p[0]%64
}

type c11Elem struct {
	Pos  [3]int            `json:"Pos"`
	Kind string            `json:"Kind"`
	Tags []string          `json:"Tags"`
	Prop map[string]string `json:"Prop"`
}

func c11MkElem(pos int, tags []int, val int) c11Elem {
	e := c11Elem{Pos: c11Point(pos), Kind: "Note", Prop: map[string]string{"v": strconv.Itoa(val)}, Tags: []string{}}
	for _, t := range tags {
		e.Tags = append(e.Tags, fmt.Sprintf("t%d", t))
	}
	return e
}

func c11NjUser(u int) string {
	if u == 0 {
		return "seed"
	}
	return fmt.Sprintf("u%d", u)
}

var c11InstSeq int64

// c11Setup builds the pre-state of a case on node n and returns the environment.
func c11Setup(n *node.Node, repo *string, key *c11Key, nsv, nlab int) *c11Env {
	env := &c11Env{n: n, cs: key, nsv: nsv, nlab: nlab}
	k := atomic.AddInt64(&c11InstSeq, 1)
	var pre map[string]interface{}
	json.Unmarshal(key.Pre, &pre)
	switch key.Tpl {
	case "verx":
		c11VxSetup(env, pre)
		return env
	case "ver":
		env.root = c11NewRepo(n)
		c11Do(n, "POST", "/api/node/"+env.root+"/commit", []byte(`{"note":"c11"}`), "commit root")
		return env
	case "nj":
		env.root = c11NewRepo(n)
		env.inst = "nj"
		c11NewInstance(n, env.root, "neuronjson", env.inst, nil)
		if st, _ := pre["store"].(map[string]interface{}); st != nil && st["ex"] == true {
			c11Do(n, "POST", "/api/node/"+env.root+"/nj/key/7?u=seed", []byte(`{"bodyid":7,"a":9}`), "seed annotation")
		}
		return env
	}
	if *repo == "" {
		*repo = c11NewRepo(n)
	}
	env.root = *repo
	switch key.Tpl {
	case "kv":
		env.inst = fmt.Sprintf("kv%d", k)
		c11NewInstance(n, env.root, "keyvalue", env.inst, nil)
		if f, _ := pre["k"].(float64); f != 0 {
			c11Do(n, "POST", "/api/node/"+env.root+"/"+env.inst+"/key/k", []byte(fmt.Sprintf("v%d", int(f))), "seed key")
		}
	case "ann":
		env.inst = fmt.Sprintf("an%d", k)
		c11NewInstance(n, env.root, "annotation", env.inst, nil)
		seed := []c11Elem{c11MkElem(1, []int{1}, 0), c11MkElem(2, []int{1, 2}, 0), c11MkElem(104, []int{2}, 0)}
		b, _ := json.Marshal(seed)
		c11Do(n, "POST", "/api/node/"+env.root+"/"+env.inst+"/elements", b, "seed elements")
	case "lm":
		env.inst = fmt.Sprintf("lm%d", k)
		c11NewInstance(n, env.root, "labelmap", env.inst, map[string]string{"BlockSize": fmt.Sprintf("%d,%d,%d", c11LmBS, c11LmBS, c11LmBS)})
		c11Ingest(n, env.root, env.inst, nsv)
		c11Do(n, "POST", "/api/node/"+env.root+"/"+env.inst+"/merge", []byte(`[1,2,3]`), "seed merge")
	case "nl":
		env.inst = fmt.Sprintf("nl%d", k)
		c11NewInstance(n, env.root, "labelmap", env.inst, map[string]string{"BlockSize": fmt.Sprintf("%d,%d,%d", c11LmBS, c11LmBS, c11LmBS)})
		c11Do(n, "POST", "/api/node/"+env.root+"/"+env.inst+"/maxlabel/5", nil, "set maxlabel")
	case "mut":
		// one labelmap instance per request (the instances share the repo's mutation id counter, and
		// nothing else serializes their merges)
		env.inst = fmt.Sprintf("mu%d", k)
		for p := 1; p <= len(key.Rq); p++ {
			inst := fmt.Sprintf("%s_%d", env.inst, p)
			c11NewInstance(n, env.root, "labelmap", inst, map[string]string{"BlockSize": fmt.Sprintf("%d,%d,%d", c11LmBS, c11LmBS, c11LmBS)})
			c11Ingest(n, env.root, inst, 2)
		}
		env.base = c11MutationID(n, env.root)
	case "cli":
		env.inst = fmt.Sprintf("ci%d", k)
		c11NewInstance(n, env.root, "labelmap", env.inst, map[string]string{"BlockSize": fmt.Sprintf("%d,%d,%d", c11LmBS, c11LmBS, c11LmBS)})
		c11Ingest(n, env.root, env.inst, 4)
	default:
		if !c11GrowSetup(env, key, k) {
			infra("unknown template %q", key.Tpl)
		}
	}
	return env
}

// block "A" of template cli is the block of supervoxel 4, "B" a block the body does not touch yet
var c11CliBlocks = map[string][3]int32{"A": {3, 0, 0}, "B": {0, 1, 0}}

func c11MutationID(n *node.Node, root string) uint64 {
	r := c11Do(n, "GET", "/api/repo/"+root+"/info", nil, "repo info")
	var info struct{ MutationID uint64 }
	must(json.Unmarshal(r.Bytes(), &info), "repo info json")
	return info.MutationID
}

// c11Request maps an abstract request to the HTTP request.
func c11Request(env *c11Env, r c11Rq) node.Req {
	base := "/api/node/" + env.root + "/" + env.inst
	who := r.num("who")
	switch env.cs.Tpl {
	case "verx":
		return c11VxRequest(env, r)
	case "kv":
		if r.str("k") == "put" {
			return env.n.MkReq("POST", base+"/key/k", []byte(fmt.Sprintf("v%d", 10+who)))
		}
		return env.n.MkReq("DELETE", base+"/key/k", nil)
	case "ann":
		switch r.str("k") {
		case "post":
			var es []c11Elem
			raw, _ := r["elems"].([]interface{})
			for _, x := range raw {
				m := c11Rq(x.(map[string]interface{}))
				es = append(es, c11MkElem(m.num("pos"), m.ints("tags"), who))
			}
			sort.Slice(es, func(i, j int) bool { return es[i].Pos[0] < es[j].Pos[0] })
			b, _ := json.Marshal(es)
			return env.n.MkReq("POST", base+"/elements", b)
		case "del":
			p := c11Point(r.num("pos"))
			return env.n.MkReq("DELETE", fmt.Sprintf("%s/element/%d_%d_%d", base, p[0], p[1], p[2]), nil)
		case "move":
			p, q := c11Point(r.num("from")), c11Point(r.num("to"))
			return env.n.MkReq("POST", fmt.Sprintf("%s/move/%d_%d_%d/%d_%d_%d", base, p[0], p[1], p[2], q[0], q[1], q[2]), nil)
		case "blocks":
			var es []c11Elem
			raw, _ := r["elems"].([]interface{})
			for _, x := range raw {
				m := c11Rq(x.(map[string]interface{}))
				es = append(es, c11MkElem(m.num("pos"), m.ints("tags"), who))
			}
			b, _ := json.Marshal(map[string][]c11Elem{fmt.Sprintf("%d,0,0", r.num("b")-1): es})
			return env.n.MkReq("POST", base+"/blocks", b)
		}
	case "lm":
		if r.str("k") == "merge" {
			b, _ := json.Marshal(append([]int{r.num("t")}, r.ints("m")...))
			return env.n.MkReq("POST", base+"/merge", b)
		}
		b, _ := json.Marshal(r.ints("s"))
		return env.n.MkReq("POST", fmt.Sprintf("%s/cleave/%d", base, r.num("b")), b)
	case "ver":
		if r.str("k") == "newversion" {
			return env.n.MkReq("POST", "/api/node/"+env.root+"/newversion", []byte(`{}`))
		}
		if r.str("k") == "log" && r["newdata"] == true {
			return env.n.MkReq("POST", "/api/repo/"+env.root+"/instance", []byte(fmt.Sprintf(`{"typename":"keyvalue","dataname":"burst%d"}`, who)))
		}
		if r.str("k") == "log" {
			return env.n.MkReq("POST", "/api/repo/"+env.root+"/log", []byte(fmt.Sprintf(`{"log":["c11 %d"]}`, who)))
		}
		return env.n.MkReq("POST", "/api/node/"+env.root+"/branch", []byte(fmt.Sprintf(`{"branch":%q}`, r.str("b"))))
	case "nj":
		if r.str("k") == "del" {
			return env.n.MkReq("DELETE", "/api/node/"+env.root+"/nj/key/7", nil)
		}
		f, _ := r["f"].(map[string]interface{})
		m := map[string]interface{}{"bodyid": 7}
		for x, v := range f {
			base, _ := v.(float64)
			if int(base) == 9 {
				m[x] = 9
			} else {
				m[x] = int(base) + who
			}
		}
		b, _ := json.Marshal(m)
		return env.n.MkReq("POST", "/api/node/"+env.root+"/nj/key/7?u="+c11NjUser(who), b)
	case "nl":
		return env.n.MkReq("POST", fmt.Sprintf("%s/nextlabel/%d", base, r.num("n")), nil)
	case "mut":
		return env.n.MkReq("POST", fmt.Sprintf("%s_%d/merge", base, who), []byte("[1,2]"))
	case "cli":
		// not an HTTP request: one concurrent caller of labelmap.ChangeLabelIndex (node call conc.changeLabelIndex)
		b, _ := json.Marshal(map[string]interface{}{"block": c11CliBlocks[r.str("b")], "sv": 4, "n": r.num("n")})
		return node.Req{ID: uint64(who), Op: "cli", Method: "CALL", URL: fmt.Sprintf("labelmap.ChangeLabelIndex(%s, label 4, block %s, sv 4, %+d voxels)", env.inst, r.str("b"), r.num("n")), Args: b}
	}
	if rq, ok := c11GrowRequest(env, r); ok {
		return rq
	}
	infra("no request mapping for %s/%v", env.cs.Tpl, r)
	return node.Req{}
}

type obsM = map[string]interface{}

func c11Elems(b []byte) ([]interface{}, error) {
	var es []struct {
		Pos  []int
		Tags []string
		Prop map[string]string
	}
	if s := strings.TrimSpace(string(b)); s == "" || s == "null" {
		return []interface{}{}, nil
	}
	if err := json.Unmarshal(b, &es); err != nil {
		return nil, err
	}
	out := []interface{}{}
	for _, e := range es {
		var tags []interface{}
		for _, t := range e.Tags {
			k, _ := strconv.Atoi(strings.TrimPrefix(t, "t"))
			tags = append(tags, k)
		}
		if tags == nil {
			tags = []interface{}{}
		}
		val, _ := strconv.Atoi(e.Prop["v"])
		out = append(out, obsM{"pos": c11PosOf(e.Pos), "tags": tags, "val": val})
	}
	return out, nil
}

// c11Observe reads the final state through the API and abstracts it to the shape of Obs.
func c11Observe(env *c11Env) interface{} {
	n := env.n
	base := "/api/node/" + env.root + "/" + env.inst
	get := func(url string, body []byte) node.Resp {
		r, err := n.HTTP("GET", url, body)
		must(err, "GET "+url)
		return r
	}
	switch env.cs.Tpl {
	case "verx":
		return c11VxObserve(env)
	case "kv":
		r := get(base+"/key/k", nil)
		if r.Status == 404 {
			return obsM{"k": 0}
		}
		if r.Status != 200 {
			infra("GET key: %d", r.Status)
		}
		v, err := strconv.Atoi(strings.TrimPrefix(string(r.Bytes()), "v"))
		if err != nil {
			return obsM{"k": "unreadable:" + trunc(string(r.Bytes()), 40)}
		}
		return obsM{"k": v}
	case "ann":
		r := get(base+"/blocks/128_64_64/0_0_0", nil)
		if r.Status != 200 {
			infra("GET blocks: %d %s", r.Status, r.Bytes())
		}
		var blocks map[string]json.RawMessage
		must(json.Unmarshal(r.Bytes(), &blocks), "blocks json")
		blk := []interface{}{}
		for b := 1; b <= 2; b++ {
			es := []interface{}{}
			if raw, ok := blocks[fmt.Sprintf("%d,0,0", b-1)]; ok {
				var err error
				es, err = c11Elems(raw)
				must(err, "block elements json")
			}
			blk = append(blk, obsM{"b": b, "e": es})
		}
		for k := range blocks {
			if k != "0,0,0" && k != "1,0,0" {
				blk = append(blk, obsM{"b": k, "e": "unexpected block"})
			}
		}
		tg := []interface{}{}
		for t := 1; t <= 2; t++ {
			r := get(fmt.Sprintf("%s/tag/t%d", base, t), nil)
			if r.Status != 200 {
				infra("GET tag: %d %s", r.Status, r.Bytes())
			}
			es, err := c11Elems(r.Bytes())
			must(err, "tag elements json")
			tg = append(tg, obsM{"t": t, "e": es})
		}
		return obsM{"blk": blk, "tg": tg}
	case "lm":
		idx := []interface{}{}
		for l := 1; l <= env.nlab+2; l++ {
			r := get(fmt.Sprintf("%s/supervoxels/%d", base, l), nil)
			if r.Status == 404 {
				continue
			}
			if r.Status != 200 {
				infra("GET supervoxels/%d: %d %s", l, r.Status, r.Bytes())
			}
			var svs []interface{}
			must(json.Unmarshal(r.Bytes(), &svs), "supervoxels json")
			idx = append(idx, obsM{"l": l, "s": svs})
		}
		var q []int
		for s := 1; s <= env.nsv; s++ {
			q = append(q, s)
		}
		qb, _ := json.Marshal(q)
		r := get(base+"/mapping", qb)
		if r.Status != 200 {
			infra("GET mapping: %d %s", r.Status, r.Bytes())
		}
		var mapped []int
		must(json.Unmarshal(r.Bytes(), &mapped), "mapping json")
		mp := []interface{}{}
		for i, l := range mapped {
			mp = append(mp, obsM{"s": i + 1, "l": l})
		}
		return obsM{"idx": idx, "mp": mp, "nxt": c11MaxLabel(env)}
	case "ver":
		r := get("/api/repo/"+env.root+"/info", nil)
		var info struct {
			DAG struct {
				Nodes map[string]struct {
					Branch    string
					VersionID int
					Parents   []int
					Children  []int
				}
			}
		}
		must(json.Unmarshal(r.Bytes(), &info), "repo info json")
		rootV := -1
		for u, nd := range info.DAG.Nodes {
			if u == env.root {
				rootV = nd.VersionID
			}
		}
		cnt := map[string]int{}
		for _, nd := range info.DAG.Nodes {
			for _, p := range nd.Parents {
				if p == rootV {
					cnt[nd.Branch]++
				}
			}
		}
		kids := []interface{}{}
		for b, c := range cnt {
			kids = append(kids, obsM{"b": b, "n": c})
		}
		// an acknowledged new-instance request (bursts) must have left its instance in the repo
		var insts struct{ DataInstances map[string]json.RawMessage }
		json.Unmarshal(r.Bytes(), &insts)
		for i, rq := range env.cs.Rq {
			if rq["newdata"] == true && i < len(env.resps) && env.resps[i].Status == 200 {
				if _, ok := insts.DataInstances[fmt.Sprintf("burst%d", rq.num("who"))]; !ok {
					kids = append(kids, obsM{"b": fmt.Sprintf("acknowledged instance burst%d is missing", rq.num("who")), "n": 0})
				}
			}
		}
		return obsM{"kids": kids}
	case "nj":
		read := func(uuid string) interface{} {
			r := get("/api/node/"+uuid+"/nj/key/7?show=all", nil)
			if r.Status == 404 {
				return obsM{"ex": false, "f": []interface{}{}}
			}
			if r.Status != 200 {
				infra("GET key/7: %d %s", r.Status, r.Bytes())
			}
			var m map[string]interface{}
			must(json.Unmarshal(r.Bytes(), &m), "annotation json")
			fs := []interface{}{}
			for k, v := range m {
				if k == "bodyid" || strings.HasSuffix(k, "_user") || strings.HasSuffix(k, "_time") {
					continue
				}
				u := -1
				if s, ok := m[k+"_user"].(string); ok {
					if s == "seed" {
						u = 0
					} else if x, err := strconv.Atoi(strings.TrimPrefix(s, "u")); err == nil {
						u = x
					}
				}
				fs = append(fs, obsM{"x": k, "v": v, "u": u})
			}
			return obsM{"ex": true, "f": fs}
		}
		mem := read(env.root) // uncommitted head of master: answered from the in-memory database
		c11Do(n, "POST", "/api/node/"+env.root+"/commit", []byte(`{"note":"c11"}`), "commit")
		c11Do(n, "POST", "/api/node/"+env.root+"/newversion", []byte(`{}`), "newversion")
		store := read(env.root) // committed, no longer head: answered from the store
		return obsM{"store": store, "mem": mem}
	case "nl":
		rets := []interface{}{}
		nret := 0
		for _, r := range env.resps {
			if r.Status != 200 {
				continue
			}
			var o struct{ Start, End int }
			must(json.Unmarshal(r.Bytes(), &o), "nextlabel json")
			rets = append(rets, obsM{"b": o.Start, "e": o.End})
			nret++
		}
		// rets is a set in the model: duplicates collapse there too
		return obsM{"max": c11MaxLabel(env), "rets": c11Dedup(rets), "nret": len(c11Dedup(rets))}
	case "cli":
		r := get(base+"/index/4", nil)
		if r.Status == 404 {
			return obsM{"cnt": []interface{}{}}
		}
		if r.Status != 200 {
			infra("GET index/4: %d %s", r.Status, r.Bytes())
		}
		var idx proto.LabelIndex
		must(pb.Unmarshal(r.Bytes(), &idx), "label index protobuf")
		cnt := []interface{}{}
		for zyx, svc := range idx.Blocks {
			x, y, z := labels.DecodeBlockIndex(zyx)
			name := fmt.Sprintf("%d,%d,%d", x, y, z)
			for k, c := range c11CliBlocks {
				if c == [3]int32{x, y, z} {
					name = k
				}
			}
			var total uint64
			for _, c := range svc.Counts {
				total += uint64(c)
			}
			if total > 0 {
				cnt = append(cnt, obsM{"b": name, "n": total})
			}
		}
		return obsM{"cnt": cnt}
	case "mut":
		rets := []interface{}{}
		for _, r := range env.resps {
			if r.Status != 200 {
				continue
			}
			var o struct{ MutationID uint64 }
			must(json.Unmarshal(r.Bytes(), &o), "merge json")
			rets = append(rets, int64(o.MutationID)-int64(env.base))
		}
		d := c11Dedup(rets)
		return obsM{"cur": int64(c11MutationID(n, env.root)) - int64(env.base), "rets": d, "nret": len(d)}
	}
	if o, ok := c11GrowObserve(env); ok {
		return o
	}
	infra("no observer for %s", env.cs.Tpl)
	return nil
}

func c11Dedup(a []interface{}) []interface{} {
	seen := map[string]bool{}
	out := []interface{}{}
	for _, x := range a {
		k := c11Canon(c11Generic(x))
		if !seen[k] {
			seen[k] = true
			out = append(out, x)
		}
	}
	return out
}

func c11MaxLabel(env *c11Env) int {
	r, err := env.n.HTTP("GET", "/api/node/"+env.root+"/"+env.inst+"/maxlabel", nil)
	must(err, "GET maxlabel")
	if r.Status != 200 {
		infra("GET maxlabel: %d %s", r.Status, r.Bytes())
	}
	var o struct {
		MaxLabel int `json:"maxlabel"`
	}
	must(json.Unmarshal(r.Bytes(), &o), "maxlabel json")
	return o.MaxLabel
}

// ---------------------------------------------------------------------------
// replay

type c11Replay struct {
	Kind      string           `json:"kind"`
	Template  string           `json:"template"`
	Requests  []c11Rq          `json:"abstract_requests"`
	HTTP      []string         `json:"http_requests"`
	Pre       json.RawMessage  `json:"pre_state"`
	Schedule  []int            `json:"schedule,omitempty"`
	Gates     []node.GateEvent `json:"gate_events,omitempty"`
	Statuses  []int            `json:"statuses"`
	Bodies    []string         `json:"responses"`
	Observed  interface{}      `json:"observed_final"`
	Serial    []string         `json:"serial_outcomes"`
	ModelSays string           `json:"model_of_todays_locking_predicts,omitempty"`
	Detail    string           `json:"detail"`
}

type c11Worker struct {
	c      *Ctx
	n      *node.Node
	repo   string
	ncases int
	// race diagnostics (c11_race.go): an explicit server binary; every node ever used (their stderr is read at the end)
	bin      string
	allNodes []*node.Node
}

func (w *c11Worker) node() *node.Node {
	if w.n == nil || w.ncases >= 120 {
		if w.n != nil {
			w.c.DropNode(w.n)
		}
		if w.bin != "" {
			w.n = startNodeBin(w.c, w.bin, node.Config{})
			w.allNodes = append(w.allNodes, w.n)
		} else {
			w.n = w.c.StartNode(node.Config{})
		}
		w.repo = ""
		w.ncases = 0
	}
	w.ncases++
	return w.n
}

func (w *c11Worker) close() {
	if w.n != nil {
		w.c.DropNode(w.n)
		w.n = nil
	}
}

type c11Stats struct {
	replays, followed, lockBlocked, allAck, mixed, mixedUnexplained, nonSerial, knownHits, deep int64
	locksAt                                                                                     sync.Map // site -> *int64
	perTpl                                                                                      sync.Map // tpl -> *int64
}

func (s *c11Stats) bump(m *sync.Map, k string) {
	v, _ := m.LoadOrStore(k, new(int64))
	atomic.AddInt64(v.(*int64), 1)
}

func mapCounts(m *sync.Map) map[string]int64 {
	out := map[string]int64{}
	m.Range(func(k, v interface{}) bool {
		out[k.(string)] = atomic.LoadInt64(v.(*int64))
		return true
	})
	return out
}

func httpLine(rq node.Req) string {
	s := rq.Method + " " + rq.URL
	if rq.Body != "" {
		b, _ := decodeB64(rq.Body)
		s += " " + trunc(string(b), 300)
	}
	return s
}

// judge compares the observed final state with the serial outcomes of the case.
func c11Judge(run *ev.Run, st *c11Stats, cs *c11Case, e *c11End, env *c11Env, reqs []node.Req, resp node.Resp, kind string) {
	var accepted []int
	var statuses []int
	var bodies []string
	for i, r := range resp.Resps {
		statuses = append(statuses, r.Status)
		bodies = append(bodies, trunc(string(r.Bytes()), 200))
		if r.Status == 200 {
			accepted = append(accepted, i+1)
		} else if r.Status != 400 {
			// neither acknowledged nor refused: report as such (a 5xx under concurrency is a finding of its own)
			bodies[i] = fmt.Sprintf("[status %d] %s", r.Status, bodies[i])
		}
	}
	env.resps = resp.Resps
	obs := c11Generic(c11Observe(env))
	got := c11Canon(obs)
	all := len(accepted) == len(cs.Key.Rq)
	var procs []int
	for i := range cs.Key.Rq {
		procs = append(procs, i+1)
	}
	report := func(detail string) {
		var lines []string
		for _, rq := range reqs {
			lines = append(lines, httpLine(rq))
		}
		var serial []string
		for f := range cs.Serial[subsetKey(procs)] {
			serial = append(serial, f)
		}
		sort.Strings(serial)
		rp := c11Replay{Kind: kind, Template: cs.Key.Tpl, Requests: cs.Key.Rq, HTTP: lines, Pre: cs.Key.Pre, Gates: resp.Gates,
			Statuses: statuses, Bodies: bodies, Observed: obs, Serial: serial, Detail: detail}
		if e != nil {
			rp.Schedule = e.Sched
			rp.ModelSays = fmt.Sprintf("final %s, serializable=%v", e.Final, e.Serializable)
		}
		id, known := c11KnownFor(cs)
		if known && run.KnownActive(id) && cs.ModelUnserial && c11KnownOutcome(cs, got) {
			atomic.AddInt64(&st.knownHits, 1)
			run.ReportKnown(id)
			if atomic.LoadInt64(&st.knownHits) <= 3 {
				run.Sample(rp)
			}
			return
		}
		run.Violation("c11", rp)
	}
	if all {
		atomic.AddInt64(&st.allAck, 1)
		if !cs.Serial[subsetKey(procs)][got] {
			atomic.AddInt64(&st.nonSerial, 1)
			report("all requests were acknowledged but the final state is not the result of any sequential order of them")
		} else if lmObs, ok := cs.LM[got]; ok {
			// the state is a serial outcome: every read endpoint must agree with it as well
			atomic.AddInt64(&st.deep, 1)
			if diffs := c11DeepCompare(env, lmObs); len(diffs) > 0 {
				atomic.AddInt64(&st.nonSerial, 1)
				report("the stored voxels, indices and mapping are those of a sequential order, but other reads of the final state disagree with it: " + strings.Join(diffs, "; "))
			}
		}
		return
	}
	atomic.AddInt64(&st.mixed, 1)
	// some request was refused: the property does not constrain this run; diagnostics only
	ok := false
	accSet := map[int]bool{}
	for _, a := range accepted {
		accSet[a] = true
	}
	for mask := 0; mask < 1<<len(procs) && !ok; mask++ {
		var sub []int
		good := true
		for i, p := range procs {
			if mask&(1<<i) != 0 {
				sub = append(sub, p)
			} else if accSet[p] {
				good = false
			}
		}
		if good && cs.Serial[subsetKey(sub)][got] {
			ok = true
		}
	}
	if !ok {
		atomic.AddInt64(&st.mixedUnexplained, 1)
	}
}

func decodeB64(s string) ([]byte, error) {
	r := node.Resp{Body: s}
	return r.Bytes(), nil
}

// c11Run executes the requests concurrently: gated (sched = process ids in release order, parking at
// sites) or ungated (sites == nil, sched == nil).
func c11Run(env *c11Env, reqs []node.Req, sched []int, sites []string, waitMS int, timeout time.Duration) (node.Resp, error) {
	n := env.n
	if c11IsMix(env.cs.Tpl) {
		return c11RunMix(env, reqs, sched, sites, waitMS)
	}
	if env.cs.Tpl == "cli" {
		args := map[string]interface{}{"uuid": env.root, "name": env.inst, "label": 4, "wait_ms": waitMS}
		var deltas []json.RawMessage
		for _, r := range reqs {
			deltas = append(deltas, r.Args)
		}
		args["deltas"] = deltas
		if sites == nil {
			args["sites"] = []string{"none"} // nothing parks
			args["sched"] = []int{}
		} else {
			args["sites"] = sites
			args["sched"] = sched
		}
		var res struct {
			Errs  []string         `json:"errs"`
			Gates []node.GateEvent `json:"gates"`
		}
		if err := n.Call("conc.changeLabelIndex", args, &res); err != nil {
			return node.Resp{}, err
		}
		out := node.Resp{Gates: res.Gates}
		for _, e := range res.Errs {
			if e == "" {
				out.Resps = append(out.Resps, node.Resp{Status: 200})
			} else {
				out.Resps = append(out.Resps, node.Resp{Status: 400, Body: encodeB64([]byte(e))})
			}
		}
		return out, nil
	}
	if sites == nil {
		return n.DoTimeout(node.Req{Op: "par", Reqs: reqs}, timeout)
	}
	var ids []uint64
	for _, p := range sched {
		ids = append(ids, reqs[p-1].ID)
	}
	return n.ParGated(reqs, ids, append(append([]string(nil), sites...), c11GrowDirectives(env, reqs)...), waitMS)
}

func encodeB64(b []byte) string { return base64.StdEncoding.EncodeToString(b) }

// replayEnd runs one schedule of one case on the worker's node.
func (w *c11Worker) replayEnd(run *ev.Run, st *c11Stats, cs *c11Case, e *c11End, waitMS int) {
	n := w.node()
	nlab := 5 + len(cs.Key.Rq)
	env := c11Setup(n, &w.repo, &cs.Key, 5, nlab)
	var reqs []node.Req
	for _, r := range cs.Key.Rq {
		reqs = append(reqs, c11Request(env, r))
	}
	sched := e.Sched
	resp, err := c11Run(env, reqs, sched, cs.sites(), waitMS, 0)
	if err != nil {
		var lines []string
		for _, rq := range reqs {
			lines = append(lines, trunc(httpLine(rq), 160))
		}
		infra("gated par: %v (template %s, schedule %v, requests %v); goroutines of the server: %s", err, cs.Key.Tpl, sched, lines, c11Stacks(n))
	}
	if len(resp.Resps) != len(reqs) {
		infra("gated par returned %d responses for %d requests: %s", len(resp.Resps), len(reqs), resp.Err)
	}
	must(n.Idle(), "idle")
	atomic.AddInt64(&st.replays, 1)
	st.bump(&st.perTpl, cs.Key.Tpl)
	// how the real run went: a request found blocked while a peer is parked at a site = a lock covers that site
	parkedAt := map[uint64]string{}
	blocked := false
	releases := 0
	for _, g := range resp.Gates {
		switch g.Kind {
		case "park":
			parkedAt[g.Req] = g.Site
		case "release":
			releases++
			delete(parkedAt, g.Req)
		case "done":
			delete(parkedAt, g.Req)
		case "blocked":
			blocked = true
			for _, s := range parkedAt {
				if s != "start" {
					st.bump(&st.locksAt, s)
				}
			}
		}
	}
	if blocked {
		atomic.AddInt64(&st.lockBlocked, 1)
	} else if releases >= len(sched) {
		atomic.AddInt64(&st.followed, 1)
	}
	c11Judge(run, st, cs, e, env, reqs, resp, "gated-schedule")
}

// ---------------------------------------------------------------------------
// bursts (ungated)

type c11Burst struct {
	Tpl    string
	Pre    int
	NSV    int
	NLab   int
	Rq     []c11Rq
	TLA    []string // TLA+ text of every request record
	AllOrd bool
	// filled after the run
	Order    []int
	Statuses []int
	Bodies   []string
	Obs      interface{}
	Rets     []interface{} // per request: the identifiers it returned (abstract), nil if none
	HTTP     []string
	Outs     map[string]bool // canonical {final, acc, rets} of every candidate order (from TLC)
	// two open sibling versions (gap C11-7): the requests of Pair run in the same concurrent batch against a
	// sibling version of the same instance; each of the two bursts is judged on its own version
	Pair *c11Burst
	// TwoVer: the burst ran on a child version; the label counter (GET maxlabel), which dvid keeps per
	// version and which these merge-only bursts do not change, is left out of the comparison
	TwoVer bool
}

var reNxt = regexp.MustCompile(`,"nxt":\d+`)

func tlaIntSet(a []int) string {
	var s []string
	for _, x := range a {
		s = append(s, strconv.Itoa(x))
	}
	return "{" + strings.Join(s, ", ") + "}"
}

func c11GenBurst(rng *rand.Rand, tpl string) *c11Burst {
	b := &c11Burst{Tpl: tpl, Pre: 1, NSV: 5, NLab: 5}
	add := func(r c11Rq, tla string) {
		r["who"] = len(b.Rq) + 1
		b.Rq = append(b.Rq, c11Rq(c11Generic(r).(map[string]interface{})))
		b.TLA = append(b.TLA, strings.Replace(tla, "WHO", strconv.Itoa(len(b.Rq)), 1))
	}
	switch tpl {
	case "kv":
		n := 2 + rng.Intn(4)
		b.Pre = 1 + rng.Intn(2)
		b.AllOrd = true
		for i := 0; i < n; i++ {
			if rng.Intn(3) == 0 {
				add(c11Rq{"k": "del"}, `[k |-> "del", who |-> WHO]`)
			} else {
				add(c11Rq{"k": "put"}, `[k |-> "put", who |-> WHO]`)
			}
		}
	case "ann":
		n := 2 + rng.Intn(7)
		usedOld := map[int]bool{}
		next := 10
		for i := 0; i < n; i++ {
			old := []int{1, 2, 104}[rng.Intn(3)]
			switch c := rng.Intn(6); {
			case c == 0 && !usedOld[old]:
				usedOld[old] = true
				add(c11Rq{"k": "del", "pos": old}, fmt.Sprintf(`[k |-> "del", pos |-> %d, who |-> WHO]`, old))
			case c == 1 && !usedOld[old]:
				usedOld[old] = true
				to := next + 100*rng.Intn(2)
				next++
				add(c11Rq{"k": "move", "from": old, "to": to}, fmt.Sprintf(`[k |-> "move", from |-> %d, to |-> %d, who |-> WHO]`, old, to))
			default:
				pos := next + 100*rng.Intn(2)
				next++
				tags := [][]int{{1}, {2}, {1, 2}, {1}}[rng.Intn(4)]
				add(c11Rq{"k": "post", "elems": []interface{}{map[string]interface{}{"pos": pos, "tags": tags}}},
					fmt.Sprintf(`[k |-> "post", elems |-> {[pos |-> %d, tags |-> %s]}, who |-> WHO]`, pos, tlaIntSet(tags)))
			}
		}
	case "nj2v", "ann2v", "annc2v":
		// gap C11-7: two bursts of the template against two open sibling versions of one instance, in one
		// concurrent batch (per-version in-memory databases, version-keyed element lists); each is judged on
		// its own version against its own sequential orders
		base := strings.TrimSuffix(tpl, "2v")
		b1 := c11GenBurst(rng, base)
		b2 := c11GenBurst(rng, base)
		for i := 0; i < 50 && b2.Pre != b1.Pre; i++ {
			b2 = c11GenBurst(rng, base)
		}
		if b2.Pre != b1.Pre {
			return b1
		}
		b1.TwoVer, b2.TwoVer = true, true
		b1.Pair = b2
		return b1
	case "lm2v":
		// merges only (no label allocation, which is repo-wide): the same kind of burst on two sibling versions
		b.Tpl = "lm"
		n := 2 + rng.Intn(3)
		b.NSV = 3 + n
		if b.NSV < 5 {
			b.NSV = 5
		}
		b.NLab = b.NSV
		b.Pair = &c11Burst{Tpl: "lm", Pre: 1, NSV: b.NSV, NLab: b.NLab, TwoVer: true}
		b.TwoVer = true
		for i := 0; i < n; i++ {
			add(c11Rq{"k": "merge", "t": 1, "m": []int{4 + i}}, fmt.Sprintf(`[k |-> "merge", t |-> 1, m |-> {%d}, who |-> WHO]`, 4+i))
		}
		m := 2 + rng.Intn(n-1)
		for i := 0; i < m; i++ {
			// the sibling merges into body 4 instead
			r := c11Rq{"k": "merge", "t": 4, "m": []int{5 + i}, "who": i + 1}
			if 5+i > b.NSV {
				break
			}
			b.Pair.Rq = append(b.Pair.Rq, c11Rq(c11Generic(r).(map[string]interface{})))
			b.Pair.TLA = append(b.Pair.TLA, fmt.Sprintf(`[k |-> "merge", t |-> 4, m |-> {%d}, who |-> %d]`, 5+i, i+1))
		}
	case "annc":
		// conflicting requests (gap C11-8): several writers post an element at the SAME position (the last one
		// wins, block and tag lists must agree with it), replace the whole block, or delete / move one of
		// the seeded elements; every request is accepted in every order, the outcome depends on the order,
		// and TLC evaluates all permutations
		b.Tpl = "ann"
		b.AllOrd = true
		n := 4 + rng.Intn(3)
		usedOld := map[int]bool{}
		pool := []int{3, 6, 108}
		for i := 0; i < n; i++ {
			old := []int{1, 2, 104}[rng.Intn(3)]
			switch c := rng.Intn(8); {
			case c == 0 && !usedOld[old]:
				usedOld[old] = true
				add(c11Rq{"k": "del", "pos": old}, fmt.Sprintf(`[k |-> "del", pos |-> %d, who |-> WHO]`, old))
			case c == 1 && !usedOld[old]:
				usedOld[old] = true
				to := 20 + i + 100*rng.Intn(2)
				add(c11Rq{"k": "move", "from": old, "to": to}, fmt.Sprintf(`[k |-> "move", from |-> %d, to |-> %d, who |-> WHO]`, old, to))
			case c == 2 && !usedOld[1] && !usedOld[2]:
				// (not together with a delete / move of an element of block 1: those are refused when the block was replaced first)
				usedOld[1], usedOld[2] = true, true
				add(c11Rq{"k": "blocks", "b": 1, "elems": []interface{}{map[string]interface{}{"pos": 9, "tags": []int{}}}},
					`[k |-> "blocks", b |-> 1, elems |-> {[pos |-> 9, tags |-> {}]}, who |-> WHO]`)
			default:
				pos := pool[rng.Intn(len(pool))]
				tags := [][]int{{1}, {2}, {1, 2}, {}}[rng.Intn(4)]
				add(c11Rq{"k": "post", "elems": []interface{}{map[string]interface{}{"pos": pos, "tags": tags}}},
					fmt.Sprintf(`[k |-> "post", elems |-> {[pos |-> %d, tags |-> %s]}, who |-> WHO]`, pos, tlaIntSet(tags)))
			}
		}
	case "lm":
		n := 2 + rng.Intn(5)
		ncleave := rng.Intn(3)
		if ncleave > n {
			ncleave = n
		}
		nmerge := n - ncleave
		b.NSV = 3 + nmerge
		if b.NSV < 5 {
			b.NSV = 5
		}
		b.NLab = b.NSV + ncleave
		for i := 0; i < nmerge; i++ {
			add(c11Rq{"k": "merge", "t": 1, "m": []int{4 + i}}, fmt.Sprintf(`[k |-> "merge", t |-> 1, m |-> {%d}, who |-> WHO]`, 4+i))
		}
		svs := rng.Perm(2)
		for i := 0; i < ncleave; i++ {
			add(c11Rq{"k": "cleave", "b": 1, "s": []int{2 + svs[i]}}, fmt.Sprintf(`[k |-> "cleave", b |-> 1, s |-> {%d}, who |-> WHO]`, 2+svs[i]))
		}
	case "ver":
		n := 2 + rng.Intn(4)
		b.AllOrd = true
		for i := 0; i < n; i++ {
			if c := rng.Intn(5); c == 0 {
				add(c11Rq{"k": "newversion", "b": ""}, `[k |-> "newversion", b |-> "", who |-> WHO]`)
			} else if c == 1 {
				add(c11Rq{"k": "log", "b": ""}, `[k |-> "log", b |-> "", who |-> WHO]`)
			} else if c == 4 {
				// gap C11-10: a new data instance - like POST log another writer of the repo metadata that has
				// no effect on the children (the specification's "log" request); the instance must exist afterwards
				add(c11Rq{"k": "log", "b": "", "newdata": true}, `[k |-> "log", b |-> "", who |-> WHO]`)
			} else {
				br := fmt.Sprintf("b%d", 1+rng.Intn(n))
				add(c11Rq{"k": "branch", "b": br}, fmt.Sprintf(`[k |-> "branch", b |-> %q, who |-> WHO]`, br))
			}
		}
	case "nj":
		n := 2 + rng.Intn(4)
		b.Pre = 1 + rng.Intn(2)
		b.AllOrd = true
		fields := []string{"a", "b", "c", "d"}
		for i := 0; i < n; i++ {
			f := map[string]interface{}{}
			var parts []string
			for _, x := range fields {
				if rng.Intn(3) == 0 {
					v := []int{9, 10, 20, 30}[rng.Intn(4)]
					if x != "a" && v == 9 {
						v = 40
					}
					f[x] = v
					parts = append(parts, fmt.Sprintf("%s |-> %d", x, v))
				}
			}
			if len(f) == 0 {
				f["b"] = 20
				parts = append(parts, "b |-> 20")
			}
			add(c11Rq{"k": "upd", "f": f}, fmt.Sprintf(`[k |-> "upd", f |-> [%s], who |-> WHO]`, strings.Join(parts, ", ")))
		}
	case "nl":
		n := 2 + rng.Intn(7)
		for i := 0; i < n; i++ {
			k := 1 + rng.Intn(3)
			add(c11Rq{"k": "next", "n": k}, fmt.Sprintf(`[k |-> "next", n |-> %d, who |-> WHO]`, k))
		}
	case "mut":
		n := 2 + rng.Intn(5)
		for i := 0; i < n; i++ {
			add(c11Rq{"k": "mut"}, `[k |-> "mut", who |-> WHO]`)
		}
	case "cli":
		n := 2 + rng.Intn(7)
		for i := 0; i < n; i++ {
			blk := []string{"A", "B"}[rng.Intn(2)]
			k := 1 + rng.Intn(9)
			add(c11Rq{"k": "delta", "b": blk, "n": k}, fmt.Sprintf(`[k |-> "delta", b |-> %q, n |-> %d, who |-> WHO]`, blk, k))
		}
	}
	return b
}

// preObs gives the abstract pre-state selector the setup needs (same shape as the model prints).
func (b *c11Burst) key() *c11Key {
	pre := `{}`
	switch b.Tpl {
	case "kv":
		pre = fmt.Sprintf(`{"k":%d}`, []int{0, 9}[b.Pre-1])
	case "nj":
		pre = fmt.Sprintf(`{"store":{"ex":%v}}`, b.Pre == 2)
	}
	return &c11Key{Tpl: b.Tpl, Rq: b.Rq, Pre: json.RawMessage(pre)}
}

func (w *c11Worker) runBurst(b *c11Burst) {
	n := w.node()
	key := b.key()
	env := c11Setup(n, &w.repo, key, b.NSV, b.NLab)
	var env2 *c11Env
	if b.Pair != nil {
		// the instance state becomes a committed version with two open children; the worker's repo is used up
		c11Do(n, "POST", "/api/node/"+env.root+"/commit", []byte(`{"note":"two versions"}`), "commit")
		child := func(name string) string {
			r := c11Do(n, "POST", "/api/node/"+env.root+"/branch", []byte(fmt.Sprintf(`{"branch":%q}`, name)), "branch")
			var o struct{ Child string }
			json.Unmarshal(r.Bytes(), &o)
			if o.Child == "" {
				infra("branch: no child in %s", r.Bytes())
			}
			return o.Child
		}
		v1, v2 := child("v1"), child("v2")
		w.repo = ""
		e2 := *env
		env2 = &e2
		env2.root = v2
		k2 := *b.Pair.key()
		env2.cs = &k2
		env.root = v1
	}
	var reqs []node.Req
	for _, r := range b.Rq {
		rq := c11Request(env, r)
		reqs = append(reqs, rq)
		b.HTTP = append(b.HTTP, httpLine(rq))
	}
	n1 := len(reqs)
	if b.Pair != nil {
		for _, r := range b.Pair.Rq {
			rq := c11Request(env2, r)
			reqs = append(reqs, rq)
			b.Pair.HTTP = append(b.Pair.HTTP, httpLine(rq))
		}
	}
	resp, err := c11Run(env, reqs, nil, nil, 0, 40*time.Second)
	if err != nil {
		infra("ungated burst did not return (%v): template %s requests %v; stderr tail: %s", err, b.Tpl, b.HTTP, n.StderrTail(3000))
	}
	if len(resp.Resps) != len(reqs) {
		infra("par returned %d responses for %d requests", len(resp.Resps), len(reqs))
	}
	must(n.Idle(), "idle")
	if b.Pair != nil {
		p := b.Pair
		env2.resps = resp.Resps[n1:]
		p.Rets = make([]interface{}, len(p.Rq))
		for _, r := range env2.resps {
			p.Statuses = append(p.Statuses, r.Status)
			p.Bodies = append(p.Bodies, trunc(string(r.Bytes()), 200))
		}
		for q := 1; q <= len(p.Rq); q++ {
			p.Order = append(p.Order, q)
		}
		p.Obs = c11Generic(c11Observe(env2))
		resp.Resps = resp.Resps[:n1]
		reqs = reqs[:n1]
	}
	env.resps = resp.Resps
	type keyed struct {
		p   int
		key int64
	}
	var alloc []keyed
	b.Rets = make([]interface{}, len(reqs))
	for i, r := range resp.Resps {
		b.Statuses = append(b.Statuses, r.Status)
		b.Bodies = append(b.Bodies, trunc(string(r.Bytes()), 200))
		if r.Status != 200 {
			continue
		}
		switch {
		case b.Tpl == "nl":
			var o struct{ Start, End int64 }
			json.Unmarshal(r.Bytes(), &o)
			b.Rets[i] = obsM{"b": o.Start, "e": o.End}
			alloc = append(alloc, keyed{i + 1, o.Start})
		case b.Tpl == "mut":
			var o struct{ MutationID uint64 }
			json.Unmarshal(r.Bytes(), &o)
			b.Rets[i] = obsM{"id": int64(o.MutationID) - int64(env.base)}
			alloc = append(alloc, keyed{i + 1, int64(o.MutationID)})
		case b.Tpl == "lm" && b.Rq[i].str("k") == "cleave":
			var o struct{ CleavedLabel int64 }
			json.Unmarshal(r.Bytes(), &o)
			b.Rets[i] = obsM{"new": o.CleavedLabel}
			alloc = append(alloc, keyed{i + 1, o.CleavedLabel})
		}
	}
	// candidate order: requests that allocate, in the order of the identifiers they got (the only
	// order a counter allows); the others (which commute with them) first
	sort.SliceStable(alloc, func(i, j int) bool { return alloc[i].key < alloc[j].key })
	inAlloc := map[int]bool{}
	for _, a := range alloc {
		inAlloc[a.p] = true
	}
	for p := 1; p <= len(reqs); p++ {
		if !inAlloc[p] {
			b.Order = append(b.Order, p)
		}
	}
	for _, a := range alloc {
		b.Order = append(b.Order, a.p)
	}
	b.Obs = c11Generic(c11Observe(env))
}

func (b *c11Burst) tla() string {
	var ord []string
	for _, p := range b.Order {
		ord = append(ord, strconv.Itoa(p))
	}
	var rev []string
	for i := len(b.Order) - 1; i >= 0; i-- {
		rev = append(rev, strconv.Itoa(b.Order[i]))
	}
	orders := "<< <<" + strings.Join(ord, ", ") + ">> >>"
	return fmt.Sprintf("[tpl |-> %q, n |-> %d, pre |-> %d, nsv |-> %d, nlab |-> %d, all |-> %s, rq |-> << %s >>, orders |-> %s]",
		b.Tpl, len(b.Rq), b.Pre, b.NSV, b.NLab, tlaBool(b.AllOrd), strings.Join(b.TLA, ", "), orders)
}

// observed outcome of a burst in the shape BurstOut prints
func (b *c11Burst) outcome() string {
	acc := []interface{}{}
	rets := []interface{}{}
	for i, s := range b.Statuses {
		if s == 200 {
			acc = append(acc, i+1)
		}
		if b.Rets[i] != nil {
			rets = append(rets, obsM{"p": i + 1, "ret": b.Rets[i]})
		}
	}
	return c11Canon(c11Generic(obsM{"final": b.Obs, "acc": acc, "rets": rets}))
}

// ---------------------------------------------------------------------------

func checkC11(c *Ctx) int {
	run := ev.NewRun("C11", c.Tier, "model_checking")
	st := &c11Stats{}
	t0 := time.Now()
	if part := os.Getenv("VERIF_C11_PART"); part != "" {
		// development aid (never set by a registered command): run one added part alone
		switch part {
		case "annsync":
			run.Set("annotation_sync_no_idle_replay", c11AnnSyncNoIdle(c, run, c11AnnPrepare(c)))
		case "race":
			run.Set("race_detector", c11RaceBursts(c, run))
		}
		run.Set("states", 0)
		run.Set("transitions", 0)
		run.Set("traces_validated_against_impl", 0)
		run.Set("rule", "partial development run")
		fmt.Printf("C11 (part %s): violations=%d known=%v\n", part, run.Violations(), run.KnownSeen())
		return run.Finish()
	}

	// (the behaviours for the annotation no-idle replay of step 5 are simulated by TLC in the background)
	var annPrep *c11AnnPrep
	if os.Getenv("VERIF_C11_TPLS") == "" {
		annPrep = c11AnnPrepare(c)
	}

	// 1. intended locking, all interleavings (2 processes; thorough: also 3), in the background
	type mcRes struct {
		n    int
		r    *tlc.Result
		note string
	}
	mcCh := make(chan mcRes, 8)
	var mcWG sync.WaitGroup
	intended := func(nproc, workers int, timeout time.Duration) {
		defer mcWG.Done()
		tpls := c11Templates
		if nproc > 2 {
			tpls = c11BaseTemplates
		}
		r := c.MustModelCheck(tlc.Opts{Module: "ConcurrencyGen", Config: "c11_intended.cfg", Workers: workers, Timeout: timeout,
			Files: map[string][]byte{"ConcurrencyGen.tla": c11Gen(tpls, "", ""),
				"c11_intended.cfg": []byte(c11Cfg(nproc, "intended", false, false, "Inv_C11_Serializable Inv_C12_Unique Inv_LocksReleased Inv_C11_IndexMatchesVoxels"))}})
		mcCh <- mcRes{n: nproc, r: r}
	}
	var mcErr atomic.Value
	guard := func(f func()) {
		defer func() {
			if e := recover(); e != nil {
				mcErr.Store(e)
			}
		}()
		f()
	}
	mcWG.Add(1)
	go guard(func() { intended(2, 2, 5*time.Minute) })
	// today's locking, all interleavings (not only those the gates can force)
	// (template vox: while the known findings about the index changes of voxel writes are open, today's
	// locking is checked below on exactly the request tuples for which the gate-grain model predicts no
	// lost update)
	voxKnown := run.KnownActive(c11KnownVoxOrder) || run.KnownActive(c11KnownVoxStale)
	var fineTpls []string
	for _, t := range c11Templates {
		if t != "vox" || !voxKnown {
			fineTpls = append(fineTpls, t)
		}
	}
	mcWG.Add(1)
	go guard(func() {
		defer mcWG.Done()
		if len(fineTpls) == 0 {
			return
		}
		r := c.MustModelCheck(tlc.Opts{Module: "ConcurrencyGen", Config: "c11_codefine.cfg", Workers: 2, Timeout: 5 * time.Minute,
			Files: map[string][]byte{"ConcurrencyGen.tla": c11Gen(fineTpls, "", ""),
				"c11_codefine.cfg": []byte(c11Cfg(2, "code", false, false, "Inv_C11_Serializable Inv_C12_Unique Inv_LocksReleased Inv_C11_IndexMatchesVoxels"))}})
		mcCh <- mcRes{n: -2, r: r}
	})
	if c.thorough() && len(c11BaseTemplates) > 0 {
		mcWG.Add(1)
		go guard(func() { intended(3, 6, 14*time.Minute) })
	}

	// 2. today's locking at gate grain: schedules + serial outcomes
	var cases []*c11Case
	var statesCode, transCode int64
	{
		r := c.MustModelCheck(tlc.Opts{Module: "ConcurrencyGen", Config: "c11_code.cfg", Workers: 2, Timeout: 5 * time.Minute,
			Files: map[string][]byte{"ConcurrencyGen.tla": c11Gen(c11Templates, "", ""),
				"c11_code.cfg": []byte(c11Cfg(2, "code", true, true, "EmitInv Inv_C12_Unique Inv_LocksReleased"))}})
		_, cases = c11ParseModel(r.Output)
		statesCode, transCode = r.Distinct, r.Generated
	}
	n2 := len(cases)
	if c11WcOn {
		// write || commit || reader: the three request triples of template wc, every gate-grain schedule
		only := `{<<"wc", <<1, 4, 5>>>>, <<"wc", <<2, 4, 5>>>>, <<"wc", <<3, 4, 5>>>>}`
		r := c.MustModelCheck(tlc.Opts{Module: "ConcurrencyGen", Config: "c11_wc.cfg", Workers: 2, Timeout: 5 * time.Minute,
			Files: map[string][]byte{"ConcurrencyGen.tla": c11Gen([]string{"wc"}, only, ""),
				"c11_wc.cfg": []byte(c11Cfg(3, "code", true, true, "EmitInv Inv_LocksReleased"))}})
		_, wcCases := c11ParseModel(r.Output)
		cases = append(cases, wcCases...)
		statesCode += r.Distinct
		transCode += r.Generated
		mcWG.Add(1)
		go guard(func() {
			defer mcWG.Done()
			r := c.MustModelCheck(tlc.Opts{Module: "ConcurrencyGen", Config: "c11_wcint.cfg", Workers: 2, Timeout: 5 * time.Minute,
				Files: map[string][]byte{"ConcurrencyGen.tla": c11Gen([]string{"wc"}, only, ""),
					"c11_wcint.cfg": []byte(c11Cfg(3, "intended", false, false, "Inv_C11_Serializable Inv_LocksReleased Inv_C02_CommittedFrozen"))}})
			mcCh <- mcRes{n: 3, r: r, note: "template wc (write || commit || reader), intended locking (a mutation holds the version open until everything it started is applied; commit takes the same lock), every interleaving of the 3 request triples: %d distinct states, depth %d, Inv_C11_Serializable/Inv_C02_CommittedFrozen/locks released/no deadlock hold"}
		})
	}
	if voxKnown {
		var only []string
		for _, cs := range cases {
			if cs.Key.Tpl == "vox" && !cs.ModelUnserial && len(cs.Tuple) == 2 {
				only = append(only, fmt.Sprintf("<<\"vox\", <<%d, %d>>>>", cs.Tuple[0], cs.Tuple[1]))
			}
		}
		if len(only) > 0 {
			mcWG.Add(1)
			go guard(func() {
				defer mcWG.Done()
				r := c.MustModelCheck(tlc.Opts{Module: "ConcurrencyGen", Config: "c11_codefinevox.cfg", Workers: 2, Timeout: 5 * time.Minute,
					Files: map[string][]byte{"ConcurrencyGen.tla": c11Gen([]string{"vox"}, "{"+strings.Join(only, ", ")+"}", ""),
						"c11_codefinevox.cfg": []byte(c11Cfg(2, "code", false, false, "Inv_C11_Serializable Inv_LocksReleased Inv_C11_IndexMatchesVoxels"))}})
				mcCh <- mcRes{n: -2, r: r}
			})
		}
	}
	if c.thorough() && len(c11BaseTemplates) > 0 {
		// 3 processes: a seeded sample of request triples per template, every gate-grain schedule of each
		catalog := map[string]int{"kv": 2, "ann": 9, "lm": 7, "ver": 3, "nj": 5, "nl": 2, "mut": 1, "cli": 3}
		perTpl := map[string]int{"kv": 4, "ann": 14, "lm": 14, "ver": 8, "nj": 8, "nl": 4, "mut": 1, "cli": 6}
		var only []string
		for _, t := range c11BaseTemplates {
			var all [][3]int
			for a := 1; a <= catalog[t]; a++ {
				for b := a; b <= catalog[t]; b++ {
					for d := b; d <= catalog[t]; d++ {
						all = append(all, [3]int{a, b, d})
					}
				}
			}
			c.Rng.Shuffle(len(all), func(i, j int) { all[i], all[j] = all[j], all[i] })
			for i := 0; i < perTpl[t] && i < len(all); i++ {
				only = append(only, fmt.Sprintf("<<%q, <<%d, %d, %d>>>>", t, all[i][0], all[i][1], all[i][2]))
			}
		}
		r := c.MustModelCheck(tlc.Opts{Module: "ConcurrencyGen", Config: "c11_code3.cfg", Workers: 4, Timeout: 10 * time.Minute,
			Files: map[string][]byte{"ConcurrencyGen.tla": c11Gen(c11Templates, "{"+strings.Join(only, ", ")+"}", ""),
				"c11_code3.cfg": []byte(c11Cfg(3, "code", true, true, "EmitInv Inv_C12_Unique Inv_LocksReleased"))}})
		_, cases3 := c11ParseModel(r.Output)
		cases = append(cases, cases3...)
		statesCode += r.Distinct
		transCode += r.Generated
	}
	type item struct {
		cs *c11Case
		e  *c11End
	}
	var items []item
	modelUnserial := map[string]int{}
	totalEnds := 0
	for _, cs := range cases {
		if len(cs.Progs) == 0 || len(cs.Serial) == 0 {
			infra("case %s without serial outcomes in the TLC output", cs.ID)
		}
		if cs.ModelUnserial {
			modelUnserial[cs.Key.Tpl]++
		}
		totalEnds += len(cs.Ends)
		ends := cs.Ends
		// 3-process cases can have thousands of schedules: replay a seeded sample of them, non-serial predictions first
		if len(cs.Key.Rq) > 2 && len(ends) > 40 {
			c.Rng.Shuffle(len(ends), func(i, j int) { ends[i], ends[j] = ends[j], ends[i] })
			sort.SliceStable(ends, func(i, j int) bool { return !ends[i].Serializable && ends[j].Serializable })
			ends = ends[:40]
		}
		// growth templates, quick tier: a seeded sample of the schedules of every tuple (all of them in the
		// thorough tier), non-serial predictions first
		if capQ := c11QuickCap[cs.Key.Tpl]; capQ > 0 && !c.thorough() && len(ends) > capQ {
			// non-serial predictions first, then the schedules that switch between the requests most often
			// (the attack schedules: every request parked inside its critical section), ties by seed
			alt := func(e *c11End) int {
				n := 0
				for i := 1; i < len(e.Sched); i++ {
					if e.Sched[i] != e.Sched[i-1] {
						n++
					}
				}
				return n
			}
			c.Rng.Shuffle(len(ends), func(i, j int) { ends[i], ends[j] = ends[j], ends[i] })
			sort.SliceStable(ends, func(i, j int) bool {
				if ends[i].Serializable != ends[j].Serializable {
					return !ends[i].Serializable
				}
				return alt(ends[i]) > alt(ends[j])
			})
			ends = ends[:capQ]
		}
		for _, e := range ends {
			items = append(items, item{cs, e})
		}
	}
	c.Rng.Shuffle(len(items), func(i, j int) { items[i], items[j] = items[j], items[i] })

	// 3. replay
	workers := 8
	ws := make([]*c11Worker, workers)
	for i := range ws {
		ws[i] = &c11Worker{c: c}
	}
	waitMS := 120
	parallel(len(items), workers, func(w, i int) {
		it := items[i]
		ws[w].replayEnd(run, st, it.cs, it.e, waitMS)
		key := it.cs.ID
		if !it.e.Serializable {
			key += "|attack"
		}
		run.Eval(key + "|" + fmt.Sprint(it.e.Sched))
	})
	tReplay := since(t0)

	// 4. ungated bursts
	nb := c.pick(42, 700)
	var bursts []*c11Burst
	burstKinds := append([]string(nil), c11BaseTemplates...)
	for _, t := range c11BaseTemplates {
		if t == "ann" {
			burstKinds = append(burstKinds, "annc", "annc")
		}
		if t == "lm" {
			burstKinds = append(burstKinds, "lm2v")
		}
		if t == "nj" {
			burstKinds = append(burstKinds, "nj2v")
		}
		if t == "ann" {
			burstKinds = append(burstKinds, "ann2v", "annc2v")
		}
	}
	for i := 0; i < nb && len(burstKinds) > 0; i++ {
		bursts = append(bursts, c11GenBurst(c.Rng, burstKinds[i%len(burstKinds)]))
	}
	parallel(len(bursts), workers, func(w, i int) { ws[w].runBurst(bursts[i]) })
	for _, w := range ws {
		w.close()
	}
	twoVersionBursts := 0
	for _, b := range bursts[:len(bursts):len(bursts)] {
		if b.Pair != nil {
			bursts = append(bursts, b.Pair)
			twoVersionBursts++
		}
	}
	var sb strings.Builder
	sb.WriteString("<<\n")
	for i, b := range bursts {
		if i > 0 {
			sb.WriteString(",\n")
		}
		sb.WriteString(b.tla())
	}
	sb.WriteString("\n>>")
	rb := c.MustModelCheck(tlc.Opts{Module: "ConcurrencyGen", Config: "c11_burst.cfg", Workers: 1, Timeout: 10 * time.Minute, Xss: "64m",
		Files: map[string][]byte{"ConcurrencyGen.tla": c11Gen(c11Templates, "", sb.String()),
			"c11_burst.cfg": []byte("INIT BurstInit\nNEXT BurstNext\nCONSTANTS\n  NProc = 2\n  Locking = \"intended\"\n  GateGrain = FALSE\n  Emit = FALSE\n  Tpls <- GenTpls\n  Only <- GenOnly\n  Bursts <- GenBursts\nINVARIANTS EmitBursts\n")}})
	gotBursts := false
	PrintedJSON(rb.Output, func(raw []byte) {
		var l struct {
			Type string          `json:"type"`
			Out  [][]interface{} `json:"out"`
		}
		if gotBursts || json.Unmarshal(raw, &l) != nil || l.Type != "bursts" || len(l.Out) != len(bursts) {
			return
		}
		gotBursts = true
		for i, outs := range l.Out {
			bursts[i].Outs = map[string]bool{}
			for _, o := range outs {
				bursts[i].Outs[c11Canon(o)] = true
			}
		}
	})
	if !gotBursts {
		infra("burst evaluation printed nothing: %s", rb.Tail(2000))
	}
	var burstViol, burstKnown, burstAllAck int64
	burstSizes := map[int]int{}
	for _, b := range bursts {
		burstSizes[len(b.Rq)]++
		run.Eval("burst|" + b.Tpl + "|" + strings.Join(b.TLA, ";"))
		all := true
		for _, s := range b.Statuses {
			if s != 200 {
				all = false
			}
		}
		got := b.outcome()
		if b.TwoVer {
			got = reNxt.ReplaceAllString(got, "")
			outs := map[string]bool{}
			for o := range b.Outs {
				outs[reNxt.ReplaceAllString(o, "")] = true
			}
			b.Outs = outs
		}
		if b.Outs[got] {
			if all {
				burstAllAck++
			}
			continue
		}
		if !all {
			// a refused request: the property does not constrain this run; diagnostics only
			atomic.AddInt64(&st.mixed, 1)
			atomic.AddInt64(&st.mixedUnexplained, 1)
			continue
		}
		var want []string
		for o := range b.Outs {
			want = append(want, o)
		}
		sort.Strings(want)
		if len(want) > 6 {
			want = want[:6]
		}
		rp := c11Replay{Kind: "ungated-burst", Template: b.Tpl, Requests: b.Rq, HTTP: b.HTTP, Statuses: b.Statuses, Bodies: b.Bodies,
			Observed: json.RawMessage(got), Serial: want,
			Detail: "responses and final state of the burst are not those of any candidate sequential order (candidate orders: " +
				map[bool]string{true: "all permutations", false: "allocating requests in the order of the identifiers they returned, after the commuting others"}[b.AllOrd] + ")"}
		if id, known := c11Known[b.Tpl]; known && run.KnownActive(id) {
			burstKnown++
			run.ReportKnown(id)
			continue
		}
		burstViol++
		run.Violation("c11-burst", rp)
	}

	// 5. annotation sync handlers against element edits: behaviours of Annotation.tla replayed without idling
	var annNoIdle map[string]interface{}
	if annPrep != nil {
		annNoIdle = c11AnnSyncNoIdle(c, run, annPrep)
		run.Set("annotation_sync_no_idle_replay", annNoIdle)
	}

	// 6. race detector diagnostics (thorough tier; never a verdict)
	if c.thorough() && os.Getenv("VERIF_C11_TPLS") == "" {
		run.Set("race_detector", c11RaceBursts(c, run))
	}

	// collect the intended-locking results
	mcWG.Wait()
	close(mcCh)
	if e := mcErr.Load(); e != nil {
		panic(e)
	}
	var states, trans int64
	var models []string
	for m := range mcCh {
		states += m.r.Distinct
		trans += m.r.Generated
		if m.note != "" {
			models = append(models, fmt.Sprintf(m.note, m.r.Distinct, m.r.Depth))
			continue
		}
		if m.n < 0 {
			models = append(models, fmt.Sprintf("locking of today's code, %d concurrent requests, every interleaving of the request tuples of the templates (template vox: the tuples without an open known finding): %d distinct states, depth %d, Inv_C11_Serializable/Inv_C12_Unique/Inv_C11_IndexMatchesVoxels/locks released/no deadlock hold", -m.n, m.r.Distinct, m.r.Depth))
			continue
		}
		models = append(models, fmt.Sprintf("intended locking, %d concurrent requests, every interleaving of every request tuple of the templates: %d distinct states, depth %d, Inv_C11_Serializable/Inv_C12_Unique/Inv_C11_IndexMatchesVoxels/locks released/no deadlock hold", m.n, m.r.Distinct, m.r.Depth))
	}
	sort.Strings(models)
	states += statesCode
	trans += transCode

	run.Set("states", states)
	run.Set("transitions", trans)
	nTraces := atomic.LoadInt64(&st.replays) + int64(len(bursts))
	if annNoIdle != nil {
		nTraces += annNoIdle["behaviours_replayed_without_idling"].(int64)
	}
	run.Set("traces_validated_against_impl", nTraces)
	run.Set("final_states_also_read_through_every_labelmap_endpoint", atomic.LoadInt64(&st.deep))
	run.Set("models", models)
	run.Set("request_tuples_2", n2)
	run.Set("request_tuples_total", len(cases))
	run.Set("schedules_enumerated_by_tlc", totalEnds)
	run.Set("schedules_replayed", atomic.LoadInt64(&st.replays))
	run.Set("schedules_replayed_per_template", mapCounts(&st.perTpl))
	run.Set("replays_all_gates_released_in_schedule_order", atomic.LoadInt64(&st.followed))
	run.Set("replays_with_a_request_blocked_on_a_lock", atomic.LoadInt64(&st.lockBlocked))
	run.Set("lock_observed_while_peer_parked_at_site", mapCounts(&st.locksAt))
	run.Set("replays_all_acknowledged", atomic.LoadInt64(&st.allAck))
	run.Set("replays_with_a_refused_request", atomic.LoadInt64(&st.mixed))
	run.Set("refused_runs_not_explained_by_atomic_requests_diagnostic_only", atomic.LoadInt64(&st.mixedUnexplained))
	run.Set("non_serial_final_states_observed", atomic.LoadInt64(&st.nonSerial))
	run.Set("request_tuples_model_of_todays_locking_predicts_lost_update", modelUnserial)
	run.Set("bursts", len(bursts))
	run.Set("bursts_on_two_open_sibling_versions", twoVersionBursts)
	run.Set("burst_sizes", burstSizes)
	run.Set("bursts_all_acknowledged_and_serial", burstAllAck)
	run.Set("bursts_known_finding", burstKnown)
	run.Set("replay_wall_s", tReplay)
	run.Set("rule", "a case is one schedule of one request tuple: TLC enumerates, on the model of today's locking at the grain the gate scheduler controls (context switches at dvid.VerifPoint sites and request entry only), every schedule of every tuple of 2 requests (thorough: plus a seeded sample of triples, <= 40 schedules each) of the templates kv put/delete, annotation post/delete/move, labelmap merge/cleave, newversion/branch, neuronjson update, nextlabel, mutation id, labelmap.ChangeLabelIndex (package-level call); each schedule is forced on the real server and the final state read through the API must be one of the serial outcomes TLC computed from the atomic semantics; growth templates: mcli (POST merge / cleave || package-level ChangeLabelIndex on the target or merged body), vox (POST raw?mutate=true of one or two blocks, split-supervoxel, merge, cleave, renumber over a 3-block region geometry: stored supervoxel per region, stored body indices, mapping; a matched serial outcome is additionally read through every labelmap endpoint), annsync (POST elements / DELETE element || POST merge / cleave of the synced labelmap, the sync handler scheduled as the asynchronous tail of the label request: block, tag and label element lists, labelsz counts, mapping), wc (3 requests: keyvalue / labelmap / annotation write || POST commit || reader that first reads the commit flag and then the content: whoever saw the version committed must have seen its final content); quick tier: a sample of the schedules of every tuple of the growth templates (most context switches first), thorough: all; behaviours of Annotation.tla (TLC simulation) replayed without idling between operations, final views compared; plus ungated bursts of 2..8 requests whose responses and final state must equal TLC's outcome for a candidate serial order; distinct_nontrivial = distinct (request tuple, pre-state, schedule) and distinct burst request lists")
	if len(run.KnownSeen()) == 0 {
		if len(items) > 0 {
			it := items[0]
			run.Sample(map[string]interface{}{"template": it.cs.Key.Tpl, "requests": it.cs.Key.Rq, "schedule": it.e.Sched, "model_final": json.RawMessage(it.e.Final)})
		}
	}
	for i := 0; i < 2 && i < len(bursts); i++ {
		run.Sample(map[string]interface{}{"burst": bursts[i].HTTP, "statuses": bursts[i].Statuses, "observed": bursts[i].Obs})
	}
	run.Assume = []string{
		"gate schedules control context switches at the VerifPoint sites and at request entry only; preemption inside a segment (between two store operations without a site between them, inside Badger transactions) is not controlled — the finer interleavings are covered by the model (intended locking: all interleavings) and by the ungated bursts only by chance",
		"a request that has not reached its next gate within the bounded wait is treated as blocked on a lock; a slow request misjudged as blocked changes the schedule that is actually run but never the verdict (only the final state is judged)",
		"runs in which a request was refused are outside the property as stated (all acknowledged); they are counted, not judged",
		"the observation functions (API reads -> abstract state) are a renaming of identifiers; the state of one request tuple lives in a fresh data instance or repo",
		"goroutines a request leaves behind are attributed to it by their creating goroutine (runtime stack 'created by ... in goroutine N') or by the site they reach (sync handler of a subscriber); a goroutine the scheduler fails to attribute runs ungated (a missed interleaving, never a verdict)",
		"a non-serial final state is attributed to an open known finding only for the request tuples the finding speaks of, only if the model of today's locking predicts a lost update for the tuple, and (template wc) only if the state is the one the model predicts; everything else is a violation",
		"templates annsync / vox leave out requests whose sequential meaning is not available to a concurrent client (an element edit that arrives between a label request's acknowledgement and the handling of its sync event; see known_findings.json)",
	}
	_ = burstViol
	fmt.Printf("C11: violations=%d known=%v\n", run.Violations(), run.KnownSeen())
	return run.Finish()
}
