package main

// C11 growth (gaps C11-1, C11-2, C11-4, C11-6 of GAPS.md): templates of specs/Concurrency.tla added
// after the first round.
//
//   mcli  a body mutation (POST merge / cleave) concurrent with labelmap.ChangeLabelIndex, the index
//         delta a mutating voxel write applies from a background goroutine (node call conc.mix: HTTP
//         requests and package-level calls under one gate schedule).
//   vox   voxel-level mutations over a region geometry: POST raw?mutate=true on one block twice, a
//         mutating write against split-supervoxel on the same block (Data.voxelMu), and against
//         merge / cleave / renumber of the bodies the block belongs to; the observation is the stored
//         supervoxel of every region, the stored body indices and the mapping, and the final state is
//         additionally read through every labelmap endpoint (lmm.Compare) against the serial outcome.
//
// Everything here is a renaming between abstract identifiers and requests / reads; the sequential
// meaning of every request and the programs live in the specification.

import (
	"encoding/binary"
	"encoding/json"
	"fmt"
	"strings"
	"sync"
	"sync/atomic"
	"time"

	pb "google.golang.org/protobuf/proto"

	"github.com/janelia-flyem/dvid/datatype/common/labels"
	"github.com/janelia-flyem/dvid/datatype/common/proto"

	"verifharness/internal/lmm"
	"verifharness/internal/node"
)

// templates whose participants run through the node call conc.mix (HTTP + package-level calls)
func c11IsMix(tpl string) bool { return tpl == "mcli" || tpl == "wc" }

type c11GrowEnv struct {
	// real label -> symbolic label of the specification, for labels the server allocated
	sym map[uint64]uint64
	lm  *lmm.Inst // template vox
	// template annsync: names of the synced labelmap / annotation / labelsz instances
	asLm, asAnn, asLsz string
	// template wc: the open version the write, the commit and the reader address, and the write's kind
	wcV, wcKind string
}

// template wc: one repository per node (root committed; every case runs in a fresh child version)
var c11WcRoots sync.Map // *node.Node -> root uuid
var c11WcSeq int64

const (
	c11WcLabel = 7 // label written by the labelmap write
)

func c11WcRoot(n *node.Node) string {
	if v, ok := c11WcRoots.Load(n); ok {
		return v.(string)
	}
	root := c11NewRepo(n)
	base := "/api/node/" + root + "/"
	c11NewInstance(n, root, "keyvalue", "wckv", nil)
	c11NewInstance(n, root, "labelmap", "wclm", map[string]string{"BlockSize": fmt.Sprintf("%d,%d,%d", c11LmBS, c11LmBS, c11LmBS)})
	c11NewInstance(n, root, "annotation", "wcan", nil)
	c11NewInstance(n, root, "labelsz", "wclz", nil)
	c11Do(n, "POST", base+"wcan/sync", []byte(`{"sync":"wclm"}`), "sync annotation to labelmap")
	c11Do(n, "POST", base+"wclz/sync", []byte(`{"sync":"wcan"}`), "sync labelsz to annotation")
	c11Ingest(n, root, "wclm", 1)
	c11WaitIndex(n, root, "wclm", 1)
	must(n.Idle(), "idle")
	c11Do(n, "POST", base+"commit", []byte(`{"note":"wc root"}`), "commit root")
	c11WcRoots.Store(n, root)
	return root
}

type c11WcSeen struct{ C, V, D bool }

// c11WcReads: the reads of the reader / of the final observation, in order: committed?, primary content,
// derived content
func c11WcReads(env *c11Env) []map[string]interface{} {
	g := env.grow
	v := "/api/node/" + g.wcV + "/"
	q := func(url string) map[string]interface{} {
		return map[string]interface{}{"kind": "http", "method": "GET", "url": url}
	}
	out := []map[string]interface{}{q("/api/repo/" + env.root + "/info")}
	switch g.wcKind {
	case "kv":
		out = append(out, q(v+"wckv/key/k"), q(v+"wckv/key/k"))
	case "lm":
		out = append(out, q(v+"wclm/raw/0_1_2/16_16_16/0_0_0?supervoxels=true"), q(fmt.Sprintf("%swclm/index/%d", v, c11WcLabel)))
	case "ann":
		out = append(out, q(v+"wcan/elements/16_16_16/0_0_0"), q(v+"wcan/label/1"))
	}
	return out
}

// c11WcDecode interprets the three answers (a renaming: committed flag, "the written content is there").
func c11WcDecode(env *c11Env, rs []node.Resp) c11WcSeen {
	g := env.grow
	if len(rs) != 3 {
		infra("wc reader: %d answers", len(rs))
	}
	var info struct {
		DAG struct {
			Nodes map[string]struct{ Locked bool }
		}
	}
	must(json.Unmarshal(rs[0].Bytes(), &info), "repo info json")
	nd, ok := info.DAG.Nodes[g.wcV]
	if !ok {
		infra("version %s not in repo info", g.wcV)
	}
	s := c11WcSeen{C: nd.Locked}
	switch g.wcKind {
	case "kv":
		s.V = rs[1].Status == 200
		s.D = rs[2].Status == 200
	case "lm":
		if rs[1].Status != 200 || len(rs[1].Bytes()) < 8 {
			infra("GET raw: %d", rs[1].Status)
		}
		s.V = binary.LittleEndian.Uint64(rs[1].Bytes()) == c11WcLabel
		s.D = rs[2].Status == 200 && len(rs[2].Bytes()) > 0
	case "ann":
		if rs[1].Status != 200 || rs[2].Status != 200 {
			infra("GET elements / label: %d %d %s", rs[1].Status, rs[2].Status, rs[2].Bytes())
		}
		// derived content: the element list of the body (written in the same batch as the block list; the
		// labelsz count follows by a sync event no gate controls and is not part of this observation)
		s.V = len(c11AsPositions(rs[1].Bytes())) > 0
		s.D = len(c11AsPositions(rs[2].Bytes())) > 0
	}
	return s
}

// template annsync: voxel of position p (blocks of 16^3 along x: positions 1, 4 in block 1, 2 in block 2,
// 3, 5 in block 3) and its tag
var c11AsVoxel = map[int][3]int{1: {1, 4, 4}, 4: {5, 4, 4}, 2: {18, 4, 4}, 3: {35, 4, 4}, 5: {41, 4, 4}}

func c11AsTag(p int) int {
	if p == 3 || p == 5 {
		return 2
	}
	return 1
}

func c11AsElem(p int) c11Elem {
	return c11Elem{Pos: c11AsVoxel[p], Kind: "Note", Tags: []string{fmt.Sprintf("t%d", c11AsTag(p))}, Prop: map[string]string{"p": fmt.Sprint(p)}}
}

func c11AsPosOf(v []int) int {
	for p, w := range c11AsVoxel {
		if len(v) == 3 && v[0] == w[0] && v[1] == w[1] && v[2] == w[2] {
			return p
		}
	}
	return -1
}

// positions of the elements in a JSON element list (or a block -> list object)
func c11AsPositions(b []byte) []int {
	var es []struct{ Pos []int }
	st := strings.TrimSpace(string(b))
	if st == "" || st == "null" {
		return nil
	}
	if st[0] == '{' {
		var m map[string][]struct{ Pos []int }
		must(json.Unmarshal(b, &m), "elements by block json")
		for _, l := range m {
			es = append(es, l...)
		}
	} else {
		must(json.Unmarshal(b, &es), "elements json")
	}
	var out []int
	for _, e := range es {
		out = append(out, c11AsPosOf(e.Pos))
	}
	return out
}

// geometry of template vox (VoxRegions / VoxBlocks / VoxSize of Concurrency.tla): blocks 1..3 of 16^3
// voxels at (0,0,0), (1,0,0), (0,1,0); regions 1, 2 = lower / upper half (in z) of block 1, region 3 =
// block 2, regions 4, 5 = lower / upper half of block 3
var c11VoxGeom = lmm.NewGeomCustom(16, [][3]int{{0, 0, 0}, {1, 0, 0}, {0, 1, 0}},
	[]lmm.Box{{0, 0, 0, 15, 15, 7}, {0, 16, 0, 15, 31, 7}}, []int{1, 4}, []int{2, 3, 5}, 5)

func init() {
	want := [][]int{{2048, 0, 0}, {2048, 0, 0}, {0, 4096, 0}, {0, 0, 2048}, {0, 0, 2048}}
	if fmt.Sprint(c11VoxGeom.NVox) != fmt.Sprint(want) {
		panic(fmt.Sprintf("vox geometry %v differs from the constants of Concurrency.tla %v", c11VoxGeom.NVox, want))
	}
}

func c11VoxBlockName(x, y, z int32) int {
	for i, b := range c11VoxGeom.Blocks {
		if b == [3]int{int(x), int(y), int(z)} {
			return i + 1
		}
	}
	return 1000 + int(x) + 10*int(y) + 100*int(z)
}

func c11UniformVolume(nvox int, label uint64) []byte {
	vol := make([]byte, nvox*8)
	for i := 0; i < len(vol); i += 8 {
		binary.LittleEndian.PutUint64(vol[i:], label)
	}
	return vol
}

// block b of template mcli: block k holds supervoxel k (c11Ingest), 9 is a block nobody wrote
func c11McBlock(b int) [3]int32 {
	if b == 9 {
		return [3]int32{0, 1, 0}
	}
	return [3]int32{int32(b - 1), 0, 0}
}

func c11McBlockName(x, y, z int32) int {
	if y == 1 && x == 0 && z == 0 {
		return 9
	}
	if y == 0 && z == 0 && x >= 0 && x < 8 {
		return int(x) + 1
	}
	return 1000 + int(x) + 10*int(y) + 100*int(z)
}

// c11WaitIndex waits until the body index of label exists (the index of an ingested block is
// written by a goroutine no idle predicate covers).
func c11WaitIndex(n *node.Node, root, inst string, label int) {
	deadline := time.Now().Add(10 * time.Second)
	for {
		r, err := n.HTTP("GET", fmt.Sprintf("/api/node/%s/%s/index/%d", root, inst, label), nil)
		must(err, "GET index")
		if r.Status == 200 && len(r.Bytes()) > 0 {
			return
		}
		if time.Now().After(deadline) {
			infra("index of label %d of %s did not appear within 10 s after the ingest", label, inst)
		}
		time.Sleep(time.Millisecond)
	}
}

func c11GrowSetup(env *c11Env, key *c11Key, k int64) bool {
	n := env.n
	switch key.Tpl {
	case "mcli":
		env.inst = fmt.Sprintf("mc%d", k)
		c11NewInstance(n, env.root, "labelmap", env.inst, map[string]string{"BlockSize": fmt.Sprintf("%d,%d,%d", c11LmBS, c11LmBS, c11LmBS)})
		c11Ingest(n, env.root, env.inst, 5)
		for l := 1; l <= 5; l++ {
			c11WaitIndex(n, env.root, env.inst, l)
		}
		c11Do(n, "POST", "/api/node/"+env.root+"/"+env.inst+"/merge", []byte(`[1,2,3]`), "seed merge")
		env.grow = &c11GrowEnv{sym: map[uint64]uint64{}}
		return true
	case "vox":
		env.inst = fmt.Sprintf("vx%d", k)
		in := &lmm.Inst{N: n, G: c11VoxGeom, Name: env.inst, Root: env.root}
		must(in.Create(nil), "create labelmap")
		must(in.Ingest(env.root, []uint64{1, 1, 2, 3, 4}, []int{1, 2, 3}, false), "ingest")
		must(n.Idle(), "idle after ingest")
		for l := 1; l <= 4; l++ {
			c11WaitIndex(n, env.root, env.inst, l)
		}
		c11Do(n, "POST", "/api/node/"+env.root+"/"+env.inst+"/merge", []byte(`[1,2]`), "seed merge")
		in.MaxSeen = 4
		env.grow = &c11GrowEnv{sym: map[uint64]uint64{}, lm: in}
		return true
	case "wc":
		env.root = c11WcRoot(n)
		g := &c11GrowEnv{sym: map[uint64]uint64{}}
		env.grow = g
		for _, r := range key.Rq {
			if r.str("k") == "write" {
				g.wcKind = r.str("kind")
			}
		}
		r := c11Do(n, "POST", "/api/node/"+env.root+"/branch", []byte(fmt.Sprintf(`{"branch":"wc%d"}`, atomic.AddInt64(&c11WcSeq, 1))), "branch")
		var o struct{ Child string }
		json.Unmarshal(r.Bytes(), &o)
		if o.Child == "" {
			infra("branch: no child in %s", r.Bytes())
		}
		g.wcV = o.Child
		return true
	case "annsync":
		g := &c11GrowEnv{sym: map[uint64]uint64{}, asLm: fmt.Sprintf("as%dl", k), asAnn: fmt.Sprintf("as%da", k), asLsz: fmt.Sprintf("as%dz", k)}
		env.grow = g
		env.inst = g.asLm
		base := "/api/node/" + env.root + "/"
		c11NewInstance(n, env.root, "labelmap", g.asLm, map[string]string{"BlockSize": fmt.Sprintf("%d,%d,%d", c11LmBS, c11LmBS, c11LmBS)})
		c11NewInstance(n, env.root, "annotation", g.asAnn, nil)
		c11NewInstance(n, env.root, "labelsz", g.asLsz, nil)
		c11Do(n, "POST", base+g.asAnn+"/sync", []byte(fmt.Sprintf(`{"sync":%q}`, g.asLm)), "sync annotation to labelmap")
		c11Do(n, "POST", base+g.asLsz+"/sync", []byte(fmt.Sprintf(`{"sync":%q}`, g.asAnn)), "sync labelsz to annotation")
		c11Ingest(n, env.root, g.asLm, 3)
		for l := 1; l <= 3; l++ {
			c11WaitIndex(n, env.root, g.asLm, l)
		}
		c11Do(n, "POST", base+g.asLm+"/merge", []byte(`[1,2]`), "seed merge")
		must(n.Idle(), "idle after seed merge")
		seed, _ := json.Marshal([]c11Elem{c11AsElem(1), c11AsElem(2), c11AsElem(3)})
		c11Do(n, "POST", base+g.asAnn+"/elements", seed, "seed elements")
		must(n.Idle(), "idle after seed elements")
		return true
	}
	return false
}

func c11GrowRequest(env *c11Env, r c11Rq) (node.Req, bool) {
	base := "/api/node/" + env.root + "/" + env.inst
	who := r.num("who")
	switch env.cs.Tpl {
	case "mcli":
		switch r.str("k") {
		case "merge":
			b, _ := json.Marshal(append([]int{r.num("t")}, r.ints("m")...))
			return env.n.MkReq("POST", base+"/merge", b), true
		case "cleave":
			b, _ := json.Marshal(r.ints("s"))
			return env.n.MkReq("POST", fmt.Sprintf("%s/cleave/%d", base, r.num("b")), b), true
		case "delta":
			args, _ := json.Marshal(map[string]interface{}{"kind": "cli", "uuid": env.root, "name": env.inst, "label": r.num("l"),
				"delta": map[string]interface{}{"block": c11McBlock(r.num("b")), "sv": r.num("s"), "n": r.num("n")}})
			return node.Req{ID: uint64(who), Op: "cli", Method: "CALL",
				URL:  fmt.Sprintf("labelmap.ChangeLabelIndex(%s, label %d, supervoxel %d, block %d, %+d voxels)", env.inst, r.num("l"), r.num("s"), r.num("b"), r.num("n")),
				Args: args}, true
		}
	case "wc":
		g := env.grow
		v := "/api/node/" + g.wcV + "/"
		switch r.str("k") {
		case "write":
			switch r.str("kind") {
			case "kv":
				return env.n.MkReq("POST", v+"wckv/key/k", []byte("v1")), true
			case "lm":
				return env.n.MkReq("POST", v+"wclm/raw/0_1_2/16_16_16/0_0_0?mutate=true", c11UniformVolume(16*16*16, c11WcLabel)), true
			case "ann":
				b, _ := json.Marshal([]c11Elem{c11AsElem(1)})
				return env.n.MkReq("POST", v+"wcan/elements", b), true
			}
		case "commit":
			return env.n.MkReq("POST", v+"commit", []byte(`{"note":"wc"}`)), true
		case "read":
			args, _ := json.Marshal(map[string]interface{}{"kind": "seq", "seq": c11WcReads(env)})
			return node.Req{ID: uint64(who), Op: "cli", Method: "CALL", URL: "reader: GET repo info (committed?), then GET the content of " + g.wcV, Args: args}, true
		}
	case "annsync":
		g := env.grow
		root := "/api/node/" + env.root + "/"
		switch r.str("k") {
		case "post":
			b, _ := json.Marshal([]c11Elem{c11AsElem(r.num("p"))})
			return env.n.MkReq("POST", root+g.asAnn+"/elements", b), true
		case "del":
			v := c11AsVoxel[r.num("p")]
			return env.n.MkReq("DELETE", fmt.Sprintf("%s%s/element/%d_%d_%d", root, g.asAnn, v[0], v[1], v[2]), nil), true
		case "merge":
			return env.n.MkReq("POST", root+g.asLm+"/merge", []byte(fmt.Sprintf("[%d,%d]", r.num("t"), r.num("m")))), true
		case "cleave":
			return env.n.MkReq("POST", fmt.Sprintf("%s%s/cleave/%d", root, g.asLm, r.num("b")), []byte(fmt.Sprintf("[%d]", r.num("s")))), true
		}
	case "vox":
		switch r.str("k") {
		case "write":
			// one block-aligned POST raw?mutate=true of a uniform label over the named blocks (block 1 alone,
			// blocks 1 and 2 = 32x16x16 at the origin, block 3 alone)
			x := uint64(r.num("x") + 10*who)
			blocks := r.ints("blocks")
			first := c11VoxGeom.Blocks[blocks[0]-1]
			nx := 16 * len(blocks)
			url := fmt.Sprintf("%s/raw/0_1_2/%d_16_16/%d_%d_%d?mutate=true", base, nx, first[0]*16, first[1]*16, first[2]*16)
			return env.n.MkReq("POST", url, c11UniformVolume(nx*16*16, x)), true
		case "splitsv":
			reg := map[int]bool{}
			for _, q := range r.ints("S") {
				reg[q] = true
			}
			return env.n.MkReq("POST", fmt.Sprintf("%s/split-supervoxel/%d", base, r.num("s")), lmm.EncodeRLEs(c11VoxGeom.RegionRLEs(reg))), true
		case "merge":
			b, _ := json.Marshal(append([]int{r.num("t")}, r.ints("m")...))
			return env.n.MkReq("POST", base+"/merge", b), true
		case "cleave":
			b, _ := json.Marshal(r.ints("s"))
			return env.n.MkReq("POST", fmt.Sprintf("%s/cleave/%d", base, r.num("b")), b), true
		case "renumber":
			b, _ := json.Marshal([]int{5000 + 10*who, r.num("old")})
			return env.n.MkReq("POST", base+"/renumber", b), true
		}
	}
	return node.Req{}, false
}

// c11GrowDirectives returns the gate scheduler directives a template needs beyond its site list.
func c11GrowDirectives(env *c11Env, reqs []node.Req) []string {
	switch env.cs.Tpl {
	case "vox":
		// block writes run in goroutines the request creates; the index changes of a write are applied by
		// a goroutine that outlives the request (its asynchronous tail)
		out := []string{"@inherit", "@coalesce", "@taildone:labelmap.aggregateBlockChanges.done"}
		for i, r := range env.cs.Rq {
			if r.str("k") == "write" {
				out = append(out, fmt.Sprintf("@tailwant=%d", reqs[i].ID))
			}
		}
		return out
	case "wc":
		if env.grow.wcKind == "lm" {
			return []string{"@inherit", "@coalesce", "@taildone:labelmap.aggregateBlockChanges.done", fmt.Sprintf("@tailwant=%d", reqs[0].ID)}
		}
		return nil
	case "annsync":
		// the sync event of a label request is handled by the annotation's event goroutine: the asynchronous
		// tail of that request
		var out []string
		for i, r := range env.cs.Rq {
			site := map[string]string{"merge": "annotation.sync.mergeLabels", "cleave": "annotation.sync.cleaveLabels"}[r.str("k")]
			if site != "" {
				out = append(out, fmt.Sprintf("@tail:%s=%d", site, reqs[i].ID), fmt.Sprintf("@taildone:annotation.sync.done=%d", reqs[i].ID))
			}
		}
		return out
	}
	return nil
}

// c11RunMix runs the participants through conc.mix.
func c11RunMix(env *c11Env, reqs []node.Req, sched []int, sites []string, waitMS int) (node.Resp, error) {
	var parts []json.RawMessage
	for _, r := range reqs {
		if r.Op == "cli" {
			parts = append(parts, r.Args)
			continue
		}
		b, _ := json.Marshal(map[string]interface{}{"kind": "http", "method": r.Method, "url": r.URL, "body": r.Body})
		parts = append(parts, b)
	}
	args := map[string]interface{}{"parts": parts, "wait_ms": waitMS}
	if sites == nil {
		args["sites"] = []string{"none"}
		args["sched"] = []int{}
	} else {
		// conc.mix numbers its participants 1..n
		mixReqs := make([]node.Req, len(reqs))
		for i := range reqs {
			mixReqs[i] = node.Req{ID: uint64(i + 1)}
		}
		args["sites"] = append(append([]string(nil), sites...), c11GrowDirectives(env, mixReqs)...)
		args["sched"] = sched
	}
	var res struct {
		Resps []node.Resp      `json:"resps"`
		Gates []node.GateEvent `json:"gates"`
	}
	if err := env.n.Call("conc.mix", args, &res); err != nil {
		return node.Resp{}, err
	}
	for i := range res.Resps {
		if res.Resps[i].Err != "" && res.Resps[i].Body == "" {
			res.Resps[i].Body = encodeB64([]byte(res.Resps[i].Err))
		}
	}
	return node.Resp{Resps: res.Resps, Gates: res.Gates}, nil
}

// c11BindAlloc records the labels the server allocated for the acknowledged requests under the
// symbolic names the specification gives them (cleave of request w: 200+w; split-supervoxel of
// request w: 100+2w (split), 101+2w (remainder)).
func c11BindAlloc(env *c11Env) {
	g := env.grow
	if g == nil {
		return
	}
	for i, r := range env.resps {
		if r.Status != 200 || i >= len(env.cs.Rq) {
			continue
		}
		who := uint64(env.cs.Rq[i].num("who"))
		var o struct {
			CleavedLabel     uint64
			SplitSupervoxel  uint64
			RemainSupervoxel uint64
		}
		json.Unmarshal(r.Bytes(), &o)
		switch env.cs.Rq[i].str("k") {
		case "cleave":
			if o.CleavedLabel != 0 {
				g.sym[o.CleavedLabel] = 200 + who
			}
		case "splitsv":
			if o.SplitSupervoxel != 0 {
				g.sym[o.SplitSupervoxel] = 100 + 2*who
				g.sym[o.RemainSupervoxel] = 101 + 2*who
			}
		}
	}
}

func (g *c11GrowEnv) toSym(real uint64) uint64 {
	if s, ok := g.sym[real]; ok {
		return s
	}
	return real
}

func (g *c11GrowEnv) toReal(sym uint64) (uint64, bool) {
	for r, s := range g.sym {
		if s == sym {
			return r, true
		}
	}
	if (sym >= 100 && sym < 110) || (sym >= 200 && sym < 210) {
		return 0, false // a symbolic name no acknowledged request was given
	}
	return sym, true
}

// c11ReadIndex reads the stored index of one body as entries [l, s, b, n]; blockName maps block
// coordinates to the block names of the specification.
func c11ReadIndex(env *c11Env, realLabel uint64, blockName func(x, y, z int32) int) []interface{} {
	g := env.grow
	r, err := env.n.HTTP("GET", fmt.Sprintf("/api/node/%s/%s/index/%d", env.root, env.inst, realLabel), nil)
	must(err, "GET index")
	if r.Status == 404 || (r.Status == 200 && len(r.Bytes()) == 0) {
		return nil
	}
	if r.Status != 200 {
		infra("GET index/%d: %d %s", realLabel, r.Status, r.Bytes())
	}
	var idx proto.LabelIndex
	must(pb.Unmarshal(r.Bytes(), &idx), "label index protobuf")
	var out []interface{}
	for zyx, svc := range idx.Blocks {
		x, y, z := labels.DecodeBlockIndex(zyx)
		for s, c := range svc.Counts {
			if c == 0 {
				continue
			}
			out = append(out, obsM{"l": g.toSym(realLabel), "s": g.toSym(s), "b": blockName(x, y, z), "n": c})
		}
	}
	return out
}

// c11ReadMapping returns the non-identity pairs [s, l] of the mapping over the given universe of
// symbolic supervoxel ids; with present = true every pair whose label is not 0 (GET mapping
// answers 0 for an id that the index of its body does not hold).
func c11ReadMapping(env *c11Env, universe []uint64, present ...bool) []interface{} {
	g := env.grow
	var q []uint64
	var syms []uint64
	for _, s := range universe {
		if real, ok := g.toReal(s); ok {
			q = append(q, real)
			syms = append(syms, s)
		}
	}
	qb, _ := json.Marshal(q)
	r, err := env.n.HTTP("GET", "/api/node/"+env.root+"/"+env.inst+"/mapping", qb)
	must(err, "GET mapping")
	if r.Status != 200 {
		infra("GET mapping: %d %s", r.Status, r.Bytes())
	}
	var mapped []uint64
	must(json.Unmarshal(r.Bytes(), &mapped), "mapping json")
	if len(mapped) != len(q) {
		infra("GET mapping returned %d labels for %d supervoxels", len(mapped), len(q))
	}
	out := []interface{}{}
	for i, l := range mapped {
		sl := g.toSym(l)
		if len(present) > 0 && present[0] {
			if l != 0 {
				out = append(out, obsM{"s": syms[i], "l": sl})
			}
		} else if sl != syms[i] {
			out = append(out, obsM{"s": syms[i], "l": sl})
		}
	}
	return out
}

func c11GrowObserve(env *c11Env) (interface{}, bool) {
	switch env.cs.Tpl {
	case "mcli":
		c11BindAlloc(env)
		idx := []interface{}{}
		var uni []uint64
		for l := uint64(1); l <= 5; l++ {
			uni = append(uni, l)
		}
		for w := uint64(1); w <= 3; w++ {
			uni = append(uni, 200+w)
		}
		for _, l := range uni {
			real, ok := env.grow.toReal(l)
			if !ok {
				continue
			}
			idx = append(idx, c11ReadIndex(env, real, c11McBlockName)...)
		}
		// the mapping is a function of supervoxel ids (body labels the server allocated are not supervoxels)
		return obsM{"idx": idx, "mp": c11ReadMapping(env, uni[:5])}, true
	case "wc":
		// final content, after everything has settled (the labelsz count is applied by a goroutine no idle
		// predicate orders after the request: read until stable)
		must(env.n.Idle(), "idle")
		read := func() c11WcSeen {
			var rs []node.Resp
			for _, q := range c11WcReads(env) {
				r, err := env.n.HTTP("GET", q["url"].(string), nil)
				must(err, "GET")
				rs = append(rs, r)
			}
			return c11WcDecode(env, rs)
		}
		fin := read()
		for i := 0; i < 20; i++ {
			time.Sleep(2 * time.Millisecond)
			must(env.n.Idle(), "idle")
			again := read()
			if again == fin && i >= 2 {
				break
			}
			fin = again
		}
		frozen := true
		for i, r := range env.cs.Rq {
			if r.str("k") != "read" || i >= len(env.resps) || env.resps[i].Status != 200 {
				continue
			}
			var rs []node.Resp
			must(json.Unmarshal(env.resps[i].Bytes(), &rs), "reader answers")
			seen := c11WcDecode(env, rs)
			if seen.C && (seen.V != fin.V || seen.D != fin.D) {
				frozen = false
			}
		}
		b2i := func(b bool) int {
			if b {
				return 1
			}
			return 0
		}
		return obsM{"val": b2i(fin.V), "der": b2i(fin.D), "com": fin.C, "frozen": frozen}, true
	case "annsync":
		c11BindAlloc(env)
		g := env.grow
		root := "/api/node/" + env.root + "/"
		get := func(url string, body []byte) []byte {
			r, err := env.n.HTTP("GET", url, body)
			must(err, "GET "+url)
			if r.Status != 200 {
				infra("GET %s: %d %s", url, r.Status, trunc(string(r.Bytes()), 200))
			}
			return r.Bytes()
		}
		ints := func(ps []int) []interface{} {
			out := []interface{}{}
			for _, p := range ps {
				out = append(out, p)
			}
			return out
		}
		blk := ints(c11AsPositions(get(root+g.asAnn+"/all-elements", nil)))
		lbl, tg, cnt, mp := []interface{}{}, []interface{}{}, []interface{}{}, []interface{}{}
		var reals []uint64
		var syms []uint64
		for _, l := range []uint64{1, 2, 3, 201, 202, 203} {
			real, ok := g.toReal(l)
			if !ok {
				continue
			}
			reals = append(reals, real)
			syms = append(syms, l)
			for _, p := range c11AsPositions(get(fmt.Sprintf("%s%s/label/%d", root, g.asAnn, real), nil)) {
				lbl = append(lbl, obsM{"l": l, "p": p})
			}
		}
		for t := 1; t <= 2; t++ {
			for _, p := range c11AsPositions(get(fmt.Sprintf("%s%s/tag/t%d", root, g.asAnn, t), nil)) {
				tg = append(tg, obsM{"t": t, "p": p})
			}
		}
		lb, _ := json.Marshal(reals)
		var cs []map[string]uint64
		must(json.Unmarshal(get(root+g.asLsz+"/counts/Note", lb), &cs), "labelsz counts json")
		if len(cs) != len(reals) {
			infra("labelsz counts answered %d entries for %d labels", len(cs), len(reals))
		}
		for i := range cs {
			if cs[i]["Note"] != 0 {
				cnt = append(cnt, obsM{"l": syms[i], "n": cs[i]["Note"]})
			}
		}
		var mapped []uint64
		must(json.Unmarshal(get(root+g.asLm+"/mapping", []byte(`[1,2,3]`)), &mapped), "mapping json")
		for i, l := range mapped {
			mp = append(mp, obsM{"s": i + 1, "l": g.toSym(l)})
		}
		return obsM{"blk": blk, "lbl": lbl, "tg": tg, "cnt": cnt, "mp": mp}, true
	case "vox":
		c11BindAlloc(env)
		g := env.grow
		// stored supervoxel of every region
		geo := c11VoxGeom
		r, err := env.n.HTTP("GET", fmt.Sprintf("/api/node/%s/%s/raw/0_1_2/%d_%d_%d/%d_%d_%d?supervoxels=true", env.root, env.inst,
			geo.Size[0], geo.Size[1], geo.Size[2], geo.Min[0], geo.Min[1], geo.Min[2]), nil)
		must(err, "GET raw")
		if r.Status != 200 {
			infra("GET raw?supervoxels=true: %d %s", r.Status, trunc(string(r.Bytes()), 200))
		}
		sv := []interface{}{}
		regs, bad := geo.VolumeToRegions(r.Bytes())
		if bad != "" {
			sv = append(sv, obsM{"r": 0, "s": "half-written: " + bad})
		} else {
			for q, l := range regs {
				sv = append(sv, obsM{"r": q + 1, "s": g.toSym(l)})
			}
		}
		// stored indices of every label that can be a body, mapping of every id that can be a supervoxel
		bodies := []uint64{1, 2, 3, 4}
		svs := []uint64{1, 2, 3, 4}
		for w := uint64(1); w <= 3; w++ {
			for _, x := range []uint64{1000, 2000, 3000} {
				bodies = append(bodies, x+10*w)
				svs = append(svs, x+10*w)
			}
			bodies = append(bodies, 5000+10*w, 200+w, 100+2*w, 101+2*w)
			svs = append(svs, 100+2*w, 101+2*w)
		}
		idx := []interface{}{}
		for _, l := range bodies {
			if real, ok := g.toReal(l); ok {
				idx = append(idx, c11ReadIndex(env, real, c11VoxBlockName)...)
			}
		}
		return obsM{"sv": sv, "idx": idx, "mp": c11ReadMapping(env, svs, true)}, true
	}
	return nil, false
}

// c11DeepCompare reads the final state through every labelmap endpoint (lmm.Compare: sizes, sparse
// volumes, coarse volumes, indices, supervoxel sizes, point lookups, mappings, listings) and compares
// with the full observation TLC computed for the serial outcome the run matched.
func c11DeepCompare(env *c11Env, lmObs json.RawMessage) []string {
	if env.grow == nil || env.grow.lm == nil {
		return nil
	}
	var want lmm.Obs
	must(json.Unmarshal(lmObs, &want), "full observation of the serial outcome")
	lab := lmm.NewLabels()
	for real, sym := range env.grow.sym {
		lab.Bind(sym, real)
	}
	in := env.grow.lm
	for _, s := range want.SV {
		if real := lab.Real(s); real > in.MaxSeen {
			in.MaxSeen = real
		}
	}
	for _, b := range want.Bodies {
		if real := lab.Real(b.Label); real > in.MaxSeen {
			in.MaxSeen = real
		}
	}
	diffs, err := in.Compare(env.root, want, lab, lmm.Full)
	must(err, "lmm.Compare")
	return diffs
}

// known findings of template vox (known_findings.json): the index changes of a voxel write are applied by
// a goroutine that outlives the request
const (
	c11KnownVoxOrder = "voxel-write-index-changes-applied-out-of-order"
	c11KnownVoxStale = "voxel-write-index-change-uses-stale-body"
)

// c11KnownFor names the known finding that can explain a non-serial outcome of this request tuple (the
// caller additionally requires that the model of today's locking predicts one for the tuple).
func c11KnownFor(cs *c11Case) (string, bool) {
	if cs.Key.Tpl == "vox" {
		writes, bodyMut := 0, 0
		for _, r := range cs.Key.Rq {
			switch r.str("k") {
			case "write":
				writes++
			case "merge", "cleave", "renumber":
				bodyMut++
			}
		}
		switch {
		case writes >= 2:
			return c11KnownVoxOrder, true
		case writes == 1 && bodyMut >= 1:
			return c11KnownVoxStale, true
		}
		return "", false
	}
	if cs.Key.Tpl == "wc" {
		for _, r := range cs.Key.Rq {
			if r.str("k") == "write" && r.str("kind") == "lm" {
				return c11KnownCommitBackground, true
			}
		}
		return "", false
	}
	id, ok := c11Known[cs.Key.Tpl]
	return id, ok
}

// known finding of template wc: a commit waits for the admitted requests, not for the index changes an
// acknowledged labelmap write left to a background goroutine
const c11KnownCommitBackground = "commit-does-not-wait-for-background-index-changes"

// schedules replayed per request tuple in the quick tier (0 = all)
var c11QuickCap = map[string]int{"mcli": 3, "vox": 3, "annsync": 4, "wc": 8}

// c11KnownOutcome: for template wc a non-serial final state is explained by the known finding only if it
// is the final state the model of today's locking predicts for this request triple; anything else is a
// different failure.  (Template vox: the model applies the index changes of one write in one step, the
// server label by label and in map order, so under a deviating schedule the lost update can take a
// form the gate-grain model does not list; any non-serial outcome of a tuple the finding speaks of
// is attributed to it.)
func c11KnownOutcome(cs *c11Case, got string) bool {
	if cs.Key.Tpl != "wc" {
		return true
	}
	for _, e := range cs.Ends {
		if !e.Serializable && e.Final == got {
			return true
		}
	}
	return false
}

// c11Stacks: the goroutine dump of a server that did not answer, reduced to the goroutines that sit in dvid
// code (diagnostics for an infrastructure error; the node is gone afterwards).
func c11Stacks(n *node.Node) string {
	dump := n.DumpGoroutines(400000)
	i := strings.Index(dump, "SIGQUIT")
	if i >= 0 {
		dump = dump[i:]
	}
	var keep []string
	for _, g := range strings.Split(dump, "\n\n") {
		if strings.Contains(g, "janelia-flyem/dvid/") && !strings.Contains(g, "processEvents") || strings.Contains(g, "sync.(*") {
			lines := strings.Split(g, "\n")
			if len(lines) > 14 {
				lines = lines[:14]
			}
			keep = append(keep, strings.Join(lines, "\n"))
		}
	}
	out := strings.Join(keep, "\n\n")
	if len(out) > 12000 {
		out = out[:12000]
	}
	return out
}
