package main

// C01 growth (gap C01-2): the resolver rule on DAGs with merge nodes for the datatypes other
// than keyvalue.  For every enumerated shape (KVShapes) TLC (KVTypes.tla) evaluates the
// property's read (KVRead.ReadNode) of every placement at every node, which placements a
// read-modify-write datatype can build (KVCopy.Built / Strict), and - as an analysis of the
// implementation - what the first-parent line of labelmap's mapping resolver finds.  The
// harness builds the shape through the HTTP API with one labelmap instance (blocks, label
// indices, supervoxel mappings: three kinds of datum), one neuronjson and one annotation
// instance, writes each placement into its own datum before the node is committed and reads
// every datum at every node.

import (
	"bytes"
	"compress/gzip"
	"encoding/binary"
	"encoding/json"
	"fmt"
	"io"
	"math/rand"
	"sort"
	"strconv"
	"strings"
	"sync/atomic"
	"time"

	pb "google.golang.org/protobuf/proto"

	"github.com/janelia-flyem/dvid/datatype/common/labels"
	"github.com/janelia-flyem/dvid/datatype/common/proto"
	"github.com/janelia-flyem/dvid/dvid"

	"verifharness/internal/dagm"
	"verifharness/internal/ev"
	"verifharness/internal/node"
	"verifharness/internal/tlc"
)

// known finding: where two unsuperseded mappings of a supervoxel meet at a merge node the
// mapping query answers with one of them (the first parent's) instead of failing
const c01MappingConflict = "labelmap-mapping-conflict-answers"

// typShape is one line printed by KVTypes.EmitTypes.
type typShape struct {
	Par    [][]int `json:"par"`
	Read   [][]int `json:"read"` // [placement][node-1]: node whose value is read, 0 not found, -1 conflict
	Algo   [][]int `json:"algo"` // transcription of findMatch
	FP     [][]int `json:"fp"`   // transcription of the first-parent line (labelmap mapping before its repair)
	ML     [][]int `json:"ml"`   // transcription of the merged line (labelmap mapping)
	Built  []int   `json:"built"`
	Strict []int   `json:"strict"`
}

func evalTypeShapes(c *Ctx, n int, pars [][][]int) ([]typShape, *tlc.Result) {
	var sb strings.Builder
	sb.WriteString("---- MODULE KVTypesCases ----\nTypeShapes == <<\n")
	for i, p := range pars {
		if i > 0 {
			sb.WriteString(",\n")
		}
		sb.WriteString(tlaPar(p))
	}
	sb.WriteString("\n>>\n====\n")
	cfg := fmt.Sprintf("SPECIFICATION TSpec\nCONSTANTS\n  N = %d\n  MaxParents = 3\n  LastMergeOnly = FALSE\n  LastFoundBug = FALSE\n"+
		"INVARIANTS Inv_FirstParentOnChains Inv_MergedLineIsTopological Inv_MergedLineAgrees Inv_C19_AbsentTombNoop EmitTypes\nCHECK_DEADLOCK FALSE\n", n)
	r := c.MustModelCheck(tlc.Opts{Module: "KVTypes", Config: "gen_types.cfg", Workers: 6,
		Files:   map[string][]byte{"KVTypesCases.tla": []byte(sb.String()), "gen_types.cfg": []byte(cfg)},
		Timeout: 40 * time.Minute, HeapGB: 6})
	byPar := map[string]typShape{}
	PrintedJSON(r.Output, func(raw []byte) {
		var s typShape
		if err := json.Unmarshal(raw, &s); err == nil && len(s.Par) == n && len(s.Read) == pow3(n) && len(s.FP) == pow3(n) && len(s.ML) == pow3(n) && len(s.Built) == pow3(n) {
			byPar[fmt.Sprint(s.Par)] = s
		}
	})
	out := make([]typShape, 0, len(pars))
	for _, p := range pars {
		s, ok := byPar[fmt.Sprint(p)]
		if !ok {
			infra("KVTypes printed nothing for shape %v:\n%s", p, r.Tail(1500))
		}
		out = append(out, s)
	}
	return out, r
}

// c01Src adapts one kind of datum: datum j holds "the value written at node k" or nothing.
type c01Src struct {
	name     string
	datatype string
	need     string // which placements can be built: all | nodel | built | strict
	// memMap: the datum lives in labelmap's in-memory versioned map (own resolver), not in store entries resolved by findMatch
	memMap  bool
	maxData int
	create  func(s *dagm.Sess, nd int) error
	// apply performs the writes and deletions of node k (data indices)
	apply func(n *node.Node, u string, k int, writes, dels []int) error
	// read returns for each datum the node whose value is read (0 nothing, -1 failed, < -1 garbage).
	// batch: no datum is expected to fail at this node, so the batch / listing endpoints are used as well
	read func(n *node.Node, u string, nd int, batch bool) ([]int, string, error)
}

func httpOK(n *node.Node, method, url string, body []byte, what string) error {
	r, err := n.HTTP(method, url, body)
	return okStatus(r, err, what)
}

const c01BS = 32

func lmSolidBlock(bx int, label uint64) []byte { return lmSolidBlockAt(bx, 0, label) }

func lmSolidBlockAt(bx, by int, label uint64) []byte {
	b := labels.MakeSolidBlock(label, dvid.Point3d{c01BS, c01BS, c01BS})
	ser, _ := b.MarshalBinary()
	var z bytes.Buffer
	zw := gzip.NewWriter(&z)
	zw.Write(ser)
	zw.Close()
	var buf bytes.Buffer
	for _, c := range []int32{int32(bx), int32(by), 0} {
		binary.Write(&buf, binary.LittleEndian, c)
	}
	binary.Write(&buf, binary.LittleEndian, int32(z.Len()))
	buf.Write(z.Bytes())
	return buf.Bytes()
}

func parseU64List(b []byte) ([]uint64, error) {
	var out []uint64
	err := json.Unmarshal(b, &out)
	return out, err
}

// labelmap blocks: datum j is the block (j+1, 0, 0), a value written at node k is the solid
// block of supervoxel 1000*(j+1)+k.  Blocks cannot be deleted.
var c01LmBlock = &c01Src{name: "lm", datatype: "labelmap block", need: "nodel", maxData: 10,
	create: func(s *dagm.Sess, nd int) error {
		if err := s.NewInstance(1, "labelmap", "lm", map[string]string{"BlockSize": fmt.Sprintf("%d,%d,%d", c01BS, c01BS, c01BS)}); err != nil {
			return err
		}
		// two frame blocks at the root fix the extents, so that no later block write rewrites the
		// instance's (versioned) extents entry; the row y = 1 holds, for every mapping datum j, a block
		// of supervoxel 9000+j, so that the mapping is also read through the voxels (GET labels)
		body := append(lmSolidBlock(0, 1), lmSolidBlockAt(nd+1, 1, 1)...)
		for j := 0; j < nd; j++ {
			body = append(body, lmSolidBlockAt(j+1, 1, uint64(9000+j))...)
		}
		return httpOK(s.N, "POST", "/api/node/"+s.NodeUUID(len(s.UUIDs))+"/lm/blocks?noindexing=true", body, "POST blocks (frame)")
	},
	apply: func(n *node.Node, u string, k int, writes, dels []int) error {
		if len(writes) == 0 {
			return nil
		}
		var body []byte
		for _, j := range writes {
			body = append(body, lmSolidBlock(j+1, uint64(1000*(j+1)+k))...)
		}
		return httpOK(n, "POST", "/api/node/"+u+"/lm/blocks?noindexing=true", body, "POST blocks")
	},
	read: func(n *node.Node, u string, nd int, batch bool) ([]int, string, error) {
		out := make([]int, nd)
		var obs []string
		dec := func(j int, l uint64) int {
			switch {
			case l == 0:
				return 0
			case l/1000 == uint64(j+1) && l%1000 >= 1 && l%1000 < 100:
				return int(l % 1000)
			}
			obs = append(obs, fmt.Sprintf("block %d holds %d", j, l))
			return -2
		}
		if !batch {
			for j := 0; j < nd; j++ {
				r, err := n.HTTP("GET", fmt.Sprintf("/api/node/%s/lm/label/%d_3_3?supervoxels=true", u, c01BS*(j+1)+3), nil)
				if err != nil {
					return nil, "", err
				}
				var o struct{ Label uint64 }
				if r.Status != 200 || json.Unmarshal(r.Bytes(), &o) != nil {
					out[j] = -1
					continue
				}
				out[j] = dec(j, o.Label)
			}
			return out, strings.Join(obs, "; "), nil
		}
		// (i) point reads of one voxel per block (store Get), in one request
		pts := make([][3]int, nd)
		for j := range pts {
			pts[j] = [3]int{c01BS*(j+1) + 3, 3, 3}
		}
		body, _ := json.Marshal(pts)
		r, err := n.HTTP("GET", "/api/node/"+u+"/lm/labels?supervoxels=true", body)
		if err != nil {
			return nil, "", err
		}
		ls, perr := parseU64List(r.Bytes())
		if r.Status != 200 || perr != nil || len(ls) != nd {
			for j := range out {
				out[j] = -1
			}
			return out, fmt.Sprintf("labels=%d %.120s", r.Status, r.Bytes()), nil
		}
		for j := range out {
			out[j] = dec(j, ls[j])
		}
		// (ii) the same blocks through the range scan of GET blocks
		r, err = n.HTTP("GET", fmt.Sprintf("/api/node/%s/lm/blocks/%d_%d_%d/%d_0_0?compression=blocks&supervoxels=true", u, c01BS*nd, c01BS, c01BS, c01BS), nil)
		if err != nil {
			return nil, "", err
		}
		byScan := make([]int, nd)
		if r.Status != 200 {
			obs = append(obs, fmt.Sprintf("blocks=%d %.120s", r.Status, r.Bytes()))
			for j := range out {
				out[j] = -3
			}
			return out, strings.Join(obs, "; "), nil
		}
		rd := bytes.NewReader(r.Bytes())
		for rd.Len() > 0 {
			var hdr [4]int32
			if err := binary.Read(rd, binary.LittleEndian, &hdr); err != nil || hdr[3] < 0 || int(hdr[3]) > rd.Len() {
				obs = append(obs, "blocks stream unparsable")
				break
			}
			zb := make([]byte, hdr[3])
			io.ReadFull(rd, zb)
			zr, err := gzip.NewReader(bytes.NewReader(zb))
			var blk labels.Block
			if err == nil {
				var ser []byte
				if ser, err = io.ReadAll(zr); err == nil {
					err = blk.UnmarshalBinary(ser)
				}
			}
			j := int(hdr[0]) - 1
			if err != nil || j < 0 || j >= nd || hdr[1] != 0 || hdr[2] != 0 || len(blk.Labels) != 1 || byScan[j] != 0 {
				obs = append(obs, fmt.Sprintf("blocks stream: unexpected block %v (%v)", hdr[:3], err))
				continue
			}
			byScan[j] = dec(j, blk.Labels[0])
		}
		for j := range out {
			if byScan[j] != out[j] {
				obs = append(obs, fmt.Sprintf("block %d: point read %d, range scan %d", j, out[j], byScan[j]))
				out[j] = -3
			}
		}
		return out, strings.Join(obs, "; "), nil
	}}

// labelmap label indices: datum j is the index of label 5000+j; a value written at node k is
// an index of one block with k voxels; a deletion is the POST of an empty index.
var c01LmIndex = &c01Src{name: "lm", datatype: "labelmap label index", need: "all", maxData: 14,
	apply: func(n *node.Node, u string, k int, writes, dels []int) error {
		var li proto.LabelIndices
		for _, j := range writes {
			l := uint64(5000 + j)
			li.Indices = append(li.Indices, &proto.LabelIndex{Label: l, LastMutid: uint64(k),
				Blocks: map[uint64]*proto.SVCount{0: {Counts: map[uint64]uint32{l: uint32(k)}}}})
		}
		for _, j := range dels {
			li.Indices = append(li.Indices, &proto.LabelIndex{Label: uint64(5000 + j)})
		}
		if len(li.Indices) == 0 {
			return nil
		}
		body, err := pb.Marshal(&li)
		if err != nil {
			return err
		}
		return httpOK(n, "POST", "/api/node/"+u+"/lm/indices", body, "POST indices")
	},
	read: func(n *node.Node, u string, nd int, batch bool) ([]int, string, error) {
		out := make([]int, nd)
		var obs []string
		dec := func(j int, idx *proto.LabelIndex) int {
			if idx == nil || len(idx.Blocks) == 0 {
				return 0
			}
			l := uint64(5000 + j)
			k := int(idx.LastMutid)
			if idx.Label != l || len(idx.Blocks) != 1 || idx.Blocks[0] == nil || int(idx.Blocks[0].Counts[l]) != k || k <= 0 {
				obs = append(obs, fmt.Sprintf("index %d: %v", j, idx))
				return -2
			}
			return k
		}
		if !batch {
			for j := 0; j < nd; j++ {
				r, err := n.HTTP("GET", fmt.Sprintf("/api/node/%s/lm/index/%d", u, 5000+j), nil)
				if err != nil {
					return nil, "", err
				}
				switch {
				case r.Status == 404:
					out[j] = 0
				case r.Status == 200:
					var idx proto.LabelIndex
					if pb.Unmarshal(r.Bytes(), &idx) != nil {
						out[j] = -2
					} else {
						out[j] = dec(j, &idx)
					}
				default:
					out[j] = -1
				}
			}
			return out, strings.Join(obs, "; "), nil
		}
		ll := make([]uint64, nd)
		for j := range ll {
			ll[j] = uint64(5000 + j)
		}
		body, _ := json.Marshal(ll)
		r, err := n.HTTP("GET", "/api/node/"+u+"/lm/indices", body)
		if err != nil {
			return nil, "", err
		}
		var li proto.LabelIndices
		if r.Status != 200 || pb.Unmarshal(r.Bytes(), &li) != nil || len(li.Indices) != nd {
			for j := range out {
				out[j] = -1
			}
			return out, fmt.Sprintf("indices=%d %.120s", r.Status, r.Bytes()), nil
		}
		for j := range out {
			out[j] = dec(j, li.Indices[j])
		}
		// the sizes derived from the indices
		r, err = n.HTTP("GET", "/api/node/"+u+"/lm/sizes", body)
		if err != nil {
			return nil, "", err
		}
		sz, perr := parseU64List(r.Bytes())
		if r.Status != 200 || perr != nil || len(sz) != nd {
			obs = append(obs, fmt.Sprintf("sizes=%d %.120s", r.Status, r.Bytes()))
			for j := range out {
				out[j] = -3
			}
			return out, strings.Join(obs, "; "), nil
		}
		for j := range out {
			if out[j] >= 0 && int(sz[j]) != out[j] {
				obs = append(obs, fmt.Sprintf("label %d: index of node %d, size %d", 5000+j, out[j], sz[j]))
				out[j] = -3
			}
		}
		return out, strings.Join(obs, "; "), nil
	}}

// labelmap supervoxel mappings: datum j is the mapping of supervoxel 9000+j; a value written at
// node k maps it to label 7000+10*j+k (POST mappings).
var c01LmMap = &c01Src{name: "lm", datatype: "labelmap supervoxel mapping", need: "nodel", memMap: true, maxData: 14,
	apply: func(n *node.Node, u string, k int, writes, dels []int) error {
		if len(writes) == 0 {
			return nil
		}
		var ops proto.MappingOps
		for _, j := range writes {
			ops.Mappings = append(ops.Mappings, &proto.MappingOp{Mutid: uint64(k), Mapped: uint64(7000 + 10*j + k), Original: []uint64{uint64(9000 + j)}})
		}
		body, err := pb.Marshal(&ops)
		if err != nil {
			return err
		}
		return httpOK(n, "POST", "/api/node/"+u+"/lm/mappings", body, "POST mappings")
	},
	read: func(n *node.Node, u string, nd int, batch bool) ([]int, string, error) {
		out := make([]int, nd)
		var obs []string
		svs := make([]uint64, nd)
		for j := range svs {
			svs[j] = uint64(9000 + j)
		}
		body, _ := json.Marshal(svs)
		r, err := n.HTTP("GET", "/api/node/"+u+"/lm/mapping?nolookup=true", body)
		if err != nil {
			return nil, "", err
		}
		ls, perr := parseU64List(r.Bytes())
		if r.Status != 200 || perr != nil || len(ls) != nd {
			for j := range out {
				out[j] = -1
			}
			return out, fmt.Sprintf("mapping=%d %.120s", r.Status, r.Bytes()), nil
		}
		dec := func(j int, l uint64) int {
			k := int(l) - 7000 - 10*j
			switch {
			case l == svs[j]:
				return 0 // unmapped: the supervoxel is its own label
			case k >= 1 && k <= 9:
				return k
			}
			obs = append(obs, fmt.Sprintf("supervoxel %d maps to %d", svs[j], l))
			return -2
		}
		for j := range out {
			out[j] = dec(j, ls[j])
		}
		// the labels of the voxels of these supervoxels (blocks written at the root)
		pts := make([][3]int, nd)
		for j := range pts {
			pts[j] = [3]int{c01BS*(j+1) + 3, c01BS + 3, 3}
		}
		pbody, _ := json.Marshal(pts)
		r, err = n.HTTP("GET", "/api/node/"+u+"/lm/labels", pbody)
		if err != nil {
			return nil, "", err
		}
		vl, perr := parseU64List(r.Bytes())
		if r.Status != 200 || perr != nil || len(vl) != nd {
			obs = append(obs, fmt.Sprintf("labels=%d %.120s", r.Status, r.Bytes()))
			for j := range out {
				out[j] = -3
			}
			return out, strings.Join(obs, "; "), nil
		}
		for j := range out {
			if byVoxel := dec(j, vl[j]); byVoxel != out[j] {
				obs = append(obs, fmt.Sprintf("supervoxel %d: mapping query says node %d, the label of its voxels says node %d", svs[j], out[j], byVoxel))
				out[j] = -3
			}
		}
		// the listing of all mappings of the version
		r, err = n.HTTP("GET", "/api/node/"+u+"/lm/mappings", nil)
		if err != nil {
			return nil, "", err
		}
		listed := make([]int, nd)
		if r.Status != 200 {
			obs = append(obs, fmt.Sprintf("mappings=%d %.120s", r.Status, r.Bytes()))
		}
		for _, line := range strings.Split(strings.TrimSpace(string(r.Bytes())), "\n") {
			f := strings.Fields(line)
			if len(f) != 2 {
				continue
			}
			sv, _ := strconv.ParseUint(f[0], 10, 64)
			l, _ := strconv.ParseUint(f[1], 10, 64)
			if j := int(sv) - 9000; j >= 0 && j < nd {
				listed[j] = dec(j, l)
			}
		}
		for j := range out {
			if listed[j] != out[j] {
				obs = append(obs, fmt.Sprintf("supervoxel %d: mapping query says node %d, mappings listing says node %d", svs[j], out[j], listed[j]))
				out[j] = -3
			}
		}
		return out, strings.Join(obs, "; "), nil
	}}

// neuronjson: datum j is the annotation of body 100+j; POST key merges fields into the stored
// annotation (read-modify-write), DELETE key writes a tombstone.
var c01NJ = &c01Src{name: "nj", datatype: "neuronjson annotation", need: "built", maxData: 12,
	create: func(s *dagm.Sess, nd int) error { return s.NewInstance(1, "neuronjson", "nj", nil) },
	apply: func(n *node.Node, u string, k int, writes, dels []int) error {
		for _, j := range writes {
			body := fmt.Sprintf(`{"bodyid": %d, "v": %d}`, 100+j, k)
			if err := httpOK(n, "POST", fmt.Sprintf("/api/node/%s/nj/key/%d?u=tester", u, 100+j), []byte(body), "POST key"); err != nil {
				return err
			}
		}
		for _, j := range dels {
			if err := httpOK(n, "DELETE", fmt.Sprintf("/api/node/%s/nj/key/%d?u=tester", u, 100+j), nil, "DELETE key"); err != nil {
				return err
			}
		}
		return nil
	},
	read: func(n *node.Node, u string, nd int, batch bool) ([]int, string, error) {
		out := make([]int, nd)
		var obs []string
		type ann struct {
			Bodyid uint64 `json:"bodyid"`
			V      int    `json:"v"`
		}
		var found []string
		for j := 0; j < nd; j++ {
			r, err := n.HTTP("GET", fmt.Sprintf("/api/node/%s/nj/key/%d", u, 100+j), nil)
			if err != nil {
				return nil, "", err
			}
			switch {
			case r.Status == 404:
				out[j] = 0
			case r.Status == 200:
				var a ann
				if json.Unmarshal(r.Bytes(), &a) != nil || a.Bodyid != uint64(100+j) || a.V <= 0 {
					out[j] = -2
					obs = append(obs, fmt.Sprintf("key %d = %.100s", 100+j, r.Bytes()))
				} else {
					out[j] = a.V
					found = append(found, fmt.Sprint(100+j))
				}
			default:
				out[j] = -1
			}
		}
		if !batch {
			return out, strings.Join(obs, "; "), nil
		}
		bad := func(what string) ([]int, string, error) {
			obs = append(obs, what)
			for j := range out {
				out[j] = -3
			}
			return out, strings.Join(obs, "; "), nil
		}
		// listing and whole-instance read
		r, err := n.HTTP("GET", "/api/node/"+u+"/nj/keys", nil)
		if err != nil {
			return nil, "", err
		}
		got, perr := parseJSONKeys(r.Bytes())
		sort.Strings(found)
		sort.Strings(got)
		if r.Status != 200 || perr != nil || !strsEqual(got, found) {
			return bad(fmt.Sprintf("keys=%d:%.120s but point reads find %v", r.Status, r.Bytes(), found))
		}
		r, err = n.HTTP("GET", "/api/node/"+u+"/nj/all", nil)
		if err != nil {
			return nil, "", err
		}
		var all []ann
		if r.Status != 200 || (len(bytes.TrimSpace(r.Bytes())) > 0 && json.Unmarshal(r.Bytes(), &all) != nil) || len(all) != len(found) {
			return bad(fmt.Sprintf("all=%d:%.160s but point reads find %v", r.Status, r.Bytes(), found))
		}
		for _, a := range all {
			j := int(a.Bodyid) - 100
			if j < 0 || j >= nd || out[j] != a.V {
				return bad(fmt.Sprintf("all holds %+v, point reads %v", a, out))
			}
		}
		return out, strings.Join(obs, "; "), nil
	}}

// annotation elements (the C19 adapter): read through the block view and the tag view.
var c01Ann = &c01Src{name: "ann", datatype: "annotation element", need: "strict", maxData: 6,
	create: func(s *dagm.Sess, nd int) error { return s.NewInstance(1, "annotation", "ann", nil) },
	apply: func(n *node.Node, u string, k int, writes, dels []int) error {
		for _, j := range writes {
			if err := c19Ann.write(n, u, "ann", j, k); err != nil {
				return err
			}
		}
		for _, j := range dels {
			if err := c19Ann.del(n, u, "ann", j); err != nil {
				return err
			}
		}
		return nil
	},
	read: func(n *node.Node, u string, nd int, batch bool) ([]int, string, error) {
		return c19Ann.read(n, u, "ann", nd, batch)
	}}

// uint8blk blocks (16^3): datum j is the block at x = 16*(j+1), a value written at node k is the
// block filled with k.  Blocks cannot be deleted.
var c01Img = &c01Src{name: "img", datatype: "uint8blk block", need: "nodel", maxData: 8,
	create: func(s *dagm.Sess, nd int) error {
		if err := s.NewInstance(1, "uint8blk", "img", map[string]string{"BlockSize": "16,16,16"}); err != nil {
			return err
		}
		// two frame blocks at the root fix the extents entry
		u := s.NodeUUID(len(s.UUIDs))
		buf := make([]byte, c19Blk*c19Blk*c19Blk)
		for _, x := range []int{0, c19Blk * (nd + 1)} {
			if err := httpOK(s.N, "POST", fmt.Sprintf("/api/node/%s/img/raw/0_1_2/%d_%d_%d/%d_0_0", u, c19Blk, c19Blk, c19Blk, x), buf, "POST raw (frame)"); err != nil {
				return err
			}
		}
		return nil
	},
	apply: func(n *node.Node, u string, k int, writes, dels []int) error {
		for _, j := range writes {
			if err := c19Img.write(n, u, "img", j+1, k); err != nil {
				return err
			}
		}
		return nil
	},
	read: func(n *node.Node, u string, nd int, batch bool) ([]int, string, error) {
		if batch {
			out, obs, err := c19Img.read(n, u, "img", nd+1, true)
			if err != nil {
				return nil, "", err
			}
			return out[1:], obs, nil
		}
		out := make([]int, nd)
		for j := 0; j < nd; j++ {
			r, err := n.HTTP("GET", fmt.Sprintf("/api/node/%s/img/raw/0_1_2/%d_%d_%d/%d_0_0", u, c19Blk, c19Blk, c19Blk, c19Blk*(j+1)), nil)
			if err != nil {
				return nil, "", err
			}
			b := r.Bytes()
			switch {
			case r.Status != 200 || len(b) != c19Blk*c19Blk*c19Blk:
				out[j] = -1
			default:
				out[j] = int(b[0])
				for _, x := range b {
					if x != b[0] {
						out[j] = -2
					}
				}
			}
		}
		return out, "", nil
	}}

var c01Sources = []*c01Src{c01LmBlock, c01LmIndex, c01LmMap, c01NJ, c01Ann, c01Img}

type c01TypeDivergence struct {
	Kind      string      `json:"kind"`
	Par       [][]int     `json:"par"`
	Datatype  string      `json:"datatype"`
	Instance  string      `json:"instance"`
	Placement string      `json:"placement"`
	Datum     int         `json:"datum"`
	Query     int         `json:"query_node"`
	Expected  int         `json:"expected"`      // node whose value must be read; 0 nothing; -1 conflict (any failure)
	FindMatch int         `json:"transcription"` // transcription of findMatch
	FirstPar  int         `json:"first_parent_line"`
	MergedLn  int         `json:"merged_line"`
	Observed  string      `json:"observed"`
	Script    []dagm.Step `json:"script,omitempty"`
}

type c01TypeStats struct {
	reads      int64 // (datum, node) reads compared
	mergeReads int64 // ... whose expected entry lies off the first-parent line of the queried node
	conflicts  int64 // ... expected to fail (two unsuperseded live values)
	perType    [8]int64
}

// c01TypesShape builds one DAG with the sources and compares every read.
func c01TypesShape(c *Ctx, run *ev.Run, s *dagm.Sess, sh typShape, si int, full bool, st *c01TypeStats) {
	n := len(sh.Par)
	np := pow3(n)
	rng := rand.New(rand.NewSource(c.Seed*6151 + int64(si)*7933 + int64(n)))
	type srcData struct {
		src *c01Src
		pls []int
	}
	var srcs []srcData
	for _, src := range c01Sources {
		var allowed, interesting []int
		for p := 0; p < np; p++ {
			nodel, any := true, false
			for k := 1; k <= n; k++ {
				nodel = nodel && digit(p, k) != 2
				any = any || digit(p, k) == 1
			}
			ok := any
			switch src.need {
			case "nodel":
				ok = ok && nodel
			case "built":
				ok = ok && sh.Built[p] == 1
			case "strict":
				ok = ok && sh.Strict[p] == 1
				for v := 0; v < n; v++ {
					ok = ok && sh.Read[p][v] != -1
				}
			}
			if !ok {
				continue
			}
			allowed = append(allowed, p)
			for v := 0; v < n; v++ {
				if sh.Read[p][v] != sh.FP[p][v] || sh.Read[p][v] == -1 {
					interesting = append(interesting, p)
					break
				}
			}
		}
		max := src.maxData
		if full {
			max *= 3
		}
		var pls []int
		seen := map[int]bool{}
		take := func(from []int, k int) {
			perm := rng.Perm(len(from))
			for _, i := range perm {
				if len(pls) >= k {
					return
				}
				if !seen[from[i]] {
					seen[from[i]] = true
					pls = append(pls, from[i])
				}
			}
		}
		take(interesting, (max*2+2)/3) // mostly placements in which a merge decides the read
		take(allowed, max)
		sort.Ints(pls)
		srcs = append(srcs, srcData{src, pls})
	}
	err := s.BuildShape(sh.Par, func(k int) error {
		if k == 1 {
			for _, sd := range srcs {
				if sd.src.create != nil {
					if err := sd.src.create(s, 3*c01LmMap.maxData); err != nil {
						return err
					}
				}
			}
		}
		u := s.NodeUUID(len(s.UUIDs))
		for _, sd := range srcs {
			var writes, dels []int
			for j, p := range sd.pls {
				switch digit(p, k) {
				case 1:
					writes = append(writes, j)
				case 2:
					dels = append(dels, j)
				}
			}
			if err := sd.src.apply(s.N, u, k, writes, dels); err != nil {
				return fmt.Errorf("%s (%s) at n%d: %v", sd.src.name, sd.src.datatype, k, err)
			}
		}
		return nil
	})
	must(err, "build shape (datatypes)")
	must(s.N.Idle(), "idle")
	base := len(s.UUIDs) - n
	nrep := 0
	for ti, sd := range srcs {
		if len(sd.pls) == 0 {
			continue
		}
		for v := 1; v <= n; v++ {
			batch := true
			for _, p := range sd.pls {
				if sh.Read[p][v-1] == -1 || (!sd.src.memMap && sh.Algo[p][v-1] == -1) {
					batch = false
				}
			}
			got, obs, err := sd.src.read(s.N, s.UUIDs[base+v-1], len(sd.pls), batch)
			must(err, "read "+sd.src.name)
			for j, p := range sd.pls {
				want := sh.Read[p][v-1]
				g := got[j]
				atomic.AddInt64(&st.reads, 1)
				atomic.AddInt64(&st.perType[ti], 1)
				if want != sh.FP[p][v-1] {
					atomic.AddInt64(&st.mergeReads, 1)
				}
				if want == -1 {
					atomic.AddInt64(&st.conflicts, 1)
				}
				if g == want || (want == -1 && (g == 0 || g == -1)) {
					continue
				}
				// (which of the conflicting mappings answers depends on the resolver's ranking - the repair in the tree
				// ranks versions by their longest path from the root, KVTypes' MergedLineNode lists the first
				// parent's line nearest - the finding is that it answers at all: any own-or-ancestor entry counts)
				if sd.src.memMap && want == -1 && g > 0 && digit(p, g) == 1 && typIsAncestorOrSelf(sh.Par, g, v) && run.KnownActive(c01MappingConflict) {
					run.ReportKnown(c01MappingConflict)
					continue
				}
				if !sd.src.memMap && want >= 0 && g == -1 && sh.Algo[p][v-1] == -1 && run.KnownActive(c01InnerMerge) {
					run.ReportKnown(c01InnerMerge)
					continue
				}
				nrep++
				if nrep > 4 {
					continue
				}
				run.Violation("c01", c01TypeDivergence{Kind: "datatype-read", Par: sh.Par, Datatype: sd.src.datatype, Instance: sd.src.name,
					Placement: placementString(p, n), Datum: j, Query: v, Expected: want, FindMatch: sh.Algo[p][v-1], FirstPar: sh.FP[p][v-1], MergedLn: sh.ML[p][v-1],
					Observed: fmt.Sprintf("%d %s", g, obs), Script: s.Script})
			}
		}
	}
	run.Eval(fmt.Sprintf("types|N%d|%v", n, sh.Par))
	if si%40 == 0 {
		for _, sd := range srcs {
			if len(sd.pls) > 0 {
				p := sd.pls[len(sd.pls)/2]
				run.Sample(map[string]interface{}{"par": sh.Par, "datatype": sd.src.datatype, "placement": placementString(p, n),
					"expected_reads_per_node": sh.Read[p], "first_parent_line_per_node": sh.FP[p]})
				break
			}
		}
	}
}

// c01TypesPlan holds the TLC results of the datatype part, computed in the background.
type c01TypesPlan struct {
	shapes []typShape
	full   []bool
	states int64
	trans  int64
	cfgs   []string
	done   chan struct{}
	err    interface{}
}

// c01TypesStart picks the shapes (all of 3 and 4 nodes; a seeded sample of the 5- (6-)node
// shapes that have a merge node) and lets TLC evaluate them while the keyvalue part runs.
func c01TypesStart(c *Ctx, byN map[int][]kvShape) *c01TypesPlan {
	pl := &c01TypesPlan{done: make(chan struct{})}
	rng := rand.New(rand.NewSource(c.Seed*31 + 5))
	type job struct {
		n    int
		pars [][][]int
		full bool
	}
	var jobs []job
	for _, n := range []int{3, 4, 5, 6} {
		shs := byN[n]
		if len(shs) == 0 {
			continue
		}
		var pars [][][]int
		for _, sh := range shs {
			merge := false
			for _, ps := range sh.Par {
				merge = merge || len(ps) > 1
			}
			if merge || n <= 3 {
				pars = append(pars, sh.Par)
			}
		}
		sort.Slice(pars, func(i, j int) bool { return fmt.Sprint(pars[i]) < fmt.Sprint(pars[j]) })
		limit := map[int]int{3: 0, 4: 0, 5: c.pick(70, 700), 6: c.pick(0, 150)}[n]
		if limit > 0 && len(pars) > limit {
			perm := rng.Perm(len(pars))
			sel := make([][][]int, limit)
			for i := range sel {
				sel[i] = pars[perm[i]]
			}
			pars = sel
		}
		jobs = append(jobs, job{n, pars, n <= 4})
	}
	go func() {
		defer close(pl.done)
		defer func() {
			if e := recover(); e != nil {
				pl.err = e
			}
		}()
		// analysis of the mapping resolver on every shape of up to 5 nodes (no replay: the replayed
		// shapes below are a subset)
		acfg := "SPECIFICATION Spec\nCONSTANTS\n  N = 5\n  MaxParents = 3\n  LastMergeOnly = FALSE\n  LastFoundBug = FALSE\n" +
			"INVARIANTS Inv_FirstParentOnChains Inv_MergedLineIsTopological Inv_MergedLineAgrees\nCHECK_DEADLOCK FALSE\n"
		ar := c.MustModelCheck(tlc.Opts{Module: "KVTypes", Config: "gen_types_all.cfg", Workers: 4,
			Files: map[string][]byte{"gen_types_all.cfg": []byte(acfg)}, Timeout: 30 * time.Minute, HeapGB: 4})
		pl.states += ar.Distinct
		pl.trans += ar.Generated
		pl.cfgs = append(pl.cfgs, fmt.Sprintf("KVTypes N=5 all %d shape states: merged-ancestry list is topological, mapping resolver = KVRead.ReadNode on value-only placements", ar.Distinct))
		for _, jb := range jobs {
			shs, r := evalTypeShapes(c, jb.n, jb.pars)
			pl.states += r.Distinct
			pl.trans += r.Generated
			for _, sh := range shs {
				pl.shapes = append(pl.shapes, sh)
				pl.full = append(pl.full, jb.full)
			}
			pl.cfgs = append(pl.cfgs, fmt.Sprintf("KVTypes N=%d: %d shapes with merge nodes x %d placements x %d query nodes (read, findMatch transcription, first-parent line, buildable placements)", jb.n, len(shs), pow3(jb.n), jb.n))
		}
	}()
	return pl
}

// c01TypesReplay replays the datatype part on the given workers.
func c01TypesReplay(c *Ctx, run *ev.Run, pl *c01TypesPlan, ws []*dagWorker) *c01TypeStats {
	<-pl.done
	if pl.err != nil {
		panic(pl.err)
	}
	st := &c01TypeStats{}
	for _, w := range ws {
		w.every = 20 // labelmap instances keep per-instance memory: recycle the servers sooner
		w.cases = w.every
	}
	parallel(len(pl.shapes), len(ws), func(wi, i int) {
		c01TypesShape(c, run, ws[wi].sess(), pl.shapes[i], i, pl.full[i] && len(pl.shapes[i].Par) <= 3, st)
	})
	per := map[string]int64{}
	for i, src := range c01Sources {
		per[src.datatype] = st.perType[i]
	}
	run.Set("datatype_reads_compared", per)
	run.Set("datatype_reads_decided_off_the_first_parent_line", st.mergeReads)
	run.Set("datatype_reads_expected_to_fail_for_conflict", st.conflicts)
	run.Set("datatype_shapes", len(pl.shapes))
	return st
}

// typIsAncestorOrSelf: node a is v or an ancestor of v in the shape (nodes are numbered from 1, Par[k-1] = parents of k).
func typIsAncestorOrSelf(par [][]int, a, v int) bool {
	if a == v {
		return true
	}
	for _, p := range par[v-1] {
		if typIsAncestorOrSelf(par, a, p) {
			return true
		}
	}
	return false
}
