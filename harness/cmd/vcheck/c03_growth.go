package main

import (
	"encoding/json"
	"fmt"
	"math/rand"
	"os"
	"regexp"
	"sort"
	"strconv"
	"strings"
	"sync"
	"sync/atomic"
	"time"

	"verifharness/internal/ev"
	"verifharness/internal/lmm"
	"verifharness/internal/node"
	"verifharness/internal/snap"
)

// Growth of C03 (GAPS.md C03-1 .. C03-6):
//   - the workload carries synced instances (annotation -> labelmap, labelsz -> annotation), the
//     requests that change persisted repository state (deleterepo, rename, deletedata, tag,
//     caller-assigned UUIDs, make-master, hide-branch), set-nextlabel and instance copies;
//   - the snapshot reads the label / tag / count views of the synced instances and the answers
//     derived from the mutation logs;
//   - besides "snapshot before == snapshot after" at every restart, the final snapshot of the
//     history executed WITH restarts must equal the snapshot of the same history executed on a
//     node that is never restarted (state that is rebuilt wrongly but stably - a lost
//     subscription, a counter, an in-memory database that handles later writes differently -
//     passes the before/after comparison).

type c03Stats struct {
	restarts, compared, refCompared, refEntries int64
	tSnap, tRestart, tStep, tRef                int64 // nanoseconds (summed over the workers)
	mu                                          sync.Mutex
	kinds                                       map[string]int
	afterRestartKinds                           map[string]int // operation kinds executed as the first operation after a restart
}

func c03World(n *node.Node, seed int64, h int) *world {
	w := newWorld(n, seed)
	w.Types = []string{"labelmap", "annotation", "labelsz", "keyvalue", "roi", "neuronjson", "uint8blk"}
	w.X = &worldExt{Synced: true, Admin: true, NextLabel: h%2 == 1, Copy: true}
	if h%4 == 0 {
		w.X.MaxNodes = 5 // restarted (and read completely, twice) after every operation: fewer versions
	}
	return w
}

var (
	mutidIdxRe = regexp.MustCompile(`mutid=(\d+)`)
	mutidModRe = regexp.MustCompile(`"mutation id":(\d+)`)
	verKeyRe   = regexp.MustCompile(`@(V\d+)/`)
	splitRecRe = regexp.MustCompile(`\[(\d+),(\d+,\d+,\d+\])`) // supervoxel-splits: [mutation id, supervoxel, split, remain]
)

// rankMutationIDs replaces the mutation ids that remain visible in a canonical snapshot (label
// index, lastmod) by their rank among the visible ids of the same repo: the counter is
// documented to jump forward at a restart, its order is not allowed to change.
func rankMutationIDs(s *snap.Snap) *snap.Snap {
	rootOf := map[string]string{}
	for _, e := range s.Entries {
		if e.Key != "repos/info" {
			continue
		}
		var repos map[string]struct {
			DAG struct{ Nodes map[string]json.RawMessage }
		}
		if json.Unmarshal([]byte(e.Full), &repos) == nil {
			for root, ri := range repos {
				for v := range ri.DAG.Nodes {
					rootOf[v] = root
				}
			}
		}
	}
	group := func(key string) string {
		if m := verKeyRe.FindStringSubmatch(key); m != nil {
			return rootOf[m[1]]
		}
		return ""
	}
	ids := map[string]map[uint64]bool{}
	for _, e := range s.Entries {
		g := group(e.Key)
		res := []*regexp.Regexp{mutidIdxRe, mutidModRe}
		if strings.HasSuffix(e.Key, "/supervoxel-splits") {
			res = append(res, splitRecRe)
		}
		for _, re := range res {
			for _, m := range re.FindAllStringSubmatch(e.Full, -1) {
				v, _ := strconv.ParseUint(m[1], 10, 64)
				if ids[g] == nil {
					ids[g] = map[uint64]bool{}
				}
				ids[g][v] = true
			}
		}
	}
	rank := map[string]map[string]string{}
	for g, set := range ids {
		var l []uint64
		for v := range set {
			l = append(l, v)
		}
		sort.Slice(l, func(i, j int) bool { return l[i] < l[j] })
		rank[g] = map[string]string{}
		for i, v := range l {
			rank[g][strconv.FormatUint(v, 10)] = fmt.Sprintf("#%d", i)
		}
	}
	return snap.Transform(s, func(key, body string) string {
		g := group(key)
		body = mutidIdxRe.ReplaceAllStringFunc(body, func(m string) string {
			return "mutid=" + rank[g][mutidIdxRe.FindStringSubmatch(m)[1]]
		})
		body = mutidModRe.ReplaceAllStringFunc(body, func(m string) string {
			return `"mutation id":"` + rank[g][mutidModRe.FindStringSubmatch(m)[1]] + `"`
		})
		if strings.HasSuffix(key, "/supervoxel-splits") {
			body = splitRecRe.ReplaceAllStringFunc(body, func(m string) string {
				sm := splitRecRe.FindStringSubmatch(m)
				return `["` + rank[g][sm[1]] + `",` + sm[2]
			})
		}
		return body
	})
}

type c03RefDivergence struct {
	Kind     string   `json:"kind"`
	History  []wOp    `json:"history"`
	Position int      `json:"after_operations"`
	Restarts []string `json:"restarts"`
	Diffs    []string `json:"diffs"`
}

// c03History runs one seeded history with restarts (before/after comparison at every restart)
// and, when ref is set, the same history on a node that is never restarted.
func c03History(c *Ctx, run *ev.Run, st *c03Stats, h, length int, ref bool) {
	seed := c.Seed*1000 + int64(h)
	n := c.StartNode(node.Config{})
	defer c.DropNode(n)
	w := c03World(n, seed, h)
	rr := rand.New(rand.NewSource(seed ^ 0x5eed))
	if h%4 == 0 {
		length = length * 3 / 4
	}
	var restartLog []string
	type point struct {
		pos  int
		snap *snap.Snap
	}
	var points []point
	afterRestart := false
	for i := 0; i < length; i++ {
		ts := time.Now()
		kind, err := w.step()
		must(err, "world step")
		atomic.AddInt64(&st.tStep, int64(time.Since(ts)))
		if kind == "" {
			continue
		}
		if afterRestart {
			st.mu.Lock()
			st.afterRestartKinds[kind]++
			st.mu.Unlock()
			afterRestart = false
		}
		must(n.Idle(), "idle")
		// every fourth history restarts after every operation; the others after random gaps, so that
		// state built up over several operations in one process is compared with its rebuild
		if h%4 != 0 && rr.Intn(4) != 0 && i < length-1 {
			continue
		}
		ts = time.Now()
		before, err := snap.TakeCanon(n, w.snapOptions())
		must(err, "snapshot before restart")
		atomic.AddInt64(&st.tSnap, int64(time.Since(ts)))
		clean := (i+h)%2 == 0
		how := "SIGKILL while idle"
		if clean {
			how = "clean stop"
		}
		ts = time.Now()
		must(n.Restart(clean), "restart")
		atomic.AddInt64(&st.tRestart, int64(time.Since(ts)))
		afterRestart = true
		restartLog = append(restartLog, fmt.Sprintf("after #%d (%s): %s", w.seq, kind, how))
		atomic.AddInt64(&st.restarts, 1)
		ts = time.Now()
		after, err := snap.TakeCanon(n, w.snapOptions())
		must(err, "snapshot after restart")
		atomic.AddInt64(&st.tSnap, int64(time.Since(ts)))
		atomic.AddInt64(&st.compared, int64(len(before.Entries)))
		run.Eval(fmt.Sprintf("h%d|%d|%s", h, i, kind))
		if d := snap.Diff(before, after); len(d) > 0 {
			run.Violation("c03", c03Divergence{Kind: "restart-changed-observable", History: w.log, AfterOp: w.describe(w.log[len(w.log)-1]), Restart: how, Diffs: d})
			return
		}
		if i == length-1 || (i >= length/2 && len(points) == 0) {
			points = append(points, point{i, after})
		}
		if h == 0 && i == 5 {
			run.Sample(map[string]interface{}{"history_prefix": w.log, "restart": "after every operation (every fourth history) or after random gaps, alternating clean stop / SIGKILL", "snapshot_entries": len(before.Entries)})
		}
	}
	st.mu.Lock()
	for _, op := range w.log {
		st.kinds[op.Kind]++
		if os.Getenv("VCHECK_DEBUG") != "" && strings.HasPrefix(op.Kind, os.Getenv("VCHECK_DEBUG")) {
			fmt.Println("DEBUG", w.describe(op), op.Body, op.Resp)
		}
	}
	st.mu.Unlock()
	if !ref || len(points) == 0 {
		return
	}
	// the restart-free reference: same seed, same draws, a process that lives through the whole history
	tr := time.Now()
	defer func() { atomic.AddInt64(&st.tRef, int64(time.Since(tr))) }()
	n2 := c.StartNode(node.Config{})
	defer c.DropNode(n2)
	w2 := c03World(n2, seed, h)
	pi := 0
	for i := 0; i < length && pi < len(points); i++ {
		kind, err := w2.step()
		must(err, "world step (reference)")
		if kind == "" {
			continue
		}
		must(n2.Idle(), "idle")
		if i != points[pi].pos {
			continue
		}
		refSnap, err := snap.TakeCanon(n2, w2.snapOptions())
		must(err, "reference snapshot")
		got := points[pi].snap
		pi++
		atomic.AddInt64(&st.refCompared, 1)
		atomic.AddInt64(&st.refEntries, int64(len(refSnap.Entries)))
		run.Eval(fmt.Sprintf("ref|h%d|%d", h, i))
		if d := snap.Diff(rankMutationIDs(refSnap), rankMutationIDs(got)); len(d) > 0 {
			for k := range d {
				d[k] = strings.Replace(strings.Replace(d[k], "before ", "never restarted ", 1), "| after ", "| with restarts ", 1)
			}
			run.Violation("c03-reference", c03RefDivergence{Kind: "history-with-restarts-differs-from-never-restarted", History: w.log, Position: i + 1, Restarts: restartLog, Diffs: d})
			return
		}
	}
}

// ---- scripted scenarios: the persisted-state mutators followed by a restart (C03-3), set-nextlabel
// (C03-6), the known finding about an empty labelmap with a precise mask (C03-5), label operations on
// synced instances right after a restart (C03-1).  Each scenario runs twice: with the restarts, and on
// a node that is never restarted; the transcripts (status of every request, selected response fields)
// and the final snapshots must agree.

type scRun struct {
	c            *Ctx
	run          *ev.Run
	n            *node.Node
	name         string
	withRestarts bool
	opts         func() snap.Options
	log          []string // transcript
	restarts     int
	failed       bool
	// the known finding: restarts at which exactly the max / next label answers of this instance may differ
	maskInst string
}

func (s *scRun) http(what, method, url string, body []byte) node.Resp {
	r, err := s.n.HTTP(method, url, body)
	must(err, s.name+": "+what)
	s.log = append(s.log, fmt.Sprintf("%s -> %d", what, r.Status))
	return r
}

// get records the normalised answer of a read in the transcript (the two runs must agree on it).
func (s *scRun) get(what, url string) {
	r, err := s.n.HTTP("GET", url, nil)
	must(err, s.name+": "+what)
	s.log = append(s.log, fmt.Sprintf("%s = %d %s", what, r.Status, snap.NormJSON(r.Bytes())))
}

func (s *scRun) call(what, fn string, args interface{}) bool {
	err := s.n.Call(fn, args, nil)
	if err != nil && !s.n.Alive() {
		must(err, s.name+": "+what)
	}
	s.log = append(s.log, fmt.Sprintf("%s -> ok=%v", what, err == nil))
	return err == nil
}

func (s *scRun) note(format string, a ...interface{}) {
	s.log = append(s.log, fmt.Sprintf(format, a...))
}

func jsonField(b []byte, field string) string {
	var m map[string]interface{}
	if json.Unmarshal(b, &m) != nil {
		return ""
	}
	for k, v := range m {
		if strings.EqualFold(k, field) {
			return fmt.Sprint(v)
		}
	}
	return ""
}

var maskMaxRe = regexp.MustCompile(`"MaxRepoLabel":\d+|\{"nextlabel":\d+\}|\{"maxlabel":\d+\}`)

// restart: in the run with restarts, snapshot / stop / start / snapshot and compare; a no-op in the reference run.
// known: the restart is one at which the known finding about an empty labelmap may show.
func (s *scRun) restart(clean bool, known bool) {
	must(s.n.Idle(), "idle")
	if !s.withRestarts || s.failed {
		return
	}
	before, err := snap.TakeCanon(s.n, s.opts())
	must(err, "snapshot before restart")
	must(s.n.Restart(clean), "restart")
	s.restarts++
	after, err := snap.TakeCanon(s.n, s.opts())
	must(err, "snapshot after restart")
	s.run.Eval(fmt.Sprintf("scenario|%s|restart%d", s.name, s.restarts))
	d := snap.Diff(before, after)
	if len(d) > 0 && known && s.run.KnownActive(c03EmptyLabelmapMax) {
		// exactly the repo-wide maximum / next label answers of the instance that holds no stored maximum
		fix := func(key, b string) string {
			if strings.HasPrefix(key, "data/"+s.maskInst+"@") && (strings.HasSuffix(key, "/info") || strings.HasSuffix(key, "/nextlabel")) {
				return maskMaxRe.ReplaceAllString(b, "*")
			}
			if key == "repos/info" || (strings.HasPrefix(key, "repo/") && strings.HasSuffix(key, "/info")) {
				return maskMaxRe.ReplaceAllString(b, "*")
			}
			return b
		}
		if d2 := snap.Diff(snap.Transform(before, fix), snap.Transform(after, fix)); len(d2) == 0 {
			s.run.ReportKnown(c03EmptyLabelmapMax)
			return
		}
	}
	if len(d) > 0 {
		s.failed = true
		how := "SIGKILL while idle"
		if clean {
			how = "clean stop"
		}
		s.run.Violation("c03-scenario", map[string]interface{}{"kind": "restart-changed-observable", "scenario": s.name, "transcript": s.log, "restart": how, "diffs": d})
	}
}

type c03Scenario struct {
	name string
	f    func(s *scRun)
}

func scNewRepo(s *scRun, what string, body string) string {
	r := s.http(what, "POST", "/api/repos", []byte(body))
	return jsonField(r.Bytes(), "root")
}

func scChild(s *scRun, what, url, body string) string {
	r := s.http(what, "POST", url, []byte(body))
	return jsonField(r.Bytes(), "child")
}

func scIngest(s *scRun, uuid, name string) {
	g := worldGeom
	sv := []uint64{1, 1, 2, 2, 3, 0}
	for b := 1; b <= len(g.Blocks); b++ {
		vol := g.BlockVolume(b, func(r int) uint64 {
			if r == 0 {
				return 0
			}
			return sv[r-1]
		})
		bc := g.Blocks[b-1]
		s.http("ingest", "POST", fmt.Sprintf("/api/node/%s/%s/raw/0_1_2/32_32_32/%d_%d_%d", uuid, name, bc[0]*32, bc[1]*32, bc[2]*32), vol)
	}
}

func scLabelOpts(names []string, labels []uint64, ann, sz string) func() snap.Options {
	return func() snap.Options {
		g := worldGeom
		o := snap.Options{Volume: map[string][2]string{}, Bodies: map[string][]uint64{}, LabelPoints: map[string][]string{},
			AnnLabels: map[string][]uint64{}, AnnTags: map[string][]string{}, SzLabels: map[string][]uint64{}, LogReads: true, RawLZ4: true,
			AnnBox: [2]string{"256_256_256", "-128_-128_-128"}}
		for _, name := range names {
			o.Volume[name] = [2]string{fmt.Sprintf("%d_%d_%d", g.Size[0], g.Size[1], g.Size[2]), fmt.Sprintf("%d_%d_%d", g.Min[0], g.Min[1], g.Min[2])}
			o.Bodies[name] = labels
			for _, p := range g.Point {
				o.LabelPoints[name] = append(o.LabelPoints[name], fmt.Sprintf("%d_%d_%d", p[0], p[1], p[2]))
			}
		}
		if ann != "" {
			o.AnnLabels[ann] = labels
			o.AnnTags[ann] = []string{"t0", "t1"}
		}
		if sz != "" {
			o.SzLabels[sz] = labels
		}
		return o
	}
}

var c03ScenarioList = []c03Scenario{
	{"deleterepo-restart-newrepo-with-the-deleted-uuid", func(s *scRun) {
		a := scNewRepo(s, "newrepo A", `{"alias":"a"}`)
		s.http("kv instance", "POST", "/api/repo/"+a+"/instance", []byte(`{"typename":"keyvalue","dataname":"kv"}`))
		s.http("put", "POST", "/api/node/"+a+"/kv/key/k1", []byte("v1"))
		const U, UC = "11112222333344445555666677778888", "9999aaaabbbbccccddddeeeeffff0000"
		b := scNewRepo(s, "newrepo B (assigned root)", `{"alias":"b","root":"`+U+`"}`)
		s.http("kv instance in B", "POST", "/api/repo/"+b+"/instance", []byte(`{"typename":"keyvalue","dataname":"kvb"}`))
		s.http("put in B", "POST", "/api/node/"+b+"/kvb/key/k1", []byte("vb"))
		s.http("commit B", "POST", "/api/node/"+b+"/commit", []byte(`{}`))
		scChild(s, "child of B (assigned)", "/api/node/"+b+"/newversion", `{"uuid":"`+UC+`"}`)
		s.restart(true, false)
		s.call("deleterepo B", "ds.deleterepo", map[string]string{"UUID": U})
		must(settleWrites(s.n), "settle")
		s.restart(false, false)
		s.http("the deleted root is unknown", "GET", "/api/node/"+U+"/note", nil)
		s.http("the deleted child is unknown", "GET", "/api/node/"+UC+"/note", nil)
		c := scNewRepo(s, "newrepo C re-using B's root UUID", `{"alias":"c","root":"`+U+`"}`)
		s.note("root of C is the requested one: %v", c == U)
		s.http("kv instance in C", "POST", "/api/repo/"+U+"/instance", []byte(`{"typename":"keyvalue","dataname":"kvb"}`))
		s.http("C does not see B's data", "GET", "/api/node/"+U+"/kvb/key/k1", nil)
		s.http("put in C", "POST", "/api/node/"+U+"/kvb/key/k2", []byte("vc"))
		s.http("commit C", "POST", "/api/node/"+U+"/commit", []byte(`{}`))
		scChild(s, "child of C re-using the UUID of B's child", "/api/node/"+U+"/newversion", `{"uuid":"`+UC+`"}`)
		s.restart(true, false)
		s.http("put in C's child", "POST", "/api/node/"+UC+"/kvb/key/k3", []byte("vd"))
		s.restart(false, false)
	}},
	{"hide-branch-restart-reuse-of-the-hidden-uuid", func(s *scRun) {
		a := scNewRepo(s, "newrepo", `{"alias":"a"}`)
		s.http("kv instance", "POST", "/api/repo/"+a+"/instance", []byte(`{"typename":"keyvalue","dataname":"kv"}`))
		s.http("put", "POST", "/api/node/"+a+"/kv/key/k1", []byte("v1"))
		s.http("commit", "POST", "/api/node/"+a+"/commit", []byte(`{}`))
		m1 := scChild(s, "master child", "/api/node/"+a+"/newversion", `{}`)
		const X = "0000111122223333444455556666abcd"
		scChild(s, "branch b1 (assigned)", "/api/node/"+a+"/branch", `{"branch":"b1","uuid":"`+X+`"}`)
		s.http("roi instance created at the branch version", "POST", "/api/repo/"+X+"/instance", []byte(`{"typename":"roi","dataname":"r1"}`))
		s.http("put at b1", "POST", "/api/node/"+X+"/kv/key/k2", []byte("v2"))
		s.http("roi at b1", "POST", "/api/node/"+X+"/r1/roi", []byte(`[[1,1,0,3]]`))
		s.restart(false, false)
		s.call("hide-branch b1", "ds.hidebranch", map[string]string{"UUID": a, "Branch": "b1"})
		// the instance created at the hidden version keeps working (its repo is found through its root UUID)
		s.http("roi at master child", "POST", "/api/node/"+m1+"/r1/roi", []byte(`[[2,2,0,5]]`))
		var mid struct{ First uint64 }
		must(s.n.Call("mgr.mutids", map[string]interface{}{"UUID": a, "Name": "r1", "N": 1}, &mid), "mgr.mutids")
		s.note("the instance created at the hidden version gets a mutation id: %v", mid.First > 0)
		s.restart(true, false)
		s.http("the hidden version is unknown", "GET", "/api/node/"+X+"/note", nil)
		scChild(s, "branch b1 again, same UUID", "/api/node/"+a+"/branch", `{"branch":"b1","uuid":"`+X+`"}`)
		s.http("no data of the hidden version", "GET", "/api/node/"+X+"/kv/key/k2", nil)
		s.http("put", "POST", "/api/node/"+X+"/kv/key/k3", []byte("v3"))
		s.restart(false, false)
		s.http("commit b1", "POST", "/api/node/"+X+"/commit", []byte(`{}`))
		s.restart(true, false)
	}},
	{"make-master-restart-heads", func(s *scRun) {
		a := scNewRepo(s, "newrepo", `{"alias":"a"}`)
		s.http("kv instance", "POST", "/api/repo/"+a+"/instance", []byte(`{"typename":"keyvalue","dataname":"kv"}`))
		s.http("commit", "POST", "/api/node/"+a+"/commit", []byte(`{}`))
		m1 := scChild(s, "master child", "/api/node/"+a+"/newversion", `{}`)
		n1 := scChild(s, "branch dev", "/api/node/"+a+"/branch", `{"branch":"dev"}`)
		s.http("put m1", "POST", "/api/node/"+m1+"/kv/key/k", []byte("m"))
		s.http("put n1", "POST", "/api/node/"+n1+"/kv/key/k", []byte("n"))
		s.http("commit m1", "POST", "/api/node/"+m1+"/commit", []byte(`{}`))
		s.http("commit n1", "POST", "/api/node/"+n1+"/commit", []byte(`{}`))
		scChild(s, "master grandchild", "/api/node/"+m1+"/newversion", `{}`)
		n2 := scChild(s, "dev grandchild", "/api/node/"+n1+"/newversion", `{}`)
		s.restart(true, false)
		s.call("make-master dev", "ds.makemaster", map[string]string{"UUID": n1, "OldMasterName": "legacy"})
		s.restart(false, false)
		s.http("master head reads dev's value", "GET", "/api/node/"+a+":master/kv/key/k", nil)
		s.http("legacy head reads master's value", "GET", "/api/node/"+a+":legacy/kv/key/k", nil)
		s.http("commit new master head", "POST", "/api/node/"+n2+"/commit", []byte(`{}`))
		scChild(s, "child of the new master head", "/api/node/"+a+":master/newversion", `{}`)
		s.restart(true, false)
		s.call("make-master back", "ds.makemaster", map[string]string{"UUID": m1, "OldMasterName": "dev2"})
		s.restart(false, false)
	}},
	{"rename-deletedata-restart-name-reused", func(s *scRun) {
		a := scNewRepo(s, "newrepo", `{"alias":"a"}`)
		s.http("kv instance", "POST", "/api/repo/"+a+"/instance", []byte(`{"typename":"keyvalue","dataname":"kv","Tags":"x=1"}`))
		s.http("roi instance", "POST", "/api/repo/"+a+"/instance", []byte(`{"typename":"roi","dataname":"r1"}`))
		s.http("annotation instance", "POST", "/api/repo/"+a+"/instance", []byte(`{"typename":"annotation","dataname":"an"}`))
		s.http("put", "POST", "/api/node/"+a+"/kv/key/k1", []byte("v1"))
		s.http("roi", "POST", "/api/node/"+a+"/r1/roi", []byte(`[[1,1,0,3]]`))
		s.http("element", "POST", "/api/node/"+a+"/an/elements", []byte(`[{"Pos":[1,2,3],"Kind":"Note","Tags":["t0"]}]`))
		s.call("rename kv -> kv2", "ds.rename", map[string]string{"UUID": a, "Old": "kv", "New": "kv2"})
		s.restart(false, false)
		s.http("old name is gone", "GET", "/api/node/"+a+"/kv/key/k1", nil)
		s.http("put under the new name", "POST", "/api/node/"+a+"/kv2/key/k2", []byte("v2"))
		s.call("rename an -> an2", "ds.rename", map[string]string{"UUID": a, "Old": "an", "New": "an2"})
		_, err := s.n.WTrace(true)
		must(err, "wtrace")
		s.call("deletedata r1", "ds.deletedata", map[string]string{"UUID": a, "Name": "r1"})
		// acknowledged before it is done: wait for the goroutine's save of the repo
		for deadline, saved := time.Now().Add(30*time.Second), false; !saved; time.Sleep(2 * time.Millisecond) {
			raw, err := s.n.WTrace(false)
			must(err, "wtrace")
			for _, c := range metadataWrites(raw) {
				saved = saved || c == "REPO"
			}
			if time.Now().After(deadline) {
				infra("deletion of r1 not finished 30 s after its acknowledgement")
			}
		}
		s.restart(true, false)
		s.http("deleted instance is gone", "GET", "/api/node/"+a+"/r1/roi", nil)
		s.http("a new instance takes the freed name", "POST", "/api/repo/"+a+"/instance", []byte(`{"typename":"roi","dataname":"r1"}`))
		s.http("it is empty", "GET", "/api/node/"+a+"/r1/roi", nil)
		s.http("and the old name of the renamed one", "POST", "/api/repo/"+a+"/instance", []byte(`{"typename":"keyvalue","dataname":"kv"}`))
		s.http("which is empty too", "GET", "/api/node/"+a+"/kv/keys", nil)
		s.restart(false, false)
		s.http("element under the new name", "POST", "/api/node/"+a+"/an2/elements", []byte(`[{"Pos":[4,5,6],"Kind":"Note","Tags":["t1"]}]`))
		s.restart(true, false)
	}},
	{"tag-restart", func(s *scRun) {
		a := scNewRepo(s, "newrepo", `{"alias":"a"}`)
		s.http("kv instance", "POST", "/api/repo/"+a+"/instance", []byte(`{"typename":"keyvalue","dataname":"kv"}`))
		s.http("put", "POST", "/api/node/"+a+"/kv/key/k1", []byte("v1"))
		s.http("commit", "POST", "/api/node/"+a+"/commit", []byte(`{}`))
		s.http("tag", "POST", "/api/node/"+a+"/tag", []byte(`{"tag":"release1","note":"first"}`))
		s.restart(false, false)
		s.http("the tag addresses a version", "GET", "/api/node/release1/kv/key/k1", nil)
		s.http("the tag is committed", "POST", "/api/node/release1/kv/key/k2", []byte("x"))
		s.http("same tag again is refused", "POST", "/api/node/"+a+"/tag", []byte(`{"tag":"release1"}`))
		scChild(s, "child of the tag", "/api/node/release1/newversion", `{}`)
		s.http("tag 2", "POST", "/api/node/"+a+"/tag", []byte(`{"tag":"release2"}`))
		s.restart(true, false)
	}},
	{"set-nextlabel-restart-allocation", func(s *scRun) {
		a := scNewRepo(s, "newrepo", `{"alias":"a"}`)
		s.http("labelmap instance", "POST", "/api/repo/"+a+"/instance", []byte(`{"typename":"labelmap","dataname":"seg","BlockSize":"32,32,32"}`))
		scIngest(s, a, "seg")
		must(s.n.Idle(), "idle")
		s.http("merge 1 <- 2", "POST", "/api/node/"+a+"/seg/merge", []byte(`[1,2]`))
		s.http("set-nextlabel", "POST", "/api/node/"+a+"/seg/set-nextlabel/777", nil)
		s.restart(false, false)
		r := s.http("nextlabel", "GET", "/api/node/"+a+"/seg/nextlabel", nil)
		s.note("nextlabel answers %s", strings.TrimSpace(string(r.Bytes())))
		r = s.http("cleave", "POST", "/api/node/"+a+"/seg/cleave/1", []byte(`[2]`))
		s.note("cleaved label %s", jsonField(r.Bytes(), "CleavedLabel"))
		s.restart(true, false)
		r = s.http("split-supervoxel", "POST", "/api/node/"+a+"/seg/split-supervoxel/2", lmm.EncodeRLEs(worldGeom.RegionRLEs(map[int]bool{3: true})))
		s.note("split %s remain %s", jsonField(r.Bytes(), "SplitSupervoxel"), jsonField(r.Bytes(), "RemainSupervoxel"))
		r = s.http("nextlabel range", "POST", "/api/node/"+a+"/seg/nextlabel/5", nil)
		s.note("range %s..%s", jsonField(r.Bytes(), "start"), jsonField(r.Bytes(), "end"))
		s.restart(false, false)
		s.http("set-nextlabel again", "POST", "/api/node/"+a+"/seg/set-nextlabel/2000", nil)
		s.http("commit", "POST", "/api/node/"+a+"/commit", []byte(`{}`))
		c := scChild(s, "child", "/api/node/"+a+"/newversion", `{}`)
		s.restart(true, false)
		s.http("merge 1 <- 3 in the child", "POST", "/api/node/"+c+"/seg/merge", []byte(`[1,3]`))
		r = s.http("cleave in the child", "POST", "/api/node/"+c+"/seg/cleave/1", []byte(`[3]`))
		s.note("cleaved label %s", jsonField(r.Bytes(), "CleavedLabel"))
		s.restart(false, false)
	}},
	{"empty-labelmap-restart", func(s *scRun) {
		a := scNewRepo(s, "newrepo", `{"alias":"a"}`)
		s.http("labelmap instance", "POST", "/api/repo/"+a+"/instance", []byte(`{"typename":"labelmap","dataname":"seg","BlockSize":"32,32,32"}`))
		s.http("second labelmap, ingested at once", "POST", "/api/repo/"+a+"/instance", []byte(`{"typename":"labelmap","dataname":"seg2","BlockSize":"32,32,32"}`))
		scIngest(s, a, "seg2")
		s.maskInst = "seg"
		s.restart(true, true) // the empty one jumps up (known finding); nothing else may move
		scIngest(s, a, "seg")
		s.restart(false, true) // and comes back down to the true maximum
		s.restart(true, false) // from here on nothing may move
		s.http("merge 1 <- 2", "POST", "/api/node/"+a+"/seg/merge", []byte(`[1,2]`))
		r := s.http("cleave", "POST", "/api/node/"+a+"/seg/cleave/1", []byte(`[2]`))
		s.note("cleaved label %s", jsonField(r.Bytes(), "CleavedLabel"))
		s.restart(false, false)
	}},
	{"instance-settings-changed-in-place", func(s *scRun) {
		// settings that are rewritten in place (no key added or removed) must survive a restart that follows at once
		a := scNewRepo(s, "newrepo", `{"alias":"a"}`)
		s.http("keyvalue instance with tags", "POST", "/api/repo/"+a+"/instance", []byte(`{"typename":"keyvalue","dataname":"kv","Tags":"type=meshes,owner=a"}`))
		s.http("uint8blk instance", "POST", "/api/repo/"+a+"/instance", []byte(`{"typename":"uint8blk","dataname":"gray","BlockSize":"32,32,32"}`))
		s.restart(true, false)
		s.http("change the value of an existing tag", "POST", "/api/node/"+a+"/kv/tags", []byte(`{"owner":"b"}`))
		s.restart(false, false)
		s.get("tags", "/api/node/"+a+"/kv/tags")
		s.http("change it back and another one", "POST", "/api/node/"+a+"/kv/tags", []byte(`{"owner":"a","type":"skeletons"}`))
		s.restart(true, false)
		s.get("tags", "/api/node/"+a+"/kv/tags")
		s.http("replace all tags by one of the same keys", "POST", "/api/node/"+a+"/kv/tags?replace=true", []byte(`{"owner":"c"}`))
		s.restart(false, false)
		s.get("tags", "/api/node/"+a+"/kv/tags")
		s.http("resolution", "POST", "/api/node/"+a+"/gray/resolution", []byte(`[4.0,4.0,40.0]`))
		s.restart(true, false)
		s.http("resolution changed in place", "POST", "/api/node/"+a+"/gray/resolution", []byte(`[8.0,8.0,40.0]`))
		s.restart(false, false)
		s.http("repo alias", "POST", "/api/repo/"+a+"/info", []byte(`{"alias":"renamed"}`))
		s.restart(true, false)
		s.http("repo description", "POST", "/api/repo/"+a+"/info", []byte(`{"description":"d2"}`))
		s.restart(false, false)
	}},
	{"label-operations-on-synced-instances-after-a-restart", func(s *scRun) {
		g := worldGeom
		a := scNewRepo(s, "newrepo", `{"alias":"a"}`)
		s.http("labelmap instance", "POST", "/api/repo/"+a+"/instance", []byte(`{"typename":"labelmap","dataname":"seg","BlockSize":"32,32,32"}`))
		scIngest(s, a, "seg")
		s.http("annotation instance", "POST", "/api/repo/"+a+"/instance", []byte(`{"typename":"annotation","dataname":"syn"}`))
		s.http("labelsz instance", "POST", "/api/repo/"+a+"/instance", []byte(`{"typename":"labelsz","dataname":"lsz"}`))
		s.http("sync annotation -> labelmap", "POST", "/api/node/"+a+"/syn/sync", []byte(`{"sync":"seg"}`))
		s.http("sync labelsz -> annotation", "POST", "/api/node/"+a+"/lsz/sync", []byte(`{"sync":"syn"}`))
		var els []map[string]interface{}
		for i, p := range g.Point {
			kind := "PostSyn"
			if i%2 == 1 {
				kind = "PreSyn"
			}
			els = append(els, map[string]interface{}{"Pos": []int{p[0], p[1], p[2]}, "Kind": kind, "Tags": []string{fmt.Sprintf("t%d", i%2)}})
		}
		b, _ := json.Marshal(els)
		s.http("elements on every region", "POST", "/api/node/"+a+"/syn/elements", b)
		s.restart(false, false)
		// the first request after the restart is a label operation: the subscriptions must have been rebuilt
		s.http("merge 1 <- 2", "POST", "/api/node/"+a+"/seg/merge", []byte(`[1,2]`))
		s.restart(true, false)
		r := s.http("cleave sv 2 off 1", "POST", "/api/node/"+a+"/seg/cleave/1", []byte(`[2]`))
		s.note("cleaved label %s", jsonField(r.Bytes(), "CleavedLabel"))
		s.restart(false, false)
		r = s.http("split-supervoxel 2", "POST", "/api/node/"+a+"/seg/split-supervoxel/2", lmm.EncodeRLEs(g.RegionRLEs(map[int]bool{3: true})))
		s.note("split %s remain %s", jsonField(r.Bytes(), "SplitSupervoxel"), jsonField(r.Bytes(), "RemainSupervoxel"))
		s.http("commit", "POST", "/api/node/"+a+"/commit", []byte(`{}`))
		c := scChild(s, "child", "/api/node/"+a+"/newversion", `{}`)
		s.restart(true, false)
		p := g.Point[4]
		s.http("element in the child", "POST", "/api/node/"+c+"/syn/elements", []byte(fmt.Sprintf(`[{"Pos":[%d,%d,%d],"Kind":"PostSyn","Tags":["t1"]}]`, p[0]+1, p[1], p[2])))
		s.http("merge in the child", "POST", "/api/node/"+c+"/seg/merge", []byte(`[3,1]`))
		s.restart(false, false)
		s.http("move an element", "POST", fmt.Sprintf("/api/node/%s/syn/move/%d_%d_%d/%d_%d_%d", c, g.Point[0][0], g.Point[0][1], g.Point[0][2], g.Point[4][0], g.Point[4][1]+1, g.Point[4][2]), nil)
		s.http("delete an element", "DELETE", fmt.Sprintf("/api/node/%s/syn/element/%d_%d_%d", c, g.Point[1][0], g.Point[1][1], g.Point[1][2]), nil)
		s.restart(true, false)
	}},
}

// c03Scenarios runs every scripted scenario with restarts and on a never-restarted node.
func c03Scenarios(c *Ctx, run *ev.Run) int {
	var done int64
	labels := []uint64{1, 2, 3, 4, 5, 6, 7, 778, 779, 780, 2001}
	parallel(len(c03ScenarioList), 8, func(_, i int) {
		sc := c03ScenarioList[i]
		var runs [2]*scRun
		var finals [2]*snap.Snap
		for k := 0; k < 2; k++ {
			n := c.StartNode(node.Config{})
			s := &scRun{c: c, run: run, n: n, name: sc.name, withRestarts: k == 0}
			s.opts = scLabelOpts([]string{"seg", "seg2"}, labels, "syn", "lsz")
			sc.f(s)
			runs[k] = s
			if !s.failed {
				must(n.Idle(), "idle")
				f, err := snap.TakeCanon(n, s.opts())
				must(err, "final snapshot")
				finals[k] = f
			}
			c.DropNode(n)
			if s.failed {
				return
			}
		}
		atomic.AddInt64(&done, 1)
		run.Eval("scenario|" + sc.name)
		if os.Getenv("VCHECK_DEBUG") == "scenario" {
			fmt.Printf("SCENARIO %s (%d restarts)\n  %s\n", sc.name, runs[0].restarts, strings.Join(runs[0].log, "\n  "))
		}
		var d []string
		if strings.Join(runs[0].log, "\n") != strings.Join(runs[1].log, "\n") {
			for k := range runs[0].log {
				if k >= len(runs[1].log) || runs[0].log[k] != runs[1].log[k] {
					other := "(nothing)"
					if k < len(runs[1].log) {
						other = runs[1].log[k]
					}
					d = append(d, fmt.Sprintf("step %d: with restarts %q | never restarted %q", k+1, runs[0].log[k], other))
				}
			}
		}
		for _, x := range snap.Diff(rankMutationIDs(finals[1]), rankMutationIDs(finals[0])) {
			d = append(d, strings.Replace(strings.Replace(x, "before ", "never restarted ", 1), "| after ", "| with restarts ", 1))
		}
		if len(d) > 0 {
			run.Violation("c03-scenario", map[string]interface{}{"kind": "scenario-with-restarts-differs-from-never-restarted", "scenario": sc.name,
				"transcript_with_restarts": runs[0].log, "diffs": d})
		}
		if i == 0 {
			run.Sample(map[string]interface{}{"scenario": sc.name, "transcript": runs[0].log, "restarts": runs[0].restarts})
		}
	})
	return int(done)
}
